(* C01_VerifyE2E.v — END TO END: the entry point ( *verifier).Verify (verifier/verifier.go:350).

   [Verify C PM gatp ps unm] IS the GoLite translation of the body of verifier.Verify
   (theories/C01_Gen.v: gen_verifier_verifier_Verify, re-translated from /repo on every run;
   rows in harness/cmd/vh-gen/targets_c01.go). Statements only; proofs: theories/C01_VerifyE2E.v.

   Every theorem quantifies over ALL arguments (verifier v, descriptor desc, signature bytes sig,
   options opts) and over ALL behaviours of the three calls that leave the body:
     gatp  ( *OCIDocument).GetApplicableTrustPolicy   (pointer to the document, reference) -> (statement, error)
     ps    ( *verifier).processSignature              (.., outcome) -> (outcome as it left it, error)
     unm   json.Unmarshal into an envelope.Payload    (bytes, payload) -> (payload, error)
   C, PM: the opaque types *x509.Certificate and plugin.Manager. GetVerificationLevel,
   content.Equal and verifyUserMetadata are translated functions of the same file, used through
   their equivalence theorems (props/C01_Generated.v).

   Vocabulary (definitions in theories/C01_VerifyE2E.v)
     Selected v opts pol     the document is not nil and gatp answered (pointer to pol, nil)
     level_ptr sv            the level GetVerificationLevel returns for statement sv (error dropped, as the code does)
     skip_test p             reflect.DeepEqual(p, trustpolicy.LevelSkip)
     ps_answer v sig opts pol   processSignature's answer on the arguments Verify passes for pol
                             and the fresh outcome {RawSignature: sig, VerificationLevel: level_ptr ..}
     decoded o1              json.Unmarshal(o1.EnvelopeContent.Payload.Content, &envelope.Payload{}); None = EnvelopeContent nil
   The abstract inputs of the C01 model (C01_Model.verify_oci), DEFINED from these:
     level / override        sv_lvl, sv_ov of the selected statement (C01_gen_GetVerificationLevel_equiv)
     i_rest := rest_of r     processSignature returned nil and left outcome.Error nil
     e_decode := decode_of   signed target of the decoded payload
     i_md, descriptor        md_of opts.UserMetadata, target_of desc
     integrity facts e0      live inside processSignature: ANY (e0, rest) with [Link e0 rest r], i.e.
                             "integrity passes and the rest passes iff rest_of r"; one always exists
                             (C01_e2e_link_exists), so no theorem restricts the oracle. *)
From Coq Require Import List Bool String Ascii NArith ZArith.
From NV Require Import Base Regex Generated GoLib C01_Model C01_Gen C01_GenProofs C01_VerifyE2E.
Import ListNotations.
Local Open Scope string_scope.
Local Open Scope list_scope.

Notation GATP := (ptr trustpolicy_OCIDocument -> string -> ptr trustpolicy_OCITrustPolicy * option GoLib.err).
Notation PS C PM := (ptr (verifier_verifier C PM) -> list Z -> string -> string -> list string -> list string
                     -> trustpolicy_SignatureVerification -> list (string * string)
                     -> notation_go_VerificationOutcome C -> notation_go_VerificationOutcome C * option GoLib.err).
Notation UNM := (list Z -> envelope_Payload -> envelope_Payload * option GoLib.err).

(* ---------- the generated body, normalised ---------- *)

(* for ALL inputs the generated body is the flat decision list [Verify_spec]: nil document, selection
   error, nil statement (panic), skip, processSignature error, nil envelope content (panic),
   unmarshal error, then the two post-checks [post_error] in the order of the code *)
Theorem C01_e2e_Verify_is_spec : forall (C PM : Type) (gatp : GATP) (ps : PS C PM) (unm : UNM) v desc sig opts,
  Verify C PM gatp ps unm v desc sig opts = Verify_spec C PM gatp ps unm v desc sig opts.
Proof. exact Verify_is_spec. Qed.
Print Assumptions C01_e2e_Verify_is_spec.

(* ---------- (a) panics ---------- *)

(* the generated Verify panics (None) EXACTLY WHEN the document is not nil and the selection
   returned a nil error together with a nil statement, or (level other than skip) processSignature
   returned nil and left outcome.EnvelopeContent nil. A nil document is an error, not a panic. *)
Theorem C01_e2e_Verify_panics_iff : forall (C PM : Type) (gatp : GATP) (ps : PS C PM) (unm : UNM) v desc sig opts,
  Verify C PM gatp ps unm v desc sig opts = None <-> Panics C PM gatp ps v sig opts.
Proof. exact Verify_panics_iff. Qed.
Print Assumptions C01_e2e_Verify_panics_iff.

(* hence never, when the selection hands out a statement whenever it returns nil (C08:
   C08_gen_handed_out_is_new_copy) and processSignature sets EnvelopeContent whenever it returns
   nil (C02: C02_gen_processSignature_returns) *)
Theorem C01_e2e_Verify_never_panics : forall (C PM : Type) (gatp : GATP) (ps : PS C PM) (unm : UNM) v desc sig opts,
  WellBehaved C PM gatp ps v sig opts -> Verify C PM gatp ps unm v desc sig opts <> None.
Proof. exact Verify_never_panics. Qed.
Print Assumptions C01_e2e_Verify_never_panics.

(* before a statement is selected *)
Theorem C01_e2e_Verify_no_statement : forall (C PM : Type) (gatp : GATP) (ps : PS C PM) (unm : UNM) v desc sig opts,
  (ptr_is_nil (verifier_ociTrustPolicyDoc C PM v) = true ->
   Verify C PM gatp ps unm v desc sig opts = Some (PNil, Some (Err "errors" "ociTrustPolicyDoc is nil" [])))
  /\ (ptr_is_nil (verifier_ociTrustPolicyDoc C PM v) = false ->
      forall tp x, gatp (verifier_ociTrustPolicyDoc C PM v) (VerifierVerifyOptions_ArtifactReference opts) = (tp, Some x) ->
      Verify C PM gatp ps unm v desc sig opts = Some (PNil, Some (Err "notation.NoApplicableTrustPolicyError" "%v" []))).
Proof. exact Verify_no_statement. Qed.
Print Assumptions C01_e2e_Verify_no_statement.

(* ---------- (b) the result is the model's ---------- *)

(* the code's skip test is the model's, for a legal statement; an illegal one (which a validated
   document does not contain) has a nil level, which is not skip *)
Theorem C01_e2e_skip_test : forall sv,
  (forall l, get_level (sv_lvl sv) (sv_ov sv) = Some l -> skip_test (level_ptr sv) = is_skip l)
  /\ (get_level (sv_lvl sv) (sv_ov sv) = None -> level_ptr sv = PNil /\ skip_test (level_ptr sv) = false)
  /\ (skip_test (level_ptr sv) = true <-> sv_lvl sv = "skip" /\ sv_ov sv = []).
Proof.
  intros sv. split; [intros l; apply skip_test_legal|]. split; [apply skip_test_illegal|apply skip_test_iff].
Qed.
Print Assumptions C01_e2e_skip_test.

(* every answer of processSignature has a split into the model's integrity facts and rest *)
Theorem C01_e2e_link_exists : forall (C : Type) (r : notation_go_VerificationOutcome C * option GoLib.err),
  Link C intact_facts (rest_of C r) r.
Proof. exact Link_canonical. Qed.
Print Assumptions C01_e2e_link_exists.

(* THE EQUIVALENCE, level other than skip. For the selected statement, for every split (e0, rest)
   of processSignature's answer r, with m the error class the model [verify_oci] computes on the
   inputs defined from the oracles:
     - the generated Verify panics only where r = (outcome with nil EnvelopeContent, nil), and the
       model rejects there;
     - otherwise it returns (pointer to r's outcome with Error := e, e) — EnvelopeContent,
       VerificationLevel and VerificationResults are exactly what processSignature left — and
       [verdict_rel r e m]: e is nil iff m is ENone; for EIntegrity/ERest e is not nil and is
       processSignature's error when it returned one; for EJson it is json.Unmarshal's error; for
       EMismatch it is errors.New("content descriptor mismatch"); for EMetadata an
       ErrorUserMetadataVerificationFailed. *)
Theorem C01_e2e_Verify_is_model : forall (C PM : Type) (gatp : GATP) (ps : PS C PM) (unm : UNM)
    v desc sig opts pol l e0 rest touch,
  Selected C PM gatp v opts pol ->
  skip_test (level_ptr (OCITrustPolicy_SignatureVerification pol)) = false -> is_skip l = false ->
  let r := ps_answer C PM ps v sig opts pol in
  Link C e0 rest r ->
  let m := o_err (verify_oci l (e2e_input C unm pol e0 rest touch opts desc (fst r)) (target_of desc)) in
  match Verify C PM gatp ps unm v desc sig opts with
  | None => snd r = None /\ ptr_val (VerificationOutcome_EnvelopeContent C (fst r)) = None /\ m <> ENone
  | Some (po, e) => po = PNew (set_VerificationOutcome_Error C e (fst r)) /\ verdict_rel C unm r e m
  end.
Proof. exact Verify_nonskip_is_model. Qed.
Print Assumptions C01_e2e_Verify_is_model.

(* the level skip: the result mentions neither processSignature nor json.Unmarshal; it is the
   model's skip observation (no error, outcome without envelope content, nothing consulted) *)
Theorem C01_e2e_Verify_skip_is_model : forall (C PM : Type) (gatp : GATP) (ps : PS C PM) (unm : UNM)
    v desc sig opts pol l i,
  Selected C PM gatp v opts pol ->
  skip_test (level_ptr (OCITrustPolicy_SignatureVerification pol)) = true -> is_skip l = true ->
  Verify C PM gatp ps unm v desc sig opts
  = Some (PNew (out0 C sig (level_ptr (OCITrustPolicy_SignatureVerification pol))), None)
  /\ verify_oci l i (target_of desc) = mk_o ENone (Some (ENone, 0%N)) "" None false.
Proof. exact Verify_skip_is_model. Qed.
Print Assumptions C01_e2e_Verify_skip_is_model.

(* ---------- the C01 theorems on the generated entry point ---------- *)

(* C01_oci, for ALL inputs and ALL oracle behaviours, no hypothesis: a nil error of the generated
   Verify means a statement was selected and EITHER it is the statement named skip without
   override (the outcome then carries the signature bytes and LevelSkip only) OR processSignature
   returned nil and left outcome.Error nil, the outcome returned is the one it left, its envelope
   content is present, the payload decodes, digest, size and media type of the signed target are
   those of the presented descriptor, and every required metadata pair is a signed annotation *)
Theorem C01_e2e_success_sound : forall (C PM : Type) (gatp : GATP) (ps : PS C PM) (unm : UNM) v desc sig opts po,
  Verify C PM gatp ps unm v desc sig opts = Some (po, None) ->
  exists pol, Selected C PM gatp v opts pol /\
    let sv := OCITrustPolicy_SignatureVerification pol in
    let r := ps_answer C PM ps v sig opts pol in
    ((sv_lvl sv = "skip" /\ sv_ov sv = [] /\ po = PNew (out0 C sig trustpolicy_LevelSkip))
     \/ (~ (sv_lvl sv = "skip" /\ sv_ov sv = [])
         /\ snd r = None /\ po = PNew (fst r) /\ VerificationOutcome_Error C (fst r) = None
         /\ PostChecksPass C unm (fst r) desc (VerifierVerifyOptions_UserMetadata opts))).
Proof. exact Verify_success_sound. Qed.
Print Assumptions C01_e2e_success_sound.

(* C01_success_iff: for the selected statement and a level other than skip, success is EXACTLY:
   processSignature accepted, payload decodes, descriptor equal, metadata present *)
Theorem C01_e2e_success_iff : forall (C PM : Type) (gatp : GATP) (ps : PS C PM) (unm : UNM) v desc sig opts pol,
  Selected C PM gatp v opts pol ->
  skip_test (level_ptr (OCITrustPolicy_SignatureVerification pol)) = false ->
  let r := ps_answer C PM ps v sig opts pol in
  ((exists po, Verify C PM gatp ps unm v desc sig opts = Some (po, None))
   <-> snd r = None /\ VerificationOutcome_Error C (fst r) = None
       /\ PostChecksPass C unm (fst r) desc (VerifierVerifyOptions_UserMetadata opts)).
Proof. exact Verify_success_iff. Qed.
Print Assumptions C01_e2e_success_iff.

(* C01_error_sticks: when both post-checks are reached the returned error is the metadata error
   if a pair is missing, else the mismatch error if the descriptors differ, else nil; the model
   computes the same class *)
Theorem C01_e2e_error_sticks : forall (C PM : Type) (gatp : GATP) (ps : PS C PM) (unm : UNM)
    v desc sig opts pol l touch ec p,
  Selected C PM gatp v opts pol ->
  skip_test (level_ptr (OCITrustPolicy_SignatureVerification pol)) = false -> is_skip l = false ->
  let r := ps_answer C PM ps v sig opts pol in
  snd r = None -> VerificationOutcome_Error C (fst r) = None ->
  ptr_val (VerificationOutcome_EnvelopeContent C (fst r)) = Some ec ->
  unm (Payload_Content (EnvelopeContent_Payload C ec)) zero_payload = (p, None) ->
  let e := match gen_verifier_verifyUserMetadata p (VerifierVerifyOptions_UserMetadata opts) with
           | Some x => Some x
           | None => if gen_content_Equal (Payload_TargetArtifact p) desc then None else Some mismatch_err
           end in
  Verify C PM gatp ps unm v desc sig opts = Some (PNew (set_VerificationOutcome_Error C e (fst r)), e)
  /\ o_err (verify_oci l (e2e_input C unm pol intact_facts true touch opts desc (fst r)) (target_of desc))
     = (if md_ok (signed_of p) (md_of (VerifierVerifyOptions_UserMetadata opts))
        then (if desc_equal (signed_of p) (target_of desc) then ENone else EMismatch) else EMetadata).
Proof. exact Verify_error_sticks. Qed.
Print Assumptions C01_e2e_error_sticks.

(* a descriptor mismatch is never overwritten by a passing metadata check *)
Theorem C01_e2e_mismatch_not_overwritten : forall (C PM : Type) (gatp : GATP) (ps : PS C PM) (unm : UNM)
    v desc sig opts pol ec p,
  Selected C PM gatp v opts pol ->
  skip_test (level_ptr (OCITrustPolicy_SignatureVerification pol)) = false ->
  let r := ps_answer C PM ps v sig opts pol in
  snd r = None -> VerificationOutcome_Error C (fst r) = None ->
  ptr_val (VerificationOutcome_EnvelopeContent C (fst r)) = Some ec ->
  unm (Payload_Content (EnvelopeContent_Payload C ec)) zero_payload = (p, None) ->
  gen_content_Equal (Payload_TargetArtifact p) desc = false ->
  gen_verifier_verifyUserMetadata p (VerifierVerifyOptions_UserMetadata opts) = None ->
  Verify C PM gatp ps unm v desc sig opts
  = Some (PNew (set_VerificationOutcome_Error C (Some mismatch_err) (fst r)), Some mismatch_err).
Proof. exact Verify_mismatch_not_overwritten. Qed.
Print Assumptions C01_e2e_mismatch_not_overwritten.

(* C01_skip_verifies_nothing: under the statement named skip (no override) EVERY signature and
   descriptor is "accepted" with an outcome that exposes no envelope content and no result *)
Theorem C01_e2e_skip_verifies_nothing : forall (C PM : Type) (gatp : GATP) (ps : PS C PM) (unm : UNM)
    v desc sig opts pol,
  Selected C PM gatp v opts pol ->
  sv_lvl (OCITrustPolicy_SignatureVerification pol) = "skip" ->
  sv_ov (OCITrustPolicy_SignatureVerification pol) = [] ->
  Verify C PM gatp ps unm v desc sig opts
  = Some (PNew (mk_VerificationOutcome C sig PNil trustpolicy_LevelSkip [] None), None).
Proof. exact Verify_skip_verifies_nothing. Qed.
Print Assumptions C01_e2e_skip_verifies_nothing.

(* ---------- verifier.verifyIntegrity: the model's integrity facts, from its oracles ---------- *)

(* [integrity_facts SE parse C everify mt sig decode] = the model's [envfacts] read off
   signature.ParseEnvelope (e_parse), Envelope.Verify's error through the code's type switch
   (e_verify) and the content type of the payload it returns (e_ctype). For every outcome whose
   level is not nil the generated verifyIntegrity panics only when Envelope.Verify returns (nil, nil);
   otherwise it returns ONE result of type "integrity", with the action the level assigns to
   integrity, whose Error is nil EXACTLY WHEN the model's [verify_integrity] passes on these facts;
   the envelope content is handed on only then. *)
Theorem C01_e2e_verifyIntegrity_equiv :
  forall (SE : Type) (parse : string -> list Z -> SE * option GoLib.err) (C : Type)
         (everify : ptr (signature_EnvelopeContent C) * option GoLib.err)
         sig mt (o : notation_go_VerificationOutcome C) lvl decode,
  ptr_val (VerificationOutcome_VerificationLevel C o) = Some lvl ->
  let env := integrity_facts SE parse C everify mt sig decode in
  match gen_verifier_verifyIntegrity SE parse C everify sig mt o with
  | None => snd (parse mt sig) = None /\ snd everify = None /\ ptr_val (fst everify) = None
  | Some (envp, irp) =>
      exists r, irp = PNew r /\ ValidationResult_Type r = "integrity"
                /\ ValidationResult_Action r = map_get_or String.eqb "" "integrity" (VerificationLevel_Enforcement lvl)
                /\ (ValidationResult_Error r = None <-> verify_integrity env = None)
                /\ (ValidationResult_Error r = None -> envp = fst everify /\ ptr_val envp <> None)
                /\ (ValidationResult_Error r <> None -> envp = PNil)
  end.
Proof. exact gen_verifyIntegrity_equiv. Qed.
Print Assumptions C01_e2e_verifyIntegrity_equiv.

(* ---------- non-vacuity: the generated Verify, run ---------- *)
Definition x_desc : v1_Descriptor :=
  mk_Descriptor "application/vnd.oci.image.manifest.v1+json" "sha256:aa" 528 [] [] [] PNil "".
Definition x_signed : v1_Descriptor :=
  mk_Descriptor "application/vnd.oci.image.manifest.v1+json" "sha256:aa" 528 [] [("k1", "v1")] [] PNil "".
Definition x_pol (lvl : string) : trustpolicy_OCITrustPolicy :=
  mk_OCITrustPolicy "p" (mk_SignatureVerification lvl [] "") ["ca:s"] ["*"] ["*"].
Definition x_v : verifier_verifier unit unit :=
  mk_verifier unit unit (PNew (mk_OCIDocument "1.0" [])) PNil (fun _ _ => ([], None)) PNil PNil PNil PNil.
Definition x_ec : signature_EnvelopeContent unit :=
  mk_EnvelopeContent unit (mk_SignerInfo unit (mk_SignedAttributes "" 0 0 []) (mk_UnsignedAttributes [] "") 0 [] [])
    (mk_signature_Payload "application/vnd.cncf.notary.payload.v1+json" [1%Z]).
(* processSignature accepts and sets the envelope content; json.Unmarshal yields x_signed *)
Definition x_ps : PS unit unit :=
  fun _ _ _ _ _ _ _ _ o => (set_VerificationOutcome_EnvelopeContent unit (PNew x_ec) o, None).
Definition x_unm : UNM := fun _ _ => (mk_Payload x_signed, None).
Definition x_opts (md : list (string * string)) : notation_go_VerifierVerifyOptions := mk_VerifierVerifyOptions "r" "application/jose+json" [] md.

Example C01_e2e_example_accept :
  Selected unit unit (fun _ _ => (PNew (x_pol "strict"), None)) x_v (x_opts [("k1", "v1")]) (x_pol "strict")
  /\ exists po, Verify unit unit (fun _ _ => (PNew (x_pol "strict"), None)) x_ps x_unm x_v x_desc [7%Z] (x_opts [("k1", "v1")])
                = Some (po, None).
Proof. split; [split; [reflexivity|eexists; split; reflexivity]|eexists; vm_compute; reflexivity]. Qed.

(* the size differs, the required pair is present: the mismatch is what is returned *)
Example C01_e2e_example_mismatch :
  exists po, Verify unit unit (fun _ _ => (PNew (x_pol "audit"), None)) x_ps x_unm x_v
               (set_Descriptor_Size 529 x_desc) [7%Z] (x_opts [("k1", "v1")])
             = Some (po, Some mismatch_err).
Proof. eexists; vm_compute; reflexivity. Qed.

(* skip: a processSignature that rejects everything is not even asked *)
Example C01_e2e_example_skip :
  Verify unit unit (fun _ _ => (PNew (x_pol "skip"), None)) (fun _ _ _ _ _ _ _ _ o => (o, Some mismatch_err)) x_unm x_v
         x_desc [7%Z] (x_opts [("k9", "")])
  = Some (PNew (mk_VerificationOutcome unit [7%Z] PNil trustpolicy_LevelSkip [] None), None).
Proof. vm_compute. reflexivity. Qed.

(* the panic is real for an oracle that returns nil without setting the envelope content *)
Example C01_e2e_example_panic :
  Verify unit unit (fun _ _ => (PNew (x_pol "strict"), None)) (fun _ _ _ _ _ _ _ _ o => (o, None)) x_unm x_v
         x_desc [7%Z] (x_opts []) = None.
Proof. vm_compute. reflexivity. Qed.
