(* C01: constants the model states literally, tied to the source through Generated.v
   (regenerated from /repo on every run). *)
From NV Require Import Base Regex Generated C01_Model.
Open Scope string_scope.
Open Scope list_scope.
Theorem C01_constants_generated :
  media_type_payload_v1 = gen_media_type_payload_v1.
Proof. reflexivity. Qed.
Print Assumptions C01_constants_generated.

(* the table [algorithms] of verifier/verifier.go (crypto.Hash -> digest.Algorithm), by identifier:
   [alg_of] is that table, row by row, and maps nothing else *)
Definition halg_name (h : halg) : string :=
  match h with H256 => "SHA256" | H384 => "SHA384" | H512 => "SHA512" | HNone => "" end.
Definition dalg_name (a : dalg) : string :=
  match a with D256 => "SHA256" | D384 => "SHA384" | D512 => "SHA512" end.
Theorem C01_algorithms_generated :
  flat_map (fun h => match alg_of h with Some a => [(halg_name h, dalg_name a)] | None => [] end)
           [H256; H384; H512; HNone]
  = gen_verifier_digest_algorithms.
Proof. reflexivity. Qed.
Print Assumptions C01_algorithms_generated.
