(* C01: constants the model states literally, tied to the source through Generated.v
   (regenerated from /repo on every run). *)
From NV Require Import Base Regex Generated C01_Model.
Theorem C01_constants_generated :
  media_type_payload_v1 = gen_media_type_payload_v1.
Proof. reflexivity. Qed.
Print Assumptions C01_constants_generated.
