From NV Require Import Base Regex Generated C08_Model.
Theorem C08_constants_generated : C08_Model.wildcard = gen_wildcard.
Proof. reflexivity. Qed.
Print Assumptions C08_constants_generated.
