(* C13 — Trust stores load only valid certificates from real files of the named store.
   Statements only; every proof is [exact <lemma of C13_Proofs>].
   Quantifiers: every directory tree below the root (any depth, any number of
   entries, symbolic links anywhere), every store type and store name (any byte
   strings), every file content as reported by the parser (error, or any list of
   certificates with any combination of the four facts IsCA / signed by itself /
   CheckSignatureFrom(itself) / subject = issuer).
   [load i] is GetCertificates on input i; [loadable root ty name l] is the
   declarative reading of the property text:
     known type /\ plain file name /\ the path truststore/x509/ty/name is a real
     directory (lstat: not a link, not a file, not absent) /\ every entry is a
     regular file holding >= 1 parseable certificates, each CA or self-signed,
     and for tsa each a self-signed root /\ l = the certificates of those files
     in entry order /\ l <> [].                                               *)
From NV Require Import Base Regex Generated C13_Model C13_Proofs C13_Audit.
Open Scope string_scope.
Open Scope list_scope.

(* success, with exactly the certificates of the named store, iff the store is loadable *)
Theorem C13_iff : forall i l,
  load i = Loaded l <-> loadable (i_root i) (i_ty i) (i_name i) l.
Proof. exact load_iff. Qed.
Print Assumptions C13_iff.

(* the same on what the caller observes (certificate identities in order) *)
Theorem C13_observed_iff : forall i ids,
  model i = OOk ids <->
  exists l, loadable (i_root i) (i_ty i) (i_name i) l /\ ids = map ct_id l.
Proof. exact model_ok_iff. Qed.
Print Assumptions C13_observed_iff.

(* in every other situation the call fails as a whole: never a partial set *)
Theorem C13_all_or_nothing : forall i,
  (exists l, load i = Loaded l /\ loadable (i_root i) (i_ty i) (i_name i) l) \/
  (exists c k e, load i = Failed c k e /\ forall l, ~ loadable (i_root i) (i_ty i) (i_name i) l).
Proof. exact all_or_nothing. Qed.
Print Assumptions C13_all_or_nothing.

(* one offending entry anywhere among good ones fails the store; the error is a
   CertificateError naming the first offending entry, with the site of its fault *)
Theorem C13_first_offender : forall root ty name good nm n rest,
  known_type ty -> plain_name name ->
  lstat root (store_path ty name) = LNode (NDir (good ++ (nm, n) :: rest)) ->
  Forall (entry_good (is_tsa ty)) good -> ~ entry_good (is_tsa ty) (nm, n) ->
  get_certificates is_valid_file_name root ty name =
  Failed ECertificate (entry_fault (is_tsa ty) n) nm.
Proof. exact first_offender. Qed.
Print Assumptions C13_first_offender.

(* failures that concern the store as a whole, in the order they are checked:
   unknown type, name not plain, store absent / inaccessible / a file / a
   symbolic link (TrustStoreError), empty store (CertificateError) *)
Theorem C13_store_errors : forall root ty name,
  let r := get_certificates is_valid_file_name root ty name in
  (~ known_type ty -> r = Failed ETrustStore KType "") /\
  (known_type ty -> ~ plain_name name -> r = Failed ETrustStore KName "") /\
  (known_type ty -> plain_name name ->
     (lstat root (store_path ty name) = LNotExist -> r = Failed ETrustStore KNotExist "") /\
     (lstat root (store_path ty name) = LOther -> r = Failed ETrustStore KAccess "") /\
     (forall c, lstat root (store_path ty name) = LNode (NFile c) -> r = Failed ETrustStore KNotDir "") /\
     (forall t, lstat root (store_path ty name) = LNode (NLink t) -> r = Failed ETrustStore KNotDir "") /\
     (lstat root (store_path ty name) = LNode (NDir []) -> r = Failed ECertificate KEmpty "")).
Proof. exact store_errors. Qed.
Print Assumptions C13_store_errors.

(* the name check of the code (generated regex, "." and ".." excluded) accepts
   exactly the plain file names: non-empty, bytes in [-.0-9A-Z_a-z], not a dot name *)
Theorem C13_name_check : forall s, is_valid_file_name s = true <-> plain_name s.
Proof. exact is_valid_file_name_spec. Qed.
Print Assumptions C13_name_check.

Theorem C13_type_check : forall ty, is_valid_store_type ty = true <-> known_type ty.
Proof. exact is_valid_store_type_spec. Qed.
Print Assumptions C13_type_check.

(* containment 1: for a known type and a plain name, path.Join / filepath.Join
   produce exactly root/truststore/x509/<type>/<name>: four single components,
   none empty, "." or "..", none holding a separator — a grandchild of x509 *)
Theorem C13_path : forall ty name, known_type ty -> plain_name name ->
  sys_path ty name = Some (store_path ty name) /\
  Forall (fun c => c <> "" /\ c <> "." /\ c <> ".." /\ ~ In 47%N (bytes c)) (store_path ty name).
Proof. exact path_valid. Qed.
Print Assumptions C13_path.

(* containment 2: the result depends on nothing but what lstat shows at that
   path: two trees that agree there give the same result, whatever else differs *)
Theorem C13_frame : forall r1 r2 ty name,
  lstat r1 (store_path ty name) = lstat r2 (store_path ty name) ->
  get_certificates is_valid_file_name r1 ty name = get_certificates is_valid_file_name r2 ty name.
Proof. exact frame. Qed.
Print Assumptions C13_frame.

(* containment 3: every certificate returned is held by a regular file that is a
   direct entry of the named store directory *)
Theorem C13_only_from_store : forall root ty name l c,
  get_certificates is_valid_file_name root ty name = Loaded l -> In c l ->
  exists es nm cs, lstat root (store_path ty name) = LNode (NDir es) /\
                   In (nm, NFile (CCerts cs)) es /\ In c cs.
Proof. exact only_from_store. Qed.
Print Assumptions C13_only_from_store.

(* F11 (fixed by 7fbf478): with the regex alone as the name check, the store
   name ".." passes and the certificates of truststore/x509/ are returned for a
   store that does not exist; with the present check the call fails *)
Theorem C13_dot_exclusion_needed_refuted_without :
  regex_name_ok ".." = true /\
  get_certificates regex_name_ok f11_root "ca" ".." = Loaded [mk_cert 1 true true true true] /\
  lstat f11_root (store_path "ca" "..") = LNotExist /\
  get_certificates is_valid_file_name f11_root "ca" ".." = Failed ETrustStore KName "".
Proof. exact dot_names_needed. Qed.
Print Assumptions C13_dot_exclusion_needed_refuted_without.

(* the boolean oracle evaluated on the implementation's observations is met by the model *)
Theorem C13_model_meets_oracle : forall i, wf i = true -> spec_ok i (model i) = true.
Proof. exact model_spec_ok. Qed.
Print Assumptions C13_model_meets_oracle.

(* the oracle's "expected" is the declarative predicate *)
Theorem C13_oracle_is_spec : forall i l,
  expected i = Some l <-> loadable (i_root i) (i_ty i) (i_name i) l.
Proof. exact expected_spec. Qed.
Print Assumptions C13_oracle_is_spec.

(* ---------- added by the theorem audit (docs/audit/C13.md) ---------- *)

(* "nothing from anywhere else", sharpened. [store_view root ty name] is all that
   is left of the tree: whether the store path is absent / inaccessible / not a
   real directory, or else the list of its entries with, per entry, its name,
   its kind and - for a regular file only - its content; the content of a
   sub-directory and the target of a symbolic link are erased ([shallow]).
   Two trees with the same view give the same result: the call never looks into
   a sub-directory of the store, never through a link, never at any other
   store, type directory or file. C13_frame is the special case of equal lstat. *)
Theorem C13_frame_shallow : forall r1 r2 ty name,
  store_view r1 ty name = store_view r2 ty name ->
  get_certificates is_valid_file_name r1 ty name = get_certificates is_valid_file_name r2 ty name.
Proof. exact frame_view. Qed.
Print Assumptions C13_frame_shallow.

(* "returns exactly the certificates of those files": on success every entry of
   the store directory is a regular file with parsed certificates, a certificate
   is returned iff one of these files holds it, and as many are returned as the
   files hold together (nothing dropped, nothing deduplicated, nothing added) *)
Theorem C13_exact_members : forall root ty name l,
  get_certificates is_valid_file_name root ty name = Loaded l ->
  exists es, lstat root (store_path ty name) = LNode (NDir es) /\
    (forall nm n, In (nm, n) es -> exists cs, n = NFile (CCerts cs)) /\
    (forall c, In c l <-> exists nm cs, In (nm, NFile (CCerts cs)) es /\ In c cs) /\
    List.length l = sum_nat (map (fun e => List.length (certs_of_entry e)) es).
Proof. exact exact_members. Qed.
Print Assumptions C13_exact_members.

(* "fails as a whole rather than returning a partial set", on BOTH return values
   of the Go function. [get_certificates_go] mirrors GetCertificates with its two
   results ([]*x509.Certificate, error); [load] is its image under [res_of_go].
   Whenever the error is non-nil the certificate slice is nil - the certificates
   accumulated from the entries before the offending one are not handed out -
   and the store is not loadable; whenever the error is nil the slice is exactly
   the loadable store's certificates. *)
Theorem C13_error_returns_nothing : forall i,
  let r := get_certificates_go is_valid_file_name (i_root i) (i_ty i) (i_name i) in
  res_of_go r = load i /\
  (forall f, snd r = Some f ->
     fst r = [] /\ forall l, ~ loadable (i_root i) (i_ty i) (i_name i) l) /\
  (snd r = None -> loadable (i_root i) (i_ty i) (i_name i) (fst r)).
Proof. exact two_values. Qed.
Print Assumptions C13_error_returns_nothing.

(* ---------- non-vacuity ---------- *)
Example C13_example_loadable :
  loadable ex_tree "ca" "web" [ex_root; ex_inter; ex_root] /\
  model (mk_input "ca" "web" ex_tree) = OOk [1; 2; 1]%N /\
  model (mk_input "tsa" "roots" ex_tree) = OOk [1]%N.
Proof.
  split; [|split; reflexivity].
  apply C13_iff with (i := mk_input "ca" "web" ex_tree). reflexivity.
Qed.

Example C13_example_failures :
  model (mk_input "ca" "mixed" ex_tree) = OErr ECertificate KValidate "leaf.crt" /\
  model (mk_input "ca" "alias" ex_tree) = OErr ETrustStore KNotDir "" /\
  model (mk_input "tsa" "t" ex_tree) = OErr ECertificate KNotRoot "a.pem" /\
  model (mk_input "ca" ".." ex_tree) = OErr ETrustStore KName "" /\
  model (mk_input "ca" "web/../web" ex_tree) = OErr ETrustStore KName "" /\
  model (mk_input "CA" "web" ex_tree) = OErr ETrustStore KType "" /\
  model (mk_input "ca" "nope" ex_tree) = OErr ETrustStore KNotExist "".
Proof. repeat split. Qed.

(* the hypotheses of C13_first_offender are met by a concrete store *)
Example C13_example_first_offender :
  known_type "ca" /\ plain_name "mixed" /\
  lstat ex_tree (store_path "ca" "mixed") =
    LNode (NDir ([("a.pem", NFile (CCerts [ex_root]))] ++ ("leaf.crt", NFile (CCerts [ex_leaf])) :: [("z.pem", NFile CErr)])) /\
  Forall (entry_good (is_tsa "ca")) [("a.pem", NFile (CCerts [ex_root]))] /\
  ~ entry_good (is_tsa "ca") ("leaf.crt", NFile (CCerts [ex_leaf])).
Proof.
  split; [cbn; auto|]. split; [apply C13_name_check; reflexivity|]. split; [reflexivity|].
  split.
  - constructor; [|constructor]. apply entry_goodb_spec. reflexivity.
  - intros H. apply entry_goodb_spec in H. discriminate.
Qed.

(* ---------- non-vacuity of the remaining hypotheses (audit) ---------- *)

(* every branch of C13_store_errors is reached by a concrete tree *)
Example C13_example_store_errors :
  (~ known_type "x509" /\ model (mk_input "x509" "web" ex_tree2) = OErr ETrustStore KType "") /\
  (known_type "ca" /\ ~ plain_name "we b" /\ model (mk_input "ca" "we b" ex_tree2) = OErr ETrustStore KName "") /\
  (lstat ex_tree2 (store_path "ca" "nope") = LNotExist /\
   model (mk_input "ca" "nope" ex_tree2) = OErr ETrustStore KNotExist "") /\
  (lstat ex_tree2 (store_path "signingAuthority" "web") = LOther /\
   model (mk_input "signingAuthority" "web" ex_tree2) = OErr ETrustStore KAccess "") /\
  (lstat ex_tree2 (store_path "ca" "afile") = LNode (NFile (CCerts [ex_root])) /\
   model (mk_input "ca" "afile" ex_tree2) = OErr ETrustStore KNotDir "") /\
  (lstat ex_tree2 (store_path "ca" "dangling") = LNode (NLink None) /\
   model (mk_input "ca" "dangling" ex_tree2) = OErr ETrustStore KNotDir "") /\
  (lstat ex_tree2 (store_path "ca" "empty") = LNode (NDir []) /\
   model (mk_input "ca" "empty" ex_tree2) = OErr ECertificate KEmpty "").
Proof.
  repeat split; try reflexivity.
  - cbv. intuition discriminate.
  - cbn; auto.
  - intros H. apply C13_name_check in H. discriminate.
Qed.

(* C13_path, C13_only_from_store, C13_exact_members: a known type, a plain name, a loaded store *)
Example C13_example_path_and_members :
  known_type "ca" /\ plain_name "web" /\
  sys_path "ca" "web" = Some ["truststore"; "x509"; "ca"; "web"] /\
  get_certificates is_valid_file_name ex_tree "ca" "web" = Loaded [ex_root; ex_inter; ex_root] /\
  In ex_inter [ex_root; ex_inter; ex_root].
Proof.
  split; [cbn; auto|]. split; [apply C13_name_check; reflexivity|].
  split; [reflexivity|]. split; [reflexivity|]. cbn; auto.
Qed.

(* C13_frame: two trees that differ (other stores, other types, stray files)
   and agree at the path asked for *)
Example C13_example_frame :
  ex_tree <> ex_tree2 /\
  lstat ex_tree (store_path "ca" "web") = lstat ex_tree2 (store_path "ca" "web") /\
  model (mk_input "ca" "web" ex_tree2) = OOk [1; 2; 1]%N.
Proof. split; [discriminate|]. split; reflexivity. Qed.

(* C13_frame_shallow: the stores ca/deep and ca/viaLink of ex_tree2 and ex_tree3
   differ below the sub-directory and behind the link (lstat differs), the views
   agree; both fail on the sub-directory / the link although what is below /
   behind it are good certificates *)
Example C13_example_frame_shallow :
  lstat ex_tree2 (store_path "ca" "deep") <> lstat ex_tree3 (store_path "ca" "deep") /\
  store_view ex_tree2 "ca" "deep" = store_view ex_tree3 "ca" "deep" /\
  model (mk_input "ca" "deep" ex_tree2) = OErr ECertificate KEntryKind "sub" /\
  lstat ex_tree2 (store_path "ca" "viaLink") <> lstat ex_tree3 (store_path "ca" "viaLink") /\
  store_view ex_tree2 "ca" "viaLink" = store_view ex_tree3 "ca" "viaLink" /\
  model (mk_input "ca" "viaLink" ex_tree2) = OErr ECertificate KEntryKind "l.pem".
Proof. repeat split; try reflexivity; discriminate. Qed.

(* what "real directory" does and does not mean: only the LAST component of the
   path must not be a link. In ex_tree2 the type directory tsa is a symbolic
   link to a directory; the kernel follows it and the store tsa/roots loads
   (harness families store:type-is-link, store:truststore-is-link) *)
Example C13_example_intermediate_link_followed :
  lstat ex_tree2 ["truststore"; "x509"; "tsa"] =
    LNode (NLink (Some (NDir [("roots", NDir [("r.cer", NFile (CCerts [ex_root]))])]))) /\
  loadable ex_tree2 "tsa" "roots" [ex_root] /\
  model (mk_input "tsa" "roots" ex_tree2) = OOk [1]%N.
Proof.
  split; [reflexivity|]. split; [|reflexivity].
  apply C13_iff with (i := mk_input "tsa" "roots" ex_tree2). reflexivity.
Qed.

(* C13_error_returns_nothing: an error after a good entry (its certificate was
   already accumulated) returns no certificate; a success returns them all *)
Example C13_example_two_values :
  get_certificates_go is_valid_file_name ex_tree "ca" "mixed" = ([], Some (ECertificate, KValidate, "leaf.crt")) /\
  get_certificates_go is_valid_file_name ex_tree "ca" "web" = ([ex_root; ex_inter; ex_root], None).
Proof. split; reflexivity. Qed.
