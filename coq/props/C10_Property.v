(* C10 — Registry verification stops at the first good signature, within the limit.
   Statements only; every proof is [exact <lemma of C10_Proofs>].

   Quantifiers: every listing of any length over {G verifies, Bd fails
   verification with an outcome, U cannot be fetched, NO the verifier fails
   without an outcome}, every paging of it (empty pages included), every limit
   (any Z), every reference class, every SkipVerify behaviour, nil arguments.

   Vocabulary (C10_Model / C10_Proofs):
     listing i          = concat (i_pages i), the listing whatever its paging
     reaches_listing i  = arguments non-nil, limit > 0, verifier does not skip (or has no
                          SkipVerify), reference is a tag or a digest equal to the resolved
                          one, Resolve succeeds
     first_good l N k   = k < N, l[k] = G, every l[j] with j < k is Bd
     first_stop l k x   = l[k] = x <> Bd, every l[j] with j < k is Bd
     head_of i          = [SkipVerify if the verifier has one; Resolve; ListSignatures]
     pairs a b          = [Fetch a; Verify a; ...; Fetch (b-1); Verify (b-1)]
     fetches / verifies = positions fetched / verified, in call order
     classify p r       = the reference class computed from the parsed reference p (oracle:
                          oras ParseReference) and the string r of the resolved digest; for a
                          digest reference PDigest dg it is the comparison dg = r of notation.go
     drive N s calls    = the callback of notation.Verify invoked on an arbitrary sequence of
                          pages, its results ignored (C10_Model)
   Clause-by-clause table: docs/audit/C10.md *)
From NV Require Import Base C10_Model C10_Proofs C10_Audit.
Local Open Scope list_scope.

(* ---------- paging is invisible ---------- *)

(* result and call log depend on the concatenated listing only *)
Theorem C10_flat : forall i pages,
  List.concat pages = List.concat (i_pages i) -> model (with_pages i pages) = model i.
Proof. exact model_pages. Qed.
Print Assumptions C10_flat.

Theorem C10_flat_one_page : forall i, model i = model (with_pages i [listing i]).
Proof. exact model_flat. Qed.
Print Assumptions C10_flat_one_page.

(* ---------- success iff ---------- *)

(* success with the outcome of signature k  <->  k is among the first N, verifies, and
   every signature listed before it was fetched and failed verification *)
Theorem C10_iff : forall i k,
  reaches_listing i ->
  (o_res (model i) = ROk /\ o_outs (model i) = OSig k) <-> first_good (listing i) (i_max i) k.
Proof. exact success_iff. Qed.
Print Assumptions C10_iff.

(* the wording of the property record, under the Verifier contract (a verifier that fails
   returns an outcome, i.e. no signature of kind NO): success iff one of the first N listed
   signatures verifies and every signature listed before it could be fetched *)
Theorem C10_iff_contract : forall i,
  reaches_listing i -> ~ In NO (listing i) ->
  (o_res (model i) = ROk <->
   exists k, (Z.of_nat k < i_max i)%Z /\ nth_error (listing i) k = Some G /\
             forall j, j < k -> nth_error (listing i) j <> Some U).
Proof. exact success_iff_contract. Qed.
Print Assumptions C10_iff_contract.

(* success, over ALL inputs: either the verifier said skip, or the listing was reached and
   holds a first good signature within the limit; nothing else succeeds *)
Theorem C10_ok_iff : forall i,
  o_res (model i) = ROk <->
  i_nilv i = false /\ i_nilr i = false /\ (0 < i_max i)%Z /\
  (i_skip i = SkipYes \/ (reaches_listing i /\ exists k, first_good (listing i) (i_max i) k)).
Proof. exact ok_iff. Qed.
Print Assumptions C10_ok_iff.

(* what a success returns: the resolved descriptor, exactly the outcome of that signature,
   and the calls Resolve, ListSignatures, Fetch/Verify of 0..k — nothing after k *)
Theorem C10_success_returns : forall i,
  o_res (model i) = ROk ->
  (i_skip i = SkipYes /\ model i = mk_obs ROk DZero OSkip [ES] true) \/
  (reaches_listing i /\ exists k, first_good (listing i) (i_max i) k /\
     model i = mk_obs ROk DResolved (OSig k) (head_of i ++ pairs 0 (S k)) true).
Proof. exact success_returns. Qed.
Print Assumptions C10_success_returns.

(* ---------- calls ---------- *)

(* for EVERY input: the signatures fetched are positions 0..m-1 in listing order, m <= N
   (m = 0 when N <= 0), each verified right after, except an unfetchable last one *)
Theorem C10_calls : forall i,
  exists m, (Z.of_nat m <= Z.max 0 (i_max i))%Z /\ m <= List.length (listing i) /\
    fetches (o_log (model i)) = range 0 m /\
    (verifies (o_log (model i)) = range 0 m \/
     exists k, m = S k /\ nth_error (listing i) k = Some U /\ o_res (model i) = RFetch k /\
               verifies (o_log (model i)) = range 0 k).
Proof. exact calls_bounded. Qed.
Print Assumptions C10_calls.

(* on success with signature k: fetched = verified = [0..k], at most N of them *)
Theorem C10_calls_success : forall i k,
  reaches_listing i -> first_good (listing i) (i_max i) k ->
  o_log (model i) = head_of i ++ pairs 0 (S k) /\
  fetches (o_log (model i)) = range 0 (S k) /\ verifies (o_log (model i)) = range 0 (S k) /\
  (Z.of_nat (List.length (fetches (o_log (model i)))) <= i_max i)%Z.
Proof. exact calls_on_success. Qed.
Print Assumptions C10_calls_success.

(* the complete log of an input that reaches the listing *)
Theorem C10_log_shape : forall i,
  reaches_listing i ->
  exists m, (Z.of_nat m <= i_max i)%Z /\ m <= List.length (listing i) /\
    (o_log (model i) = head_of i ++ pairs 0 m \/
     exists k, m = S k /\ nth_error (listing i) k = Some U /\ o_res (model i) = RFetch k /\
               o_log (model i) = head_of i ++ pairs 0 k ++ [EF k]).
Proof. exact log_shape. Qed.
Print Assumptions C10_log_shape.

(* ---------- errors ---------- *)

(* every error returns the zero descriptor and no outcome *)
Theorem C10_errors : forall i,
  o_res (model i) <> ROk -> o_desc (model i) = DZero /\ o_outs (model i) = ONone.
Proof. exact error_returns_nothing. Qed.
Print Assumptions C10_errors.

(* nil verifier or repository: error, no call at all *)
Theorem C10_error_nil_arguments : forall i,
  i_nilv i = true \/ i_nilr i = true ->
  o_res (model i) <> ROk /\ o_log (model i) = [] /\ o_desc (model i) = DZero /\ o_outs (model i) = ONone.
Proof. exact err_nil_args. Qed.
Print Assumptions C10_error_nil_arguments.

(* non-positive limit: error, no call at all (not even SkipVerify) *)
Theorem C10_error_limit : forall i,
  i_nilv i = false -> i_nilr i = false -> (i_max i <= 0)%Z -> model i = err_obs RBadMax [].
Proof. exact err_bad_max. Qed.
Print Assumptions C10_error_limit.

(* reference without tag or digest / unparsable reference: error before Resolve *)
Theorem C10_error_no_reference : forall i,
  past_skip i -> i_ref i = RNone -> model i = err_obs RNoRef (pre_of i).
Proof. exact err_no_ref. Qed.
Print Assumptions C10_error_no_reference.

Theorem C10_error_bad_reference : forall i,
  past_skip i -> i_ref i = RInvalid -> model i = err_obs RBadRef (pre_of i).
Proof. exact err_bad_ref. Qed.
Print Assumptions C10_error_bad_reference.

Theorem C10_error_resolve : forall i,
  past_skip i -> i_ref i <> RNone -> i_ref i <> RInvalid -> i_rerr i = true ->
  model i = err_obs RResolveErr (pre_of i ++ [ER]).
Proof. exact err_resolve. Qed.
Print Assumptions C10_error_resolve.

(* digest reference <> resolved digest: error right after Resolve, nothing listed or fetched *)
Theorem C10_error_digest_mismatch : forall i,
  past_skip i -> i_ref i = RDigDiff -> i_rerr i = false ->
  model i = err_obs RDigestMismatch (pre_of i ++ [ER]).
Proof. exact err_digest_mismatch. Qed.
Print Assumptions C10_error_digest_mismatch.

(* empty listing *)
Theorem C10_error_empty_listing : forall i,
  reaches_listing i -> listing i = [] -> i_lerr i = false ->
  model i = err_obs RNoSignature (head_of i).
Proof. exact err_empty_listing. Qed.
Print Assumptions C10_error_empty_listing.

(* a listed signature that cannot be fetched, met within the limit before any good one *)
Theorem C10_error_unfetchable : forall i k,
  reaches_listing i -> first_stop (listing i) k U -> (Z.of_nat k < i_max i)%Z ->
  model i = err_obs (RFetch k) (head_of i ++ pairs 0 k ++ [EF k]).
Proof. exact err_unfetchable. Qed.
Print Assumptions C10_error_unfetchable.

(* a verifier failing without an outcome *)
Theorem C10_error_nil_outcome : forall i k,
  reaches_listing i -> first_stop (listing i) k NO -> (Z.of_nat k < i_max i)%Z ->
  model i = err_obs (RNilOutcome k) (head_of i ++ pairs 0 (S k)).
Proof. exact err_nil_outcome. Qed.
Print Assumptions C10_error_nil_outcome.

(* the first N listed signatures all fail verification: limit exceeded after exactly N *)
Theorem C10_error_exceeded : forall i,
  reaches_listing i ->
  (forall j, (Z.of_nat j < i_max i)%Z -> nth_error (listing i) j = Some Bd) ->
  model i = err_obs RExceeded (head_of i ++ pairs 0 (Z.to_nat (i_max i))).
Proof. exact err_exceeded. Qed.
Print Assumptions C10_error_exceeded.

(* fewer than N signatures, all failing: the joined verification failures *)
Theorem C10_error_all_failed : forall i,
  reaches_listing i -> listing i <> [] -> (Z.of_nat (List.length (listing i)) < i_max i)%Z ->
  (forall j, j < List.length (listing i) -> nth_error (listing i) j = Some Bd) -> i_lerr i = false ->
  model i = err_obs (RAllFailed (range 0 (List.length (listing i))))
                    (head_of i ++ pairs 0 (List.length (listing i))).
Proof. exact err_all_failed. Qed.
Print Assumptions C10_error_all_failed.

(* ---------- skip ---------- *)

(* level skip: one call (SkipVerify), one outcome carrying the skip level, zero descriptor;
   nothing resolved, listed or fetched *)
Theorem C10_skip : forall i,
  i_nilv i = false -> i_nilr i = false -> (0 < i_max i)%Z -> i_skip i = SkipYes ->
  model i = mk_obs ROk DZero OSkip [ES] true.
Proof. exact skip_nothing. Qed.
Print Assumptions C10_skip.

Theorem C10_skip_no_repository_call : forall i,
  i_skip i = SkipYes -> repo_calls (o_log (model i)) = [].
Proof. exact skip_no_repo_calls. Qed.
Print Assumptions C10_skip_no_repository_call.

Theorem C10_skip_error : forall i,
  i_nilv i = false -> i_nilr i = false -> (0 < i_max i)%Z -> i_skip i = SkipErr ->
  model i = err_obs RSkipErr [ES].
Proof. exact skip_error. Qed.
Print Assumptions C10_skip_error.

(* ---------- the oracle ---------- *)

Theorem C10_model_meets_oracle : forall i, wf i = true -> spec_ok i (model i) = true.
Proof. exact model_spec_ok. Qed.
Print Assumptions C10_model_meets_oracle.

(* ---------- non-vacuity ---------- *)

(* two failing signatures, then a good one on the next page, limit 3: success with
   signature 2, after exactly three fetch/verify pairs; the fourth is never touched *)
Example C10_example_success :
  let i := mk_input false false 3 SkipNo RDigSame false [[Bd]; []; [Bd; G]; [G]] false in
  reaches_listing i /\ first_good (listing i) (i_max i) 2 /\
  model i = mk_obs ROk DResolved (OSig 2) [ES; ER; EL; EF 0; EV 0; EF 1; EV 1; EF 2; EV 2] true.
Proof.
  cbv zeta. split; [|split].
  - unfold reaches_listing. cbn. repeat split; auto; lia.
  - unfold first_good. cbn. split; [lia|]. split; [reflexivity|].
    intros j Hj. destruct j as [|[|j]]; [reflexivity | reflexivity | lia].
  - reflexivity.
Qed.

(* the same listing with limit 2: the good signature is outside the limit *)
Example C10_example_limit :
  let i := mk_input false false 2 SkipNo RDigSame false [[Bd]; []; [Bd; G]; [G]] false in
  model i = mk_obs RExceeded DZero ONone [ES; ER; EL; EF 0; EV 0; EF 1; EV 1] true.
Proof. reflexivity. Qed.

(* an unfetchable signature before the good one *)
Example C10_example_unfetchable :
  let i := mk_input false false 5 NoSkipper RTag false [[Bd; U]; [G]] false in
  reaches_listing i /\ first_stop (listing i) 1 U /\
  model i = mk_obs (RFetch 1) DZero ONone [ER; EL; EF 0; EV 0; EF 1] true.
Proof.
  cbv zeta. split; [|split].
  - unfold reaches_listing. cbn. repeat split; auto; lia.
  - unfold first_stop. cbn. split; [reflexivity|]. split; [discriminate|].
    intros j Hj. destruct j as [|j]; [reflexivity | lia].
  - reflexivity.
Qed.

(* ====================================================================== *)
(* Added by the clause audit (docs/audit/C10.md)                           *)
(* ====================================================================== *)

(* ---------- success: the property's wording picks the FIRST verifying signature ---------- *)

(* under the Verifier contract: if SOME signature k among the first N verifies and nothing
   listed before it is unfetchable, Verify succeeds with the FIRST verifying signature k0 <= k,
   returns the resolved descriptor and exactly k0's outcome, and made exactly the calls
   Resolve, ListSignatures, Fetch/Verify 0..k0 *)
Theorem C10_first_good_wins : forall i k,
  reaches_listing i -> ~ In NO (listing i) ->
  (Z.of_nat k < i_max i)%Z -> nth_error (listing i) k = Some G ->
  (forall j, j < k -> nth_error (listing i) j <> Some U) ->
  exists k0, k0 <= k /\ nth_error (listing i) k0 = Some G /\
    (forall j, j < k0 -> nth_error (listing i) j = Some Bd) /\
    model i = mk_obs ROk DResolved (OSig k0) (head_of i ++ pairs 0 (S k0)) true.
Proof. exact first_good_wins. Qed.
Print Assumptions C10_first_good_wins.

(* the Verifier contract is needed: with a verifier that fails WITHOUT an outcome the literal
   "succeeds iff one of the first N verifies and every earlier one could be fetched" is false:
   listing [NO; G], limit 2 -> the verifier's error for signature 0 (replayed on the real
   code by the harness: families A, F2) *)
Theorem C10_iff_without_contract_refuted :
  exists i, reaches_listing i /\
    (exists k, (Z.of_nat k < i_max i)%Z /\ nth_error (listing i) k = Some G /\
               forall j, j < k -> nth_error (listing i) j <> Some U) /\
    model i = err_obs (RNilOutcome 0) [ER; EL; EF 0; EV 0].
Proof. exact iff_without_contract_refuted. Qed.
Print Assumptions C10_iff_without_contract_refuted.

(* what a reached listing can look like: the four situations of C10_iff / C10_error_unfetchable
   / C10_error_nil_outcome / C10_error_exceeded / C10_error_all_failed (+ list error) are all *)
Theorem C10_cases_exhaustive : forall (l : list sigk) (N : Z),
  (exists k, first_good l N k) \/
  (exists k x, first_stop l k x /\ (x = U \/ x = NO) /\ (Z.of_nat k < N)%Z) \/
  (forall j, (Z.of_nat j < N)%Z -> nth_error l j = Some Bd) \/
  ((Z.of_nat (List.length l) < N)%Z /\ forall j, j < List.length l -> nth_error l j = Some Bd).
Proof. exact cases_exhaustive. Qed.
Print Assumptions C10_cases_exhaustive.

(* ---------- the digest pin as a comparison of strings ---------- *)

(* a digest reference dg, the repository resolves to the digest string r <> dg: the mismatch
   error right after Resolve; nothing listed, fetched, verified *)
Theorem C10_pin_refuses : forall i dg r,
  i_ref i = classify (PDigest dg) r -> dg <> r ->
  past_skip i -> i_rerr i = false ->
  model i = err_obs RDigestMismatch (pre_of i ++ [ER]).
Proof. exact pin_refuses. Qed.
Print Assumptions C10_pin_refuses.

(* ... for EVERY input with such a reference (nil arguments, any limit, any SkipVerify, Resolve
   failing or not): success only by skip; ListSignatures, Fetch, Verify never called *)
Theorem C10_pin_mismatch_all : forall i dg r,
  i_ref i = classify (PDigest dg) r -> dg <> r ->
  (o_res (model i) = ROk -> i_skip i = SkipYes) /\
  ~ In EL (o_log (model i)) /\ fetches (o_log (model i)) = [] /\ verifies (o_log (model i)) = [].
Proof. exact pin_mismatch_all. Qed.
Print Assumptions C10_pin_mismatch_all.

(* a success on a digest reference that was not a skip: the resolved digest IS the referenced one *)
Theorem C10_pin_success : forall i dg r,
  i_ref i = classify (PDigest dg) r -> o_res (model i) = ROk ->
  i_skip i = SkipYes \/ dg = r.
Proof. exact pin_success. Qed.
Print Assumptions C10_pin_success.

(* ---------- empty listing / listing error ---------- *)

(* an empty listing is an error whatever ListSignatures answers at the end; no fetch, no verify *)
Theorem C10_error_empty_listing_any : forall i,
  reaches_listing i -> listing i = [] ->
  model i = err_obs (if i_lerr i then RListErr else RNoSignature) (head_of i).
Proof. exact err_empty_listing_any. Qed.
Print Assumptions C10_error_empty_listing_any.

(* fewer than N signatures, all failing, then ListSignatures itself fails: its error, as is *)
Theorem C10_error_list_error : forall i,
  reaches_listing i -> (Z.of_nat (List.length (listing i)) < i_max i)%Z ->
  (forall j, j < List.length (listing i) -> nth_error (listing i) j = Some Bd) -> i_lerr i = true ->
  model i = err_obs RListErr (head_of i ++ pairs 0 (List.length (listing i))).
Proof. exact err_list_error_after. Qed.
Print Assumptions C10_error_list_error.

(* ---------- never more than N, without any assumption on the repository ---------- *)

(* the callback handed to ListSignatures, invoked on ANY sequence of pages (a repository that
   ignores the callback's error, repeats pages, delivers them out of order): in total at most N
   fetches, and never more verifications than fetches *)
Theorem C10_callback_never_exceeds : forall N calls head,
  fetches head = [] -> verifies head = [] ->
  let s := drive N (mk_st 0 [] None head) calls in
  (Z.of_nat (List.length (fetches (s_log s))) <= Z.max 0 N)%Z /\
  List.length (verifies (s_log s)) <= List.length (fetches (s_log s)).
Proof. exact callback_never_exceeds. Qed.
Print Assumptions C10_callback_never_exceeds.

(* the conforming repository of the model is one such sequence *)
Theorem C10_pages_loop_is_drive : forall N pages pos s,
  exists calls, fst (pages_loop N pos s pages) = drive N s calls.
Proof. exact pages_loop_is_drive. Qed.
Print Assumptions C10_pages_loop_is_drive.

(* the cases of harness family X (a scripted repository that ignores the callback's errors and
   re-delivers pages) are judged by [dspec_ok]: at most N fetches, every verification right
   after the fetch of the same signature; the model of those cases meets it *)
Theorem C10_rogue_model_meets_oracle : forall d, dspec_ok d (dmodel d) = true.
Proof. exact dmodel_spec_ok. Qed.
Print Assumptions C10_rogue_model_meets_oracle.

(* and on a conforming delivery [dmodel] is the call log of [model] *)
Theorem C10_rogue_conforming : forall i,
  reaches_listing i -> i_ref i = RTag ->
  exists calls,
    o_log (model i) = dmodel (mk_dinput (i_max i) (match i_skip i with NoSkipper => true | _ => false end) calls).
Proof. exact dmodel_conforming. Qed.
Print Assumptions C10_rogue_conforming.

(* ---------- non-vacuity of the hypotheses used above and in the error theorems ---------- *)

Definition ex_in (max : Z) (sk : skipper) (r : refclass) (pages : list (list sigk)) (lerr : bool) : input :=
  mk_input false false max sk r false pages lerr.

Lemma ex_reaches max sk r pages lerr :
  (0 < max)%Z -> (sk = NoSkipper \/ sk = SkipNo) -> (r = RTag \/ r = RDigSame) ->
  reaches_listing (ex_in max sk r pages lerr).
Proof. intros. unfold reaches_listing, ex_in. cbn. auto 8. Qed.

(* C10_iff_contract / C10_first_good_wins: two verifying signatures within the limit, a failing
   one before them: the first one (position 1) wins, position 2 is never fetched *)
Example C10_example_first_good_wins :
  let i := ex_in 4 SkipNo RTag [[Bd; G]; [G; U]] false in
  reaches_listing i /\ ~ In NO (listing i) /\
  (Z.of_nat 2 < i_max i)%Z /\ nth_error (listing i) 2 = Some G /\
  (forall j, j < 2 -> nth_error (listing i) j <> Some U) /\
  model i = mk_obs ROk DResolved (OSig 1) [ES; ER; EL; EF 0; EV 0; EF 1; EV 1] true.
Proof.
  cbv zeta. split; [apply ex_reaches; auto; lia|]. split.
  - cbn. intros [H|[H|[H|[H|[]]]]]; discriminate.
  - split; [cbn; lia|]. split; [reflexivity|]. split; [|reflexivity].
    intros j Hj. destruct j as [|[|j]]; cbn; [discriminate | discriminate | lia].
Qed.

(* C10_error_nil_outcome *)
Example C10_example_nil_outcome :
  let i := ex_in 3 NoSkipper RTag [[Bd]; [NO; G]] false in
  reaches_listing i /\ first_stop (listing i) 1 NO /\ (Z.of_nat 1 < i_max i)%Z /\
  model i = err_obs (RNilOutcome 1) [ER; EL; EF 0; EV 0; EF 1; EV 1].
Proof.
  cbv zeta. split; [apply ex_reaches; auto; lia|]. split; [|split; [cbn; lia | reflexivity]].
  unfold first_stop. cbn. split; [reflexivity|]. split; [discriminate|].
  intros j Hj. destruct j as [|j]; [reflexivity | lia].
Qed.

(* C10_error_exceeded: the first N = 2 all fail; the good one behind them is never touched *)
Example C10_example_exceeded :
  let i := ex_in 2 SkipNo RDigSame [[Bd]; [Bd]; [G]] false in
  reaches_listing i /\
  (forall j, (Z.of_nat j < i_max i)%Z -> nth_error (listing i) j = Some Bd) /\
  model i = err_obs RExceeded [ES; ER; EL; EF 0; EV 0; EF 1; EV 1].
Proof.
  cbv zeta. split; [apply ex_reaches; auto; lia|]. split; [|reflexivity].
  cbn. intros j Hj. destruct j as [|[|j]]; [reflexivity | reflexivity | lia].
Qed.

(* C10_error_all_failed / C10_error_list_error: two failing signatures, limit 5 *)
Example C10_example_all_failed :
  let i := ex_in 5 NoSkipper RTag [[Bd]; []; [Bd]] false in
  reaches_listing i /\ listing i <> [] /\ (Z.of_nat (List.length (listing i)) < i_max i)%Z /\
  (forall j, j < List.length (listing i) -> nth_error (listing i) j = Some Bd) /\
  model i = err_obs (RAllFailed [0; 1]) [ER; EL; EF 0; EV 0; EF 1; EV 1].
Proof.
  cbv zeta. split; [apply ex_reaches; auto; lia|]. split; [cbn; discriminate|].
  split; [cbn; lia|]. split; [|reflexivity].
  cbn. intros j Hj. destruct j as [|[|j]]; [reflexivity | reflexivity | lia].
Qed.

Example C10_example_list_error :
  let i := ex_in 5 NoSkipper RTag [[Bd]; []; [Bd]] true in
  reaches_listing i /\ (Z.of_nat (List.length (listing i)) < i_max i)%Z /\ i_lerr i = true /\
  model i = err_obs RListErr [ER; EL; EF 0; EV 0; EF 1; EV 1].
Proof. cbv zeta. split; [apply ex_reaches; auto; lia|]. split; [cbn; lia|]. split; reflexivity. Qed.

(* C10_error_empty_listing(_any): no page at all, and two empty pages *)
Example C10_example_empty_listing :
  let i := ex_in 1 SkipNo RTag [] false in
  let i' := ex_in 1 SkipNo RTag [[]; []] true in
  reaches_listing i /\ listing i = [] /\ model i = err_obs RNoSignature [ES; ER; EL] /\
  reaches_listing i' /\ listing i' = [] /\ model i' = err_obs RListErr [ES; ER; EL].
Proof. cbv zeta. repeat split; auto; cbn; try lia. Qed.

(* C10_pin_refuses / C10_error_digest_mismatch: the resolved digest differs in its last character *)
Example C10_example_pin :
  let i := ex_in 3 SkipNo (classify (PDigest "sha256:aa") "sha256:ab") [[G]] false in
  past_skip i /\ i_ref i = RDigDiff /\ "sha256:aa" <> "sha256:ab" /\
  model i = err_obs RDigestMismatch [ES; ER].
Proof. cbv zeta. split; [unfold past_skip; cbn; repeat split; auto; lia|]. split; [reflexivity|]. split; [discriminate | reflexivity]. Qed.

(* C10_pin_success: equal strings, the listing is reached *)
Example C10_example_pin_same :
  let i := ex_in 3 SkipNo (classify (PDigest "sha256:aa") "sha256:aa") [[G]] false in
  reaches_listing i /\ model i = mk_obs ROk DResolved (OSig 0) [ES; ER; EL; EF 0; EV 0] true.
Proof. cbv zeta. split; [apply ex_reaches; auto; lia | reflexivity]. Qed.

(* C10_error_no_reference / C10_error_bad_reference / C10_error_resolve / C10_error_limit / C10_skip *)
Example C10_example_early_errors :
  let noref := ex_in 3 NoSkipper RNone [[G]] false in
  let badref := ex_in 3 SkipNo RInvalid [[G]] false in
  let rerr := mk_input false false 3 SkipNo RTag true [[G]] false in
  let nolimit := ex_in 0 SkipYes RTag [[G]] false in
  let skip := ex_in 1 SkipYes RDigDiff [[G]] false in
  past_skip noref /\ model noref = err_obs RNoRef [] /\
  past_skip badref /\ model badref = err_obs RBadRef [ES] /\
  past_skip rerr /\ model rerr = err_obs RResolveErr [ES; ER] /\
  model nolimit = err_obs RBadMax [] /\
  model skip = mk_obs ROk DZero OSkip [ES] true.
Proof. cbv zeta. unfold past_skip. cbn. repeat split; auto; lia. Qed.

(* C10_callback_never_exceeds: a repository that ignores the "done" error and calls the callback
   again with the same page: the second good signature IS fetched and verified (the early exit
   relies on the repository stopping at the callback's error), but never more than N = 2 in total *)
Example C10_example_drive :
  s_log (drive 2 (mk_st 0 [] None [ER; EL]) [(0, [G; G; G]); (0, [G; G; G])])
  = [ER; EL; EF 0; EV 0; EF 0; EV 0].
Proof. reflexivity. Qed.
