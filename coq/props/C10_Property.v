(* C10 — Registry verification stops at the first good signature, within the limit.
   Statements only; every proof is [exact <lemma of C10_Proofs>].

   Quantifiers: every listing of any length over {G verifies, Bd fails
   verification with an outcome, U cannot be fetched, NO the verifier fails
   without an outcome}, every paging of it (empty pages included), every limit
   (any Z), every reference class, every SkipVerify behaviour, nil arguments.

   Vocabulary (C10_Model / C10_Proofs):
     listing i          = concat (i_pages i), the listing whatever its paging
     reaches_listing i  = arguments non-nil, limit > 0, verifier does not skip (or has no
                          SkipVerify), reference is a tag or a digest equal to the resolved
                          one, Resolve succeeds
     first_good l N k   = k < N, l[k] = G, every l[j] with j < k is Bd
     first_stop l k x   = l[k] = x <> Bd, every l[j] with j < k is Bd
     head_of i          = [SkipVerify if the verifier has one; Resolve; ListSignatures]
     pairs a b          = [Fetch a; Verify a; ...; Fetch (b-1); Verify (b-1)]
     fetches / verifies = positions fetched / verified, in call order *)
From NV Require Import Base C10_Model C10_Proofs.
Local Open Scope list_scope.

(* ---------- paging is invisible ---------- *)

(* result and call log depend on the concatenated listing only *)
Theorem C10_flat : forall i pages,
  List.concat pages = List.concat (i_pages i) -> model (with_pages i pages) = model i.
Proof. exact model_pages. Qed.
Print Assumptions C10_flat.

Theorem C10_flat_one_page : forall i, model i = model (with_pages i [listing i]).
Proof. exact model_flat. Qed.
Print Assumptions C10_flat_one_page.

(* ---------- success iff ---------- *)

(* success with the outcome of signature k  <->  k is among the first N, verifies, and
   every signature listed before it was fetched and failed verification *)
Theorem C10_iff : forall i k,
  reaches_listing i ->
  (o_res (model i) = ROk /\ o_outs (model i) = OSig k) <-> first_good (listing i) (i_max i) k.
Proof. exact success_iff. Qed.
Print Assumptions C10_iff.

(* the wording of the property record, under the Verifier contract (a verifier that fails
   returns an outcome, i.e. no signature of kind NO): success iff one of the first N listed
   signatures verifies and every signature listed before it could be fetched *)
Theorem C10_iff_contract : forall i,
  reaches_listing i -> ~ In NO (listing i) ->
  (o_res (model i) = ROk <->
   exists k, (Z.of_nat k < i_max i)%Z /\ nth_error (listing i) k = Some G /\
             forall j, j < k -> nth_error (listing i) j <> Some U).
Proof. exact success_iff_contract. Qed.
Print Assumptions C10_iff_contract.

(* success, over ALL inputs: either the verifier said skip, or the listing was reached and
   holds a first good signature within the limit; nothing else succeeds *)
Theorem C10_ok_iff : forall i,
  o_res (model i) = ROk <->
  i_nilv i = false /\ i_nilr i = false /\ (0 < i_max i)%Z /\
  (i_skip i = SkipYes \/ (reaches_listing i /\ exists k, first_good (listing i) (i_max i) k)).
Proof. exact ok_iff. Qed.
Print Assumptions C10_ok_iff.

(* what a success returns: the resolved descriptor, exactly the outcome of that signature,
   and the calls Resolve, ListSignatures, Fetch/Verify of 0..k — nothing after k *)
Theorem C10_success_returns : forall i,
  o_res (model i) = ROk ->
  (i_skip i = SkipYes /\ model i = mk_obs ROk DZero OSkip [ES] true) \/
  (reaches_listing i /\ exists k, first_good (listing i) (i_max i) k /\
     model i = mk_obs ROk DResolved (OSig k) (head_of i ++ pairs 0 (S k)) true).
Proof. exact success_returns. Qed.
Print Assumptions C10_success_returns.

(* ---------- calls ---------- *)

(* for EVERY input: the signatures fetched are positions 0..m-1 in listing order, m <= N
   (m = 0 when N <= 0), each verified right after, except an unfetchable last one *)
Theorem C10_calls : forall i,
  exists m, (Z.of_nat m <= Z.max 0 (i_max i))%Z /\ m <= List.length (listing i) /\
    fetches (o_log (model i)) = range 0 m /\
    (verifies (o_log (model i)) = range 0 m \/
     exists k, m = S k /\ nth_error (listing i) k = Some U /\ o_res (model i) = RFetch k /\
               verifies (o_log (model i)) = range 0 k).
Proof. exact calls_bounded. Qed.
Print Assumptions C10_calls.

(* on success with signature k: fetched = verified = [0..k], at most N of them *)
Theorem C10_calls_success : forall i k,
  reaches_listing i -> first_good (listing i) (i_max i) k ->
  o_log (model i) = head_of i ++ pairs 0 (S k) /\
  fetches (o_log (model i)) = range 0 (S k) /\ verifies (o_log (model i)) = range 0 (S k) /\
  (Z.of_nat (List.length (fetches (o_log (model i)))) <= i_max i)%Z.
Proof. exact calls_on_success. Qed.
Print Assumptions C10_calls_success.

(* the complete log of an input that reaches the listing *)
Theorem C10_log_shape : forall i,
  reaches_listing i ->
  exists m, (Z.of_nat m <= i_max i)%Z /\ m <= List.length (listing i) /\
    (o_log (model i) = head_of i ++ pairs 0 m \/
     exists k, m = S k /\ nth_error (listing i) k = Some U /\ o_res (model i) = RFetch k /\
               o_log (model i) = head_of i ++ pairs 0 k ++ [EF k]).
Proof. exact log_shape. Qed.
Print Assumptions C10_log_shape.

(* ---------- errors ---------- *)

(* every error returns the zero descriptor and no outcome *)
Theorem C10_errors : forall i,
  o_res (model i) <> ROk -> o_desc (model i) = DZero /\ o_outs (model i) = ONone.
Proof. exact error_returns_nothing. Qed.
Print Assumptions C10_errors.

(* nil verifier or repository: error, no call at all *)
Theorem C10_error_nil_arguments : forall i,
  i_nilv i = true \/ i_nilr i = true ->
  o_res (model i) <> ROk /\ o_log (model i) = [] /\ o_desc (model i) = DZero /\ o_outs (model i) = ONone.
Proof. exact err_nil_args. Qed.
Print Assumptions C10_error_nil_arguments.

(* non-positive limit: error, no call at all (not even SkipVerify) *)
Theorem C10_error_limit : forall i,
  i_nilv i = false -> i_nilr i = false -> (i_max i <= 0)%Z -> model i = err_obs RBadMax [].
Proof. exact err_bad_max. Qed.
Print Assumptions C10_error_limit.

(* reference without tag or digest / unparsable reference: error before Resolve *)
Theorem C10_error_no_reference : forall i,
  past_skip i -> i_ref i = RNone -> model i = err_obs RNoRef (pre_of i).
Proof. exact err_no_ref. Qed.
Print Assumptions C10_error_no_reference.

Theorem C10_error_bad_reference : forall i,
  past_skip i -> i_ref i = RInvalid -> model i = err_obs RBadRef (pre_of i).
Proof. exact err_bad_ref. Qed.
Print Assumptions C10_error_bad_reference.

Theorem C10_error_resolve : forall i,
  past_skip i -> i_ref i <> RNone -> i_ref i <> RInvalid -> i_rerr i = true ->
  model i = err_obs RResolveErr (pre_of i ++ [ER]).
Proof. exact err_resolve. Qed.
Print Assumptions C10_error_resolve.

(* digest reference <> resolved digest: error right after Resolve, nothing listed or fetched *)
Theorem C10_error_digest_mismatch : forall i,
  past_skip i -> i_ref i = RDigDiff -> i_rerr i = false ->
  model i = err_obs RDigestMismatch (pre_of i ++ [ER]).
Proof. exact err_digest_mismatch. Qed.
Print Assumptions C10_error_digest_mismatch.

(* empty listing *)
Theorem C10_error_empty_listing : forall i,
  reaches_listing i -> listing i = [] -> i_lerr i = false ->
  model i = err_obs RNoSignature (head_of i).
Proof. exact err_empty_listing. Qed.
Print Assumptions C10_error_empty_listing.

(* a listed signature that cannot be fetched, met within the limit before any good one *)
Theorem C10_error_unfetchable : forall i k,
  reaches_listing i -> first_stop (listing i) k U -> (Z.of_nat k < i_max i)%Z ->
  model i = err_obs (RFetch k) (head_of i ++ pairs 0 k ++ [EF k]).
Proof. exact err_unfetchable. Qed.
Print Assumptions C10_error_unfetchable.

(* a verifier failing without an outcome *)
Theorem C10_error_nil_outcome : forall i k,
  reaches_listing i -> first_stop (listing i) k NO -> (Z.of_nat k < i_max i)%Z ->
  model i = err_obs (RNilOutcome k) (head_of i ++ pairs 0 (S k)).
Proof. exact err_nil_outcome. Qed.
Print Assumptions C10_error_nil_outcome.

(* the first N listed signatures all fail verification: limit exceeded after exactly N *)
Theorem C10_error_exceeded : forall i,
  reaches_listing i ->
  (forall j, (Z.of_nat j < i_max i)%Z -> nth_error (listing i) j = Some Bd) ->
  model i = err_obs RExceeded (head_of i ++ pairs 0 (Z.to_nat (i_max i))).
Proof. exact err_exceeded. Qed.
Print Assumptions C10_error_exceeded.

(* fewer than N signatures, all failing: the joined verification failures *)
Theorem C10_error_all_failed : forall i,
  reaches_listing i -> listing i <> [] -> (Z.of_nat (List.length (listing i)) < i_max i)%Z ->
  (forall j, j < List.length (listing i) -> nth_error (listing i) j = Some Bd) -> i_lerr i = false ->
  model i = err_obs (RAllFailed (range 0 (List.length (listing i))))
                    (head_of i ++ pairs 0 (List.length (listing i))).
Proof. exact err_all_failed. Qed.
Print Assumptions C10_error_all_failed.

(* ---------- skip ---------- *)

(* level skip: one call (SkipVerify), one outcome carrying the skip level, zero descriptor;
   nothing resolved, listed or fetched *)
Theorem C10_skip : forall i,
  i_nilv i = false -> i_nilr i = false -> (0 < i_max i)%Z -> i_skip i = SkipYes ->
  model i = mk_obs ROk DZero OSkip [ES] true.
Proof. exact skip_nothing. Qed.
Print Assumptions C10_skip.

Theorem C10_skip_no_repository_call : forall i,
  i_skip i = SkipYes -> repo_calls (o_log (model i)) = [].
Proof. exact skip_no_repo_calls. Qed.
Print Assumptions C10_skip_no_repository_call.

Theorem C10_skip_error : forall i,
  i_nilv i = false -> i_nilr i = false -> (0 < i_max i)%Z -> i_skip i = SkipErr ->
  model i = err_obs RSkipErr [ES].
Proof. exact skip_error. Qed.
Print Assumptions C10_skip_error.

(* ---------- the oracle ---------- *)

Theorem C10_model_meets_oracle : forall i, wf i = true -> spec_ok i (model i) = true.
Proof. exact model_spec_ok. Qed.
Print Assumptions C10_model_meets_oracle.

(* ---------- non-vacuity ---------- *)

(* two failing signatures, then a good one on the next page, limit 3: success with
   signature 2, after exactly three fetch/verify pairs; the fourth is never touched *)
Example C10_example_success :
  let i := mk_input false false 3 SkipNo RDigSame false [[Bd]; []; [Bd; G]; [G]] false in
  reaches_listing i /\ first_good (listing i) (i_max i) 2 /\
  model i = mk_obs ROk DResolved (OSig 2) [ES; ER; EL; EF 0; EV 0; EF 1; EV 1; EF 2; EV 2] true.
Proof.
  cbv zeta. split; [|split].
  - unfold reaches_listing. cbn. repeat split; auto; lia.
  - unfold first_good. cbn. split; [lia|]. split; [reflexivity|].
    intros j Hj. destruct j as [|[|j]]; [reflexivity | reflexivity | lia].
  - reflexivity.
Qed.

(* the same listing with limit 2: the good signature is outside the limit *)
Example C10_example_limit :
  let i := mk_input false false 2 SkipNo RDigSame false [[Bd]; []; [Bd; G]; [G]] false in
  model i = mk_obs RExceeded DZero ONone [ES; ER; EL; EF 0; EV 0; EF 1; EV 1] true.
Proof. reflexivity. Qed.

(* an unfetchable signature before the good one *)
Example C10_example_unfetchable :
  let i := mk_input false false 5 NoSkipper RTag false [[Bd; U]; [G]] false in
  reaches_listing i /\ first_stop (listing i) 1 U /\
  model i = mk_obs (RFetch 1) DZero ONone [ER; EL; EF 0; EV 0; EF 1] true.
Proof.
  cbv zeta. split; [|split].
  - unfold reaches_listing. cbn. repeat split; auto; lia.
  - unfold first_stop. cbn. split; [reflexivity|]. split; [discriminate|].
    intros j Hj. destruct j as [|j]; [reflexivity | lia].
  - reflexivity.
Qed.
