(* C03_Plugin.v — the clause of C03 over the EXTENDED observation: the authenticity result the
   outcome finally reports when the signature names a verification plugin (theories/C03_PluginModel.v:
   [xmodel] = C03_Model.model + plugin discovery + processPluginResponse). Statements only.
   A plugin is any list of verification capabilities in any order, any trusted-identity and
   revocation verdict, any action of revocation in the level; everything else is quantified as in
   C03_Property.v. *)
From NV Require Import Base C03_Model C03_Proofs C03_Audit C03_PluginModel C03_PluginProofs.

(* a plugin can only ADD an identity failure: what is finally reported is the result of the
   trust-store check, or the error written for the plugin's failing trusted-identity verdict *)
Theorem C03_plugin_only_adds_failure : forall xi f, xo_auth (xmodel xi) = Some f ->
  f = FPluginIdentity \/ exists a, f = FStore a /\ o_auth (model (x_in xi)) = Some a.
Proof. exact only_adds_failure. Qed.
Print Assumptions C03_plugin_only_adds_failure.

(* the plugin's success never clears a failure of the trust-store check *)
Theorem C03_plugin_never_clears : forall xi f, xo_auth (xmodel xi) = Some f -> fpass f = true ->
  o_auth (model (x_in xi)) = Some APass.
Proof. exact never_clears. Qed.
Print Assumptions C03_plugin_never_clears.

(* the first sentence of the property, on the finally reported result: it passes ONLY IF some
   chain certificate is held by a store the applicable statement lists, of the scheme's type *)
Theorem C03_final_sound : forall xi, xo_auth (xmodel xi) = Some (FStore APass) ->
  exists st ty name l c,
    select (i_policy (x_in xi)) (i_repo (x_in xi)) = Some st /\ store_type_of (i_scheme (x_in xi)) = Some ty /\
    In (store_value ty name) (st_stores st) /\ fs_get (i_fs (x_in xi)) ty name = Certs l /\
    In c l /\ In c (i_chain (x_in xi)).
Proof. exact final_sound. Qed.
Print Assumptions C03_final_sound.

(* ... and only if every listed store of that type loads (a listed store that cannot be loaded is
   never papered over by the plugin) *)
Theorem C03_final_pass_only_if : forall xi, xo_auth (xmodel xi) = Some (FStore APass) ->
  exists st ty,
    select (i_policy (x_in xi)) (i_repo (x_in xi)) = Some st /\ st_action st <> SkipLevel /\
    store_type_of (i_scheme (x_in xi)) = Some ty /\
    (forall s, In s (st_stores st) -> contains_byte colon s = true) /\
    (forall n, In (store_value ty n) (st_stores st) -> fs_get (i_fs (x_in xi)) ty n <> LoadError) /\
    exists name l c, In (store_value ty name) (st_stores st) /\ fs_get (i_fs (x_in xi)) ty name = Certs l /\
                     In c l /\ In c (i_chain (x_in xi)).
Proof. exact final_pass_only_if. Qed.
Print Assumptions C03_final_pass_only_if.

(* exactly: the trust-store check passed, and the plugin (if any) reports a verification
   capability and its response loop leaves the result untouched *)
Theorem C03_final_pass_iff : forall xi, xo_auth (xmodel xi) = Some (FStore APass) <->
  o_auth (model (x_in xi)) = Some APass /\
  match x_plugin xi with
  | None => True
  | Some pg => pg_caps pg <> [] /\
               fst (plugin_loop (auth_enforced (x_in xi)) pg (caps_to_verify pg) (FStore APass)) = FStore APass
  end.
Proof. exact final_pass_iff. Qed.
Print Assumptions C03_final_pass_iff.

Theorem C03_no_plugin_is_model : forall i, xmodel (mk_xinput i None) = lift (model i).
Proof. exact no_plugin. Qed.
Print Assumptions C03_no_plugin_is_model.

Theorem C03_xmodel_meets_oracle : forall xi, wf (x_in xi) = true -> xspec_ok xi (xmodel xi) = true.
Proof. exact xmodel_spec_ok. Qed.
Print Assumptions C03_xmodel_meets_oracle.

(* ---------- non-vacuity ---------- *)
(* logged authenticity, only a store of the other type listed, the plugin accepts the identity:
   the failure of the trust-store check stands *)
Example C03_plugin_example_logged_failure_stands :
  wf (px_in ["signingAuthority:good"] Log) = true /\
  xmodel (mk_xinput (px_in ["signingAuthority:good"] Log) (Some px_ok))
  = mk_xobs (Some (FStore AEmpty)) [] false.
Proof. vm_compute. split; reflexivity. Qed.

(* an unloadable listed store after the good one, logged; plugin success: still the load error *)
Example C03_plugin_example_unloadable :
  xo_auth (xmodel (mk_xinput (px_in ["ca:good"; "ca:bad"] Log) (Some px_ok))) = Some (FStore (ALoad "ca" "bad")).
Proof. vm_compute. reflexivity. Qed.

(* anchored, plugin success: pass (hypothesis of C03_final_sound holds) *)
Example C03_plugin_example_pass :
  xo_auth (xmodel (mk_xinput (px_in ["ca:good"] Enforce) (Some px_ok))) = Some (FStore APass).
Proof. vm_compute. reflexivity. Qed.

(* anchored, plugin rejects the identity: the identity failure is added; under enforce it ends
   the verification *)
Example C03_plugin_example_identity_failure :
  xmodel (mk_xinput (px_in ["ca:good"] Enforce) (Some px_no))
  = mk_xobs (Some FPluginIdentity) [("ca", "good")] true
  /\ xmodel (mk_xinput (px_in ["ca:good"] Log) (Some px_no))
  = mk_xobs (Some FPluginIdentity) [("ca", "good")] false.
Proof. vm_compute. split; reflexivity. Qed.

(* no verification capability: no authenticity result and no call *)
Example C03_plugin_example_no_capability :
  xmodel (mk_xinput (px_in ["ca:good"] Enforce) (Some (mk_plugin [] true true Enforce))) = mk_xobs None [] false.
Proof. vm_compute. reflexivity. Qed.
