(* C18 — The signer never returns plugin output it has not checked against the request.
   Statements only; every proof is [exact <lemma of C18_Proofs>].
   Quantifiers: every plugin answer (metadata, describe-key, generate-signature,
   generate-envelope), every fact the libraries may report about the answered
   bytes, every payload tree (any nesting, duplicated members, null, any
   spelling of member names), every requested descriptor, both entry points
   (Sign, SignBlob). [model i] is what PluginSigner returns. *)
From NV Require Import Base C18_Json C18_Model C18_Proofs.

(* Envelope-generator plugin (no raw capability): a signature is returned only if it is
   the plugin's envelope untouched, echoed with the requested format, parsing and verifying
   under its own chain, with the Notary payload type, whose payload - as Go decodes it -
   has the requested media type, digest and size, every requested annotation unchanged,
   and whose tree has no member besides "targetArtifact" and the eight descriptor members
   (exact spelling, duplicated members included); under SignBlob, describe-key must also
   have answered for the requested key id with a decodable key spec. *)
Theorem C18_envelope : forall i env same rf,
  i_meta i = MCaps false env ->
  o_res (model i) = RSig same rf ->
  same = true /\ rf = None /\ env = true /\
  exists f j d,
    i_ge i = GEAns f /\
    ge_type f = i_mt i /\ i_mt_ok i = true /\ ge_parse f = true /\ ge_verify f = true /\
    ge_ctype f = payload_type /\
    ge_payload f = Some j /\ dec_payload j = Some d /\
    d_mt d = i_dmt i /\ d_dg d = i_ddg i /\ d_sz d = i_dsz i /\
    (forall k v, In (k, v) (i_dann i) -> lookup k (d_ann d) = Some v) /\
    (forall ms, j = JObj ms -> forall k v, In (k, v) ms ->
        k = "targetArtifact" /\
        forall dms, v = JObj dms -> forall k' v', In (k', v') dms -> In k' known_names) /\
    (i_blob i = true -> exists ks k, i_dk i = DKAns (i_keyid i) ks /\ decode_keyspec ks = Some k).
Proof. exact envelope_sound. Qed.
Print Assumptions C18_envelope.

(* On a payload without duplicated descriptor members and with known member names only
   (which C18_envelope guarantees for the names), the decoded descriptor is the plain
   reading of the members: "mediaType", "digest" and "size" carry the decoded values. *)
Theorem C18_plain_reading : forall dms d d',
  NoDup (names dms) -> (forall k', In k' (names dms) -> In k' known_names) ->
  dec_dmembers d dms = Some d' ->
  forall k v, In (k, v) dms ->
    (k = "mediaType" -> forall s, v = JStr s -> d_mt d' = s) /\
    (k = "digest" -> forall s, v = JStr s -> d_dg d' = s) /\
    (k = "size" -> forall z, v = JInt z -> d_sz d' = z).
Proof. exact plain_reading. Qed.
Print Assumptions C18_plain_reading.

(* Raw-signature plugin: a signature is returned only if describe-key answered for the
   requested key id with a decodable key spec, generate-signature answered for the requested
   key id with a parsable, non-empty, valid code-signing chain whose leaf key calls for the
   algorithm of that key spec, and a non-empty signature that verifies under the leaf key;
   what is returned is then the envelope built by the signer itself: it verifies, has the
   Notary payload type, exactly the requested descriptor, the plugin's chain and that algorithm. *)
Theorem C18_raw : forall i env same rf,
  i_meta i = MCaps true env ->
  o_res (model i) = RSig same rf ->
  exists ks k a f,
    i_dk i = DKAns (i_keyid i) ks /\ decode_keyspec ks = Some k /\ alg_of_keyspec k = Some a /\
    i_mt_ok i = true /\
    i_gs i = GSAns f /\ gs_keyid f = i_keyid i /\ gs_chain_parse f = true /\
    gs_sig_empty f = false /\ gs_chain_len f <> 0%N /\ gs_chain_valid f = true /\
    gs_leaf_alg f = Some a /\ gs_sig_ok f = true /\
    same = false /\
    rf = Some (mk_ret true payload_type (i_dmt i) (i_ddg i) (i_dsz i) (i_dann i) true true (Some a)).
Proof. exact raw_sound. Qed.
Print Assumptions C18_raw.

(* For every plugin answer the result is a signature or an error, never a panic. *)
Theorem C18_total : forall i,
  o_res (model i) <> RPanic /\
  ((exists same rf, o_res (model i) = RSig same rf) \/ (exists e, o_res (model i) = RErr e)).
Proof. exact total_both. Qed.
Print Assumptions C18_total.

(* A signature is returned exactly for the accepted answers; every other answer
   (metadata error, no signing capability, any failed check) is an error. *)
Theorem C18_signature_iff_accepted : forall i,
  ((exists same rf, o_res (model i) = RSig same rf) <-> accepts i = true) /\
  (accepts i = false -> exists e, o_res (model i) = RErr e).
Proof. exact sig_iff_both. Qed.
Print Assumptions C18_signature_iff_accepted.

(* The unknown-member scan (token level, after fix 39b2dda) finds nothing exactly when the
   tree has no payload member besides "targetArtifact" and no descriptor member outside the
   eight names, in every duplicate. *)
Theorem C18_scan_complete : forall j, unknown_attrs j = [] <-> tree_clean j = true.
Proof. exact scan_complete. Qed.
Print Assumptions C18_scan_complete.

(* The scan as it was before that fix (last member wins in a map) accepted a payload with
   an unknown descriptor member: kept as a refuted variant. *)
Theorem C18_old_scan_refuted :
  exists j d,
    dec_payload j = Some d /\ d_dg d = "sha256:aa" /\
    unknown_attrs_lastwins j = [] /\ tree_clean j = false /\ unknown_attrs j = ["evil"].
Proof. exact old_scan_refuted. Qed.
Print Assumptions C18_old_scan_refuted.

(* Key spec / hash codecs: exactly the six names decode; encoding is the inverse; the hash
   name and the digest algorithm follow the key spec. *)
Theorem C18_codecs : forall s k,
  decode_keyspec s = Some k ->
  In s ["RSA-2048"; "RSA-3072"; "RSA-4096"; "EC-256"; "EC-384"; "EC-521"] /\
  encode_keyspec k = Some s /\
  exists h a, hash_of_keyspec k = Some h /\ alg_of_keyspec k = Some a /\
              (h = "SHA-256" /\ hash_bits a = 256 \/ h = "SHA-384" /\ hash_bits a = 384 \/
               h = "SHA-512" /\ hash_bits a = 512)%N.
Proof. exact codecs. Qed.
Print Assumptions C18_codecs.

(* generate-signature is asked with the described key spec and its hash; SignBlob hands the
   digest algorithm of the described key spec to the descriptor generator. *)
Theorem C18_raw_request : forall i ks h,
  o_gs_req (model i) = Some (ks, h) ->
  exists k, i_dk i = DKAns (i_keyid i) ks /\ decode_keyspec ks = Some k /\ hash_of_keyspec k = Some h.
Proof. exact raw_request. Qed.
Print Assumptions C18_raw_request.

Theorem C18_blob_digest_alg : forall i n,
  o_digest_alg (model i) = n -> n <> 0%N ->
  i_blob i = true /\ exists ks k a, i_dk i = DKAns (i_keyid i) ks /\ decode_keyspec ks = Some k /\
                                    alg_of_keyspec k = Some a /\ n = hash_bits a.
Proof. exact blob_digest_alg. Qed.
Print Assumptions C18_blob_digest_alg.

(* The boolean oracle evaluated on the implementation's observations is met by the model
   (wf: the requested annotations have distinct keys - they come from a Go map) ... *)
Theorem C18_model_meets_oracle : forall i, wf i = true -> spec_ok i (model i) = true.
Proof. exact model_spec_ok. Qed.
Print Assumptions C18_model_meets_oracle.

(* ... and it lets a returned signature pass only for an accepted answer. *)
Theorem C18_oracle_sound : forall i same rf o1 o2,
  spec_ok i (mk_obs (RSig same rf) o1 o2) = true -> accepts i = true.
Proof. exact spec_sig_accepts. Qed.
Print Assumptions C18_oracle_sound.

(* non-vacuity: an accepted envelope answer (duplicate null member, optional member), and the
   same with an unknown member hidden in the first duplicate, which is refused *)
Definition ex_desc (extra : list (string * json)) : json :=
  JObj ([("mediaType", JStr "m"); ("digest", JStr "sha256:aa"); ("size", JInt 5);
         ("annotations", JObj [("k", JStr "v")])] ++ extra).
Definition ex_input (payload : json) : input :=
  mk_input false "application/cose" true "key1" "m" "sha256:aa" 5 [("k", "v")]
           (MCaps false true) DKErr GSErr
           (GEAns (mk_ge "application/cose" true true payload_type (Some payload))).

Example C18_example_accepted :
  let i := ex_input (JObj [("targetArtifact", ex_desc [("urls", JArr [JStr "u"])]); ("targetArtifact", JNull)]) in
  wf i = true /\ accepts i = true /\ model i = mk_obs (RSig true None) None 0.
Proof. repeat split; vm_compute; reflexivity. Qed.

Example C18_example_refused :
  let i := ex_input (JObj [("targetArtifact", ex_desc [("evil", JStr "x")]); ("targetArtifact", JNull)]) in
  wf i = true /\ accepts i = false /\ model i = mk_obs (RErr EUnknownAttr) None 0.
Proof. repeat split; vm_compute; reflexivity. Qed.

Example C18_example_raw :
  let i := mk_input true "application/jose+json" true "key1" "m" "sha256:aa" 5 [("k", "v")]
             (MCaps true false) (DKAns "key1" "EC-384")
             (GSAns (mk_gs "key1" true 2 false true (Some ES384) true)) GEErr in
  wf i = true /\
  model i = mk_obs (RSig false (Some (mk_ret true payload_type "m" "sha256:aa" 5 [("k", "v")] true true (Some ES384))))
                   (Some ("EC-384", "SHA-384")) 384.
Proof. repeat split; vm_compute; reflexivity. Qed.
