(* C18 — The signer never returns plugin output it has not checked against the request.
   Statements only; every proof is [exact <lemma of C18_Proofs>].
   Quantifiers: every plugin answer (metadata, describe-key, generate-signature,
   generate-envelope), every fact the libraries may report about the answered
   bytes, every payload tree (any nesting, duplicated members, null, any
   spelling of member names), every requested descriptor, both entry points
   (Sign, SignBlob). [model i] is what PluginSigner returns when every command the signer
   calls answers a non-nil response or an error; [model_n n i] is what it returns when the
   commands flagged in [n] answer a nil response with a nil error instead ([model_n no_nils]
   is [model]). The clause-by-clause audit of these statements is docs/audit/C18.md. *)
From NV Require Import Base C18_Json C18_Model C18_Proofs C18_Audit.

(* Envelope-generator plugin (no raw capability): a signature is returned only if it is
   the plugin's envelope untouched, echoed with the requested format, parsing and verifying
   under its own chain, with the Notary payload type, whose payload - as Go decodes it -
   has the requested media type, digest and size, every requested annotation unchanged,
   and whose tree has no member besides "targetArtifact" and the eight descriptor members
   (exact spelling, duplicated members included); under SignBlob, describe-key must also
   have answered for the requested key id with a decodable key spec. *)
Theorem C18_envelope : forall i env same rf,
  i_meta i = MCaps false env ->
  o_res (model i) = RSig same rf ->
  same = true /\ rf = None /\ env = true /\
  exists f j d,
    i_ge i = GEAns f /\
    ge_type f = i_mt i /\ i_mt_ok i = true /\ ge_parse f = true /\ ge_verify f = true /\
    ge_ctype f = payload_type /\
    ge_payload f = Some j /\ dec_payload j = Some d /\
    d_mt d = i_dmt i /\ d_dg d = i_ddg i /\ d_sz d = i_dsz i /\
    (forall k v, In (k, v) (i_dann i) -> lookup k (d_ann d) = Some v) /\
    (forall ms, j = JObj ms -> forall k v, In (k, v) ms ->
        k = "targetArtifact" /\
        forall dms, v = JObj dms -> forall k' v', In (k', v') dms -> In k' known_names) /\
    (i_blob i = true -> exists ks k, i_dk i = DKAns (i_keyid i) ks /\ decode_keyspec ks = Some k).
Proof. exact envelope_sound. Qed.
Print Assumptions C18_envelope.

(* On a payload without duplicated descriptor members and with known member names only
   (which C18_envelope guarantees for the names), the decoded descriptor is the plain
   reading of the members: "mediaType", "digest" and "size" carry the decoded values. *)
Theorem C18_plain_reading : forall dms d d',
  NoDup (names dms) -> (forall k', In k' (names dms) -> In k' known_names) ->
  dec_dmembers d dms = Some d' ->
  forall k v, In (k, v) dms ->
    (k = "mediaType" -> forall s, v = JStr s -> d_mt d' = s) /\
    (k = "digest" -> forall s, v = JStr s -> d_dg d' = s) /\
    (k = "size" -> forall z, v = JInt z -> d_sz d' = z).
Proof. exact plain_reading. Qed.
Print Assumptions C18_plain_reading.

(* Raw-signature plugin: a signature is returned only if describe-key answered for the
   requested key id with a decodable key spec, generate-signature answered for the requested
   key id with a parsable, non-empty, valid code-signing chain whose leaf key calls for the
   algorithm of that key spec, and a non-empty signature that verifies under the leaf key;
   what is returned is then the envelope built by the signer itself: it verifies, has the
   Notary payload type, exactly the requested descriptor, the plugin's chain and that algorithm. *)
Theorem C18_raw : forall i env same rf,
  i_meta i = MCaps true env ->
  o_res (model i) = RSig same rf ->
  exists ks k a f,
    i_dk i = DKAns (i_keyid i) ks /\ decode_keyspec ks = Some k /\ alg_of_keyspec k = Some a /\
    i_mt_ok i = true /\
    i_gs i = GSAns f /\ gs_keyid f = i_keyid i /\ gs_chain_parse f = true /\
    gs_sig_empty f = false /\ gs_chain_len f <> 0%N /\ gs_chain_valid f = true /\
    gs_leaf_alg f = Some a /\ gs_sig_ok f = true /\
    same = false /\
    rf = Some (mk_ret true payload_type (i_dmt i) (i_ddg i) (i_dsz i) (i_dann i) true true (Some a)).
Proof. exact raw_sound. Qed.
Print Assumptions C18_raw.

(* For every plugin answer the result is a signature or an error, never a panic. *)
Theorem C18_total : forall i,
  o_res (model i) <> RPanic /\
  ((exists same rf, o_res (model i) = RSig same rf) \/ (exists e, o_res (model i) = RErr e)).
Proof. exact total_both. Qed.
Print Assumptions C18_total.

(* A signature is returned exactly for the accepted answers; every other answer
   (metadata error, no signing capability, any failed check) is an error. *)
Theorem C18_signature_iff_accepted : forall i,
  ((exists same rf, o_res (model i) = RSig same rf) <-> accepts i = true) /\
  (accepts i = false -> exists e, o_res (model i) = RErr e).
Proof. exact sig_iff_both. Qed.
Print Assumptions C18_signature_iff_accepted.

(* The unknown-member scan (token level, after fix 39b2dda) finds nothing exactly when the
   tree has no payload member besides "targetArtifact" and no descriptor member outside the
   eight names, in every duplicate. *)
Theorem C18_scan_complete : forall j, unknown_attrs j = [] <-> tree_clean j = true.
Proof. exact scan_complete. Qed.
Print Assumptions C18_scan_complete.

(* The scan as it was before that fix (last member wins in a map) accepted a payload with
   an unknown descriptor member: kept as a refuted variant. *)
Theorem C18_old_scan_refuted :
  exists j d,
    dec_payload j = Some d /\ d_dg d = "sha256:aa" /\
    unknown_attrs_lastwins j = [] /\ tree_clean j = false /\ unknown_attrs j = ["evil"].
Proof. exact old_scan_refuted. Qed.
Print Assumptions C18_old_scan_refuted.

(* Key spec / hash codecs: exactly the six names decode; encoding is the inverse; the hash
   name and the digest algorithm follow the key spec. *)
Theorem C18_codecs : forall s k,
  decode_keyspec s = Some k ->
  In s ["RSA-2048"; "RSA-3072"; "RSA-4096"; "EC-256"; "EC-384"; "EC-521"] /\
  encode_keyspec k = Some s /\
  exists h a, hash_of_keyspec k = Some h /\ alg_of_keyspec k = Some a /\
              (h = "SHA-256" /\ hash_bits a = 256 \/ h = "SHA-384" /\ hash_bits a = 384 \/
               h = "SHA-512" /\ hash_bits a = 512)%N.
Proof. exact codecs. Qed.
Print Assumptions C18_codecs.

(* generate-signature is asked with the described key spec and its hash; SignBlob hands the
   digest algorithm of the described key spec to the descriptor generator. *)
Theorem C18_raw_request : forall i ks h,
  o_gs_req (model i) = Some (ks, h) ->
  exists k, i_dk i = DKAns (i_keyid i) ks /\ decode_keyspec ks = Some k /\ hash_of_keyspec k = Some h.
Proof. exact raw_request. Qed.
Print Assumptions C18_raw_request.

Theorem C18_blob_digest_alg : forall i n,
  o_digest_alg (model i) = n -> n <> 0%N ->
  i_blob i = true /\ exists ks k a, i_dk i = DKAns (i_keyid i) ks /\ decode_keyspec ks = Some k /\
                                    alg_of_keyspec k = Some a /\ n = hash_bits a.
Proof. exact blob_digest_alg. Qed.
Print Assumptions C18_blob_digest_alg.

(* The boolean oracle evaluated on the implementation's observations is met by the model
   (wf: the requested annotations have distinct keys - they come from a Go map) ... *)
Theorem C18_model_meets_oracle : forall i, wf i = true -> spec_ok i (model i) = true.
Proof. exact model_spec_ok. Qed.
Print Assumptions C18_model_meets_oracle.

(* ... and it lets a returned signature pass only for an accepted answer. *)
Theorem C18_oracle_sound : forall i same rf o1 o2,
  spec_ok i (mk_obs (RSig same rf) o1 o2) = true -> accepts i = true.
Proof. exact spec_sig_accepts. Qed.
Print Assumptions C18_oracle_sound.

(* non-vacuity: an accepted envelope answer (duplicate null member, optional member), and the
   same with an unknown member hidden in the first duplicate, which is refused *)
Definition ex_desc (extra : list (string * json)) : json :=
  JObj ([("mediaType", JStr "m"); ("digest", JStr "sha256:aa"); ("size", JInt 5);
         ("annotations", JObj [("k", JStr "v")])] ++ extra).
Definition ex_input (payload : json) : input :=
  mk_input false "application/cose" true "key1" "m" "sha256:aa" 5 [("k", "v")]
           (MCaps false true) DKErr GSErr
           (GEAns (mk_ge "application/cose" true true payload_type (Some payload))).

Example C18_example_accepted :
  let i := ex_input (JObj [("targetArtifact", ex_desc [("urls", JArr [JStr "u"])]); ("targetArtifact", JNull)]) in
  wf i = true /\ accepts i = true /\ model i = mk_obs (RSig true None) None 0.
Proof. repeat split; vm_compute; reflexivity. Qed.

Example C18_example_refused :
  let i := ex_input (JObj [("targetArtifact", ex_desc [("evil", JStr "x")]); ("targetArtifact", JNull)]) in
  wf i = true /\ accepts i = false /\ model i = mk_obs (RErr EUnknownAttr) None 0.
Proof. repeat split; vm_compute; reflexivity. Qed.

Example C18_example_raw :
  let i := mk_input true "application/jose+json" true "key1" "m" "sha256:aa" 5 [("k", "v")]
             (MCaps true false) (DKAns "key1" "EC-384")
             (GSAns (mk_gs "key1" true 2 false true (Some ES384) true)) GEErr in
  wf i = true /\
  model i = mk_obs (RSig false (Some (mk_ret true payload_type "m" "sha256:aa" 5 [("k", "v")] true true (Some ES384))))
                   (Some ("EC-384", "SHA-384")) 384.
Proof. repeat split; vm_compute; reflexivity. Qed.

(* ====================== added by the theorem audit (docs/audit/C18.md) ====================== *)

(* --- "only if" is "exactly if": the converses of C18_envelope and C18_raw, with the
   conditions spelled out (C18_signature_iff_accepted says it through the boolean [accepts]) --- *)
Theorem C18_envelope_exact : forall i f j d,
  i_meta i = MCaps false true ->
  i_ge i = GEAns f ->
  ge_type f = i_mt i -> i_mt_ok i = true -> ge_parse f = true -> ge_verify f = true ->
  ge_ctype f = payload_type ->
  ge_payload f = Some j -> dec_payload j = Some d ->
  d_mt d = i_dmt i -> d_dg d = i_ddg i -> d_sz d = i_dsz i ->
  (forall k v, In (k, v) (i_dann i) -> lookup k (d_ann d) = Some v) ->
  (forall ms, j = JObj ms -> forall k v, In (k, v) ms ->
      k = "targetArtifact" /\
      forall dms, v = JObj dms -> forall k' v', In (k', v') dms -> In k' known_names) ->
  (i_blob i = true -> exists ks k, i_dk i = DKAns (i_keyid i) ks /\ decode_keyspec ks = Some k) ->
  o_res (model i) = RSig true None.
Proof. exact envelope_complete. Qed.
Print Assumptions C18_envelope_exact.

Theorem C18_raw_exact : forall i env ks k a f,
  i_meta i = MCaps true env ->
  i_dk i = DKAns (i_keyid i) ks -> decode_keyspec ks = Some k -> alg_of_keyspec k = Some a ->
  i_mt_ok i = true ->
  i_gs i = GSAns f -> gs_keyid f = i_keyid i -> gs_chain_parse f = true ->
  gs_sig_empty f = false -> gs_chain_len f <> 0%N -> gs_chain_valid f = true ->
  gs_leaf_alg f = Some a -> gs_sig_ok f = true ->
  o_res (model i) = RSig false (Some (mk_ret true payload_type (i_dmt i) (i_ddg i) (i_dsz i) (i_dann i) true true (Some a))).
Proof. exact raw_complete. Qed.
Print Assumptions C18_raw_exact.

(* a failing get-plugin-metadata, or a plugin without a signing capability: always an error *)
Theorem C18_no_capability_error : forall i,
  i_meta i = MErr \/ i_meta i = MCaps false false -> exists e, o_res (model i) = RErr e.
Proof. exact no_capability_error. Qed.
Print Assumptions C18_no_capability_error.

(* --- the accepted payload read on the TREE (not through the decoder): among the members of
   all "targetArtifact" objects, in document order ([ta_members]), the LAST non-null
   "mediaType" / "digest" / "size" member is the requested value (no such member: the
   requested value is the zero value), every requested annotation stands literally in an
   "annotations" object, and every member name is one of the eight descriptor names.
   Duplicated members are accepted; the last one counts (Go's reading, which is also the
   verifier's): see C18_example_last_duplicate_counts. --- *)
Theorem C18_envelope_tree : forall i env same rf,
  i_meta i = MCaps false env ->
  o_res (model i) = RSig same rf ->
  exists f j,
    i_ge i = GEAns f /\ ge_payload f = Some j /\
    match last_set "mediaType" (ta_members j) with Some v => v = JStr (i_dmt i) | None => i_dmt i = "" end /\
    match last_set "digest" (ta_members j) with Some v => v = JStr (i_ddg i) | None => i_ddg i = "" end /\
    match last_set "size" (ta_members j) with Some v => v = JInt (i_dsz i) | None => i_dsz i = 0%Z end /\
    (forall k v, In (k, v) (i_dann i) ->
       exists ams, In ("annotations", JObj ams) (ta_members j) /\
                   (In (k, JStr v) ams \/ (In (k, JNull) ams /\ v = ""))) /\
    (forall k v, In (k, v) (ta_members j) -> In k known_names).
Proof. exact envelope_tree. Qed.
Print Assumptions C18_envelope_tree.

(* --- commands that answer a nil response with a nil error (fix 0b937c8) --- *)
(* never a panic, for nil answers too *)
Theorem C18_total_nil : forall n i,
  o_res (model_n n i) <> RPanic /\
  ((exists same rf, o_res (model_n n i) = RSig same rf) \/ (exists e, o_res (model_n n i) = RErr e)).
Proof. exact total_n. Qed.
Print Assumptions C18_total_nil.

(* a signature never rests on a nil answer: it is returned only where [model] returns it
   (so C18_envelope, C18_raw, C18_envelope_tree apply), and then no answer it used was nil *)
Theorem C18_nil_signature : forall n i same rf,
  o_res (model_n n i) = RSig same rf ->
  o_res (model i) = RSig same rf /\ model_n n i = model i /\
  n_meta n = false /\
  (forall env, i_meta i = MCaps true env -> n_dk n = false /\ n_gs n = false) /\
  (forall env, i_meta i = MCaps false env -> n_ge n = false /\ (i_blob i = true -> n_dk n = false)).
Proof. exact nil_signature. Qed.
Print Assumptions C18_nil_signature.

(* a nil answer of a command the signer calls is an error, whatever the other answers are *)
Theorem C18_nil_answer_error : forall n i,
  (n_meta n = true -> model_n n i = mk_obs (RErr ENilMeta) None 0) /\
  (forall raw env, n_meta n = false -> i_meta i = MCaps raw env -> n_dk n = true ->
     i_blob i = true \/ raw = true -> model_n n i = mk_obs (RErr ENilDK) None 0) /\
  (forall env k, n_meta n = false -> i_meta i = MCaps true env -> n_dk n = false -> get_keyspec i = inr k ->
     n_gs n = true -> i_mt_ok i = true -> o_res (model_n n i) = RErr ENilGS /\ o_gs_req (model_n n i) <> None) /\
  (n_meta n = false -> i_meta i = MCaps false true -> n_ge n = true ->
     (i_blob i = true -> n_dk n = false /\ exists k, get_keyspec i = inr k) -> o_res (model_n n i) = RErr ENilGE).
Proof. exact nil_answer_error. Qed.
Print Assumptions C18_nil_answer_error.

(* the signer as it was before that fix panicked on each of the four (kept as a refuted variant) *)
Theorem C18_nil_answer_v0_refuted :
  (forall blob raw, o_res (model_n_v0 (mk_nils true false false false) (nil_witness blob raw)) = RPanic) /\
  (forall blob, o_res (model_n_v0 (mk_nils false true false false) (nil_witness blob true)) = RPanic) /\
  (forall blob, o_res (model_n_v0 (mk_nils false false true false) (nil_witness blob true)) = RPanic) /\
  (forall blob, o_res (model_n_v0 (mk_nils false false false true) (nil_witness blob false)) = RPanic) /\
  (forall i, model_n_v0 no_nils i = model i).
Proof. exact nil_answer_v0_refuted. Qed.
Print Assumptions C18_nil_answer_v0_refuted.

(* the oracle the harness evaluates ([run] uses [model_n] and [spec_ok_n]) *)
Theorem C18_model_meets_oracle_nil : forall n i, wf i = true -> spec_ok_n n i (model_n n i) = true.
Proof. exact model_n_spec_ok. Qed.
Print Assumptions C18_model_meets_oracle_nil.

Theorem C18_oracle_sound_nil : forall n i same rf o1 o2,
  spec_ok_n n i (mk_obs (RSig same rf) o1 o2) = true -> accepts i = true /\ nil_used n i = false.
Proof. exact spec_n_sig_accepts. Qed.
Print Assumptions C18_oracle_sound_nil.

(* what an observed signature that passes the oracle is, explicitly: on the raw path the
   returned envelope (re-read through notation-core-go by the harness) verifies, has the
   Notary payload type, the requested media type, digest and size, every requested
   annotation, no other member, the plugin's chain and the algorithm of the described key
   spec; on the envelope path it is the plugin's envelope and the answer is accepted *)
Theorem C18_oracle_explicit : forall i same rf o1 o2,
  spec_ok i (mk_obs (RSig same rf) o1 o2) = true ->
  (exists env a r,
      i_meta i = MCaps true env /\ dk_accept i = Some a /\ same = false /\ rf = Some r /\
      r_verifies r = true /\ r_ctype r = payload_type /\
      r_mt r = i_dmt i /\ r_dg r = i_ddg i /\ r_sz r = i_dsz i /\
      (forall k v, In (k, v) (i_dann i) -> lookup k (r_ann r) = Some v) /\
      r_clean r = true /\ r_chain_is_plugins r = true /\ r_alg r = Some a)
  \/ (i_meta i = MCaps false true /\ same = true /\ env_accept i = true).
Proof. exact spec_sig_explicit. Qed.
Print Assumptions C18_oracle_explicit.

(* --- non-vacuity of the statements above --- *)
(* C18_envelope_exact / C18_envelope_tree: the hypotheses hold of C18_example_accepted's input *)
Example C18_example_tree :
  let j := JObj [("targetArtifact", ex_desc [("urls", JArr [JStr "u"])]); ("targetArtifact", JNull)] in
  ta_members j = [("mediaType", JStr "m"); ("digest", JStr "sha256:aa"); ("size", JInt 5);
                  ("annotations", JObj [("k", JStr "v")]); ("urls", JArr [JStr "u"])] /\
  last_set "digest" (ta_members j) = Some (JStr "sha256:aa") /\
  dec_payload j = Some (mk_dsc "m" "sha256:aa" 5 [("k", "v")]).
Proof. repeat split; vm_compute; reflexivity. Qed.

(* a duplicated "digest": the last one counts, in both directions; a null duplicate does not count *)
Example C18_example_last_duplicate_counts :
  let dup first second := ex_input (JObj [("targetArtifact",
        JObj [("mediaType", JStr "m"); ("digest", first); ("size", JInt 5);
              ("annotations", JObj [("k", JStr "v")]); ("digest", second)])]) in
  o_res (model (dup (JStr "sha256:evil") (JStr "sha256:aa"))) = RSig true None /\
  o_res (model (dup (JStr "sha256:aa") (JStr "sha256:evil"))) = RErr EDescChanged /\
  o_res (model (dup (JStr "sha256:aa") JNull)) = RSig true None.
Proof. repeat split; vm_compute; reflexivity. Qed.

(* members below the descriptor level are not scanned: an unknown member inside "platform" is accepted *)
Example C18_example_below_descriptor_level :
  o_res (model (ex_input (JObj [("targetArtifact", ex_desc [("platform", JObj [("evil", JStr "x")])])]))) = RSig true None.
Proof. vm_compute. reflexivity. Qed.

(* C18_plain_reading: hypotheses met by a non-trivial member list *)
Example C18_example_plain_reading :
  let dms := [("size", JInt 5); ("digest", JStr "sha256:aa"); ("urls", JNull); ("mediaType", JStr "m")] in
  NoDup (names dms) /\ (forall k', In k' (names dms) -> In k' known_names) /\
  dec_dmembers dsc0 dms = Some (mk_dsc "m" "sha256:aa" 5 []).
Proof.
  cbn. split; [repeat constructor; cbn; intuition discriminate|].
  split; [|reflexivity]. unfold known_names. cbn. intuition.
Qed.

(* C18_raw / C18_raw_exact / C18_codecs: an accepted raw answer exists for each of the six key
   specs, for Sign and SignBlob, and the six names are exactly the ones that decode *)
Definition ex_raw (blob : bool) (ks : string) (a : alg) : input :=
  mk_input blob "application/cose" true "key1" "m" "sha256:aa" 5 [("k", "v")]
           (MCaps true false) (DKAns "key1" ks) (GSAns (mk_gs "key1" true 2 false true (Some a) true)) GEErr.
Example C18_example_six_key_specs :
  forallb (fun p => match o_res (model (ex_raw false (fst p) (snd p))), o_res (model (ex_raw true (fst p) (snd p))) with
                    | RSig false (Some _), RSig false (Some _) => true | _, _ => false end)
          [("RSA-2048", PS256); ("RSA-3072", PS384); ("RSA-4096", PS512); ("EC-256", ES256); ("EC-384", ES384); ("EC-521", ES512)] = true /\
  (* the leaf key calls for another algorithm than the described key spec: refused *)
  o_res (model (ex_raw false "EC-256" ES384)) = RErr ECore /\
  o_res (model (ex_raw false "EC-512" ES512)) = RErr EKeySpec.
Proof. repeat split; vm_compute; reflexivity. Qed.

(* C18_nil_signature / C18_nil_answer_error: a signature next to an unused nil answer; the same
   request with the used answer nil *)
Example C18_example_nil :
  let i := ex_raw false "EC-256" ES256 in
  o_res (model_n (mk_nils false false false true) i) = o_res (model i) /\
  (exists rf, o_res (model i) = RSig false rf) /\
  o_res (model_n (mk_nils false false true false) i) = RErr ENilGS /\
  o_res (model_n (mk_nils false true false false) i) = RErr ENilDK /\
  o_res (model_n (mk_nils true false false false) i) = RErr ENilMeta /\
  o_res (model_n (mk_nils false false false true) (ex_input (JObj [("targetArtifact", ex_desc [])]))) = RErr ENilGE.
Proof. repeat split; try (vm_compute; reflexivity). eexists. vm_compute. reflexivity. Qed.

(* C18_oracle_explicit / C18_oracle_sound: an observation with a signature that passes the oracle *)
Example C18_example_oracle :
  let i := ex_raw true "EC-384" ES384 in
  spec_ok i (model i) = true /\ (exists rf, o_res (model i) = RSig false (Some rf)).
Proof. split; [vm_compute; reflexivity|eexists; vm_compute; reflexivity]. Qed.
