(* C01_VerifyE2E_Blob.v — END TO END: the entry point ( *verifier).VerifyBlob (verifier/verifier.go:266).

   [VerifyBlob C PM ps unm ggtp gbatp hashf] IS the GoLite translation of the body of verifier.VerifyBlob
   (theories/C01_Gen.v: gen_verifier_verifier_VerifyBlob, re-translated from /repo on every run). Statements
   only; proofs: theories/C01_VerifyE2E_Blob.v. Every theorem quantifies over ALL arguments (verifier v,
   the caller's descriptor generator gen, signature bytes sig, options opts) and ALL behaviours of the calls
   that leave the body:
     ggtp / gbatp   ( *BlobDocument).GetGlobalTrustPolicy / GetApplicableTrustPolicy(name)
     ps             ( *verifier).processSignature (takes and returns the outcome)
     unm            json.Unmarshal into an envelope.Payload
     hashf          SignatureAlgorithm.Hash()
   The table `algorithms` is a translated package-level variable ([algorithms_lookup]: it is the model's alg_of).

   Vocabulary as in props/C01_VerifyE2E.v, with
     bselect v opts           the global statement when opts.TrustPolicyName = "", else the statement of that name
     BSelected v opts pol     the blob document is not nil and the selection answered (pointer to pol, nil)
     bps_answer v sig opts pol   processSignature's answer on the arguments VerifyBlob passes for pol
   Model inputs (C01_Model.verify_blob) defined from the oracles: as for Verify, plus
     e_hash := halg_of_code (hashf (signature algorithm of the envelope content processSignature left))
     generator := gen_of gen: the caller's generator asked with the NAME of the digest algorithm *)
From Coq Require Import List Bool String Ascii NArith ZArith.
From NV Require Import Base Regex Generated GoLib C01_Model C01_Gen C01_GenProofs C01_VerifyE2E C01_VerifyE2E_Blob.
Import ListNotations.
Local Open Scope string_scope.
Local Open Scope list_scope.

Notation PS C PM := (ptr (verifier_verifier C PM) -> list Z -> string -> string -> list string -> list string
                     -> trustpolicy_SignatureVerification -> list (string * string)
                     -> notation_go_VerificationOutcome C -> notation_go_VerificationOutcome C * option GoLib.err).
Notation UNM := (list Z -> envelope_Payload -> envelope_Payload * option GoLib.err).
Notation GGTP := (ptr trustpolicy_BlobDocument -> ptr trustpolicy_BlobTrustPolicy * option GoLib.err).
Notation GBATP := (ptr trustpolicy_BlobDocument -> string -> ptr trustpolicy_BlobTrustPolicy * option GoLib.err).
Notation GEN := (string -> v1_Descriptor * option GoLib.err).

(* `digestAlgo, ok := algorithms[cryptoHash]` on the generated table is the model's alg_of *)
Theorem C01_e2e_algorithms_lookup : forall z,
  map_get_ok Z.eqb "" z verifier_algorithms
  = match alg_of (halg_of_code z) with Some a => (dalg_name a, true) | None => ("", false) end.
Proof. exact algorithms_lookup. Qed.
Print Assumptions C01_e2e_algorithms_lookup.

(* the generated body = the flat decision list [VerifyBlob_spec]: nil document, selection error, nil
   statement (panic), skip, processSignature error, nil envelope content (panic), unmarshal error,
   unsupported hash, generator error, then the blob comparison and the metadata check in that order *)
Theorem C01_e2e_VerifyBlob_is_spec : forall (C PM : Type) (ps : PS C PM) (unm : UNM) (ggtp : GGTP) (gbatp : GBATP)
    (hashf : Z -> Z) v (gen : GEN) sig opts,
  VerifyBlob C PM ps unm ggtp gbatp hashf v gen sig opts = VerifyBlob_spec C PM ps unm ggtp gbatp hashf v gen sig opts.
Proof. exact VerifyBlob_is_spec. Qed.
Print Assumptions C01_e2e_VerifyBlob_is_spec.

(* (a) panics EXACTLY WHEN the blob document is not nil, the selection returned a nil error, and either
   the statement is nil or (level not skip) processSignature returned nil and left EnvelopeContent nil *)
Theorem C01_e2e_VerifyBlob_panics_iff : forall (C PM : Type) (ps : PS C PM) (unm : UNM) (ggtp : GGTP) (gbatp : GBATP)
    (hashf : Z -> Z) v (gen : GEN) sig opts,
  VerifyBlob C PM ps unm ggtp gbatp hashf v gen sig opts = None <-> BPanics C PM ps ggtp gbatp v sig opts.
Proof. exact VerifyBlob_panics_iff. Qed.
Print Assumptions C01_e2e_VerifyBlob_panics_iff.

(* (b) level other than skip, every split (e0, rest) of processSignature's answer r: VerifyBlob panics only
   where r = (outcome with nil content, nil) and the model rejects there; else it returns (r's outcome with
   Error := e, e) and e has the class of the model [verify_blob] on the inputs defined from the oracles
   (EHash: fmt.Errorf("unsupported hashing algorithm"), EDescGen: the generator error, EMismatch:
   "integrity check failed. signature does not match the given blob", the others as for Verify) *)
Theorem C01_e2e_VerifyBlob_is_model : forall (C PM : Type) (ps : PS C PM) (unm : UNM) (ggtp : GGTP) (gbatp : GBATP)
    (hashf : Z -> Z) v (gen : GEN) sig opts pol l e0 rest touch,
  BSelected C PM ggtp gbatp v opts pol ->
  skip_test (level_ptr (BlobTrustPolicy_SignatureVerification pol)) = false -> is_skip l = false ->
  let r := bps_answer C PM ps v sig opts pol in
  Link C e0 rest r ->
  let m := o_err (verify_blob l (blob_input C unm hashf pol e0 rest touch opts (fst r)) (gen_of gen)) in
  match VerifyBlob C PM ps unm ggtp gbatp hashf v gen sig opts with
  | None => snd r = None /\ ptr_val (VerificationOutcome_EnvelopeContent C (fst r)) = None /\ m <> ENone
  | Some (po, e) => po = PNew (set_VerificationOutcome_Error C e (fst r)) /\ bverdict_rel C unm r e m
  end.
Proof. exact VerifyBlob_nonskip_is_model. Qed.
Print Assumptions C01_e2e_VerifyBlob_is_model.

(* the level skip: nothing is called *)
Theorem C01_e2e_VerifyBlob_skip : forall (C PM : Type) (ps : PS C PM) (unm : UNM) (ggtp : GGTP) (gbatp : GBATP)
    (hashf : Z -> Z) v (gen : GEN) sig opts pol,
  BSelected C PM ggtp gbatp v opts pol ->
  skip_test (level_ptr (BlobTrustPolicy_SignatureVerification pol)) = true ->
  VerifyBlob C PM ps unm ggtp gbatp hashf v gen sig opts
  = Some (PNew (out0 C sig (level_ptr (BlobTrustPolicy_SignatureVerification pol))), None).
Proof. exact VerifyBlob_skip. Qed.
Print Assumptions C01_e2e_VerifyBlob_skip.

(* C01_blob / C01_success_iff on the generated entry point: for a non-skip statement a nil error IFF
   processSignature returned nil and left outcome.Error nil, the payload decodes, the hash of the signature
   algorithm is in the table, the caller's generator — asked with THAT digest algorithm — yields a
   descriptor with the signed digest and size (and the signed media type whenever it states one), and every
   required metadata pair is a signed annotation *)
Theorem C01_e2e_VerifyBlob_success_iff : forall (C PM : Type) (ps : PS C PM) (unm : UNM) (ggtp : GGTP) (gbatp : GBATP)
    (hashf : Z -> Z) v (gen : GEN) sig opts pol,
  BSelected C PM ggtp gbatp v opts pol ->
  skip_test (level_ptr (BlobTrustPolicy_SignatureVerification pol)) = false ->
  let r := bps_answer C PM ps v sig opts pol in
  ((exists po, VerifyBlob C PM ps unm ggtp gbatp hashf v gen sig opts = Some (po, None))
   <-> snd r = None /\ VerificationOutcome_Error C (fst r) = None
       /\ BlobChecksPass C unm hashf (fst r) gen (BlobVerifierVerifyOptions_UserMetadata opts)).
Proof. exact VerifyBlob_success_iff. Qed.
Print Assumptions C01_e2e_VerifyBlob_success_iff.

(* C01_error_sticks_blob: both post-checks reached => the metadata error if a pair is missing, else the blob
   mismatch error if the comparison fails, else nil *)
Theorem C01_e2e_VerifyBlob_error_sticks : forall (C PM : Type) (ps : PS C PM) (unm : UNM) (ggtp : GGTP) (gbatp : GBATP)
    (hashf : Z -> Z) v (gen : GEN) sig opts pol ec p a desc,
  BSelected C PM ggtp gbatp v opts pol ->
  skip_test (level_ptr (BlobTrustPolicy_SignatureVerification pol)) = false ->
  let r := bps_answer C PM ps v sig opts pol in
  snd r = None -> VerificationOutcome_Error C (fst r) = None ->
  ptr_val (VerificationOutcome_EnvelopeContent C (fst r)) = Some ec ->
  unm (Payload_Content (EnvelopeContent_Payload C ec)) zero_payload = (p, None) ->
  alg_of (halg_of_code (hash_code C hashf ec)) = Some a -> gen (dalg_name a) = (desc, None) ->
  let e := match gen_verifier_verifyUserMetadata p (BlobVerifierVerifyOptions_UserMetadata opts) with
           | Some x => Some x
           | None => if blob_mismatch (target_of desc) (signed_of p) then Some blob_mismatch_err else None
           end in
  VerifyBlob C PM ps unm ggtp gbatp hashf v gen sig opts = Some (PNew (set_VerificationOutcome_Error C e (fst r)), e).
Proof. exact VerifyBlob_error_sticks. Qed.
Print Assumptions C01_e2e_VerifyBlob_error_sticks.

(* ---------- non-vacuity: the generated VerifyBlob, run ---------- *)
Definition z_pol : trustpolicy_BlobTrustPolicy :=
  mk_BlobTrustPolicy "p" (mk_SignatureVerification "strict" [] "") ["ca:s"] ["*"] true.
Definition z_v : verifier_verifier unit unit :=
  mk_verifier unit unit PNil (PNew (mk_BlobDocument "1.0" [z_pol])) (fun _ _ => ([], None)) PNil PNil PNil PNil.
Definition z_ec : signature_EnvelopeContent unit :=
  mk_EnvelopeContent unit (mk_SignerInfo unit (mk_SignedAttributes "" 0 0 []) (mk_UnsignedAttributes [] "") 4 [] [])
    (mk_signature_Payload "application/vnd.cncf.notary.payload.v1+json" [1%Z]).
Definition z_ps : PS unit unit :=
  fun _ _ _ _ _ _ _ _ o => (set_VerificationOutcome_EnvelopeContent unit (PNew z_ec) o, None).
Definition z_unm : UNM := fun _ _ => (mk_Payload (mk_Descriptor "text/plain" "sha384:bb" 9 [] [("k", "v")] [] PNil ""), None).
(* the generator answers differently per algorithm: only the sha384 descriptor matches *)
Definition z_gen : GEN := fun a =>
  (mk_Descriptor "" (if String.eqb a "sha384" then "sha384:bb" else "sha256:aa") 9 [] [] [] PNil "", None).
Definition z_opts : notation_go_BlobVerifierVerifyOptions := mk_BlobVerifierVerifyOptions "application/cose" [] [("k", "v")] "".

(* signature algorithm 4 hashes to SHA384 (code 6): accepted; were it SHA256 (5): the mismatch *)
Example C01_e2e_VerifyBlob_example :
  (exists po, VerifyBlob unit unit z_ps z_unm (fun _ => (PNew z_pol, None)) (fun _ _ => (PNil, None)) (fun _ => 6%Z)
                z_v z_gen [7%Z] z_opts = Some (po, None))
  /\ (exists po, VerifyBlob unit unit z_ps z_unm (fun _ => (PNew z_pol, None)) (fun _ _ => (PNil, None)) (fun _ => 5%Z)
                   z_v z_gen [7%Z] z_opts = Some (po, Some blob_mismatch_err))
  /\ (exists po, VerifyBlob unit unit z_ps z_unm (fun _ => (PNew z_pol, None)) (fun _ _ => (PNil, None)) (fun _ => 3%Z)
                   z_v z_gen [7%Z] z_opts = Some (po, Some hash_err)).
Proof. repeat split; eexists; vm_compute; reflexivity. Qed.
