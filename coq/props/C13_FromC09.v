(* C13 composed with C09 — every trust store an ACCEPTED trust policy document
   can name is read from exactly root/truststore/x509/<type>/<name>, a
   grandchild of x509, and from nowhere else.
   Statements only; every proof is [exact <lemma of C13_Compose>].
   C09 ([validate], C09_Model.v: OCIDocument.Validate / BlobDocument.Validate)
   proves that an accepted store value is type:name with a type of the generated
   table and a name that is a "safe component"; C13 ([get_certificates],
   C13_Model.v: x509TrustStore.GetCertificates) is stated for [known_type] and
   [plain_name]. Both developments use the same identifiers, hence the
   qualified names. Quantifiers: every document of either kind (any number of
   statements and stores, any strings), every directory tree. *)
From NV Require Import Base Regex Generated.
From NV Require C09_Model C09_Spec C13_Model.
From NV Require Import C13_Compose.
Open Scope list_scope.
Open Scope string_scope.

(* the vocabularies of the two properties coincide *)
Theorem C13_C09_names_coincide : forall nm,
  C09_Spec.SafeComponent nm <-> C13_Model.plain_name nm.
Proof. exact safe_component_iff_plain_name. Qed.
Print Assumptions C13_C09_names_coincide.

Theorem C13_C09_types_coincide : forall ty,
  In ty gen_store_types <-> C13_Model.known_type ty.
Proof. exact gen_type_iff_known_type. Qed.
Print Assumptions C13_C09_types_coincide.

(* the name check of the policy validation and the name check of
   GetCertificates are the same function, accepting exactly the plain names *)
Theorem C13_C09_same_name_check : forall s,
  C09_Model.is_valid_file_name s = C13_Model.is_valid_file_name s /\
  (C09_Model.is_valid_file_name s = true <-> C13_Model.plain_name s).
Proof. intros s. split; [exact (is_valid_file_name_same s) | exact (policy_name_check_iff_plain s)]. Qed.
Print Assumptions C13_C09_same_name_check.

(* every store of an accepted OCI policy document is type:name with a known
   type and a plain file name *)
Theorem C13_C09_oci_stores_plain : forall d s st,
  C09_Model.validate_oci d = C09_Model.EOk ->
  In s (C09_Model.d_stmts d) -> In st (C09_Model.s_stores s) ->
  exists ty nm, st = ty ++ ":" ++ nm /\ C13_Model.known_type ty /\ C13_Model.plain_name nm.
Proof. exact oci_policy_stores_plain. Qed.
Print Assumptions C13_C09_oci_stores_plain.

(* the same for both kinds of documents (OCI and blob) *)
Theorem C13_C09_stores_plain : forall k d s st,
  C09_Model.validate k d = C09_Model.EOk ->
  In s (C09_Model.d_stmts d) -> In st (C09_Model.s_stores s) ->
  exists ty nm, st = ty ++ ":" ++ nm /\ C13_Model.known_type ty /\ C13_Model.plain_name nm.
Proof. exact policy_stores_plain. Qed.
Print Assumptions C13_C09_stores_plain.

(* the composed statement, spelled out: for every store value st of an accepted
   document there are ty and nm, the only way to read st as type:name, such that
   GetCertificates(ty, nm)
   - computes the path root/truststore/x509/ty/nm: four single components,
     none empty, "." or "..", none holding a separator (a grandchild of x509),
   - is not refused by the type or the name check,
   - depends on nothing but what lstat shows at that path,
   - succeeds with l iff that path is a real directory whose every entry is a
     regular file of acceptable certificates, l being exactly their
     concatenation in entry order, not empty,
   - returns only certificates held by regular files directly in it *)
Theorem C13_C09_policy_stores_contained : forall k d s st,
  C09_Model.validate k d = C09_Model.EOk ->
  In s (C09_Model.d_stmts d) -> In st (C09_Model.s_stores s) ->
  exists ty nm, st = ty ++ ":" ++ nm /\ C13_Model.known_type ty /\ C13_Model.plain_name nm /\
    (forall ty' nm', C13_Model.known_type ty' -> st = ty' ++ ":" ++ nm' -> ty' = ty /\ nm' = nm) /\
    C13_Model.sys_path ty nm = Some ["truststore"; "x509"; ty; nm] /\
    Forall (fun c => c <> "" /\ c <> "." /\ c <> ".." /\ ~ In 47%N (bytes c)) ["truststore"; "x509"; ty; nm] /\
    C13_Model.is_valid_store_type ty = true /\ C13_Model.is_valid_file_name nm = true /\
    (forall r1 r2,
       C13_Model.lstat r1 ["truststore"; "x509"; ty; nm] = C13_Model.lstat r2 ["truststore"; "x509"; ty; nm] ->
       C13_Model.get_certificates C13_Model.is_valid_file_name r1 ty nm =
       C13_Model.get_certificates C13_Model.is_valid_file_name r2 ty nm) /\
    (forall root l,
       C13_Model.get_certificates C13_Model.is_valid_file_name root ty nm = C13_Model.Loaded l <->
       exists es, C13_Model.lstat root ["truststore"; "x509"; ty; nm] = C13_Model.LNode (C13_Model.NDir es) /\
                  Forall (C13_Model.entry_good (C13_Model.is_tsa ty)) es /\
                  l = flat_map C13_Model.certs_of_entry es /\ l <> []) /\
    (forall root l c,
       C13_Model.get_certificates C13_Model.is_valid_file_name root ty nm = C13_Model.Loaded l -> In c l ->
       exists es f cs, C13_Model.lstat root ["truststore"; "x509"; ty; nm] = C13_Model.LNode (C13_Model.NDir es) /\
                       In (f, C13_Model.NFile (C13_Model.CCerts cs)) es /\ In c cs).
Proof. exact policy_stores_contained. Qed.
Print Assumptions C13_C09_policy_stores_contained.

(* ---------- non-vacuity: a concrete accepted document, its stores loaded from a concrete tree ---------- *)
Example C13_C09_example :
  C09_Model.validate_oci ex_policy = C09_Model.EOk /\
  (exists s, In s (C09_Model.d_stmts ex_policy) /\ In "ca:web" (C09_Model.s_stores s) /\ In "tsa:roots" (C09_Model.s_stores s)) /\
  C13_Model.model (C13_Model.mk_input "ca" "web" C13_Proofs.ex_tree) = C13_Model.OOk [1; 2; 1]%N /\
  C13_Model.model (C13_Model.mk_input "tsa" "roots" C13_Proofs.ex_tree) = C13_Model.OOk [1]%N /\
  (* a document naming a store outside the type directory is not accepted *)
  C09_Model.validate_oci
    (C09_Model.mk_doc "1.0" [C09_Model.mk_stmt "a" (C09_Model.mk_sv "strict" [] "") ["ca:../tsa"] ["*"] ["*"] false])
    <> C09_Model.EOk.
Proof.
  split; [exact ex_policy_accepted|]. split.
  - eexists. split; [left; reflexivity|]. cbn. auto.
  - split; [reflexivity|]. split; [reflexivity|]. vm_compute. discriminate.
Qed.
