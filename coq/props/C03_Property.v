(* C03 — Trust comes only from the stores the applicable policy statement names,
   typed by the signing scheme.
   Statements only; every proof is [exact <lemma of C03_Proofs>].
   Quantifiers: every policy document (any number of statements, any scopes), every
   trust-store list (any length, duplicates, any mixture of types and of malformed
   values unless a hypothesis says otherwise), every trust store content (a function
   (type, name) -> Certs l | LoadError), every chain length, both schemes, every
   authenticity action, with or without a timestamp countersignature.
   [store_value ty name] is the trust store value ty ++ ":" ++ name;
   [select policy repo] is the statement GetApplicableTrustPolicy hands out. *)
From NV Require Import Base C03_Model C03_Proofs C03_Audit.

(* authenticity passes ONLY IF some chain certificate is identical to a certificate of
   a store that the applicable statement lists and whose type is the scheme's type *)
Theorem C03_sound : forall i, o_auth (model i) = Some APass ->
  exists st ty name l c,
    select (i_policy i) (i_repo i) = Some st /\ store_type_of (i_scheme i) = Some ty /\
    In (store_value ty name) (st_stores st) /\ fs_get (i_fs i) ty name = Certs l /\
    In c l /\ In c (i_chain i).
Proof. exact sound. Qed.
Print Assumptions C03_sound.

(* certificates in stores of another type (tsa included), in stores the statement does
   not list, or listed only by other statements never confer trust: if no listed store
   of the scheme's type holds a chain certificate, authenticity does not pass,
   whatever every other store holds and whatever the other statements list *)
Theorem C03_never_from_elsewhere : forall i st ty,
  select (i_policy i) (i_repo i) = Some st -> store_type_of (i_scheme i) = Some ty ->
  (forall name l c, In (store_value ty name) (st_stores st) -> fs_get (i_fs i) ty name = Certs l ->
                    In c l -> ~ In c (i_chain i)) ->
  o_auth (model i) <> Some APass.
Proof. exact never_from_elsewhere. Qed.
Print Assumptions C03_never_from_elsewhere.

(* the authenticity decision does not depend on anything the trust store holds outside
   the listed stores of the scheme's type *)
Theorem C03_fs_noninterference : forall i fs' st ty,
  select (i_policy i) (i_repo i) = Some st -> store_type_of (i_scheme i) = Some ty ->
  (forall name, In (store_value ty name) (st_stores st) -> fs_get (i_fs i) ty name = fs_get fs' ty name) ->
  o_auth (model (with_fs i fs')) = o_auth (model i) /\ o_stop (model (with_fs i fs')) = o_stop (model i).
Proof. exact fs_noninterference. Qed.
Print Assumptions C03_fs_noninterference.

(* ... nor on the statements that are not selected *)
Theorem C03_other_statements : forall i p',
  select p' (i_repo i) = select (i_policy i) (i_repo i) -> model (with_policy i p') = model i.
Proof. exact other_statements. Qed.
Print Assumptions C03_other_statements.

(* the selected statement is one of the document that is scoped to the repository or
   to "*", and the wildcard statement is selected only if no other statement names the
   repository *)
Theorem C03_selected_statement : forall policy repo st, select policy repo = Some st ->
  In st policy /\ (has_scope repo st = true \/ has_scope wildcard st = true).
Proof. exact selected_in_scope. Qed.
Print Assumptions C03_selected_statement.

Theorem C03_exact_scope_first : forall policy repo st, select policy repo = Some st ->
  has_scope wildcard st = true ->
  forall s, In s policy -> has_scope wildcard s = false -> has_scope repo s = false.
Proof. exact selected_exact_first. Qed.
Print Assumptions C03_exact_scope_first.

(* conversely (the check is not vacuous): if every listed value has the separator,
   every listed store of the scheme's type loads, and one of them holds a chain
   certificate, authenticity passes *)
Theorem C03_complete : forall i st ty name l c,
  select (i_policy i) (i_repo i) = Some st -> st_action st <> SkipLevel ->
  store_type_of (i_scheme i) = Some ty ->
  (forall s, In s (st_stores st) -> contains_byte colon s = true) ->
  (forall n, In (store_value ty n) (st_stores st) -> fs_get (i_fs i) ty n <> LoadError) ->
  In (store_value ty name) (st_stores st) -> fs_get (i_fs i) ty name = Certs l ->
  In c l -> In c (i_chain i) ->
  o_auth (model i) = Some APass.
Proof. exact complete. Qed.
Print Assumptions C03_complete.

(* a listed store of the required type that cannot be loaded makes authenticity fail:
   never a pass, whatever else is listed ... *)
Theorem C03_load_error_never_passes : forall i st ty name,
  select (i_policy i) (i_repo i) = Some st -> store_type_of (i_scheme i) = Some ty ->
  In (store_value ty name) (st_stores st) -> fs_get (i_fs i) ty name = LoadError ->
  o_auth (model i) <> Some APass.
Proof. exact load_error_never_passes. Qed.
Print Assumptions C03_load_error_never_passes.

(* ... and, on a list a validated statement can carry, the result is the load error of a
   listed store of the required type *)
Theorem C03_load_error : forall i st ty name,
  select (i_policy i) (i_repo i) = Some st -> st_action st <> SkipLevel ->
  store_type_of (i_scheme i) = Some ty ->
  (forall s, In s (st_stores st) -> contains_byte colon s = true) ->
  In (store_value ty name) (st_stores st) -> fs_get (i_fs i) ty name = LoadError ->
  exists n, o_auth (model i) = Some (ALoad ty n) /\ In (store_value ty n) (st_stores st) /\
            fs_get (i_fs i) ty n = LoadError.
Proof. exact load_error. Qed.
Print Assumptions C03_load_error.

(* no listed store of the required type at all: failure (no trusted certificates) *)
Theorem C03_empty_fails : forall i st ty,
  select (i_policy i) (i_repo i) = Some st -> st_action st <> SkipLevel ->
  store_type_of (i_scheme i) = Some ty ->
  (forall s, In s (st_stores st) -> contains_byte colon s = true) ->
  (forall name, ~ In (store_value ty name) (st_stores st)) ->
  o_auth (model i) = Some AEmpty /\ o_calls (model i) =
     (if negb (o_stop (model i)) && is_x509 (i_scheme i) && i_token i && st_ts st
      then expected_calls (i_fs i) ty_tsa (st_stores st) else []).
Proof. exact empty_fails. Qed.
Print Assumptions C03_empty_fails.

(* what the trust store is asked: every call names a store the selected statement
   lists; its type is the scheme's type, or tsa - and tsa only under notary.x509, on the
   timestamp path, after authenticity did not end the verification *)
Theorem C03_calls_only_listed : forall i t n, In (t, n) (o_calls (model i)) ->
  exists st, select (i_policy i) (i_repo i) = Some st /\ In (store_value t n) (st_stores st) /\
    (store_type_of (i_scheme i) = Some t \/
     (t = ty_tsa /\ i_scheme i = SX509 /\ i_token i = true /\ st_ts st = true /\ o_stop (model i) = false)).
Proof. exact calls_only_listed. Qed.
Print Assumptions C03_calls_only_listed.

(* exactly: the listed names of the required type, first occurrences in list order, up
   to and including the first that fails to load; then, on the timestamp path, the same
   for the type tsa *)
Theorem C03_calls_exact : forall i st ty,
  select (i_policy i) (i_repo i) = Some st -> st_action st <> SkipLevel ->
  store_type_of (i_scheme i) = Some ty ->
  (forall s, In s (st_stores st) -> contains_byte colon s = true) ->
  o_calls (model i) =
  (map (fun n => (ty, n)) (upto_err (i_fs i) ty (uniq (names_of_type ty (st_stores st)))) ++
   (if negb (o_stop (model i)) && is_x509 (i_scheme i) && i_token i && st_ts st
    then map (fun n => (ty_tsa, n)) (upto_err (i_fs i) ty_tsa (uniq (names_of_type ty_tsa (st_stores st))))
    else []))%list.
Proof. exact calls_exact. Qed.
Print Assumptions C03_calls_exact.

Theorem C03_calls_nodup : forall i st ty,
  select (i_policy i) (i_repo i) = Some st -> st_action st <> SkipLevel ->
  store_type_of (i_scheme i) = Some ty ->
  (forall s, In s (st_stores st) -> contains_byte colon s = true) ->
  NoDup (o_calls (model i)).
Proof. exact calls_nodup. Qed.
Print Assumptions C03_calls_nodup.

(* notary.x509 -> ca, notary.x509.signingAuthority -> signingAuthority; any other scheme
   fails without consulting a store *)
Theorem C03_scheme : store_type_of SX509 = Some "ca" /\ store_type_of SSA = Some "signingAuthority" /\
  forall i st, i_scheme i = SOther -> select (i_policy i) (i_repo i) = Some st -> st_action st <> SkipLevel ->
    o_auth (model i) = Some AScheme /\ o_calls (model i) = [].
Proof. exact scheme_type. Qed.
Print Assumptions C03_scheme.

(* the authenticity error ends the verification exactly when its action is enforce *)
Theorem C03_stop_iff : forall i, o_stop (model i) = true <->
  exists st c, select (i_policy i) (i_repo i) = Some st /\ st_action st = Enforce /\
               o_auth (model i) = Some c /\ c <> APass.
Proof. exact stop_iff. Qed.
Print Assumptions C03_stop_iff.

(* the boolean oracle evaluated on the implementation's observations is met by the
   model on every input a validated policy document and an accepted envelope give *)
Theorem C03_model_meets_oracle : forall i, wf i = true -> spec_ok i (model i) = true.
Proof. exact model_spec_ok. Qed.
Print Assumptions C03_model_meets_oracle.

(* ================= added by the theorem audit (docs/audit/C03.md) ================= *)

(* the first sentence of the property as an equivalence, with no side condition on the
   list: authenticity passes EXACTLY when a statement applies whose level is not skip, the
   scheme has a store type, every listed value has the separator, every listed store of
   that type loads, and one of them holds a certificate of the chain *)
Theorem C03_pass_iff : forall i, o_auth (model i) = Some APass <->
  exists st ty,
    select (i_policy i) (i_repo i) = Some st /\ st_action st <> SkipLevel /\
    store_type_of (i_scheme i) = Some ty /\
    (forall s, In s (st_stores st) -> contains_byte colon s = true) /\
    (forall n, In (store_value ty n) (st_stores st) -> fs_get (i_fs i) ty n <> LoadError) /\
    exists name l c, In (store_value ty name) (st_stores st) /\ fs_get (i_fs i) ty name = Certs l /\
                     In c l /\ In c (i_chain i).
Proof. exact pass_iff. Qed.
Print Assumptions C03_pass_iff.

(* "(ca for notary.x509, signingAuthority for notary.x509.signingAuthority)": the store of
   the witness has literally that type, and no other scheme ever passes *)
Theorem C03_pass_typed : forall i, o_auth (model i) = Some APass ->
  exists st ty name l c,
    select (i_policy i) (i_repo i) = Some st /\
    ((i_scheme i = SX509 /\ ty = "ca") \/ (i_scheme i = SSA /\ ty = "signingAuthority")) /\
    In (store_value ty name) (st_stores st) /\ fs_get (i_fs i) ty name = Certs l /\
    In c l /\ In c (i_chain i).
Proof. exact pass_typed. Qed.
Print Assumptions C03_pass_typed.

(* conclusions of the form "o_auth <> Some APass" hide nothing: authenticity has a result
   exactly when a statement applies and its level is not skip; otherwise the model reports
   no result, no call and no stop *)
Theorem C03_auth_some_iff : forall i, (exists c, o_auth (model i) = Some c) <->
  exists st, select (i_policy i) (i_repo i) = Some st /\ st_action st <> SkipLevel.
Proof. exact auth_some_iff. Qed.
Print Assumptions C03_auth_some_iff.

Theorem C03_no_result : forall i,
  (select (i_policy i) (i_repo i) = None \/
   exists st, select (i_policy i) (i_repo i) = Some st /\ st_action st = SkipLevel) ->
  model i = mk_obs None [] false.
Proof. exact no_result. Qed.
Print Assumptions C03_no_result.

(* "a listed store of the required type that cannot be loaded makes authenticity fail
   instead of being ignored", for EVERY list (malformed values, duplicates, any position):
   there is a result, it is not a pass, and it ends the verification iff the action is enforce *)
Theorem C03_load_error_fails : forall i st ty name,
  select (i_policy i) (i_repo i) = Some st -> st_action st <> SkipLevel ->
  store_type_of (i_scheme i) = Some ty ->
  In (store_value ty name) (st_stores st) -> fs_get (i_fs i) ty name = LoadError ->
  exists c, o_auth (model i) = Some c /\ c <> APass /\
            o_stop (model i) = (match st_action st with Enforce => true | _ => false end).
Proof. exact load_error_fails. Qed.
Print Assumptions C03_load_error_fails.

(* the WHOLE observation (result, stop, every call) depends on the trust store only through
   the listed stores of the scheme's type and the listed stores of type tsa: whatever sits
   in unlisted stores or in listed stores of the third type can be changed at will *)
Theorem C03_fs_noninterference_full : forall i fs' st ty,
  select (i_policy i) (i_repo i) = Some st -> store_type_of (i_scheme i) = Some ty ->
  (forall t name, t = ty \/ t = ty_tsa -> In (store_value t name) (st_stores st) ->
                  fs_get (i_fs i) t name = fs_get fs' t name) ->
  model (with_fs i fs') = model i.
Proof. exact fs_noninterference_full. Qed.
Print Assumptions C03_fs_noninterference_full.

(* "listed only by other statements": every statement other than the selected one may be
   rewritten at will (trust-store list, level, name, verifyTimestamp) as long as the scopes
   stay what they are - nothing observable changes *)
Theorem C03_other_statements_rewrite : forall i f st,
  (forall s, st_scopes (f s) = st_scopes s) ->
  select (i_policy i) (i_repo i) = Some st -> f st = st ->
  model (with_policy i (map f (i_policy i))) = model i.
Proof. exact other_statements_rewrite. Qed.
Print Assumptions C03_other_statements_rewrite.

(* "the applicable policy statement", declaratively and completely: in a document whose
   scope values are pairwise distinct (validateRegistryScopes), the selected statement is
   THE statement scoped to the repository, else THE wildcard statement when no statement
   is scoped to the repository; none is selected iff no statement has either scope *)
Theorem C03_select_iff : forall policy repo st, nodup_str (flat_map st_scopes policy) = true ->
  (select policy repo = Some st <->
   In st policy /\
   ((has_scope wildcard st = false /\ has_scope repo st = true) \/
    (has_scope wildcard st = true /\
     forall s, In s policy -> has_scope wildcard s = false -> has_scope repo s = false))).
Proof. exact select_iff. Qed.
Print Assumptions C03_select_iff.

Theorem C03_select_none_iff : forall policy repo,
  select policy repo = None <->
  forall s, In s policy -> has_scope repo s = false /\ has_scope wildcard s = false.
Proof. exact select_none_iff. Qed.
Print Assumptions C03_select_none_iff.

(* ---------- non-vacuity ---------- *)
Definition ex_fs : fsys :=
  [(("ca", "good"), Certs [7; 3]%N); (("signingAuthority", "good"), Certs [3]%N);
   (("tsa", "t"), Certs [9]%N); (("ca", "other"), Certs [1]%N)].
Definition ex_policy (stores : list string) : list stmt :=
  [mk_stmt "wild" ["*"] ["ca:other"] Enforce true;
   mk_stmt "sel" ["reg.example/repo"] stores Enforce true].
Definition ex_input (sch : scheme) (stores : list string) : input :=
  mk_input sch (ex_policy stores) "reg.example/repo" ex_fs [1; 2; 3]%N true.

(* root (3) in the listed ca store: pass, then the tsa store is asked on the timestamp path *)
Example C03_example_pass :
  wf (ex_input SX509 ["tsa:t"; "ca:good"; "ca:good"]) = true /\
  model (ex_input SX509 ["tsa:t"; "ca:good"; "ca:good"])
  = mk_obs (Some APass) [("ca", "good"); ("tsa", "t")] false.
Proof. split; reflexivity. Qed.

(* the same certificate only in a store of the wrong type, in a store listed by the other
   statement (leaf 1 in ca:other), or in an unlisted store: no pass *)
Example C03_example_wrong_type :
  model (ex_input SX509 ["signingAuthority:good"; "tsa:t"])
  = mk_obs (Some AEmpty) [] true
  /\ model (ex_input SSA ["ca:good"; "ca:other"; "signingAuthority:good"])
     = mk_obs (Some APass) [("signingAuthority", "good")] false
  /\ model (ex_input SX509 ["ca:missing"; "ca:good"])
     = mk_obs (Some (ALoad "ca" "missing")) [("ca", "missing")] true.
Proof. repeat split; reflexivity. Qed.

(* the hypotheses of C03_complete / C03_load_error are satisfiable *)
Example C03_example_hyps :
  select (ex_policy ["ca:good"]) "reg.example/repo" = Some (mk_stmt "sel" ["reg.example/repo"] ["ca:good"] Enforce true)
  /\ store_value "ca" "good" = "ca:good"
  /\ fs_get ex_fs "ca" "good" = Certs [7; 3]%N /\ fs_get ex_fs "ca" "missing" = LoadError.
Proof. repeat split; reflexivity. Qed.

(* ---------- non-vacuity of the theorems added by the audit ---------- *)

(* the three "elsewhere" placements at once: the root (3) sits in a tsa store that IS listed,
   in a signingAuthority store that IS listed, in ca:good which is NOT listed, and the leaf (1)
   in ca:other which only the other statement lists; the listed ca store holds a stranger.
   The hypothesis of C03_never_from_elsewhere holds and the result is a failure *)
Definition ex_fs2 : fsys :=
  [(("ca", "mine"), Certs [8]%N); (("tsa", "t"), Certs [3]%N); (("signingAuthority", "good"), Certs [3]%N);
   (("ca", "good"), Certs [3]%N); (("ca", "other"), Certs [1]%N)].
Definition ex_input2 : input :=
  mk_input SX509 (ex_policy ["tsa:t"; "signingAuthority:good"; "ca:mine"]) "reg.example/repo" ex_fs2 [1; 2; 3]%N true.
Example C03_example_elsewhere :
  wf ex_input2 = true /\
  (forall name l c, In (store_value "ca" name) ["tsa:t"; "signingAuthority:good"; "ca:mine"] ->
     fs_get ex_fs2 "ca" name = Certs l -> In c l -> ~ In c [1; 2; 3]%N) /\
  model ex_input2 = mk_obs (Some ANoMatch) [("ca", "mine")] true.
Proof.
  split; [reflexivity|]. split; [|reflexivity].
  intros name l c [H|[H|[H|[]]]]; inversion H; subst. cbn. intros E. inversion E; subst.
  intros [<-|[]] [H1|[H1|[H1|[]]]]; discriminate.
Qed.

(* C03_fs_noninterference(_full): a store content that differs outside the listed ca / tsa
   stores (root moved into every unlisted and wrongly typed store) satisfies the hypothesis
   and is a different trust store *)
Definition ex_fs3 : fsys :=
  [(("ca", "mine"), Certs [8]%N); (("tsa", "t"), Certs [3]%N); (("signingAuthority", "good"), Certs [1; 2; 3]%N);
   (("ca", "good"), Certs [1; 2; 3]%N); (("ca", "other"), Certs [1; 2; 3]%N); (("signingAuthority", "mine"), Certs [3]%N)].
Example C03_example_noninterference :
  (forall t name, t = "ca" \/ t = ty_tsa -> In (store_value t name) ["tsa:t"; "signingAuthority:good"; "ca:mine"] ->
     fs_get (i_fs ex_input2) t name = fs_get ex_fs3 t name) /\
  ex_fs3 <> ex_fs2 /\ model (with_fs ex_input2 ex_fs3) = model ex_input2.
Proof.
  split; [|split; [discriminate | reflexivity]].
  intros t name [->| ->] [H|[H|[H|[]]]]; inversion H; subst; reflexivity.
Qed.

(* C03_other_statements_rewrite: the wildcard statement gets the good store and the level
   audit; the statement scoped to the repository is left alone *)
Definition ex_rewrite (s : stmt) : stmt :=
  if String.eqb (st_name s) "wild" then mk_stmt "renamed" (st_scopes s) ["ca:good"; "tsa:t"] Log false else s.
Example C03_example_rewrite :
  (forall s, st_scopes (ex_rewrite s) = st_scopes s) /\
  select (i_policy ex_input2) (i_repo ex_input2) = Some (mk_stmt "sel" ["reg.example/repo"] ["tsa:t"; "signingAuthority:good"; "ca:mine"] Enforce true) /\
  map ex_rewrite (i_policy ex_input2) <> i_policy ex_input2 /\
  model (with_policy ex_input2 (map ex_rewrite (i_policy ex_input2))) = model ex_input2.
Proof.
  split; [|split; [reflexivity | split; [discriminate | reflexivity]]].
  intros s. unfold ex_rewrite. now destruct (String.eqb (st_name s) "wild").
Qed.

(* C03_load_error / C03_load_error_fails / C03_load_error_never_passes: the failing store
   listed AFTER a store that holds the root, next to a value without separator (no validated
   statement carries one): still a failure, in both orders *)
Example C03_example_load_error :
  fs_get ex_fs "ca" "missing" = LoadError /\
  model (ex_input SX509 ["ca:good"; "ca:missing"]) = mk_obs (Some (ALoad "ca" "missing")) [("ca", "good"); ("ca", "missing")] true /\
  model (ex_input SX509 ["ca:good"; "nosep"; "ca:missing"]) = mk_obs (Some (AFormat "nosep")) [("ca", "good")] true /\
  model (ex_input SX509 ["ca:good"; "ca:missing"; "nosep"]) = mk_obs (Some (ALoad "ca" "missing")) [("ca", "good"); ("ca", "missing")] true.
Proof. repeat split; reflexivity. Qed.

(* C03_empty_fails, C03_calls_exact, C03_calls_nodup: hypotheses met by a list without a ca
   entry; under audit (Log) the verification goes on and the tsa store is asked *)
Example C03_example_empty :
  (forall name, ~ In (store_value "ca" name) ["signingAuthority:good"; "tsa:t"; "tsa:t"]) /\
  model (mk_input SX509 [mk_stmt "a" ["reg.example/repo"] ["signingAuthority:good"; "tsa:t"; "tsa:t"] Log true]
                  "reg.example/repo" ex_fs [1; 2; 3]%N true)
  = mk_obs (Some AEmpty) [("tsa", "t")] false.
Proof.
  split; [|reflexivity]. intros name [H|[H|[H|[]]]]; discriminate.
Qed.

(* C03_scheme (third part), C03_auth_some_iff, C03_no_result, C03_select_none_iff *)
Example C03_example_no_result :
  model (ex_input SOther ["ca:good"]) = mk_obs (Some AScheme) [] true /\
  select (ex_policy ["ca:good"]) "reg.example/repo" <> None /\
  select [mk_stmt "sel" ["reg.example/repo"] ["ca:good"] Enforce true] "reg.example/REPO" = None /\
  model (mk_input SX509 [mk_stmt "sel" ["reg.example/repo"] ["ca:good"] Enforce true] "reg.example/repo/sub" ex_fs [3]%N false)
  = mk_obs None [] false /\
  model (mk_input SX509 [mk_stmt "sel" ["reg.example/repo"] ["ca:good"] SkipLevel true] "reg.example/repo" ex_fs [3]%N false)
  = mk_obs None [] false.
Proof. repeat split; try reflexivity. discriminate. Qed.

(* C03_select_iff: the contract holds of the example document; the wildcard statement is the
   selected one for a repository nobody names, although it comes first *)
Example C03_example_select :
  nodup_str (flat_map st_scopes (ex_policy ["ca:good"])) = true /\
  select (ex_policy ["ca:good"]) "reg.example/else" = Some (mk_stmt "wild" ["*"] ["ca:other"] Enforce true).
Proof. split; reflexivity. Qed.

(* C03_stop_iff: both directions inhabited (enforce + failure above; log + failure here) *)
Example C03_example_stop :
  o_stop (model ex_input2) = true /\
  o_stop (model (mk_input SX509 [mk_stmt "a" ["*"] ["ca:mine"] Log true] "r/x" ex_fs2 [1; 2; 3]%N false)) = false /\
  o_auth (model (mk_input SX509 [mk_stmt "a" ["*"] ["ca:mine"] Log true] "r/x" ex_fs2 [1; 2; 3]%N false)) = Some ANoMatch.
Proof. repeat split; reflexivity. Qed.
