(* C07: the payload media type and the four tables of plugin/proto/algorithm.go,
   signer/plugin.go and verifier/verifier.go, as regenerated from the source, agree with
   the tables the model states. Identifiers of the plugin framework / crypto / go-digest
   packages (outside /repo) are mapped to their values by the naming tables below. *)
From NV Require Import Base Generated C07_Model.
Open Scope string_scope.

Definition ktype_of_ident (s : string) : ktype :=
  if s =? "KeyTypeEC" then KEC else if s =? "KeyTypeRSA" then KRSA else K0.
Definition keyspec_value (s : string) : string :=
  if s =? "KeySpecRSA2048" then "RSA-2048" else if s =? "KeySpecRSA3072" then "RSA-3072"
  else if s =? "KeySpecRSA4096" then "RSA-4096" else if s =? "KeySpecEC256" then "EC-256"
  else if s =? "KeySpecEC384" then "EC-384" else if s =? "KeySpecEC521" then "EC-521" else "?".
Definition hash_value (s : string) : string :=
  if s =? "HashAlgorithmSHA256" then "SHA-256" else if s =? "HashAlgorithmSHA384" then "SHA-384"
  else if s =? "HashAlgorithmSHA512" then "SHA-512" else "?".
Definition chash_of_ident (s : string) : chash :=
  if s =? "SHA256" then H256 else if s =? "SHA384" then H384 else if s =? "SHA512" then H512 else H0.
Definition digest_value (s : string) : string :=
  if s =? "SHA256" then "sha256" else if s =? "SHA384" then "sha384" else if s =? "SHA512" then "sha512" else "?".
Definition ostr_eqb (a b : option string) : bool :=
  match a, b with Some x, Some y => x =? y | None, None => true | _, _ => false end.
Definition six : list keyspec :=
  [mk_ks KRSA 2048; mk_ks KRSA 3072; mk_ks KRSA 4096; mk_ks KEC 256; mk_ks KEC 384; mk_ks KEC 521]%N.
Definition row_spec (r : string * N * string) : keyspec := mk_ks (ktype_of_ident (fst (fst r))) (snd (fst r)).

(* every generated row is a row of the model's function, and every one of the six key specs has a generated row *)
Definition enc_ok : bool :=
  forallb (fun r => ostr_eqb (encode_keyspec (row_spec r)) (Some (keyspec_value (snd r)))) gen_encode_key_spec
  && forallb (fun k => existsb (fun r => keyspec_eqb (row_spec r) k) gen_encode_key_spec) six.
Definition hash_ok : bool :=
  forallb (fun r => ostr_eqb (hash_from_keyspec (row_spec r)) (Some (hash_value (snd r)))) gen_hash_from_key_spec
  && forallb (fun k => existsb (fun r => keyspec_eqb (row_spec r) k) gen_hash_from_key_spec) six.
Definition dec_ok : bool :=
  forallb (fun r => match decode_keyspec (keyspec_value (fst (fst r))) with
                    | Some k => keyspec_eqb k (mk_ks (ktype_of_ident (snd r)) (snd (fst r)))
                    | None => false end) gen_decode_key_spec
  && forallb (fun k => existsb (fun r => keyspec_eqb (mk_ks (ktype_of_ident (snd r)) (snd (fst r))) k) gen_decode_key_spec) six.
Definition algs_ok (f : chash -> option string) (t : list (string * string)) : bool :=
  forallb (fun r => ostr_eqb (f (chash_of_ident (fst r))) (Some (digest_value (snd r)))) t
  && forallb (fun h => existsb (fun r => match chash_of_ident (fst r), h with
                                         | H256, H256 | H384, H384 | H512, H512 => true | _, _ => false end) t)
             [H256; H384; H512].

Theorem C07_constants_generated :
  mt_payload = gen_media_type_payload_v1 /\
  enc_ok = true /\ hash_ok = true /\ dec_ok = true /\
  algs_ok signer_algorithms gen_signer_digest_algorithms = true /\
  algs_ok verifier_algorithms gen_verifier_digest_algorithms = true.
Proof. repeat split; vm_compute; reflexivity. Qed.
Print Assumptions C07_constants_generated.
