(* C01_Generated.v — the code's own functions against the C01 model.

   theories/C01_Gen.v is re-translated from the Go sources of /repo by `vh-gen`
   (GoLite, docs/GOLITE.md; targets: harness/cmd/vh-gen/targets_c01.go) on every run;
   the theorems below are about those generated definitions, for ALL their inputs.
   Proofs: theories/C01_GenProofs.v (compiled by make; a change of a Go body changes
   C01_Gen.v and the proofs are re-checked against what the code says now).

   Translated: verifier.verifyUserMetadata, oras content.Equal,
   envelope.ValidatePayloadContentType, trustpolicy.SignatureVerification.GetVerificationLevel,
   notation.validateSigMediaType, notation.validateContentMediaType (oracle: mime.ParseMediaType).

   Abstractions: [target_of d] = the four fields of an ocispec.Descriptor the code reads;
   [signed_of p] = target_of of the payload's TargetArtifact; [md_of m] = the pairs `range m`
   visits (every key once, first binding); a Go map is ANY association list, read by first
   binding; [sv_lvl sv], [sv_ov sv] = level name and override (as [md_of]) of a statement;
   [level_rel p l] = p points to a level with the model's name and, as a map, the model's
   enforcement. *)
From Coq Require Import List Bool String Ascii NArith ZArith.
From NV Require Import Base Regex Generated GoLib C01_Model C01_Gen C01_GenProofs C01_GenDesc.
Import ListNotations.
Local Open Scope string_scope.
Local Open Scope list_scope.

(* ---------- verifier.verifyUserMetadata (clause 9) ---------- *)

(* for ALL payloads and required maps: nil iff the model's [md_ok] holds of the pairs
   `range` visits; the only error is notation.ErrorUserMetadataVerificationFailed *)
Theorem C01_gen_verifyUserMetadata_equiv : forall payload md,
  match gen_verifier_verifyUserMetadata payload md with
  | None => md_ok (signed_of payload) (md_of md) = true
  | Some x => md_ok (signed_of payload) (md_of md) = false /\ is_md_err x
  end.
Proof. exact gen_verifyUserMetadata_equiv. Qed.
Print Assumptions C01_gen_verifyUserMetadata_equiv.

(* in the words of Go maps: nil iff every binding md[k] = v of the required map is a
   binding of the signed annotations *)
Theorem C01_gen_verifyUserMetadata_nil_iff : forall payload md,
  gen_verifier_verifyUserMetadata payload md = None <->
  forall k v, map_get String.eqb k md = Some v ->
              map_get String.eqb k (Descriptor_Annotations (Payload_TargetArtifact payload)) = Some v.
Proof. exact gen_verifyUserMetadata_nil_iff. Qed.
Print Assumptions C01_gen_verifyUserMetadata_nil_iff.

(* the place of the model where the decision is used: [check_md] *)
Theorem C01_gen_verifyUserMetadata_check_md : forall payload md e,
  check_md (signed_of payload) (md_of md) e
  = match gen_verifier_verifyUserMetadata payload md with None => e | Some _ => EMetadata end.
Proof. exact gen_verifyUserMetadata_check_md. Qed.
Print Assumptions C01_gen_verifyUserMetadata_check_md.

(* ---------- oras content.Equal (clauses 6, 7) ---------- *)

Theorem C01_gen_Equal_equiv : forall a b,
  gen_content_Equal a b = desc_equal (target_of a) (target_of b).
Proof. exact gen_Equal_equiv. Qed.
Print Assumptions C01_gen_Equal_equiv.

Theorem C01_gen_Equal_true_iff : forall a b,
  gen_content_Equal a b = true <->
  Descriptor_Digest a = Descriptor_Digest b /\ Descriptor_Size a = Descriptor_Size b
  /\ Descriptor_MediaType a = Descriptor_MediaType b.
Proof. exact gen_Equal_true_iff. Qed.
Print Assumptions C01_gen_Equal_true_iff.

(* ---------- envelope.ValidatePayloadContentType (clause 5) ---------- *)

Theorem C01_gen_ValidatePayloadContentType_nil_iff : forall p,
  gen_envelope_ValidatePayloadContentType p = None <-> Payload_ContentType p = media_type_payload_v1.
Proof. exact gen_ValidatePayloadContentType_nil_iff. Qed.
Print Assumptions C01_gen_ValidatePayloadContentType_nil_iff.

(* the place of the model: the last test of [verify_integrity], for an envelope that parses
   and whose signature verifies *)
Theorem C01_gen_ValidatePayloadContentType_integrity : forall e content,
  e_parse e = true -> e_verify e = VOk ->
  verify_integrity e
  = if is_none (gen_envelope_ValidatePayloadContentType (mk_signature_Payload (e_ctype e) content))
    then None else Some ICType.
Proof. exact gen_ValidatePayloadContentType_integrity. Qed.
Print Assumptions C01_gen_ValidatePayloadContentType_integrity.

(* ---------- the argument checks of notation.VerifyBlob ---------- *)

Theorem C01_gen_validateSigMediaType_equiv : forall s,
  is_none (gen_notation_go_validateSigMediaType s)
  = (String.eqb s media_type_jws || String.eqb s media_type_cose).
Proof. exact gen_validateSigMediaType_equiv. Qed.
Print Assumptions C01_gen_validateSigMediaType_equiv.

(* oracle: mime.ParseMediaType (quantified) *)
Theorem C01_gen_validateContentMediaType_equiv :
  forall (parse : string -> string * list (string * string) * option GoLib.err) mt,
  is_none (gen_notation_go_validateContentMediaType parse mt)
  = (String.eqb mt "" || is_none (snd (parse mt))).
Proof. exact gen_validateContentMediaType_equiv. Qed.
Print Assumptions C01_gen_validateContentMediaType_equiv.

(* the two tests of [notation_verify_blob] / [args_ok] made of these functions; hypothesis:
   the model's input b_mt_valid is what the oracle answers *)
Theorem C01_gen_args_checks : forall parse b,
  b_mt_valid b = is_none (snd (parse (b_mt b))) ->
  (negb (String.eqb (b_mt b) "") && negb (b_mt_valid b)
   = negb (is_none (gen_notation_go_validateContentMediaType parse (b_mt b))))
  /\ (negb (String.eqb (b_sigmt b) media_type_jws || String.eqb (b_sigmt b) media_type_cose)
      = negb (is_none (gen_notation_go_validateSigMediaType (b_sigmt b)))).
Proof. exact gen_args_checks. Qed.
Print Assumptions C01_gen_args_checks.

(* ---------- GetVerificationLevel (clause 3) ---------- *)

(* the table of levels the generated code searches is the table of Generated.v *)
Theorem C01_gen_levels_pinned :
  map (fun p => match ptr_val p with
                | Some l => (VerificationLevel_Name l, VerificationLevel_Enforcement l)
                | None => ("", [])
                end) trustpolicy_VerificationLevels = gen_levels.
Proof. exact gen_levels_pinned. Qed.
Print Assumptions C01_gen_levels_pinned.

(* for ALL statements: an error exactly where the model's [get_level] has none; otherwise a
   pointer to the model's level (as a map), which is the package-level LevelSkip exactly
   when the level is named skip *)
Theorem C01_gen_GetVerificationLevel_equiv : forall sv,
  match get_level (sv_lvl sv) (sv_ov sv) with
  | None => exists x, gen_trustpolicy_SignatureVerification_GetVerificationLevel sv = Some (PNil, Some x)
  | Some l => exists p, gen_trustpolicy_SignatureVerification_GetVerificationLevel sv = Some (p, None)
                        /\ level_rel p l
                        /\ (ptr_eqb_glob p "trustpolicy.LevelSkip" = String.eqb (fst l) "skip")
  end.
Proof. exact gen_GetVerificationLevel_equiv. Qed.
Print Assumptions C01_gen_GetVerificationLevel_equiv.

(* the hypothesis [NonSkip] of the C01 theorems, read off the code's own function *)
Theorem C01_gen_NonSkip_iff : forall sv,
  NonSkip (sv_lvl sv) (sv_ov sv) <->
  exists p, gen_trustpolicy_SignatureVerification_GetVerificationLevel sv = Some (p, None)
            /\ ptr_eqb_glob p "trustpolicy.LevelSkip" = false.
Proof. exact gen_NonSkip_iff. Qed.
Print Assumptions C01_gen_NonSkip_iff.

(* C01_integrity_enforced / C01_skip_iff_named on the code's function *)
Theorem C01_gen_level_integrity_enforced : forall sv p,
  gen_trustpolicy_SignatureVerification_GetVerificationLevel sv = Some (p, None) ->
  exists c, ptr_val p = Some c /\
    (VerificationLevel_Name c = "skip" <-> sv_lvl sv = "skip") /\
    (sv_lvl sv <> "skip" ->
     map_get String.eqb "integrity" (VerificationLevel_Enforcement c) = Some "enforce").
Proof. exact gen_level_integrity_enforced. Qed.
Print Assumptions C01_gen_level_integrity_enforced.

(* ---------- the property, with the decisions made by the code's own functions ---------- *)

(* C01_success_iff for verifier.Verify: level hypothesis from the generated
   GetVerificationLevel, descriptor comparison = generated content.Equal, metadata =
   generated verifyUserMetadata *)
Theorem C01_gen_oci_success_iff : forall sv env rest touch md desc payload p,
  gen_trustpolicy_SignatureVerification_GetVerificationLevel sv = Some (p, None) ->
  ptr_eqb_glob p "trustpolicy.LevelSkip" = false ->
  e_decode env = Some (signed_of payload) ->
  (o_err (model (oci_input sv env rest touch md desc)) = ENone <->
   Intact env /\ rest = true
   /\ gen_content_Equal (Payload_TargetArtifact payload) desc = true
   /\ gen_verifier_verifyUserMetadata payload md = None).
Proof. exact gen_oci_success_iff. Qed.
Print Assumptions C01_gen_oci_success_iff.

(* C01_error_sticks: a descriptor mismatch survives a passing metadata check *)
Theorem C01_gen_oci_error_sticks : forall sv env rest touch md desc payload p,
  gen_trustpolicy_SignatureVerification_GetVerificationLevel sv = Some (p, None) ->
  ptr_eqb_glob p "trustpolicy.LevelSkip" = false ->
  Intact env -> rest = true -> e_decode env = Some (signed_of payload) ->
  o_err (model (oci_input sv env rest touch md desc))
  = match gen_verifier_verifyUserMetadata payload md with
    | Some _ => EMetadata
    | None => if gen_content_Equal (Payload_TargetArtifact payload) desc then ENone else EMismatch
    end.
Proof. exact gen_oci_error_sticks. Qed.
Print Assumptions C01_gen_oci_error_sticks.

(* C01_no_configuration_helps: when the code's content.Equal says "another artifact" or the
   code's verifyUserMetadata reports a missing pair, no statement (level, override) and no
   outcome of the rest of processSignature makes verifier.Verify succeed — except the level
   named skip without override *)
Theorem C01_gen_oci_no_configuration_helps : forall sv env rest touch md desc payload,
  e_decode env = Some (signed_of payload) ->
  (gen_content_Equal (Payload_TargetArtifact payload) desc = false
   \/ gen_verifier_verifyUserMetadata payload md <> None) ->
  o_err (model (oci_input sv env rest touch md desc)) = ENone ->
  sv_lvl sv = "skip" /\ sv_ov sv = [].
Proof. exact gen_oci_no_configuration_helps. Qed.
Print Assumptions C01_gen_oci_no_configuration_helps.

(* ---------- the blob descriptor generator of notation.VerifyBlob (clauses 2b, 6, 8) ----------
   notation.getDescriptorFunc and notation.addUserMetadataToDescriptor. Oracles, quantified in every
   statement: digest.Algorithm.Digester [nd], Digester.Hash [hs], Digester.Digest [dd], io.Copy [cp],
   hash.Hash as io.Writer [up]; the blob reader is an opaque value. Proofs: theories/C01_GenDesc.v. *)

Theorem C01_gen_reserved_prefixes_pinned :
  notation_go_reservedAnnotationPrefixes = gen_reserved_annotation_prefixes.
Proof. exact gen_reserved_prefixes_pinned. Qed.
Print Assumptions C01_gen_reserved_prefixes_pinned.

(* for ALL required maps, on a descriptor without annotations: the model's [add_user_metadata] *)
Theorem C01_gen_addUserMetadataToDescriptor_equiv : forall desc md,
  Descriptor_Annotations desc = [] ->
  match add_user_metadata [] (md_of md) with
  | Some ann => gen_notation_go_addUserMetadataToDescriptor desc md = (set_Descriptor_Annotations ann desc, None)
  | None => exists d x, gen_notation_go_addUserMetadataToDescriptor desc md = (d, Some x)
  end.
Proof. exact gen_addUserMetadataToDescriptor_equiv. Qed.
Print Assumptions C01_gen_addUserMetadataToDescriptor_equiv.

(* NO hypothesis about the oracles: ONE digester for the algorithm asked for; the reader and that
   digester's hash go to io.Copy; io.Copy's error aborts; otherwise media type as stated, digest of
   THAT digester, size = the count io.Copy reports; then the required metadata is added.
   (Hashing the blob in any other way changes the generated definition and breaks this proof.) *)
Theorem C01_gen_getDescriptorFunc_spec :
  forall (Digester Hash Writer Reader : Type) nd hs dd cp up reader mt md alg,
  g_getDescriptorFunc Digester Hash Writer Reader nd hs dd cp up reader mt md alg
  = let dg := nd alg in
    match cp (up (hs dg)) reader with
    | (_, Some e) => (fresh_desc "" "" 0, Some e)
    | (n, None) => gen_notation_go_addUserMetadataToDescriptor (fresh_desc mt (dd dg) n) md
    end.
Proof. exact gen_getDescriptorFunc_spec. Qed.
Print Assumptions C01_gen_getDescriptorFunc_spec.

(* for ANY reader: if io.Copy and the digester do what they promise for it — [stream] = all bytes the
   reader delivers before io.EOF (None: it fails first), io.Copy reports their number, the digester
   their digest [h alg bytes] — the descriptor is the one of the WHOLE stream: digest over all bytes
   delivered, size their number; a failing reader yields an error, never a descriptor of a prefix *)
Theorem C01_gen_getDescriptorFunc_whole_stream :
  forall (Digester Hash Writer Reader : Type) nd hs dd cp up
         (h : string -> list Z -> string) (stream : option (list Z)) reader mt md alg,
  (match stream with
   | Some bs => cp (up (hs (nd alg))) reader = (Z.of_nat (List.length bs), None) /\ dd (nd alg) = h alg bs
   | None => exists n e, cp (up (hs (nd alg))) reader = (n, Some e)
   end) ->
  match stream with
  | Some bs =>
      match add_user_metadata [] (md_of md) with
      | Some ann => g_getDescriptorFunc Digester Hash Writer Reader nd hs dd cp up reader mt md alg
                    = (mk_Descriptor mt (h alg bs) (Z.of_nat (List.length bs)) [] ann [] PNil "", None)
      | None => exists d x, g_getDescriptorFunc Digester Hash Writer Reader nd hs dd cp up reader mt md alg = (d, Some x)
      end
  | None => exists d x, g_getDescriptorFunc Digester Hash Writer Reader nd hs dd cp up reader mt md alg = (d, Some x)
  end.
Proof. exact gen_getDescriptorFunc_whole_stream. Qed.
Print Assumptions C01_gen_getDescriptorFunc_whole_stream.

(* against the model's [top_gen] (the generator inside [notation_verify_blob]); hypotheses: the
   model's inputs b_read_ok / b_size / digest_of are what io.Copy and the digester answered *)
Theorem C01_gen_getDescriptorFunc_is_top_gen :
  forall (Digester Hash Writer Reader : Type) nd hs dd cp up reader md alg (b : blobin) (a : dalg),
  b_read_ok b = is_none (snd (cp (up (hs (nd alg))) reader)) ->
  (b_read_ok b = true ->
   fst (cp (up (hs (nd alg))) reader) = b_size b /\ dd (nd alg) = digest_of b a) ->
  match top_gen b (md_of md) a with
  | Some t => exists d, g_getDescriptorFunc Digester Hash Writer Reader nd hs dd cp up reader (b_mt b) md alg = (d, None)
                        /\ target_of d = t
  | None => exists d x, g_getDescriptorFunc Digester Hash Writer Reader nd hs dd cp up reader (b_mt b) md alg = (d, Some x)
  end.
Proof. exact gen_getDescriptorFunc_is_top_gen. Qed.
Print Assumptions C01_gen_getDescriptorFunc_is_top_gen.

(* notation.VerifyBlob, the whole function, with NO hypothesis about oracles, verifier or reader:
   order of the argument checks; the verifier is called once with the generator
   [g_getDescriptorFunc] over the SAME reader, the stated media type and the caller's metadata;
   its error passes through with the zero descriptor; skipped outcome -> zero descriptor; else the
   decoded target of the verified payload. None = panic: the verifier returned (nil, nil). *)
Theorem C01_gen_notation_VerifyBlob_spec :
  forall (Digester Hash Writer Reader : Type) nd hs dd cp up (Cert : Type) parse_mt unmarshal pbv prd sig opts,
  let mt := VerifyBlobOptions_ContentMediaType opts in
  let vopts := VerifyBlobOptions_BlobVerifierVerifyOptions opts in
  g_VerifyBlob Digester Hash Writer Reader nd hs dd cp up Cert parse_mt unmarshal pbv prd sig opts
  = match ptr_val pbv, ptr_val prd with
    | None, _ => Some (zero_desc, PNil, Some (Err "errors" "blobVerifier cannot be nil" []))
    | Some _, None => Some (zero_desc, PNil, Some (Err "errors" "blobReader cannot be nil" []))
    | Some bv, Some _ =>
        if (list_len sig =? 0)%Z then Some (zero_desc, PNil, Some (Err "errors" "signature cannot be nil or empty" []))
        else match gen_notation_go_validateContentMediaType parse_mt mt with
        | Some e => Some (zero_desc, PNil, Some e)
        | None =>
        match gen_notation_go_validateSigMediaType (BlobVerifierVerifyOptions_SignatureMediaType vopts) with
        | Some e => Some (zero_desc, PNil, Some e)
        | None =>
        match bv (g_getDescriptorFunc Digester Hash Writer Reader nd hs dd cp up prd mt
                    (BlobVerifierVerifyOptions_UserMetadata vopts)) sig vopts with
        | (_, Some e) => Some (zero_desc, PNil, Some e)
        | (vo, None) =>
            match ptr_val vo with
            | None => None
            | Some o =>
                match ptr_val (VerificationOutcome_EnvelopeContent _ o) with
                | None => Some (zero_desc, vo, None)
                | Some c =>
                    match unmarshal (Payload_Content (EnvelopeContent_Payload _ c)) (mk_Payload zero_desc) with
                    | (_, Some e) => Some (zero_desc, PNil, Some e)
                    | (p, None) => Some (Payload_TargetArtifact p, vo, None)
                    end
                end
            end
        end end end
    end.
Proof. exact gen_notation_VerifyBlob_spec. Qed.
Print Assumptions C01_gen_notation_VerifyBlob_spec.
