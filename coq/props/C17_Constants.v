From NV Require Import Base Generated C17_Model.
Theorem C17_constants_generated : plugin_wait_delay = gen_plugin_wait_delay_ms.
Proof. reflexivity. Qed.
Print Assumptions C17_constants_generated.
