(* C12_Generated.v — obligations over the GoLite translations (theories/C12_Gen.v, regenerated from
   the Go sources of /repo by `vh-gen` on every run; targets: harness/cmd/vh-gen/targets_c12.go).
   Proofs: theories/C12_GenProofs.v. Table: docs/audit/C12.md, section "GoLite".

   C12 = "no input crashes the library". [None] of a generated function IS the run-time panic of
   the Go function, so `<> None` / `= None <-> ..` below are crash-freedom statements about the
   code as translated, for ALL inputs and ALL answers of the oracles (mime.ParseMediaType,
   pkix.ParseDistinguishedName, time.Now, Certificate.Subject.String are universally quantified). *)
From Coq Require Import List Bool String Ascii NArith ZArith.
From NV Require Import Base C12_Model GoLib C12_Gen C12_GenProofs.
Import ListNotations.
Local Open Scope string_scope.
Local Open Scope list_scope.

(* ---------- A: media type guards (notation.VerifyBlob, Sign*; model bits b_stype_bad / b_ctype_bad) ---------- *)

Theorem C12_gen_validateSigMediaType_spec : forall s,
  gen_notation_go_validateSigMediaType s = None
  <-> (String.eqb s "application/jose+json" || String.eqb s "application/cose") = true.
Proof. exact gen_validateSigMediaType_spec. Qed.
Print Assumptions C12_gen_validateSigMediaType_spec.

Theorem C12_gen_validateContentMediaType_spec : forall parse s,
  gen_notation_go_validateContentMediaType parse s = None <-> s = "" \/ snd (parse s) = None.
Proof. exact gen_validateContentMediaType_spec. Qed.
Print Assumptions C12_gen_validateContentMediaType_spec.

(* ---------- B: isCriticalFailure is the model's [crit]; it panics only on a nil result ---------- *)

Theorem C12_gen_isCriticalFailure_equiv : forall p,
  gen_verifier_isCriticalFailure p
  = match ptr_val p with
    | Some r => Some (crit (action_of (ValidationResult_Action r)) (GoLib.is_some (ValidationResult_Error r)))
    | None => None
    end.
Proof. exact gen_isCriticalFailure_equiv. Qed.
Print Assumptions C12_gen_isCriticalFailure_equiv.

(* ---------- C: verifyUserMetadata (model bit s_meta_ok) ---------- *)

Theorem C12_gen_verifyUserMetadata_spec : forall payload um,
  exists r, gen_verifier_verifyUserMetadata (PNew payload) um = Some r /\
    (r = None <-> forall k v, map_get String.eqb k um = Some v ->
                    map_get String.eqb k (Descriptor_Annotations (Payload_TargetArtifact payload)) = Some v).
Proof. exact gen_verifyUserMetadata_spec. Qed.
Print Assumptions C12_gen_verifyUserMetadata_spec.

Theorem C12_gen_verifyUserMetadata_panics_iff : forall p um,
  gen_verifier_verifyUserMetadata p um = None <-> ptr_val p = None.
Proof. exact gen_verifyUserMetadata_panics_iff. Qed.
Print Assumptions C12_gen_verifyUserMetadata_panics_iff.

(* ---------- D: the revocation results (model: rev_failed; fix d78db00) ---------- *)

Theorem C12_gen_checkRevocationResults_spec : forall (C : Type) results (chain : list C),
  gen_verifier_checkRevocationResults C results chain = None
  <-> List.length results = List.length chain /\ forallb nonnil_result results = true.
Proof. exact gen_checkRevocationResults_spec. Qed.
Print Assumptions C12_gen_checkRevocationResults_spec.

Theorem C12_gen_revocationFinalResult_returns_iff : forall (C : Type) (subj : C -> string) results chain,
  gen_verifier_revocationFinalResult C subj results chain <> None
  <-> forall k, (k < List.length results)%nat -> ok_at C results chain (Z.of_nat k) = true.
Proof. exact gen_revocationFinalResult_returns_iff. Qed.
Print Assumptions C12_gen_revocationFinalResult_returns_iff.

(* behind the shape test the call never panics: no contract on the validator is left *)
Theorem C12_gen_revocation_total : forall (C : Type) (subj : C -> string) results chain,
  gen_verifier_checkRevocationResults C results chain = None ->
  gen_verifier_revocationFinalResult C subj results chain <> None.
Proof. exact gen_revocation_total. Qed.
Print Assumptions C12_gen_revocation_total.

(* what the shape test is there for (the model's [rev_failed false RevBadShape = None]) *)
Theorem C12_gen_revocation_unguarded_panics : forall (C : Type) (subj : C -> string) results chain,
  (List.length chain < List.length results)%nat \/ forallb nonnil_result results = false ->
  gen_verifier_revocationFinalResult C subj results chain = None.
Proof. exact gen_revocation_unguarded_panics. Qed.
Print Assumptions C12_gen_revocation_unguarded_panics.

(* the input that crashed the verifier before fix a146158 (a nil entry among the server results): found
   because the translation of the logging loop was None there; now the verdict is the result's own *)
Theorem C12_gen_revocation_nil_server_ok : forall (C : Type) (subj : C -> string) (c : C),
  gen_verifier_checkRevocationResults C [PNew (mk_CertRevocationResult 1 [PNil] 0)] [c] = None
  /\ gen_verifier_revocationFinalResult C subj [PNew (mk_CertRevocationResult 1 [PNil] 0)] [c] = Some (1%Z, "").
Proof. exact gen_revocation_nil_server_ok. Qed.
Print Assumptions C12_gen_revocation_nil_server_ok.

(* the model says the same: the shapes the test refuses are ordinary failures since d78db00, a nil server
   result is an ordinary input since a146158 *)
Theorem C12_gen_revocation_in_model :
  rev_failed true RevBadShape = Some true /\ rev_failed false RevBadShape = None
  /\ rev_failed true RevNilServer = Some false /\ rev_failed_gen true false RevNilServer = None.
Proof. repeat split. Qed.
Print Assumptions C12_gen_revocation_in_model.

(* ---------- E: verifyX509TrustedIdentities, certs[0] ---------- *)

Theorem C12_gen_verifyX509TrustedIdentities_total :
  forall (C : Type) (subj : C -> string) parse pol ids (certs : list C),
  certs <> [] -> gen_verifier_verifyX509TrustedIdentities C subj parse pol ids certs <> None.
Proof. exact gen_verifyX509TrustedIdentities_total. Qed.
Print Assumptions C12_gen_verifyX509TrustedIdentities_total.

Theorem C12_gen_verifyX509TrustedIdentities_empty_chain_panics :
  forall (C : Type) (subj : C -> string) parse pol v dn,
  v <> "" -> str_cut ":" (String.append "x509.subject:" v) = ("x509.subject", v, true) -> parse v = (dn, None) ->
  gen_verifier_verifyX509TrustedIdentities C subj parse pol [String.append "x509.subject:" v] [] = None.
Proof. exact gen_verifyX509TrustedIdentities_empty_chain_panics. Qed.
Print Assumptions C12_gen_verifyX509TrustedIdentities_empty_chain_panics.

(* ---------- F: verifyExpiry ---------- *)

Theorem C12_gen_verifyExpiry_panics_iff : forall (C : Type) (now : Z) (outcome : ptr (notation_go_VerificationOutcome C)),
  gen_verifier_verifyExpiry C now outcome = None
  <-> match ptr_val outcome with
      | None => True
      | Some o => ptr_val (VerificationOutcome_EnvelopeContent C o) = None
                  \/ ptr_val (VerificationOutcome_VerificationLevel C o) = None
      end.
Proof. exact gen_verifyExpiry_panics_iff. Qed.
Print Assumptions C12_gen_verifyExpiry_panics_iff.

(* ---------- G: policy selection ---------- *)

Theorem C12_gen_getArtifactPathFromReference_total : forall ref,
  gen_trustpolicy_getArtifactPathFromReference ref <> None.
Proof. exact gen_getArtifactPathFromReference_total. Qed.
Print Assumptions C12_gen_getArtifactPathFromReference_total.

Theorem C12_gen_OCI_GetApplicableTrustPolicy_panics_iff : forall doc ref,
  gen_trustpolicy_OCIDocument_GetApplicableTrustPolicy doc ref = None
  <-> ptr_val doc = None /\ exists path, gen_trustpolicy_getArtifactPathFromReference ref = Some (path, None).
Proof. exact gen_OCI_GetApplicableTrustPolicy_panics_iff. Qed.
Print Assumptions C12_gen_OCI_GetApplicableTrustPolicy_panics_iff.

Theorem C12_gen_Blob_GetApplicableTrustPolicy_panics_iff : forall doc name,
  gen_trustpolicy_BlobDocument_GetApplicableTrustPolicy doc name = None
  <-> ptr_val doc = None /\ String.eqb (str_trim_space name) "" = false.
Proof. exact gen_Blob_GetApplicableTrustPolicy_panics_iff. Qed.
Print Assumptions C12_gen_Blob_GetApplicableTrustPolicy_panics_iff.

Theorem C12_gen_Blob_GetGlobalTrustPolicy_panics_iff : forall doc,
  gen_trustpolicy_BlobDocument_GetGlobalTrustPolicy doc = None <-> ptr_val doc = None.
Proof. exact gen_Blob_GetGlobalTrustPolicy_panics_iff. Qed.
Print Assumptions C12_gen_Blob_GetGlobalTrustPolicy_panics_iff.

(* the guard of fix 87f7f59 in the model and the panic it keeps away in the code *)
Theorem C12_gen_nil_document_guard : forall ref path v,
  gen_trustpolicy_getArtifactPathFromReference ref = Some (path, None) -> v_oci v = None ->
  gen_trustpolicy_OCIDocument_GetApplicableTrustPolicy PNil ref = None
  /\ skip_verify_v0 v = OPanic
  /\ skip_verify v = ORet false None [] (Some XNil).
Proof. exact gen_nil_document_guard. Qed.
Print Assumptions C12_gen_nil_document_guard.

(* ---------- H: GetVerificationLevel (model: SelBadLevel) ---------- *)

Theorem C12_gen_GetVerificationLevel_result_ok : forall sv,
  match gen_trustpolicy_SignatureVerification_GetVerificationLevel sv with
  | Some (p, e) => ptr_val p = None <-> e <> None
  | None => False
  end.
Proof. exact gen_GetVerificationLevel_result_ok. Qed.
Print Assumptions C12_gen_GetVerificationLevel_result_ok.

Theorem C12_gen_GetVerificationLevel_total : forall sv,
  gen_trustpolicy_SignatureVerification_GetVerificationLevel sv <> None.
Proof. exact gen_GetVerificationLevel_total. Qed.
Print Assumptions C12_gen_GetVerificationLevel_total.

Theorem C12_gen_bad_level_panics : forall (C : Type) sv p e now raw env results oerr v sc,
  gen_trustpolicy_SignatureVerification_GetVerificationLevel sv = Some (p, Some e) ->
  gen_verifier_verifyExpiry C now (PNew (mk_VerificationOutcome C raw env p results oerr)) = None
  /\ (v_oci v = Some SelBadLevel -> verify_oci v sc = OPanic)
  /\ (v_blob v = Some SelBadLevel -> verify_blob v sc = OPanic).
Proof. exact gen_bad_level_panics. Qed.
Print Assumptions C12_gen_bad_level_panics.

Theorem C12_gen_good_level_total : forall (C : Type) sv p now raw env results oerr,
  gen_trustpolicy_SignatureVerification_GetVerificationLevel sv = Some (p, None) ->
  gen_verifier_verifyExpiry C now (PNew (mk_VerificationOutcome C raw (PNew env) p results oerr)) <> None.
Proof. exact gen_good_level_total. Qed.
Print Assumptions C12_gen_good_level_total.

(* ---------- I: config.validateKeys ---------- *)

Theorem C12_gen_validateKeys_spec : forall cfg,
  exists r, gen_config_validateKeys (PNew cfg) = Some r /\
    (r = None <-> exists seen, names_scan (map KeySuite_Name (SigningKeys_Keys cfg)) [] = inr seen
                               /\ default_ok (SigningKeys_Default cfg) seen).
Proof. exact gen_validateKeys_spec. Qed.
Print Assumptions C12_gen_validateKeys_spec.

Theorem C12_gen_validateKeys_panics_iff : forall p,
  gen_config_validateKeys p = None <-> ptr_val p = None.
Proof. exact gen_validateKeys_panics_iff. Qed.
Print Assumptions C12_gen_validateKeys_panics_iff.

Theorem C12_gen_validateKeys_accepts : forall cfg,
  gen_config_validateKeys (PNew cfg) = Some None ->
  let names := map KeySuite_Name (SigningKeys_Keys cfg) in
  Forall (fun n => n <> "") names /\ NoDup names
  /\ match ptr_val (SigningKeys_Default cfg) with
     | None => True
     | Some k => k <> "" /\ In k names
     end.
Proof. exact gen_validateKeys_accepts. Qed.
Print Assumptions C12_gen_validateKeys_accepts.

(* ---------- J: crl.checkExpiry ---------- *)

Theorem C12_gen_checkExpiry_spec : forall now next,
  gen_crl_checkExpiry now next
  = if time_is_zero next then Some (Err "errors" "crl bundle retrieved from file cache does not contain valid NextUpdate" [])
    else if (now >? next)%Z then crl_ErrCacheMiss   (* the sentinel of notation-core-go: a cache miss *)
    else None.
Proof. exact gen_checkExpiry_spec. Qed.
Print Assumptions C12_gen_checkExpiry_spec.

(* ---------- K: getVerificationPlugin (model: s_pattr) ---------- *)

Theorem C12_gen_getVerificationPlugin_spec : forall (C : Type) extract si,
  let r := gen_verifier_getVerificationPlugin C extract si in
  match snd r with
  | None => String.eqb (str_trim_space (fst r)) "" = false
            /\ extract si "io.cncf.notary.verificationPlugin" = (fst r, None)
  | Some _ => fst r = ""
  end.
Proof. exact gen_getVerificationPlugin_spec. Qed.
Print Assumptions C12_gen_getVerificationPlugin_spec.

(* the sentinel is an error, and not the one of a missing NextUpdate: the three outcomes of checkExpiry differ *)
Theorem C12_gen_ErrCacheMiss_is_error :
  crl_ErrCacheMiss <> None
  /\ crl_ErrCacheMiss <> Some (Err "errors" "crl bundle retrieved from file cache does not contain valid NextUpdate" []).
Proof. split; discriminate. Qed.
Print Assumptions C12_gen_ErrCacheMiss_is_error.
