(* C07 — What the library signs, it verifies, and it reports what was signed.
   Statements only; every proof is [exact <lemma of C07_Proofs>].
   Quantifiers: every input [i] with [wf i = true]: any of the six key specs,
   both envelope formats, OCI descriptors with arbitrary extra fields and
   annotations, blobs of any size with their digests, any legal user metadata
   (unique keys, none with the reserved prefix, none already an annotation,
   valid UTF-8), any duration that is a non-negative whole number of seconds,
   any signing agent, local signer and plugin signers of either capability that
   describe their key truthfully.  [wf] = [legal] + the size is an int64 + (KNOWN
   finding, footprint 1) with JWS the size survives float64. *)
From NV Require Import Base C07_Model C07_Proofs.
Open Scope string_scope.
Open Scope list_scope.

(* OCI: SignOCI succeeds, Verify under a trusting policy succeeds for a
   reference that resolves to the same content (digest, size, media type) and
   any demanded metadata that was signed; the signed payload is the resolved
   descriptor reduced to media type, digest, size and annotations + user
   metadata — the JSON document has these keys and no other —; Verify returns
   the resolved descriptor; the metadata read back is annotations + user metadata *)
Theorem C07_roundtrip_oci : forall i d vd,
  wf i = true -> i_target i = TOCI d -> i_vtarget i = TOCI vd -> i_trusted i = true ->
  d_digest vd = d_digest d -> d_size vd = d_size d -> d_mt vd = d_mt d ->
  submap (i_vmeta i) (d_anns d ++ i_meta i) = true ->
  let signed := mk_descr (d_mt d) (d_digest d) (d_size d) [] (d_anns d ++ i_meta i) "" "" "" in
  let o := model i in
  o_sign o = 0%N /\ o_verify o = 0%N /\ o_ret o = Some vd /\ o_meta o = Some (d_anns d ++ i_meta i) /\
  exists s, o_env o = Some s /\ s_payload s = Some signed /\ s_top s = ["targetArtifact"] /\
            s_tgt s = (match d_anns d ++ i_meta i with [] => [] | _ => ["annotations"] end) ++ ["digest"; "mediaType"; "size"].
Proof. exact roundtrip_oci. Qed.
Print Assumptions C07_roundtrip_oci.

(* blobs: SignBlob succeeds; the signer asks the descriptor generator for the
   digest algorithm [an] that the specification table binds to the key spec, and
   so does the verifier; the payload is {media type, digest of the blob under
   [an], size, user metadata} and nothing else; VerifyBlob of the same blob
   (read without error; content media type omitted or the same) succeeds and RETURNS THAT DESCRIPTOR
   (fix a20d301); the metadata read back is exactly the caller's metadata *)
Theorem C07_roundtrip_blob : forall i b mt ok vb vmt vok kn a hn an,
  wf i = true -> i_target i = TBlob b mt ok -> i_vtarget i = TBlob vb vmt vok -> i_trusted i = true ->
  spec_row (i_ks i) spec_table = Some (kn, a, hn, an) ->
  b_readerr vb = false -> blob_digest vb an = blob_digest b an -> b_size vb = b_size b ->
  (vmt = "" \/ (vmt = mt /\ vok = true)) ->
  submap (i_vmeta i) (i_meta i) = true ->
  let signed := mk_descr mt (blob_digest b an) (b_size b) [] (i_meta i) "" "" "" in
  let o := model i in
  o_sign o = 0%N /\ o_shash o = Some an /\ o_verify o = 0%N /\ o_vhash o = Some an /\
  o_ret o = Some signed /\ o_meta o = Some (i_meta i) /\
  exists s, o_env o = Some s /\ s_alg s = a /\ s_payload s = Some signed /\ s_top s = ["targetArtifact"] /\
            s_tgt s = (match i_meta i with [] => [] | _ => ["annotations"] end) ++ ["digest"; "mediaType"; "size"].
Proof. exact roundtrip_blob. Qed.
Print Assumptions C07_roundtrip_blob.

(* the tables: for each of the six key specs of the specification the signature
   algorithm core derives, the digest algorithm of the signer's table and of
   the verifier's table, the plugin key-spec and hash names agree with the
   specification, and the key-spec name decodes back to the key spec *)
Theorem C07_hash_bound : forall k kn a hn an,
  spec_row k spec_table = Some (kn, a, hn, an) ->
  sig_alg k = a /\ a <> A0 /\
  signer_algorithms (alg_hash a) = Some an /\ verifier_algorithms (alg_hash a) = Some an /\
  encode_keyspec k = Some kn /\ decode_keyspec kn = Some k /\ hash_from_keyspec k = Some hn.
Proof. exact tables_agree. Qed.
Print Assumptions C07_hash_bound.

(* ... and for EVERY key spec whatsoever the two packages pick the same digest
   algorithm, one exists whenever core accepts the key, and core accepts only
   the six key specs of the table *)
Theorem C07_hash_bound_all : forall k,
  signer_algorithms (alg_hash (sig_alg k)) = verifier_algorithms (alg_hash (sig_alg k)) /\
  (sig_alg k <> A0 -> exists an, signer_algorithms (alg_hash (sig_alg k)) = Some an).
Proof. exact hash_bound_all. Qed.
Print Assumptions C07_hash_bound_all.

Theorem C07_supported_keys : forall k, sig_alg k <> A0 -> exists r, spec_row k spec_table = Some r.
Proof. exact sig_alg_supported. Qed.
Print Assumptions C07_supported_keys.

Theorem C07_keyspec_names : forall k s, decode_keyspec s = Some k <-> encode_keyspec k = Some s.
Proof. exact keyspec_names. Qed.
Print Assumptions C07_keyspec_names.

(* expiry: truncation to seconds commutes with adding whole seconds ... *)
Theorem C07_expiry_arith : forall t d, (Z.rem d second = 0)%Z -> (0 <= d)%Z ->
  ((t + d) / second = t / second + d / second)%Z.
Proof. exact trunc_add. Qed.
Print Assumptions C07_expiry_arith.

(* ... which is false without the granularity guard of validateSignArguments *)
Theorem C07_expiry_unguarded_refuted :
  exists t d, (0 < d)%Z /\ ((t + d) / second <> t / second + d / second)%Z.
Proof. exact trunc_add_unguarded_refuted. Qed.
Print Assumptions C07_expiry_unguarded_refuted.

(* in the envelope: signing time = the clock truncated to seconds, expiry absent
   for duration 0 and signing time + duration otherwise; the signature algorithm
   is the one bound to the key spec; the payload type is the Notary payload type *)
Theorem C07_expiry : forall i kn a hn an,
  wf i = true -> spec_row (i_ks i) spec_table = Some (kn, a, hn, an) ->
  exists s, o_env (model i) = Some s /\ s_alg s = a /\ s_ctype s = mt_payload /\
            s_time s = (i_now i / second)%Z /\
            s_expiry s = (if (i_dur i =? 0)%Z then None else Some (s_time s + i_dur i / second)%Z).
Proof. exact expiry_and_alg. Qed.
Print Assumptions C07_expiry.

(* what plugins are asked: key-spec name and hash name bound to the key (signature
   generator); the requested duration in seconds (envelope generator) *)
Theorem C07_plugin_requests : forall i kn a hn an,
  wf i = true -> spec_row (i_ks i) spec_table = Some (kn, a, hn, an) ->
  match i_signer i with
  | Local => o_plugsig (model i) = None /\ o_plugenv (model i) = None
  | Plug true _ _ => o_plugsig (model i) = Some (kn, hn)
  | Plug false _ _ => o_plugenv (model i) = Some (i_dur i / second)%Z
  end.
Proof. exact plugin_requests. Qed.
Print Assumptions C07_plugin_requests.

(* what must not happen: a request outside the promise (signer not trusted,
   other digest / size / media type, demanded metadata not signed) does not
   verify, returns no descriptor and no metadata *)
Theorem C07_negative_rejected : forall i kn a hn an,
  wf i = true -> spec_row (i_ks i) spec_table = Some (kn, a, hn, an) ->
  positive i (expected_signed i an) an = false ->
  o_verify (model i) <> 0%N /\ o_ret (model i) = None /\ o_meta (model i) = None.
Proof. exact negative_rejected. Qed.
Print Assumptions C07_negative_rejected.

(* the behaviour before fix a20d301 (VerifyBlob returned the zero descriptor):
   for every well-formed blob input whose verification succeeds ... *)
Theorem C07_blob_descriptor_old : forall i b mt ok vb vmt vok kn a hn an,
  wf i = true -> i_target i = TBlob b mt ok -> i_vtarget i = TBlob vb vmt vok ->
  spec_row (i_ks i) spec_table = Some (kn, a, hn, an) ->
  positive i (expected_signed i an) an = true ->
  o_verify (model_old i) = 0%N /\ o_ret (model_old i) = Some zero_descr.
Proof. exact blob_descriptor_old. Qed.
Print Assumptions C07_blob_descriptor_old.

(* ... and a concrete witness that the oracle rejects it and accepts the code as it is now *)
Theorem C07_blob_descriptor_old_refuted :
  let i := ex_blob [("releasedBy", "me")] in
  wf i = true /\ o_verify (model_old i) = 0%N /\ o_ret (model_old i) = Some zero_descr /\
  spec_ok i (model_old i) = false /\ spec_ok i (model i) = true.
Proof. exact blob_descriptor_old_refuted. Qed.
Print Assumptions C07_blob_descriptor_old_refuted.

(* KNOWN finding (footprint 1): the statement is FALSE for the JWS envelope and
   an OCI descriptor size that float64 cannot represent — the payload carries a
   rounded size and verification fails; with COSE the same input is fine *)
Theorem C07_jws_size_refuted :
  let i := ex_oci mt_jws Local 9007199254740993 in
  legal i = true /\ wf i = false /\ spec_ok i (model i) = false /\
  o_verify (model i) = 2%N /\
  (exists s p, o_env (model i) = Some s /\ s_payload s = Some p /\ d_size p = 9007199254740992%Z) /\
  spec_ok (ex_oci mt_cose Local 9007199254740993) (model (ex_oci mt_cose Local 9007199254740993)) = true.
Proof. exact jws_size_refuted. Qed.
Print Assumptions C07_jws_size_refuted.

Theorem C07_jws_size_plugin_refuted :
  let i := ex_oci mt_jws (Plug false true "RSA-3072") 9007199254740993 in
  legal i = true /\ o_sign (model i) = 3%N.
Proof. exact jws_size_plugin_refuted. Qed.
Print Assumptions C07_jws_size_plugin_refuted.

(* why "legal user metadata" must mean text: bytes that are not valid UTF-8 are
   not read back as given *)
Theorem C07_non_utf8_metadata_refuted :
  let i := ex_blob [("m", B [255%N])] in
  legal i = false /\ o_sign (model i) = 0%N /\ o_verify (model i) = 0%N /\
  o_meta (model i) = Some [("m", B [239%N; 191%N; 189%N])] /\ o_meta (model i) <> Some (i_meta i).
Proof. exact non_utf8_metadata_refuted. Qed.
Print Assumptions C07_non_utf8_metadata_refuted.

(* the property holds of the pipeline over ANY JSON codec with the stated
   round-trip behaviour (what is assumed of encoding/json and of the JWS
   re-encoding) *)
Theorem C07_any_codec :
  forall (bytes : Type) (enc : descr -> bytes) (dec : bytes -> option descr)
         (top_keys tgt_keys : bytes -> list string) (recode : bytes -> bytes),
  (forall d, in_int64 (d_size d) -> dec (enc d) = Some (json_rt d)) ->
  (forall d, top_keys (enc d) = ["targetArtifact"]) ->
  (forall d, tgt_keys (enc d) = present_keys d) ->
  (forall d, recode (enc d) = enc (set_size d (jws_number (d_size d)))) ->
  forall i, wf i = true -> spec_ok i (pipeline bytes enc dec top_keys tgt_keys recode true i) = true.
Proof. exact any_codec_spec_ok. Qed.
Print Assumptions C07_any_codec.

(* JSON carries valid UTF-8 text and maps of it unchanged *)
Theorem C07_json_roundtrip : forall m, safe_map m = true -> rt_map m = m.
Proof. exact rt_map_safe. Qed.
Print Assumptions C07_json_roundtrip.

(* the boolean oracle evaluated on the implementation's observations is met by
   the model on every well-formed input *)
Theorem C07_model_meets_oracle : forall i, wf i = true -> spec_ok i (model i) = true.
Proof. exact model_spec_ok. Qed.
Print Assumptions C07_model_meets_oracle.

(* non-vacuity: concrete well-formed inputs (an OCI descriptor with every extra
   field, signed locally with RSA-3072 into COSE; a blob signed by a signature
   plugin with EC-521) and the model's complete observation for them *)
Example C07_example_oci :
  wf (ex_oci mt_cose Local 528) = true /\
  model (ex_oci mt_cose Local 528)
  = mk_obs 0 None None None
      (Some (mk_sobs PS384 mt_payload ["targetArtifact"] ["annotations"; "digest"; "mediaType"; "size"]
         (Some (mk_descr "application/vnd.oci.image.manifest.v1+json"
                  "sha256:9834876dcfb05cb167a5c24953eba58c4ac89b1adf57f28f2f9d09af107ee8f0" 528 []
                  [("org.opencontainers.image.title", "app"); ("buildId", "42")] "" "" ""))
         1700000000 (Some 1700003600%Z) "notation-go/1.3.0+unreleased"))
      0 None (Some (ex_desc 528)) (Some [("org.opencontainers.image.title", "app"); ("buildId", "42")]).
Proof. exact example_oci. Qed.

Example C07_example_blob :
  wf (ex_blob [("releasedBy", "me")]) = true /\
  model (ex_blob [("releasedBy", "me")])
  = mk_obs 0 (Some "sha512") (Some ("EC-521", "SHA-512")) None
      (Some (mk_sobs ES512 mt_payload ["targetArtifact"] ["annotations"; "digest"; "mediaType"; "size"]
         (Some (mk_descr "text/plain" "sha512:cc" 11 [] [("releasedBy", "me")] "" "" ""))
         1700000000 (Some 1700086400%Z) "notation-go/1.3.0+unreleased vh-plugin/1.2.3"))
      0 (Some "sha512") (Some (mk_descr "text/plain" "sha512:cc" 11 [] [("releasedBy", "me")] "" "" ""))
      (Some [("releasedBy", "me")]).
Proof. exact example_blob. Qed.
