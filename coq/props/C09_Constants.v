From NV Require Import Base Regex Generated C09_Model.
Theorem C09_constants_generated :
  C09_Model.supported_versions = gen_supported_oci_policy_versions /\
  C09_Model.supported_versions = gen_supported_blob_policy_versions /\
  C09_Model.wildcard = gen_wildcard /\ C09_Model.x509_subject = gen_x509_subject.
Proof. repeat split; reflexivity. Qed.
Print Assumptions C09_constants_generated.
