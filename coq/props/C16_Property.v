(* C16 — A plugin name can never reach outside the plugin directory.
   Statements only; every proof is [exact <lemma of C16_Proofs / C16_Path>].
   Quantifiers: every byte string as name, every rooted plugin root (any
   spelling, any depth), every file system, every install source; the effect
   log records every stat, readdir, chmod, exec, RemoveAll, MkdirAll and file
   write the modelled code performs, with the path it is performed on.
     allowed root name = <clean root>/<name>
     withinb a p       = p is a or lies below a
   Further theorems (the rejection clause stated on the computed path, exact
   effect logs, histories of operations, the verifier's fragment in full, what
   is false for Install) are in props/C16_Audit.v; the clause-by-clause audit is
   docs/audit/C16.md. *)
From NV Require Import Base C16_Path C16_Model C16_Proofs.
Open Scope string_scope.

(* the three operations that take a caller-supplied name:
   Get (+GetMetadata of the plugin found), Uninstall, and the verifier's lookup
   of the signature's verificationPlugin attribute *)

(* a name the validation refuses is rejected with an error, and nothing at all
   happens: no stat, no exec, no removal, the file system is the same *)
Theorem C16_rejected : forall i name,
  name_op i name -> valid_name name = false ->
  let r := exec_op i in
  (r_err r = EInvalid \/ r_err r = EEmpty) /\ r_log r = [] /\ r_fs r = world i.
Proof. exact name_op_invalid. Qed.
Print Assumptions C16_rejected.

(* a name the validation accepts is a single path component, and every effect is
   on <root>/<name> or below it; every other path of the file system is untouched *)
Theorem C16_contained : forall i name,
  is_abs (i_root i) = true -> name_op i name -> valid_name name = true ->
  let r := exec_op i in
  let a := allowed (i_root i) name in
  single_component name /\ contains_byte nul name = false
  /\ Forall (fun e => withinb a (eff_path e) = true) (r_log r)
  /\ (forall q, withinb a q = false -> fs_lookup q (r_fs r) = fs_lookup q (world i)).
Proof. exact name_op_valid. Qed.
Print Assumptions C16_contained.

(* the only file ever executed is <root>/<name>/notation-<name> *)
Theorem C16_executes_only_plugin_binary : forall i name p ran,
  is_abs (i_root i) = true -> name_op i name -> valid_name name = true ->
  In (EExec p ran) (r_log (exec_op i)) ->
  p = child_path (allowed (i_root i) name) (bin_name name).
Proof. exact name_op_exec. Qed.
Print Assumptions C16_executes_only_plugin_binary.

(* the validation accepts only single path components ... *)
Theorem C16_validation_sound : forall n,
  valid_name n = true ->
  single_component n /\ contains_byte bslash n = false /\ contains_byte nul n = false.
Proof. exact (fun n => proj1 (valid_name_spec n)). Qed.
Print Assumptions C16_validation_sound.

(* ... and the only single components it refuses contain a backslash or a NUL *)
Theorem C16_validation_residue : forall n,
  single_component n -> valid_name n = false ->
  contains_byte bslash n = true \/ contains_byte nul n = true.
Proof. exact validation_residue. Qed.
Print Assumptions C16_validation_residue.

(* <root>/<name> is a direct child of the clean root whose last component is
   the name, exactly when the name is a single component: nothing unsafe can be
   accepted by any check that admits only single components *)
Theorem C16_characterise : forall root name,
  is_abs root = true ->
  (comps_of (pjoin [root; name]) = (comps_of (clean root) ++ [name])%list
   <-> single_component name).
Proof. exact characterise. Qed.
Print Assumptions C16_characterise.

(* the two paths the manager builds from an accepted name *)
Theorem C16_paths_of_valid_name : forall root name,
  is_abs root = true -> valid_name name = true ->
  pjoin [root; name] = allowed root name
  /\ pjoin [root; pjoin [name; bin_name name]] = child_path (allowed root name) (bin_name name).
Proof. exact (fun root name A V => conj (dir_path root name A V) (bin_path root name A V)). Qed.
Print Assumptions C16_paths_of_valid_name.

(* Install (from a file or from a directory): either nothing but the install
   source was touched and Install failed, or the name is a valid name taken from
   a notation-<name> file of the source and every effect is on the source or on
   <root>/<name>; outside them the file system is unchanged except for missing
   ancestor directories of <root>/<name> created by MkdirAll *)
Theorem C16_install_contained : forall w root src ow,
  is_abs root = true -> src <> "/" ->
  let r := install w root src ow in
  (r_err r <> ENone
   /\ Forall (fun e => withinb src (eff_path e) = true) (r_log r)
   /\ (forall q, withinb src q = true \/ fs_lookup q (r_fs r) = fs_lookup q w))
  \/
  (exists name,
     In name (candidates w src) /\ valid_name name = true /\ r_err r <> EInvalid
     /\ Forall (fun e => withinb src (eff_path e) = true
                         \/ withinb (allowed root name) (eff_path e) = true) (r_log r)
     /\ (forall q, withinb src q = true \/ withinb (allowed root name) q = true
                   \/ fs_lookup q (r_fs r) = fs_lookup q w
                   \/ (fs_lookup q w = None /\ fs_lookup q (r_fs r) = Some NDir
                       /\ In q (prefixes (allowed root name))))).
Proof. exact install_contained_explicit. Qed.
Print Assumptions C16_install_contained.

(* a source without an acceptable name installs nothing and touches nothing
   outside the source (candidates = the offered names the validation accepts;
   stronger, with no execution and no change at all:
   C16_install_rejected_no_effect in props/C16_Audit.v) *)
Theorem C16_install_invalid_name : forall w root src ow,
  is_abs root = true -> src <> "/" ->
  (forall n, In n (candidates w src) -> valid_name n = false) ->
  let r := install w root src ow in
  r_err r <> ENone
  /\ Forall (fun e => withinb src (eff_path e) = true) (r_log r)
  /\ (forall q, withinb src q = true \/ fs_lookup q (r_fs r) = fs_lookup q w).
Proof. exact install_invalid_names. Qed.
Print Assumptions C16_install_invalid_name.

(* listing: exactly the entries of the root that are real directories *)
Theorem C16_list : forall root_exists entries n,
  In n (list_plugins root_exists entries) <-> root_exists = true /\ In (n, KDir) entries.
Proof. exact list_exact. Qed.
Print Assumptions C16_list.

(* the verifier hands the signature-supplied name to the manager through Get
   only (or not at all when it is blank), so C16_rejected / C16_contained cover
   names that have not been authenticated *)
Theorem C16_from_signature : forall name,
  (all_space name = true /\ verify_calls name = [])
  \/ (all_space name = false /\ verify_calls name = [CGet name]).
Proof. exact verify_calls_spec. Qed.
Print Assumptions C16_from_signature.

Theorem C16_verify_is_get : forall w root name,
  all_space name = false ->
  let r := verify_lookup w root name in
  let g := get_meta w root name in
  r_err r = r_err g /\ r_log r = r_log g /\ r_fs r = r_fs g.
Proof. exact verify_lookup_is_get. Qed.
Print Assumptions C16_verify_is_get.

(* the difference the model reports is the difference of the file systems *)
Theorem C16_model_diff_exact : forall i,
  wf i = true ->
  o_removed (model i) = removed (world i) (r_fs (exec_op i))
  /\ o_written (model i) = written (world i) (r_fs (exec_op i)).
Proof. exact model_diff_exact. Qed.
Print Assumptions C16_model_diff_exact.

(* the boolean oracle evaluated on the implementation's observations is met by
   the model on every well-formed input *)
Theorem C16_model_meets_oracle : forall i, wf i = true -> spec_ok i (model i) = true.
Proof. exact model_spec_ok. Qed.
Print Assumptions C16_model_meets_oracle.

(* ---- non-vacuity ---- *)
Definition ex_fs : fs :=
  [("/v", NDir); ("/v/victim", NDir); ("/v/victim/notation-..", NDir);
   ("/v/victim/notation-../victim", NFile true (Some ("../victim", 1%N)));
   ("/v/p", NDir); ("/v/p/good", NDir); ("/v/p/good/notation-good", NFile true (Some ("good", 5%N)))].

(* a traversal name is refused before anything is looked at, although a
   sentinel sits exactly where it would resolve to *)
Example C16_example_rejected :
  let i := mk_input ex_fs [] "/v/p" (OGet "../victim") in
  name_op i "../victim" /\ valid_name "../victim" = false
  /\ pjoin ["/v/p"; pjoin ["../victim"; bin_name "../victim"]] = "/v/victim/notation-../victim"
  /\ stat ex_fs "/v/victim/notation-../victim" = SOk (NFile true (Some ("../victim", 1%N)))
  /\ model i = mk_obs EInvalid MNone [] [] [] [].
Proof. vm_compute. repeat split; auto. Qed.

(* an accepted name: executes <root>/good/notation-good, removes <root>/good *)
Example C16_example_accepted :
  let i := mk_input ex_fs [] "/v/p/" (OGet "good") in
  let j := mk_input ex_fs [] "/v//p" (OUninstall "good") in
  wf i = true /\ valid_name "good" = true
  /\ model i = mk_obs ENone (MOk 5) ["/v/p/good/notation-good"] [] [] []
  /\ model j = mk_obs ENone MNone [] ["/v/p/good"; "/v/p/good/notation-good"] [] [].
Proof. vm_compute. repeat split; auto. Qed.

(* (Install used to run the source file before it examined the derived name;
   since /repo 30cc14e a file whose name part is refused is no plugin executable.
   The full clause for Install and the refutation for the earlier code are in
   props/C16_Audit.v: C16_install_rejected_no_effect, ..._v0_refuted.) *)
Example C16_install_refused_name_nothing_runs :
  let w := [("/s", NDir); ("/s/notation-..", NFile true (Some ("..", 1%N))); ("/p", NDir); ("/p/r", NDir)] in
  install w "/p/r" "/s/notation-.." true = mk_out EOther MNone w [EStat "/s/notation-.."] [].
Proof. vm_compute. reflexivity. Qed.
