(* C01 — Accepted signatures are intact and bound to the artifact being verified.
   Statements only; every proof is [exact <lemma of C01_Proofs>].

   [model i] is what verifier.Verify (call COCI), verifier.VerifyBlob (CBlob)
   and notation.VerifyBlob (CTop) return. The quantifier "forall i" ranges over
   every envelope (its facts as reported by notation-core-go and encoding/json),
   every presented descriptor / descriptor generator / blob, every required
   metadata map, every level and override, and every behaviour of the rest of
   processSignature (trust store, identities, expiry, timestamp, revocation,
   plugins: the inputs i_rest, i_rest_touch).
   [NonSkip lvl ov]: the statement is legal and its level is not skip. *)
From NV Require Import Base C01_Model C01_Proofs.
Open Scope string_scope.

(* OCI: success => the envelope is intact (parses, signature valid over payload and
   signed attributes under its leaf key, Notary payload type), the payload decodes,
   digest, size and media type of the signed target equal those of the descriptor
   under verification, and every required metadata pair is a signed annotation *)
Theorem C01_oci : forall i d, i_call i = COCI d -> NonSkip (i_level i) (i_override i) ->
  o_err (model i) = ENone ->
  Intact (i_env i) /\
  exists t, e_decode (i_env i) = Some t /\
            t_dg t = t_dg d /\ t_sz t = t_sz d /\ t_mt t = t_mt d /\
            (forall k v, In (k, v) (i_md i) -> lookup k (t_ann t) = Some v).
Proof. exact oci_sound. Qed.
Print Assumptions C01_oci.

(* blob (verifier.VerifyBlob): the descriptor is the one the caller's generator
   yields for the digest algorithm of the signature algorithm's hash; digest and
   size always equal, media type whenever the generated descriptor states one *)
Theorem C01_blob : forall i g, i_call i = CBlob g -> NonSkip (i_level i) (i_override i) ->
  o_err (model i) = ENone ->
  Intact (i_env i) /\
  exists t a d, e_decode (i_env i) = Some t /\
            alg_of (e_hash (i_env i)) = Some a /\ run_gen g a = Some d /\
            t_dg t = t_dg d /\ t_sz t = t_sz d /\ (t_mt d <> "" -> t_mt t = t_mt d) /\
            (forall k v, In (k, v) (i_md i) -> lookup k (t_ann t) = Some v).
Proof. exact blob_sound. Qed.
Print Assumptions C01_blob.

(* blob (notation.VerifyBlob): the blob was read completely, the signed digest is the
   digest of the blob under that algorithm, the signed size its length, the signed
   media type the stated content type whenever one is stated; the descriptor
   returned is the signed target *)
Theorem C01_blob_content : forall i b, i_call i = CTop b -> NonSkip (i_level i) (i_override i) ->
  o_err (model i) = ENone ->
  Intact (i_env i) /\
  exists t a, e_decode (i_env i) = Some t /\
            alg_of (e_hash (i_env i)) = Some a /\ b_read_ok b = true /\
            t_dg t = digest_of b a /\ t_sz t = b_size b /\ (b_mt b <> "" -> t_mt t = b_mt b) /\
            (forall k v, In (k, v) (i_md i) -> lookup k (t_ann t) = Some v) /\
            o_desc (model i) = Some t.
Proof. exact top_sound. Qed.
Print Assumptions C01_blob_content.

(* success is exactly: intact, the rest of processSignature passes, arguments fine,
   payload decodes, bound, metadata present — so neither check's failure can be
   overwritten by the other's success *)
Theorem C01_success_iff : forall i, NonSkip (i_level i) (i_override i) ->
  (o_err (model i) = ENone <->
   Intact (i_env i) /\ i_rest i = true /\ args_ok (i_call i) (i_md i) = true /\
   exists t, e_decode (i_env i) = Some t /\ Bound (i_call i) (i_env i) t /\ MdPresent (i_md i) t).
Proof. exact success_iff. Qed.
Print Assumptions C01_success_iff.

(* the error that is returned when both post-checks are reached: a descriptor
   mismatch survives a passing metadata check *)
Theorem C01_error_sticks : forall i d t, i_call i = COCI d -> NonSkip (i_level i) (i_override i) ->
  Intact (i_env i) -> i_rest i = true -> e_decode (i_env i) = Some t ->
  o_err (model i) =
    (if md_ok t (i_md i) then (if desc_equal t d then ENone else EMismatch) else EMetadata).
Proof. exact mismatch_sticks. Qed.
Print Assumptions C01_error_sticks.

Theorem C01_error_sticks_blob : forall i g t a d, i_call i = CBlob g -> NonSkip (i_level i) (i_override i) ->
  Intact (i_env i) -> i_rest i = true -> e_decode (i_env i) = Some t ->
  alg_of (e_hash (i_env i)) = Some a -> run_gen g a = Some d ->
  o_err (model i) =
    (if md_ok t (i_md i) then (if blob_mismatch d t then EMismatch else ENone) else EMetadata).
Proof. exact blob_mismatch_sticks. Qed.
Print Assumptions C01_error_sticks_blob.

(* integrity comes first: an envelope that is not intact is rejected with the
   integrity error, without consulting trust store, revocation validator or plugin
   manager, and without exposing an envelope content *)
Theorem C01_integrity_first : forall i, NonSkip (i_level i) (i_override i) -> ~ Intact (i_env i) ->
  o_err (model i) <> ENone /\ o_touched (model i) = false /\
  (forall c, o_out (model i) = Some (o_err (model i), c) -> c = 0%N) /\
  (forall d, i_call i = COCI d -> exists k, o_err (model i) = EIntegrity k) /\
  (forall g, i_call i = CBlob g -> exists k, o_err (model i) = EIntegrity k).
Proof. exact integrity_first. Qed.
Print Assumptions C01_integrity_first.

(* no choice of level, override, trust store, identities, revocation or plugin
   turns a tampered envelope, a signature for another artifact or a missing
   metadata pair into a success: only the level literally named "skip", without
   override, does *)
Theorem C01_no_configuration_helps : forall i lvl ov rest touch,
  ~ (Intact (i_env i) /\
     exists t, e_decode (i_env i) = Some t /\ Bound (i_call i) (i_env i) t /\ MdPresent (i_md i) t) ->
  o_err (model (reconfig i lvl ov rest touch)) = ENone ->
  lvl = "skip" /\ ov = [].
Proof. exact no_configuration_helps_strong. Qed.
Print Assumptions C01_no_configuration_helps.

(* the three named ways of being wrong, one by one: whatever the level (other than
   skip), the override, and the outcome of trust store / identity / expiry /
   timestamp / revocation / plugin checks (rest, touch) *)

(* a tampered envelope: unparsable, signature not valid over payload and signed
   attributes under the key of its leaf certificate, or not a Notary payload *)
Theorem C01_tampered_rejected : forall i lvl ov rest touch, lvl <> "skip" ->
  (e_parse (i_env i) = false \/ e_verify (i_env i) <> VOk \/ e_ctype (i_env i) <> media_type_payload_v1) ->
  o_err (model (reconfig i lvl ov rest touch)) <> ENone.
Proof. exact tampered_rejected. Qed.
Print Assumptions C01_tampered_rejected.

(* a signature made for a different artifact: the signed target t is not the
   artifact presented in the call (OCI: digest, size or media type differ; blob:
   digest under the signature's algorithm or size differ, or the stated media type) *)
Theorem C01_other_artifact_rejected : forall i lvl ov rest touch t, lvl <> "skip" ->
  e_decode (i_env i) = Some t -> ~ Bound (i_call i) (i_env i) t ->
  o_err (model (reconfig i lvl ov rest touch)) <> ENone.
Proof. exact other_artifact_rejected. Qed.
Print Assumptions C01_other_artifact_rejected.

(* a required metadata pair that is not a signed annotation (absent key or other value) *)
Theorem C01_missing_metadata_rejected : forall i lvl ov rest touch k v, lvl <> "skip" ->
  In (k, v) (i_md i) ->
  (forall t, e_decode (i_env i) = Some t -> lookup k (t_ann t) <> Some v) ->
  o_err (model (reconfig i lvl ov rest touch)) <> ENone.
Proof. exact missing_metadata_rejected. Qed.
Print Assumptions C01_missing_metadata_rejected.

(* every success, without any hypothesis on the statement: it is the skip level
   (named "skip", no override), or the statement is legal, not skip, and the
   envelope is accepted on its merits *)
Theorem C01_success_cases : forall i, o_err (model i) = ENone ->
  (i_level i = "skip" /\ i_override i = []) \/
  (NonSkip (i_level i) (i_override i) /\
   Intact (i_env i) /\ i_rest i = true /\ args_ok (i_call i) (i_md i) = true /\
   exists t, e_decode (i_env i) = Some t /\ Bound (i_call i) (i_env i) t /\ MdPresent (i_md i) t).
Proof. exact success_cases. Qed.
Print Assumptions C01_success_cases.

(* a statement that is not legal (unknown level, override of integrity, skip of
   anything but revocation, override on skip) yields no verifier at all *)
Theorem C01_illegal_statement : forall i, get_level (i_level i) (i_override i) = None ->
  model i = mk_o EPolicy None "" None false.
Proof. exact illegal_statement. Qed.
Print Assumptions C01_illegal_statement.

(* the skip level claims nothing: nothing is consulted, there is no integrity
   result, no envelope content is exposed, notation.VerifyBlob returns the zero descriptor *)
Theorem C01_skip_verifies_nothing : forall i, i_level i = "skip" -> i_override i = [] ->
  o_touched (model i) = false /\ o_iact (model i) = "" /\
  (forall e c, o_out (model i) = Some (e, c) -> e = ENone /\ c = 0%N) /\
  (forall t, o_desc (model i) = Some t -> t = zero_target).
Proof. exact skip_verifies_nothing. Qed.
Print Assumptions C01_skip_verifies_nothing.

(* notation.VerifyBlob: the error that is returned when both post-checks are reached *)
Theorem C01_error_sticks_blob_content : forall i b t a ann, i_call i = CTop b -> NonSkip (i_level i) (i_override i) ->
  args_ok (CTop b) (i_md i) = true -> b_read_ok b = true -> add_user_metadata [] (i_md i) = Some ann ->
  Intact (i_env i) -> i_rest i = true -> e_decode (i_env i) = Some t ->
  alg_of (e_hash (i_env i)) = Some a ->
  o_err (model i) =
    (if md_ok t (i_md i)
     then (if blob_mismatch (mk_t (b_mt b) (digest_of b a) (b_size b) ann) t then EMismatch else ENone)
     else EMetadata).
Proof. exact top_mismatch_sticks. Qed.
Print Assumptions C01_error_sticks_blob_content.

(* in every legal level other than skip (the generated level table of
   trustpolicy.go plus any legal override) integrity is enforced *)
Theorem C01_integrity_enforced : forall lvl ov l,
  get_level lvl ov = Some l -> is_skip l = false ->
  lookup_default "integrity" (snd l) = "enforce".
Proof. exact integrity_enforced. Qed.
Print Assumptions C01_integrity_enforced.

(* verification is skipped only for the level named skip *)
Theorem C01_skip_iff_named : forall lvl ov l, get_level lvl ov = Some l ->
  (is_skip l = true <-> lvl = "skip").
Proof. exact skip_iff_named. Qed.
Print Assumptions C01_skip_iff_named.

(* the outcome handed back carries the returned error, the enforced integrity
   result, and on success the verified payload *)
Theorem C01_outcome_consistent : forall i e c, NonSkip (i_level i) (i_override i) ->
  o_out (model i) = Some (e, c) ->
  e = o_err (model i) /\ o_iact (model i) = "enforce" /\ (o_err (model i) = ENone -> c = 1%N).
Proof. exact outcome_consistent. Qed.
Print Assumptions C01_outcome_consistent.

(* the boolean oracle evaluated on the implementation's observations is met by the model *)
Theorem C01_model_meets_oracle : forall i, wf i = true -> spec_ok i (model i) = true.
Proof. exact model_spec_ok. Qed.
Print Assumptions C01_model_meets_oracle.

(* ---------- non-vacuity ---------- *)
Definition ex_target : target :=
  mk_t "application/vnd.oci.image.manifest.v1+json" "sha256:aa" 528 [("k1", "v1"); ("k2", "v2")].
Definition ex_env : envfacts := mk_e true VOk media_type_payload_v1 (Some ex_target) H384.
Definition ex_desc : target := mk_t "application/vnd.oci.image.manifest.v1+json" "sha256:aa" 528 [].

(* a custom non-skip level; accepted *)
Example C01_example_accept :
  let i := mk_in "permissive" [("revocation", "skip")] ex_env true true [("k1", "v1")] (COCI ex_desc) in
  NonSkip (i_level i) (i_override i) /\ o_err (model i) = ENone.
Proof. split; [exists ("custom", [("revocation", "skip"); ("integrity", "enforce"); ("authenticity", "enforce"); ("authenticTimestamp", "log"); ("expiry", "log")]); split; reflexivity | reflexivity]. Qed.

(* descriptor differs in the size only, required metadata present: the mismatch is reported *)
Example C01_example_mismatch_with_metadata :
  let i := mk_in "audit" [] ex_env true true [("k1", "v1")]
             (COCI (mk_t "application/vnd.oci.image.manifest.v1+json" "sha256:aa" 529 [])) in
  NonSkip (i_level i) (i_override i) /\ o_err (model i) = EMismatch.
Proof. split; [eexists; split; reflexivity | reflexivity]. Qed.

(* blob: the generator is asked with the algorithm of the signature (sha384 here); a
   descriptor that would only match under sha256 does not help *)
Example C01_example_blob_algorithm :
  let good := Some (mk_t "" "sha256:aa" 528 []) in
  let bad := Some (mk_t "" "sha384:bb" 528 []) in
  let i := mk_in "strict" [] ex_env true true [] (CBlob (mk_g good bad good)) in
  NonSkip (i_level i) (i_override i) /\ o_err (model i) = EMismatch.
Proof. split; [eexists; split; reflexivity | reflexivity]. Qed.

(* tampered envelope under the most permissive legal level, everything else fine *)
Example C01_example_tampered :
  let i := mk_in "audit" [("revocation", "skip")] (mk_e true VSig media_type_payload_v1 (Some ex_target) H256)
             true true [] (COCI ex_desc) in
  NonSkip (i_level i) (i_override i) /\ model i = mk_o (EIntegrity ISig) (Some (EIntegrity ISig, 0%N)) "enforce" None false.
Proof. split; [eexists; split; reflexivity | reflexivity]. Qed.

(* verifier.VerifyBlob accepts: sha384 signature, the generator's sha384 descriptor
   matches, no media type stated, one pair required and present *)
Example C01_example_blob_accept :
  let d := Some (mk_t "" "sha256:aa" 528 []) in
  let bad := Some (mk_t "" "sha256:bb" 528 []) in
  let i := mk_in "audit" [] ex_env true true [("k2", "v2")] (CBlob (mk_g bad d bad)) in
  NonSkip (i_level i) (i_override i) /\ o_err (model i) = ENone.
Proof. split; [eexists; split; reflexivity | reflexivity]. Qed.

Definition ex_blob : blobin :=
  mk_b false "application/vnd.oci.image.manifest.v1+json" true media_type_cose true 528 "sha256:zz" "sha256:aa" "sha512:zz".

(* notation.VerifyBlob accepts and returns the signed target; the same blob with a
   reserved metadata key, a failing reader or another content type is refused *)
Example C01_example_blob_content_accept :
  let i := mk_in "strict" [] ex_env true true [("k1", "v1")] (CTop ex_blob) in
  NonSkip (i_level i) (i_override i) /\ args_ok (i_call i) (i_md i) = true /\
  o_err (model i) = ENone /\ o_desc (model i) = Some ex_target.
Proof. split; [eexists; split; reflexivity | repeat split; reflexivity]. Qed.

Example C01_example_blob_content_mediatype :
  let b := mk_b false "text/plain" true media_type_cose true 528 "sha256:zz" "sha256:aa" "sha512:zz" in
  let i := mk_in "strict" [] ex_env true true [("k1", "v1")] (CTop b) in
  NonSkip (i_level i) (i_override i) /\ o_err (model i) = EMismatch.
Proof. split; [eexists; split; reflexivity | reflexivity]. Qed.

(* a required pair with an empty value is not satisfied by an absent key, nor by another value *)
Example C01_example_missing_metadata :
  let i := mk_in "audit" [("revocation", "skip")] ex_env true true [("k1", "v1"); ("k3", "")] (COCI ex_desc) in
  NonSkip (i_level i) (i_override i) /\ o_err (model i) = EMetadata /\
  In ("k3", "") (i_md i) /\ (forall t, e_decode (i_env i) = Some t -> lookup "k3" (t_ann t) <> Some "").
Proof.
  split; [eexists; split; reflexivity|]. split; [reflexivity|]. split; [right; left; reflexivity|].
  intros t H. inversion H; subst. discriminate.
Qed.

(* the premises of C01_no_configuration_helps are satisfiable: the tampered envelope IS let
   through by the skip level — with no envelope content exposed *)
Example C01_example_skip :
  let i := mk_in "strict" [] (mk_e true VSig media_type_payload_v1 (Some ex_target) H256) true true [] (COCI ex_desc) in
  ~ Intact (i_env i) /\ model (reconfig i "skip" [] false false) = mk_o ENone (Some (ENone, 0%N)) "" None false.
Proof. split; [intros [_ [C _]]; discriminate | reflexivity]. Qed.

(* statements that are not legal *)
Example C01_example_illegal :
  get_level "strict" [("integrity", "log")] = None /\ get_level "skip" [("revocation", "log")] = None /\
  get_level "audit" [("expiry", "skip")] = None /\ get_level "lenient" [] = None.
Proof. repeat split; reflexivity. Qed.
