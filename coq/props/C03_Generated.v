(* C03_Generated.v — the code's own functions, as translated by GoLite (theories/C03_Gen.v,
   regenerated from /repo by `vh-gen` on every run, docs/GOLITE.md; targets in
   harness/cmd/vh-gen/targets_c03.go), against the hand-written C03 model (C03_Model.v), and
   the theorems of C03_Property.v / C03_WithC08.v transported onto them.
   Statements only; the proofs are in theories/C03_GenProofs.v. Table: docs/audit/C03.md, "GoLite".

   Every theorem quantifies over ALL inputs of the generated function: every trust-store list
   (any length, duplicates, malformed values), every policy document, every reference string.
   Reading:
     store               the trust store (interface truststore.X509TrustStore) is a FUNCTION
                         (type, name) -> (certificates, error) handed to the generated code;
                         certificates are an opaque type, instantiated with the model's
                         certificate identities (N)
     store_agrees st fs  the function answers like the model's trust store [fs]
     load_rel st acc m r the Go result r is the model verdict m (certificates appended to acc and
                         no error / the format error / the error the store returned)
     fs_of st ty l       the model's trust store read off the function at the stores of type ty
                         that l lists (so that NO hypothesis about the function is needed)
     type_for scheme ty  ty is the store type of the signing scheme ("notary.x509" -> "ca",
                         "notary.x509.signingAuthority" -> "signingAuthority")
     m8_of_oci / m8_of_blob, tr g, enc g   a generated statement as a statement of the C03 model,
                         exactly as C03_WithC08 renders C08's statements; g gives the two fields
                         derived from signatureVerification (C02/C09 own that derivation)
   Oracles: the trust store function, pkix.ParseDistinguishedName [parse], Subject.String() of a
   certificate [subject]; core's signature.VerifyAuthenticity would be one, but verifyAuthenticity
   itself is outside the GoLite subset (see the audit). Hypotheses about oracles appear only in the
   theorems that mention [store_agrees]. *)
From Coq Require Import List Bool String Ascii NArith ZArith.
From NV Require Import Base GoLib C03_Model C03_Proofs C03_Audit C03_WithC08 C03_Gen C03_GenProofs.
Import ListNotations.
Local Open Scope string_scope.
Local Open Scope list_scope.

(* ---------- the loading loop = the model's [load] ---------- *)

Theorem C03_gen_loadX509TrustStoresWithType_equiv :
  forall store fs, store_agrees store fs ->
  forall ty policy stores,
    load_rel store [] (fst (load fs ty stores []))
             (gen_verifier_loadX509TrustStoresWithType N ty policy stores store).
Proof. exact gen_load_with_type. Qed.
Print Assumptions C03_gen_loadX509TrustStoresWithType_equiv.

(* loadX509TrustStores: the store type is decided by the signing scheme; any other scheme fails
   without asking the store *)
Theorem C03_gen_loadX509TrustStores_equiv :
  forall store scheme policy stores,
    match store_type_of (scheme_of scheme) with
    | Some ty => gen_verifier_loadX509TrustStores N scheme policy stores store
                 = gen_verifier_loadX509TrustStoresWithType N ty policy stores store
    | None => exists e, gen_verifier_loadX509TrustStores N scheme policy stores store = ([], Some e)
                        /\ err_typ e = "truststore.TrustStoreError"
    end.
Proof. exact gen_load_scheme. Qed.
Print Assumptions C03_gen_loadX509TrustStores_equiv.

Theorem C03_gen_loadX509TSATrustStores_equiv :
  forall store scheme policy stores,
    if String.eqb scheme "notary.x509"
    then gen_verifier_loadX509TSATrustStores N scheme policy stores store
         = gen_verifier_loadX509TrustStoresWithType N ty_tsa policy stores store
    else exists e, gen_verifier_loadX509TSATrustStores N scheme policy stores store = ([], Some e)
                   /\ err_typ e = "truststore.TrustStoreError".
Proof. exact gen_load_tsa. Qed.
Print Assumptions C03_gen_loadX509TSATrustStores_equiv.

Theorem C03_gen_isTSATrustStoreInPolicy_equiv :
  forall policy stores,
    match tsa_in_policy stores with
    | Some b => gen_verifier_isTSATrustStoreInPolicy policy stores = (b, None)
    | None => exists e, gen_verifier_isTSATrustStoreInPolicy policy stores = (false, Some e)
                        /\ err_typ e = "truststore.TrustStoreError"
    end.
Proof. exact gen_tsa_in_policy. Qed.
Print Assumptions C03_gen_isTSATrustStoreInPolicy_equiv.

(* ---------- for EVERY trust store function (no hypothesis about the oracle) ---------- *)

(* the generated loading is the model's [load] on the trust store read off the function *)
Theorem C03_gen_load_any_store : forall (store : tstore) ty policy stores,
  load_rel store [] (fst (load (fs_of store ty stores) ty stores []))
           (gen_verifier_loadX509TrustStoresWithType N ty policy stores store).
Proof. exact gen_load_any_store. Qed.
Print Assumptions C03_gen_load_any_store.

(* C03_sound's loading half: every certificate the loop returns is held by a LISTED store of the
   WANTED type that the trust store delivered without error *)
Theorem C03_gen_load_sound : forall (store : tstore) ty policy stores certs c,
  gen_verifier_loadX509TrustStoresWithType N ty policy stores store = (certs, None) -> In c certs ->
  exists name l, In (store_value ty name) stores /\ store ty name = (l, None) /\ In c l.
Proof. exact gen_load_sound. Qed.
Print Assumptions C03_gen_load_sound.

(* C03_load_error_never_passes: a listed store of the wanted type that cannot be loaded makes the
   loading fail (no certificate is returned), wherever it stands in the list *)
Theorem C03_gen_load_error : forall (store : tstore) ty policy stores name cs e,
  contains_byte colon ty = false ->
  In (store_value ty name) stores -> store ty name = (cs, Some e) ->
  exists e', gen_verifier_loadX509TrustStoresWithType N ty policy stores store = ([], Some e').
Proof. exact gen_load_error. Qed.
Print Assumptions C03_gen_load_error.

(* C03_fs_noninterference: the loading depends on the trust store only at the listed stores of
   the wanted type *)
Theorem C03_gen_load_frame : forall (store store' : tstore) ty policy stores,
  (forall name, In (store_value ty name) stores -> store ty name = store' ty name) ->
  gen_verifier_loadX509TrustStoresWithType N ty policy stores store
  = gen_verifier_loadX509TrustStoresWithType N ty policy stores store'.
Proof. exact gen_load_frame. Qed.
Print Assumptions C03_gen_load_frame.

(* the three through loadX509TrustStores (what processSignature calls): the type is the scheme's *)
Theorem C03_gen_trust_sound : forall (store : tstore) scheme policy stores certs c,
  gen_verifier_loadX509TrustStores N scheme policy stores store = (certs, None) -> In c certs ->
  exists ty name l, type_for scheme ty /\ In (store_value ty name) stores /\
                    store ty name = (l, None) /\ In c l.
Proof. exact gen_trust_sound. Qed.
Print Assumptions C03_gen_trust_sound.

Theorem C03_gen_trust_error : forall (store : tstore) scheme policy stores ty name cs e,
  type_for scheme ty -> In (store_value ty name) stores -> store ty name = (cs, Some e) ->
  exists e', gen_verifier_loadX509TrustStores N scheme policy stores store = ([], Some e').
Proof. exact gen_trust_error. Qed.
Print Assumptions C03_gen_trust_error.

Theorem C03_gen_trust_frame : forall (store store' : tstore) scheme policy stores,
  (forall ty name, type_for scheme ty -> In (store_value ty name) stores -> store ty name = store' ty name) ->
  gen_verifier_loadX509TrustStores N scheme policy stores store
  = gen_verifier_loadX509TrustStores N scheme policy stores store'.
Proof. exact gen_trust_frame. Qed.
Print Assumptions C03_gen_trust_frame.

(* tsa stores: loaded only under notary.x509 and only from listed stores of type tsa *)
Theorem C03_gen_tsa_sound : forall (store : tstore) scheme policy stores certs c,
  gen_verifier_loadX509TSATrustStores N scheme policy stores store = (certs, None) -> In c certs ->
  scheme = "notary.x509" /\
  exists name l, In (store_value ty_tsa name) stores /\ store ty_tsa name = (l, None) /\ In c l.
Proof. exact gen_tsa_sound. Qed.
Print Assumptions C03_gen_tsa_sound.

(* the model's [auth_stage] up to the call of core's VerifyAuthenticity: its failure classes are
   the failures of the generated loading, and the certificates it hands to [verify_authenticity]
   are the certificates the generated loading returns *)
Theorem C03_gen_auth_stage_trust : forall (store : tstore) fs, store_agrees store fs ->
  forall scheme policy stores chain,
    let g := gen_verifier_loadX509TrustStores N scheme policy stores store in
    match store_type_of (scheme_of scheme) with
    | None => fst (auth_stage (scheme_of scheme) fs chain stores) = AScheme /\ exists e, g = ([], Some e)
    | Some ty =>
        match fst (load fs ty stores []) with
        | LOk certs => g = (certs, None)
                       /\ fst (auth_stage (scheme_of scheme) fs chain stores) = verify_authenticity certs chain
        | LErrLoad t n => fst (auth_stage (scheme_of scheme) fs chain stores) = ALoad t n
                          /\ exists cs e, store t n = (cs, Some e) /\ g = ([], Some e)
        | LErrFormat s => fst (auth_stage (scheme_of scheme) fs chain stores) = AFormat s
                          /\ g = ([], Some format_err)
        end
    end.
Proof. exact gen_auth_stage_trust. Qed.
Print Assumptions C03_gen_auth_stage_trust.

(* ---------- isCriticalFailure: what ends the verification ---------- *)

Theorem C03_gen_isCriticalFailure_spec : forall r,
  gen_verifier_isCriticalFailure r =
  match ptr_val r with
  | None => None      (* nil result: run-time panic *)
  | Some v => Some (String.eqb (ValidationResult_Action v) "enforce" && negb (is_none (ValidationResult_Error v)))
  end.
Proof. exact gen_is_critical_spec. Qed.
Print Assumptions C03_gen_isCriticalFailure_spec.

(* C03_stop_iff: on the authenticity result processSignature builds (action of the statement's
   level, error nil exactly on a pass) isCriticalFailure is the model's stop bit *)
Theorem C03_gen_isCriticalFailure_stop : forall i st r v,
  select (i_policy i) (i_repo i) = Some st -> st_action st <> SkipLevel ->
  ptr_val r = Some v ->
  ValidationResult_Action v = action_str (st_action st) ->
  is_none (ValidationResult_Error v)
  = is_pass (fst (auth_stage (i_scheme i) (i_fs i) (i_chain i) (st_stores st))) ->
  gen_verifier_isCriticalFailure r = Some (o_stop (model i)).
Proof. exact gen_is_critical_stop. Qed.
Print Assumptions C03_gen_isCriticalFailure_stop.

(* ---------- which statement's trust store list is used ---------- *)

(* getArtifactPathFromReference never panics; [i_repo] of the model is the text before the LAST
   '@' (C08_Model.last_at), handed out iff validateRegistryScopeFormat accepts it *)
Theorem C03_gen_getArtifactPathFromReference_spec : forall ref,
  match M8.last_at ref with
  | None => exists e, gen_trustpolicy_getArtifactPathFromReference ref = Some ("", Some e)
  | Some p =>
      gen_trustpolicy_getArtifactPathFromReference ref =
      match gen_trustpolicy_validateRegistryScopeFormat p with
      | Some e => Some ("", Some e)
      | None => Some (p, None)
      end
  end.
Proof. exact gen_artifact_path. Qed.
Print Assumptions C03_gen_getArtifactPathFromReference_spec.

(* OCIDocument.GetApplicableTrustPolicy = the model's [select] on the artifact path: never panics;
   it hands out a clone of the statement [select] picks, an error when [select] picks none *)
Theorem C03_gen_OCI_GetApplicableTrustPolicy_equiv : forall g d ref,
  match M8.last_at ref with
  | None => exists e, gen_trustpolicy_OCIDocument_GetApplicableTrustPolicy d ref = Some (PNil, Some e)
  | Some path =>
      match gen_trustpolicy_validateRegistryScopeFormat path with
      | Some e => gen_trustpolicy_OCIDocument_GetApplicableTrustPolicy d ref = Some (PNil, Some e)
      | None => exists r, gen_trustpolicy_OCIDocument_GetApplicableTrustPolicy d ref = Some r
                  /\ oci_sel_rel g (OCIDocument_TrustPolicies d) r
                       (select (map (tr g) (map m8_of_oci (OCIDocument_TrustPolicies d))) path)
      end
  end.
Proof. exact gen_oci_select. Qed.
Print Assumptions C03_gen_OCI_GetApplicableTrustPolicy_equiv.

(* the clones that are handed out keep name, trust stores, identities (and scopes / global flag) *)
Theorem C03_gen_clone_keeps_stores :
  (forall p, exists c, gen_trustpolicy_OCITrustPolicy_clone p = PNew c
     /\ OCITrustPolicy_Name c = OCITrustPolicy_Name p
     /\ OCITrustPolicy_TrustStores c = OCITrustPolicy_TrustStores p
     /\ OCITrustPolicy_TrustedIdentities c = OCITrustPolicy_TrustedIdentities p
     /\ OCITrustPolicy_RegistryScopes c = OCITrustPolicy_RegistryScopes p)
  /\ (forall p, exists c, gen_trustpolicy_BlobTrustPolicy_clone p = PNew c
     /\ BlobTrustPolicy_Name c = BlobTrustPolicy_Name p
     /\ BlobTrustPolicy_TrustStores c = BlobTrustPolicy_TrustStores p
     /\ BlobTrustPolicy_TrustedIdentities c = BlobTrustPolicy_TrustedIdentities p
     /\ BlobTrustPolicy_GlobalPolicy c = BlobTrustPolicy_GlobalPolicy p).
Proof. split; [exact oci_clone_new|exact blob_clone_new]. Qed.
Print Assumptions C03_gen_clone_keeps_stores.

(* C03_verify_sound on the code's own functions (selection composed with loading): the
   certificates handed to the authenticity check of Verify come only from stores that the
   statement [select] picks lists, of the scheme's type - for every trust store function *)
Theorem C03_gen_verify_trust : forall g d ref c scheme (store : tstore) certs x,
  gen_trustpolicy_OCIDocument_GetApplicableTrustPolicy d ref = Some (PNew c, None) ->
  gen_verifier_loadX509TrustStores N scheme (OCITrustPolicy_Name c) (OCITrustPolicy_TrustStores c) store
  = (certs, None) -> In x certs ->
  exists path p ty name l,
    M8.last_at ref = Some path /\ In p (OCIDocument_TrustPolicies d) /\
    select (map (tr g) (map m8_of_oci (OCIDocument_TrustPolicies d))) path = Some (tr g (m8_of_oci p)) /\
    type_for scheme ty /\ In (store_value ty name) (OCITrustPolicy_TrustStores p) /\
    store ty name = (l, None) /\ In x l.
Proof. exact gen_verify_trust. Qed.
Print Assumptions C03_gen_verify_trust.

(* BlobDocument.GetApplicableTrustPolicy: blank name -> error; else the FIRST statement of that
   name (cloned), an error if there is none. GetGlobalTrustPolicy: the first global statement *)
Theorem C03_gen_Blob_GetApplicableTrustPolicy_spec : forall d n,
  gen_trustpolicy_BlobDocument_GetApplicableTrustPolicy d n =
  if String.eqb (str_trim_space n) ""
  then (PNil, Some (Err "errors" "policy name cannot be empty" []))
  else blob_found (find (name_isb n) (BlobDocument_TrustPolicies d))
                  (Err "fmt" "no applicable blob trust policy with name %q" []).
Proof. exact gen_blob_by_name. Qed.
Print Assumptions C03_gen_Blob_GetApplicableTrustPolicy_spec.

Theorem C03_gen_Blob_GetGlobalTrustPolicy_spec : forall d,
  gen_trustpolicy_BlobDocument_GetGlobalTrustPolicy d =
  blob_found (find BlobTrustPolicy_GlobalPolicy (BlobDocument_TrustPolicies d))
             (Err "fmt" "no global blob trust policy" []).
Proof. exact gen_blob_global. Qed.
Print Assumptions C03_gen_Blob_GetGlobalTrustPolicy_spec.

(* C03_verifyblob_named_selects / _global_selects on the code's own functions: on documents
   BlobDocument.Validate accepts (unique names, at most one global statement) without statements
   named "*" / "", what is handed out is what [select] picks on the rendering of C03_WithC08 *)
Theorem C03_gen_blob_select_name : forall g d n,
  String.eqb (str_trim_space n) "" = false ->
  M8.names_unique (map m8_of_blob (BlobDocument_TrustPolicies d)) = true ->
  (forall p, In p (BlobDocument_TrustPolicies d) -> BlobTrustPolicy_Name p <> wildcard) ->
  blob_sel_rel g false (BlobDocument_TrustPolicies d)
    (gen_trustpolicy_BlobDocument_GetApplicableTrustPolicy d n)
    (select (map (enc g false) (map m8_of_blob (BlobDocument_TrustPolicies d))) n).
Proof. exact gen_blob_select_name. Qed.
Print Assumptions C03_gen_blob_select_name.

Theorem C03_gen_blob_select_global : forall g d,
  M8.global_unique (map m8_of_blob (BlobDocument_TrustPolicies d)) = true ->
  (forall p, In p (BlobDocument_TrustPolicies d) ->
             BlobTrustPolicy_Name p <> wildcard /\ BlobTrustPolicy_Name p <> "") ->
  blob_sel_rel g true (BlobDocument_TrustPolicies d)
    (gen_trustpolicy_BlobDocument_GetGlobalTrustPolicy d)
    (select (map (enc g true) (map m8_of_blob (BlobDocument_TrustPolicies d))) "").
Proof. exact gen_blob_select_global. Qed.
Print Assumptions C03_gen_blob_select_global.

(* VerifyBlob: the certificates handed to the authenticity check come only from stores listed by
   the statement handed out, of the scheme's type *)
Theorem C03_gen_verifyblob_trust :
  forall d (r : ptr trustpolicy_BlobTrustPolicy * option err) c scheme (store : tstore) certs x,
  (exists n, r = gen_trustpolicy_BlobDocument_GetApplicableTrustPolicy d n)
  \/ r = gen_trustpolicy_BlobDocument_GetGlobalTrustPolicy d ->
  r = (PNew c, None) ->
  gen_verifier_loadX509TrustStores N scheme (BlobTrustPolicy_Name c) (BlobTrustPolicy_TrustStores c) store
  = (certs, None) -> In x certs ->
  exists p ty name l,
    In p (BlobDocument_TrustPolicies d) /\ BlobTrustPolicy_Name p = BlobTrustPolicy_Name c /\
    type_for scheme ty /\ In (store_value ty name) (BlobTrustPolicy_TrustStores p) /\
    store ty name = (l, None) /\ In x l.
Proof. exact gen_verifyblob_trust. Qed.
Print Assumptions C03_gen_verifyblob_trust.

(* ---------- verifyX509TrustedIdentities (the step that may overwrite the authenticity error) ---------- *)

(* the identity "*" accepts every chain for every parser and every certificate type: the driver's
   assumption "identities * => the identity step does not touch the authenticity result" *)
Theorem C03_gen_identities_wildcard : forall Cert parse subject policy ids (certs : list Cert),
  mem_str "*" ids = true ->
  gen_verifier_verifyX509TrustedIdentities Cert parse subject policy ids certs = Some None.
Proof. exact gen_identities_wildcard. Qed.
Print Assumptions C03_gen_identities_wildcard.

(* a nil result has a witness: "*" is listed, or a listed identity x509.subject:<v> with v <> ""
   parses to a DN that IsSubsetDN finds in the parsed subject of the LEAF certificate *)
Theorem C03_gen_identities_nil_witness : forall Cert parse subject policy ids (certs : list Cert),
  gen_verifier_verifyX509TrustedIdentities Cert parse subject policy ids certs = Some None ->
  mem_str "*" ids = true \/ id_witness Cert parse subject ids [] certs.
Proof. exact gen_identities_nil_witness. Qed.
Print Assumptions C03_gen_identities_nil_witness.

(* ---------- the hypotheses are satisfiable by a non-trivial input ---------- *)

(* Verify: the statement scoped to the repository wins over "*"; ca:good is listed twice and
   loaded once; tsa:good / signingAuthority:good are listed and not asked under notary.x509 *)
Example C03_gen_example_verify :
  exists c, gen_trustpolicy_OCIDocument_GetApplicableTrustPolicy gx_doc "reg.example/repo@sha256:00" = Some (PNew c, None)
    /\ OCITrustPolicy_Name c = "exact"
    /\ gen_verifier_loadX509TrustStores N "notary.x509" (OCITrustPolicy_Name c) (OCITrustPolicy_TrustStores c) gx_store
       = ([7%N; 8%N], None)
    /\ gen_verifier_loadX509TrustStores N "notary.x509.signingAuthority" (OCITrustPolicy_Name c) (OCITrustPolicy_TrustStores c) gx_store
       = ([9%N], None)
    /\ gen_verifier_loadX509TSATrustStores N "notary.x509" (OCITrustPolicy_Name c) (OCITrustPolicy_TrustStores c) gx_store
       = ([9%N], None).
Proof. eexists. vm_compute. repeat split. Qed.

(* the wildcard statement lists a store that cannot be loaded: the loading fails *)
Example C03_gen_example_load_error :
  exists c e, gen_trustpolicy_OCIDocument_GetApplicableTrustPolicy gx_doc "reg.example/other@sha256:00" = Some (PNew c, None)
    /\ OCITrustPolicy_Name c = "wild"
    /\ gen_verifier_loadX509TrustStores N "notary.x509" (OCITrustPolicy_Name c) (OCITrustPolicy_TrustStores c) gx_store
       = ([], Some e).
Proof. eexists. eexists. vm_compute. repeat split. Qed.

Example C03_gen_example_verifyblob :
  (exists c, gen_trustpolicy_BlobDocument_GetGlobalTrustPolicy gx_blob = (PNew c, None)
     /\ gen_verifier_loadX509TrustStores N "notary.x509.signingAuthority" (BlobTrustPolicy_Name c) (BlobTrustPolicy_TrustStores c) gx_store
        = ([9%N], None))
  /\ M8.names_unique (map m8_of_blob (BlobDocument_TrustPolicies gx_blob)) = true
  /\ M8.global_unique (map m8_of_blob (BlobDocument_TrustPolicies gx_blob)) = true
  /\ String.eqb (str_trim_space "b1") "" = false.
Proof. split; [eexists; vm_compute; split; reflexivity|]. vm_compute. repeat split. Qed.
