(* C03_Generated.v — equivalence of the GoLite translations of the trust-store
   loading helpers of verifier/helpers.go (theories/C03_Gen.v, regenerated from
   /repo by `vh-gen` on every run, docs/GOLITE.md) with the C03 model.
   The trust store (interface truststore.X509TrustStore) is a function
   parameter of the generated code; certificates are an opaque type, here
   instantiated with the model's certificate identities (N). *)
From Coq Require Import List Bool String Ascii NArith ZArith Lia.
From NV Require Import Base GoLib C03_Model C03_Gen.
Import ListNotations.
Local Open Scope string_scope.
Local Open Scope list_scope.

(* the injected trust store answers like the model's file system *)
Definition store_agrees (store : string -> string -> list N * option err) (fs : fsys) : Prop :=
  forall ty name,
    match fs_get fs ty name with
    | Certs l => store ty name = (l, None)
    | LoadError => exists cs e, store ty name = (cs, Some e)
    end.

Definition format_err : err :=
  Err "truststore.TrustStoreError"
      "error while loading the trust store, trust policy statement %q is missing separator in trust store value %q. The required format is <TrustStoreType>:<TrustStoreName>" [].

(* what the generated function returns for a verdict of the model *)
Definition load_rel (store : string -> string -> list N * option err) (acc : list N)
           (m : lres) (g : list N * option err) : Prop :=
  match m with
  | LOk cs => g = (acc ++ cs, None)
  | LErrFormat _ => g = ([], Some format_err)
  | LErrLoad ty name => exists cs e, store ty name = (cs, Some e) /\ g = ([], Some e)
  end.

Lemma set_contains_add (pset : list (string * unit)) s x :
  gen_container_Set_Contains_string (gen_container_Set_Add_string pset s) x
  = String.eqb x s || gen_container_Set_Contains_string pset x.
Proof.
  unfold gen_container_Set_Contains_string, gen_container_Set_Add_string, map_get_ok.
  rewrite (map_get_set String.eqb string_eqb_spec').
  destruct (String.eqb x s); [reflexivity|]. cbn [orb]. reflexivity.
Qed.

Lemma load_loop store fs (Hs : store_agrees store fs) ty : forall stores pset proc acc,
  (forall x, gen_container_Set_Contains_string pset x = mem_str x proc) ->
  load_rel store acc (fst (load fs ty stores proc))
           (gen_verifier_loadX509TrustStoresWithType_loop1 N ty store stores pset acc).
Proof.
  induction stores as [|s rest IH]; intros pset proc acc Hp.
  - cbn. rewrite app_nil_r. reflexivity.
  - cbn [load gen_verifier_loadX509TrustStoresWithType_loop1]. rewrite Hp.
    destruct (mem_str s proc); [apply IH; exact Hp|].
    unfold colon. rewrite str_cut_byte.
    destruct (cut_byte ":" s) as [[sty name]|]; [|reflexivity].
    cbn [negb]. destruct (String.eqb ty sty); cbn [negb]; [|apply IH; exact Hp].
    pose proof (Hs ty name) as Hg. destruct (fs_get fs ty name) as [l|].
    + rewrite Hg. cbn [is_none negb fst].
      specialize (IH (gen_container_Set_Add_string pset s) (s :: proc) (acc ++ l)).
      assert (Hp' : forall x, gen_container_Set_Contains_string (gen_container_Set_Add_string pset s) x = mem_str x (s :: proc)).
      { intros x. rewrite set_contains_add, Hp. reflexivity. }
      specialize (IH Hp').
      destruct (fst (load fs ty rest (s :: proc))) as [cs|ty' n'|f]; cbn [load_rel] in *.
      * rewrite IH, <- app_assoc. reflexivity.
      * exact IH.
      * exact IH.
    + destruct Hg as [cs [e Hg]]. rewrite Hg. cbn [is_none negb fst load_rel].
      exists cs, e. split; [exact Hg|reflexivity].
Qed.

Theorem C03_gen_loadX509TrustStoresWithType_equiv :
  forall store fs, store_agrees store fs ->
  forall ty policy stores,
    load_rel store [] (fst (load fs ty stores []))
             (gen_verifier_loadX509TrustStoresWithType N ty policy stores store).
Proof.
  intros store fs Hs ty policy stores. unfold gen_verifier_loadX509TrustStoresWithType.
  apply (load_loop store fs Hs). intros x. reflexivity.
Qed.
Print Assumptions C03_gen_loadX509TrustStoresWithType_equiv.

(* loadX509TrustStores: the store type is decided by the signing scheme *)
Definition scheme_of (s : string) : scheme :=
  if String.eqb s "notary.x509" then SX509
  else if String.eqb s "notary.x509.signingAuthority" then SSA else SOther.

Theorem C03_gen_loadX509TrustStores_equiv :
  forall store scheme policy stores,
    match store_type_of (scheme_of scheme) with
    | Some ty => gen_verifier_loadX509TrustStores N scheme policy stores store
                 = gen_verifier_loadX509TrustStoresWithType N ty policy stores store
    | None => exists e, gen_verifier_loadX509TrustStores N scheme policy stores store = ([], Some e)
                        /\ err_typ e = "truststore.TrustStoreError"
    end.
Proof.
  intros store scheme policy stores. unfold gen_verifier_loadX509TrustStores, scheme_of.
  destruct (String.eqb scheme "notary.x509"); [reflexivity|].
  destruct (String.eqb scheme "notary.x509.signingAuthority"); [reflexivity|].
  eexists; split; reflexivity.
Qed.
Print Assumptions C03_gen_loadX509TrustStores_equiv.

Theorem C03_gen_loadX509TSATrustStores_equiv :
  forall store scheme policy stores,
    if String.eqb scheme "notary.x509"
    then gen_verifier_loadX509TSATrustStores N scheme policy stores store
         = gen_verifier_loadX509TrustStoresWithType N ty_tsa policy stores store
    else exists e, gen_verifier_loadX509TSATrustStores N scheme policy stores store = ([], Some e)
                   /\ err_typ e = "truststore.TrustStoreError".
Proof.
  intros store scheme policy stores. unfold gen_verifier_loadX509TSATrustStores.
  destruct (String.eqb scheme "notary.x509"); [reflexivity|]. eexists; split; reflexivity.
Qed.
Print Assumptions C03_gen_loadX509TSATrustStores_equiv.

(* isTSATrustStoreInPolicy *)
Theorem C03_gen_isTSATrustStoreInPolicy_equiv :
  forall policy stores,
    match tsa_in_policy stores with
    | Some b => gen_verifier_isTSATrustStoreInPolicy policy stores = (b, None)
    | None => exists e, gen_verifier_isTSATrustStoreInPolicy policy stores = (false, Some e)
                        /\ err_typ e = "truststore.TrustStoreError"
    end.
Proof.
  intros policy stores. unfold gen_verifier_isTSATrustStoreInPolicy.
  induction stores as [|s rest IH]; [reflexivity|].
  cbn [tsa_in_policy gen_verifier_isTSATrustStoreInPolicy_loop1]. unfold colon. rewrite str_cut_byte.
  destruct (cut_byte ":" s) as [[sty name]|]; cbn [negb].
  - unfold ty_tsa. destruct (String.eqb sty "tsa"); [reflexivity|exact IH].
  - eexists; split; reflexivity.
Qed.
Print Assumptions C03_gen_isTSATrustStoreInPolicy_equiv.
