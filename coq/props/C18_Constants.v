(* C18: payload type and key-spec tables as regenerated from the source agree with the model's. *)
From NV Require Import Base Generated C18_Json C18_Model.
Open Scope string_scope.

Definition ktype_of_ident (s : string) : option ktype :=
  if s =? "KeyTypeEC" then Some KEC else if s =? "KeyTypeRSA" then Some KRSA else None.
Definition keyspec_value (s : string) : string :=
  if s =? "KeySpecRSA2048" then "RSA-2048" else if s =? "KeySpecRSA3072" then "RSA-3072"
  else if s =? "KeySpecRSA4096" then "RSA-4096" else if s =? "KeySpecEC256" then "EC-256"
  else if s =? "KeySpecEC384" then "EC-384" else if s =? "KeySpecEC521" then "EC-521" else "?".
Definition hash_value (s : string) : string :=
  if s =? "HashAlgorithmSHA256" then "SHA-256" else if s =? "HashAlgorithmSHA384" then "SHA-384"
  else if s =? "HashAlgorithmSHA512" then "SHA-512" else "?".
Definition ostr_eqb (a b : option string) : bool :=
  match a, b with Some x, Some y => x =? y | None, None => true | _, _ => false end.
Definition kt_eqb (a b : ktype) : bool := match a, b with KRSA, KRSA | KEC, KEC => true | _, _ => false end.
Definition ks_eqb (a b : kspec) : bool := kt_eqb (fst a) (fst b) && (snd a =? snd b)%N.
Definition six : list kspec := [(KRSA, 2048); (KRSA, 3072); (KRSA, 4096); (KEC, 256); (KEC, 384); (KEC, 521)]%N.
Definition row_spec (t : string) (n : N) : option kspec :=
  match ktype_of_ident t with Some k => Some (k, n) | None => None end.

Definition enc_ok : bool :=
  forallb (fun r => match row_spec (fst (fst r)) (snd (fst r)) with
                    | Some k => ostr_eqb (encode_keyspec k) (Some (keyspec_value (snd r))) | None => false end) gen_encode_key_spec
  && forallb (fun k => existsb (fun r => match row_spec (fst (fst r)) (snd (fst r)) with Some k' => ks_eqb k' k | None => false end) gen_encode_key_spec) six.
Definition hash_ok : bool :=
  forallb (fun r => match row_spec (fst (fst r)) (snd (fst r)) with
                    | Some k => ostr_eqb (hash_of_keyspec k) (Some (hash_value (snd r))) | None => false end) gen_hash_from_key_spec
  && forallb (fun k => existsb (fun r => match row_spec (fst (fst r)) (snd (fst r)) with Some k' => ks_eqb k' k | None => false end) gen_hash_from_key_spec) six.
Definition dec_ok : bool :=
  forallb (fun r => match decode_keyspec (keyspec_value (fst (fst r))), row_spec (snd r) (snd (fst r)) with
                    | Some k, Some k' => ks_eqb k k' | _, _ => false end) gen_decode_key_spec
  && forallb (fun k => existsb (fun r => match row_spec (snd r) (snd (fst r)) with Some k' => ks_eqb k' k | None => false end) gen_decode_key_spec) six.

Theorem C18_constants_generated :
  payload_type = gen_media_type_payload_v1 /\ enc_ok = true /\ hash_ok = true /\ dec_ok = true.
Proof. repeat split; vm_compute; reflexivity. Qed.
Print Assumptions C18_constants_generated.
