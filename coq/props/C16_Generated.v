(* C16_Generated.v — the GoLite translations of the Go function bodies C16 depends on
   (theories/C16_Gen.v, regenerated from /repo by `vh-gen` on every run,
   docs/GOLITE.md; table harness/cmd/vh-gen/targets_c16.go) proved equal, for ALL
   inputs, to the functions of the hand-written model C16_Model that play the same
   role, and the property's theorems transported onto the generated functions.

     plugin.validatePluginName            = valid_name            (class EInvalid)
     plugin.parsePluginName               = parse_plugin_name
     plugin.binName                       = bin_name
     plugin.NewCLIPlugin                  = the tail of [get] (new_cli_plugin), oracle os.Stat
     plugin.validate                      = "a metadata document" (run_meta's empty name)
     verifier.getVerificationPlugin       = the first stage of verify_plan (strings.TrimSpace
                                            = all_space on every byte string), oracle
                                            extractCriticalStringExtendedAttribute
     verifier.getVerificationPluginMinVersion : direct characterisation

   Oracles (Section variables of C16_Gen.v) are universally quantified and
   constrained by explicit hypotheses ("the oracle answers like the model of it").
   Library facts that do not mention the generated file are in
   theories/C16_GenProofs.v. CLIManager.Get / Uninstall / List, parsePluginFromDir
   and dir.sysFS.SysPath are outside the translator (docs/audit/C16.md, section
   GoLite): the composition of the translated pieces into [get] is stated below
   (C16_gen_Get_composition), the glue itself is tied to the code by the
   correspondence harness only. *)
From Coq Require Import List Bool String Ascii NArith ZArith Lia.
From NV Require Import Base GoLib C16_Path C16_Model C16_Proofs C16_Audit C16_GenProofs C16_Gen.
Import ListNotations.
Local Open Scope string_scope.
Local Open Scope list_scope.

(* ---------- tactics (robust against reordering of conditions) ---------- *)

(* evaluate closed byte-string constants B [..] *)
Ltac norm_B :=
  repeat match goal with
  | |- context [B ?l] => let v := eval vm_compute in (B l) in change (B l) with v
  end.

(* case analysis on every string comparison / byte test of the goal *)
Ltac bool_atoms :=
  repeat match goal with
  | |- context [String.eqb ?a ?b] => destruct (String.eqb a b)
  | |- context [contains_byte ?a ?b] => destruct (contains_byte a b)
  end.

(* the class test on an error whose format string is a literal *)
Ltac eval_fmt_invalid :=
  repeat match goal with
  | |- context [fmt_invalid (Err ?t ?f ?w)] =>
      let v := eval vm_compute in (str_contains "invalid plugin name" f) in
      change (fmt_invalid (Err t f w)) with v
  end.

(* ================================================================== *)
(* 1. validatePluginName                                               *)

Lemma gen_validate_cases name :
  (valid_name name = true /\ gen_plugin_validatePluginName name = None)
  \/ (valid_name name = false
      /\ exists e, gen_plugin_validatePluginName name = Some e /\ fmt_invalid e = true).
Proof.
  unfold gen_plugin_validatePluginName, valid_name. norm_B.
  rewrite contains_any_existsb. cbn [list_ascii_of_string existsb].
  cbv [slash bslash nul Ascii.zero].
  bool_atoms; cbn [orb negb];
    solve [ left; split; reflexivity
          | right; split; [reflexivity|eexists; split; [reflexivity|vm_compute; reflexivity]] ].
Qed.

(* the generated validation returns the error class the model's Get / Uninstall
   return, on every byte string *)
Theorem C16_gen_validatePluginName_equiv : forall notexist name,
  errc notexist (gen_plugin_validatePluginName name) = if valid_name name then ENone else EInvalid.
Proof.
  intros ne name. destruct (gen_validate_cases name) as [[V G]|[V [e [G F]]]]; rewrite V, G.
  - reflexivity.
  - unfold errc. rewrite F. reflexivity.
Qed.
Print Assumptions C16_gen_validatePluginName_equiv.

Theorem C16_gen_validatePluginName_nil_iff : forall name,
  gen_plugin_validatePluginName name = None <-> valid_name name = true.
Proof.
  intros name. destruct (gen_validate_cases name) as [[V G]|[V [e [G F]]]]; rewrite V, G; split; congruence.
Qed.
Print Assumptions C16_gen_validatePluginName_nil_iff.

(* C16_validation_sound / C16_validation_residue on the code as translated:
   the generated validation accepts exactly the single path components without
   backslash and NUL *)
Theorem C16_gen_validatePluginName_accepts_iff : forall name,
  gen_plugin_validatePluginName name = None
  <-> single_component name /\ contains_byte bslash name = false /\ contains_byte nul name = false.
Proof. intros name. rewrite C16_gen_validatePluginName_nil_iff. apply valid_name_spec. Qed.
Print Assumptions C16_gen_validatePluginName_accepts_iff.

(* C16_paths_of_valid_name / C16_characterise transported: a name the generated
   validation accepts makes <root>/<name> the direct child of the clean root named
   <name>, and the executable path that child's entry notation-<name> *)
Theorem C16_gen_accepted_name_is_child : forall root name,
  is_abs root = true -> gen_plugin_validatePluginName name = None ->
  comps_of (pjoin [root; name]) = (comps_of (clean root) ++ [name])%list
  /\ pjoin [root; name] = allowed root name
  /\ pjoin [root; pjoin [name; gen_plugin_binName name]]
     = child_path (allowed root name) (gen_plugin_binName name).
Proof.
  intros root name A G. apply C16_gen_validatePluginName_nil_iff in G.
  split; [|split].
  - apply (characterise root name A). now apply valid_name_single.
  - now apply dir_path.
  - exact (bin_path root name A G).
Qed.
Print Assumptions C16_gen_accepted_name_is_child.

(* C16_resolving_elsewhere_rejected transported: a name whose joined path is not
   that child is refused by the generated validation, with the invalid-name class *)
Theorem C16_gen_resolving_elsewhere_rejected : forall root name,
  is_abs root = true ->
  comps_of (pjoin [root; name]) <> (comps_of (clean root) ++ [name])%list ->
  exists e, gen_plugin_validatePluginName name = Some e /\ fmt_invalid e = true.
Proof.
  intros root name A H. pose proof (elsewhere_invalid root name A H) as V.
  destruct (gen_validate_cases name) as [[V' _]|[_ E]]; [congruence|exact E].
Qed.
Print Assumptions C16_gen_resolving_elsewhere_rejected.

(* ================================================================== *)
(* 2. binName, parsePluginName                                         *)

Theorem C16_gen_binName_equiv : forall name, gen_plugin_binName name = bin_name name.
Proof. reflexivity. Qed.
Print Assumptions C16_gen_binName_equiv.

Theorem C16_gen_parsePluginName_equiv : forall fileName,
  match parse_plugin_name fileName with
  | Some n => gen_plugin_parsePluginName fileName = (n, None)
  | None => exists e, gen_plugin_parsePluginName fileName = ("", Some e) /\ fmt_invalid e = false
  end.
Proof.
  intros f. unfold gen_plugin_parsePluginName, parse_plugin_name, str_cut_prefix, cut_prefix, bin_prefix.
  destruct (has_prefix "notation-" f).
  - cbv beta iota. cbn [negb orb].
    destruct (gen_validate_cases (drop (String.length "notation-") f)) as [[V G]|[V [e [G _]]]];
      rewrite V, G; cbn [GoLib.is_none negb].
    + reflexivity.
    + eexists; split; [reflexivity|vm_compute; reflexivity].
  - cbv beta iota. cbn [negb orb]. eexists; split; [reflexivity|vm_compute; reflexivity].
Qed.
Print Assumptions C16_gen_parsePluginName_equiv.

(* a file name the generated parser accepts is notation-<name> with <name>
   accepted by the generated validation: Install never derives another name
   (C16_install_candidates_valid on the code as translated) *)
Theorem C16_gen_parsePluginName_accepts : forall fileName n,
  gen_plugin_parsePluginName fileName = (n, None) ->
  fileName = gen_plugin_binName n /\ gen_plugin_validatePluginName n = None.
Proof.
  intros f n H. pose proof (C16_gen_parsePluginName_equiv f) as E.
  destruct (parse_plugin_name f) as [m|] eqn:P.
  - rewrite E in H. inversion H; subst m. split.
    + apply parse_plugin_name_some in P. rewrite C16_gen_binName_equiv. tauto.
    + apply C16_gen_validatePluginName_nil_iff. apply parse_plugin_name_some in P. tauto.
  - destruct E as [e [E _]]. rewrite E in H. discriminate.
Qed.
Print Assumptions C16_gen_parsePluginName_accepts.

(* parsePluginName inverts binName exactly on the names validatePluginName accepts *)
Theorem C16_gen_parse_of_binName : forall name,
  if valid_name name
  then gen_plugin_parsePluginName (gen_plugin_binName name) = (name, None)
  else exists e, gen_plugin_parsePluginName (gen_plugin_binName name) = ("", Some e).
Proof.
  intros name. pose proof (C16_gen_parsePluginName_equiv (gen_plugin_binName name)) as E.
  assert (P : parse_plugin_name (gen_plugin_binName name) = if valid_name name then Some name else None).
  { reflexivity. }
  rewrite P in E. destruct (valid_name name); [exact E|].
  destruct E as [e [E _]]. exists e. exact E.
Qed.
Print Assumptions C16_gen_parse_of_binName.

(* ================================================================== *)
(* 3. NewCLIPlugin (oracle os.Stat) and the composition CLIManager.Get  *)

(* the operating system answers like the model's file system: os.Stat fails with
   an error that is (or wraps) "does not exist" where the model's kernel walk says
   ENOENT, with another error where it says ENOTDIR / ENAMETOOLONG, and otherwise
   describes a regular file exactly for the model's file nodes *)
Definition stat_agrees (FI : Type) (Stat : string -> FI * option GoLib.err) (IsRegular : FI -> bool)
           (notexist : GoLib.err -> bool) (w : fs) : Prop :=
  forall p,
    match stat w p with
    | SNotExist => exists fi e, Stat p = (fi, Some e) /\ chain_is notexist e = true
    | SOtherErr => exists fi e, Stat p = (fi, Some e) /\ chain_is notexist e = false
    | SOk n => exists fi, Stat p = (fi, None)
                          /\ IsRegular fi = match n with NFile _ _ => true | NDir => false end
    end.

(* what the harness observes of NewCLIPlugin's result: error class, path of the plugin *)
Definition new_cli_abs (notexist : GoLib.err -> bool) (r : ptr plugin_CLIPlugin * option GoLib.err)
  : C16_Model.err * option string :=
  (errc notexist (snd r), option_map CLIPlugin_path (ptr_val (fst r))).

Theorem C16_gen_NewCLIPlugin_equiv :
  forall FI Stat IsRegular notexist w,
    lib_errors_distinct notexist -> stat_agrees FI Stat IsRegular notexist w ->
    forall name p,
      new_cli_abs notexist (gen_plugin_NewCLIPlugin FI Stat IsRegular name p) = new_cli_plugin w p.
Proof.
  intros FI Stat IsReg ne w Hd Hs name p.
  unfold new_cli_abs, gen_plugin_NewCLIPlugin, new_cli_plugin.
  specialize (Hs p). destruct (stat w p) as [| |n].
  - destruct Hs as [fi [e [Hs Hc]]]. rewrite Hs. cbn [GoLib.is_none negb fst snd ptr_val option_map olist].
    unfold errc. eval_fmt_invalid. rewrite (chain_is_wrap1 ne Hd), Hc. reflexivity.
  - destruct Hs as [fi [e [Hs Hc]]]. rewrite Hs. cbn [GoLib.is_none negb fst snd ptr_val option_map olist].
    unfold errc. eval_fmt_invalid. rewrite (chain_is_wrap1 ne Hd), Hc. reflexivity.
  - destruct Hs as [fi [Hs Hr]]. rewrite Hs. cbn [GoLib.is_none negb]. rewrite Hr.
    destruct n as [|x m]; cbn [negb fst snd ptr_val option_map].
    + unfold plugin_ErrNotRegularFile, errc. eval_fmt_invalid.
      rewrite (chain_is_leaf ne Hd) by (right; reflexivity). reflexivity.
    + reflexivity.
Qed.
Print Assumptions C16_gen_NewCLIPlugin_equiv.

(* the plugin object carries exactly the name and the path it was created with:
   every later command of that plugin runs that path (no oracle hypothesis) *)
Theorem C16_gen_NewCLIPlugin_keeps_path :
  forall FI Stat IsRegular name p c,
    ptr_val (fst (gen_plugin_NewCLIPlugin FI Stat IsRegular name p)) = Some c ->
    CLIPlugin_name c = name /\ CLIPlugin_path c = p
    /\ snd (gen_plugin_NewCLIPlugin FI Stat IsRegular name p) = None.
Proof.
  intros FI Stat IsReg name p c. unfold gen_plugin_NewCLIPlugin.
  destruct (Stat p) as [fi [e|]]; cbn [GoLib.is_none negb fst snd ptr_val]; [discriminate|].
  destruct (IsReg fi); cbn [negb fst snd ptr_val]; [|discriminate].
  intros H. inversion H. subst c. repeat split.
Qed.
Print Assumptions C16_gen_NewCLIPlugin_keeps_path.

(* CLIManager.Get of the model is the composition, in the order of
   plugin/manager.go:52-63, of the three translated functions; what is NOT
   translated is that glue and SysPath / path.Join (= pjoin, tied to
   filepath.Join by the harness family "path") *)
Theorem C16_gen_Get_composition :
  forall FI Stat IsRegular notexist w,
    lib_errors_distinct notexist -> stat_agrees FI Stat IsRegular notexist w ->
    forall root name,
      get w root name =
      match gen_plugin_validatePluginName name with
      | Some e => (errc notexist (Some e), None, [])
      | None =>
          let p := pjoin [root; pjoin [name; gen_plugin_binName name]] in
          let r := new_cli_abs notexist (gen_plugin_NewCLIPlugin FI Stat IsRegular name p) in
          (fst r, snd r, [EStat p])
      end.
Proof.
  intros FI Stat IsReg ne w Hd Hs root name. rewrite get_is_validate_then_new.
  destruct (gen_validate_cases name) as [[V G]|[V [e [G F]]]]; rewrite V, G.
  - cbn zeta. rewrite (C16_gen_NewCLIPlugin_equiv FI Stat IsReg ne w Hd Hs). reflexivity.
  - unfold errc. rewrite F. reflexivity.
Qed.
Print Assumptions C16_gen_Get_composition.

(* C16_rejected / C16_contained for Get, phrased on the generated functions: a name
   the generated validation refuses causes no stat at all; otherwise the one
   path looked at is the plugin binary below <root>/<name> *)
Theorem C16_gen_Get_contained : forall w root name,
  is_abs root = true ->
  match gen_plugin_validatePluginName name with
  | Some _ => get w root name = (EInvalid, None, [])
  | None => snd (get w root name)
            = [EStat (child_path (allowed root name) (gen_plugin_binName name))]
  end.
Proof.
  intros w root name A. rewrite get_is_validate_then_new.
  destruct (gen_validate_cases name) as [[V G]|[V [e [G F]]]]; rewrite V, G; [|reflexivity].
  cbn zeta. cbn [snd]. change (gen_plugin_binName name) with (bin_name name).
  rewrite (bin_path root name A V). reflexivity.
Qed.
Print Assumptions C16_gen_Get_contained.

(* ================================================================== *)
(* 4. validate (the metadata document a plugin process printed)        *)

Lemma gen_Contains_In (s : list string) v : gen_slices_Contains_string s v = true <-> In v s.
Proof.
  unfold gen_slices_Contains_string. induction s as [|x s IH]; cbn [gen_slices_Contains_string_loop1 In].
  - split; [discriminate|tauto].
  - destruct (String.eqb v x) eqn:E.
    + apply String.eqb_eq in E. subst x. tauto.
    + apply String.eqb_neq in E. rewrite IH. split; [tauto|]. intros [H|H]; [congruence|exact H].
Qed.

Theorem C16_gen_validate_spec : forall md,
  gen_plugin_validate md = None
  <-> GetMetadataResponse_Name md <> "" /\ GetMetadataResponse_Description md <> ""
      /\ GetMetadataResponse_Version md <> "" /\ GetMetadataResponse_URL md <> ""
      /\ GetMetadataResponse_Capabilities md <> []
      /\ In "1.0" (GetMetadataResponse_SupportedContractVersions md).
Proof.
  intros md. unfold gen_plugin_validate. rewrite !list_len_zero.
  destruct (String.eqb (GetMetadataResponse_Name md) "") eqn:E1;
    [apply String.eqb_eq in E1; split; [discriminate|tauto]|apply String.eqb_neq in E1].
  destruct (String.eqb (GetMetadataResponse_Description md) "") eqn:E2;
    [apply String.eqb_eq in E2; split; [discriminate|tauto]|apply String.eqb_neq in E2].
  destruct (String.eqb (GetMetadataResponse_Version md) "") eqn:E3;
    [apply String.eqb_eq in E3; split; [discriminate|tauto]|apply String.eqb_neq in E3].
  destruct (String.eqb (GetMetadataResponse_URL md) "") eqn:E4;
    [apply String.eqb_eq in E4; split; [discriminate|tauto]|apply String.eqb_neq in E4].
  destruct (GetMetadataResponse_Capabilities md) as [|c cs]; [split; [discriminate|tauto]|].
  destruct (GetMetadataResponse_SupportedContractVersions md) as [|v vs];
    [split; [discriminate|cbn [In]; tauto]|].
  destruct (gen_slices_Contains_string (v :: vs) "1.0") eqn:EC; cbn [negb].
  - apply gen_Contains_In in EC. split; [intros _|reflexivity]. repeat split; try assumption. discriminate.
  - split; [discriminate|]. intros (_ & _ & _ & _ & _ & HI). apply gen_Contains_In in HI. congruence.
Qed.
Print Assumptions C16_gen_validate_spec.

(* run_meta's first test: a document with an empty name is no metadata document *)
Theorem C16_gen_validate_rejects_empty_name : forall md,
  GetMetadataResponse_Name md = "" -> gen_plugin_validate md <> None.
Proof. intros md H G. apply C16_gen_validate_spec in G. tauto. Qed.
Print Assumptions C16_gen_validate_rejects_empty_name.

(* ================================================================== *)
(* 5. the verifier: the name taken from the signature                  *)

Definition key_plugin : string := "io.cncf.notary.verificationPlugin".
Definition key_min_version : string := "io.cncf.notary.verificationPluginMinVersion".

(* direct characterisation, every oracle: an error of the extraction is passed
   on unchanged, a blank value (strings.TrimSpace, Unicode white space in UTF-8 =
   the model's all_space, every byte string) is an error, anything else is
   returned as it is *)
Theorem C16_gen_getVerificationPlugin_spec : forall SI extract si,
  match extract si key_plugin with
  | (_, Some e) => gen_verifier_getVerificationPlugin SI extract si = ("", Some e)
  | (name, None) =>
      if all_space name
      then exists e, gen_verifier_getVerificationPlugin SI extract si = ("", Some e)
      else gen_verifier_getVerificationPlugin SI extract si = (name, None)
  end.
Proof.
  intros SI extract si. unfold gen_verifier_getVerificationPlugin, key_plugin.
  destruct (extract si _) as [name [e|]]; cbn [GoLib.is_none negb]; [reflexivity|].
  rewrite trim_space_empty_all_space. destruct (all_space name); [eexists|]; reflexivity.
Qed.
Print Assumptions C16_gen_getVerificationPlugin_spec.

(* the extraction oracle answers like the model's classification of the attribute *)
Definition attr_agrees (SI : Type) (extract : SI -> string -> string * option GoLib.err)
           (si : SI) (a : vattr) : Prop :=
  match a with
  | VStr s => extract si key_plugin = (s, None)
  | _ => exists n e, extract si key_plugin = (n, Some e)
  end.

Theorem C16_gen_getVerificationPlugin_equiv : forall SI extract si a,
  attr_agrees SI extract si a ->
  match verification_plugin_stage a with
  | NSName s => gen_verifier_getVerificationPlugin SI extract si = (s, None)
  | _ => exists e, gen_verifier_getVerificationPlugin SI extract si = ("", Some e)
  end.
Proof.
  intros SI extract si a H. pose proof (C16_gen_getVerificationPlugin_spec SI extract si) as S.
  destruct a as [|s| |s]; cbn [attr_agrees verification_plugin_stage] in *.
  1-3: destruct H as [n [e H]]; rewrite H in S; exists e; exact S.
  rewrite H in S. destruct (all_space s); exact S.
Qed.
Print Assumptions C16_gen_getVerificationPlugin_equiv.

(* C16_from_signature / C16_signature_attribute_calls on the code as translated:
   whatever the manager is called with by the model's plan is the string the
   generated getVerificationPlugin returned, and that string is not blank *)
Theorem C16_gen_signature_name_to_manager : forall SI extract si a mb pm s,
  attr_agrees SI extract si a ->
  In (CGet s) (snd (verify_plan a mb pm)) ->
  gen_verifier_getVerificationPlugin SI extract si = (s, None) /\ all_space s = false.
Proof.
  intros SI extract si a mb pm s H HI. apply verify_plan_calls_stage in HI.
  pose proof (C16_gen_getVerificationPlugin_equiv SI extract si a H) as E. rewrite HI in E.
  split; [exact E|]. destruct a as [|x| |x]; cbn in HI; try discriminate.
  destruct (all_space x) eqn:A; [discriminate|]. now inversion HI; subst.
Qed.
Print Assumptions C16_gen_signature_name_to_manager.

(* conversely: when the generated function fails, the model's plan calls nothing *)
Theorem C16_gen_signature_error_no_call : forall SI extract si a mb pm n e,
  attr_agrees SI extract si a ->
  gen_verifier_getVerificationPlugin SI extract si = (n, Some e) ->
  snd (verify_plan a mb pm) = [].
Proof.
  intros SI extract si a mb pm n e H G. rewrite verify_plan_stages.
  pose proof (C16_gen_getVerificationPlugin_equiv SI extract si a H) as E.
  destruct (verification_plugin_stage a) as [|c|s]; [reflexivity|reflexivity|congruence].
Qed.
Print Assumptions C16_gen_signature_error_no_call.

(* getVerificationPluginMinVersion: fails exactly when the extraction fails, the
   value is blank, or it is not a semantic version (oracle semver.IsValid) *)
Theorem C16_gen_getVerificationPluginMinVersion_spec : forall SI extract is_valid si,
  match extract si key_min_version with
  | (_, Some e) => gen_verifier_getVerificationPluginMinVersion SI extract is_valid si = ("", Some e)
  | (v, None) =>
      if all_space v || negb (is_valid v)
      then exists e, gen_verifier_getVerificationPluginMinVersion SI extract is_valid si = ("", Some e)
      else gen_verifier_getVerificationPluginMinVersion SI extract is_valid si = (v, None)
  end.
Proof.
  intros SI extract is_valid si. unfold gen_verifier_getVerificationPluginMinVersion, key_min_version.
  destruct (extract si _) as [v [e|]]; cbn [GoLib.is_none negb]; [reflexivity|].
  rewrite trim_space_empty_all_space. destruct (all_space v); cbn [orb]; [eexists; reflexivity|].
  destruct (is_valid v); cbn [negb]; [|eexists]; reflexivity.
Qed.
Print Assumptions C16_gen_getVerificationPluginMinVersion_spec.

(* ---------- non-vacuity: the oracle hypotheses can be met ---------- *)

(* an operating system for a small world: FileInfo = the model's node *)
Definition ex_world : fs :=
  [("/v", NDir); ("/v/p", NDir); ("/v/p/good", NDir);
   ("/v/p/good/notation-good", NFile true (Some ("good", 5%N)))].
Definition ex_notexist (e : GoLib.err) : bool := String.eqb (err_typ e) "os.ErrNotExist".
Definition ex_Stat (p : string) : node * option GoLib.err :=
  match stat ex_world p with
  | SOk n => (n, None)
  | SNotExist => (NDir, Some (Err "os.ErrNotExist" "" []))
  | SOtherErr => (NDir, Some (Err "syscall.Errno" "" []))
  end.
Definition ex_IsRegular (n : node) : bool := match n with NFile _ _ => true | NDir => false end.

Example C16_gen_example :
  lib_errors_distinct ex_notexist
  /\ stat_agrees node ex_Stat ex_IsRegular ex_notexist ex_world
  /\ new_cli_abs ex_notexist (gen_plugin_NewCLIPlugin node ex_Stat ex_IsRegular "good" "/v/p/good/notation-good")
     = (ENone, Some "/v/p/good/notation-good")
  /\ new_cli_abs ex_notexist (gen_plugin_NewCLIPlugin node ex_Stat ex_IsRegular "bad" "/v/p/bad/notation-bad")
     = (ENotExist, None)
  /\ new_cli_abs ex_notexist (gen_plugin_NewCLIPlugin node ex_Stat ex_IsRegular "good" "/v/p/good")
     = (EOther, None)
  /\ gen_plugin_validatePluginName "../victim" <> None
  /\ fst (gen_plugin_parsePluginName "notation-..") = ""
  /\ gen_plugin_parsePluginName "notation-good" = ("good", None).
Proof.
  split; [|split].
  - intros t f ws H. unfold ex_notexist in H. cbn [err_typ] in H. apply String.eqb_eq in H. subst t.
    split; discriminate.
  - intros p. unfold ex_Stat. destruct (stat ex_world p) as [| |n].
    + eexists; eexists; split; reflexivity.
    + eexists; eexists; split; reflexivity.
    + eexists; split; [reflexivity|]. destruct n; reflexivity.
  - vm_compute. repeat split; discriminate.
Qed.
