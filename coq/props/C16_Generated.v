(* C16_Generated.v — the GoLite translations of the Go function bodies C16 depends on
   (theories/C16_Gen.v, regenerated from /repo by `vh-gen` on every run,
   docs/GOLITE.md; table harness/cmd/vh-gen/targets_c16.go) proved equal, for ALL
   inputs, to the functions of the hand-written model C16_Model that play the same
   role, and the property's theorems transported onto the generated functions.

     plugin.validatePluginName            = valid_name            (class EInvalid)
     plugin.parsePluginName               = parse_plugin_name
     plugin.binName                       = bin_name
     plugin.NewCLIPlugin                  = the tail of [get] (new_cli_plugin), oracle os.Stat
     plugin.validate                      = "a metadata document" (run_meta's empty name)
     verifier.getVerificationPlugin       = the first stage of verify_plan (strings.TrimSpace
                                            = all_space on every byte string), oracle
                                            extractCriticalStringExtendedAttribute
     verifier.extractCriticalStringExtendedAttribute = vattr_of (the oracle's answer), no hypothesis
     verifier.getVerificationPluginMinVersion : direct characterisation
     dir.sysFS.SysPath                    = Join (root :: items)   (oracle filepath.Join)
     plugin.CLIManager.Uninstall         = uninstall (spec for ALL oracle behaviours, footprint,
                                            equivalence; oracles SysFS.SysPath, os.Stat, os.RemoveAll)
     plugin.isExecutableFile              = stat + the 0100 bit (is_executable_file)

   Oracles (Section variables of C16_Gen.v) are universally quantified and
   constrained by explicit hypotheses ("the oracle answers like the model of it").
   Library facts that do not mention the generated file are in
   theories/C16_GenProofs.v. CLIManager.Get is translated too (section 6:
   C16_gen_Get_spec / _footprint / _equiv; C16_gen_Get_composition is the model-side
   lemma it rests on), and so are List and parsePluginFromDir (sections 7, 8:
   fs.WalkDir as a tree-supplying oracle; docs/audit/C16.md, section GoLite). *)
From Coq Require Import List Bool String Ascii NArith ZArith Lia.
From NV Require Import Base GoLib C16_Path C16_Model C16_Proofs C16_Audit C16_GenProofs C16_Gen.
Import ListNotations.
Local Open Scope string_scope.
Local Open Scope list_scope.

(* ---------- tactics (robust against reordering of conditions) ---------- *)

(* evaluate closed byte-string constants B [..] *)
Ltac norm_B :=
  repeat match goal with
  | |- context [B ?l] => let v := eval vm_compute in (B l) in change (B l) with v
  end.

(* case analysis on every string comparison / byte test of the goal *)
Ltac bool_atoms :=
  repeat match goal with
  | |- context [String.eqb ?a ?b] => destruct (String.eqb a b)
  | |- context [contains_byte ?a ?b] => destruct (contains_byte a b)
  end.

(* the class test on an error whose format string is a literal *)
Ltac eval_fmt_invalid :=
  repeat match goal with
  | |- context [fmt_invalid (Err ?t ?f ?w)] =>
      let v := eval vm_compute in (str_contains "invalid plugin name" f) in
      change (fmt_invalid (Err t f w)) with v
  end.

(* ================================================================== *)
(* 1. validatePluginName                                               *)

Lemma gen_validate_cases name :
  (valid_name name = true /\ gen_plugin_validatePluginName name = None)
  \/ (valid_name name = false
      /\ exists e, gen_plugin_validatePluginName name = Some e /\ fmt_invalid e = true).
Proof.
  unfold gen_plugin_validatePluginName, valid_name. norm_B.
  rewrite contains_any_existsb. cbn [list_ascii_of_string existsb].
  cbv [slash bslash nul Ascii.zero].
  bool_atoms; cbn [orb negb];
    solve [ left; split; reflexivity
          | right; split; [reflexivity|eexists; split; [reflexivity|vm_compute; reflexivity]] ].
Qed.

(* the generated validation returns the error class the model's Get / Uninstall
   return, on every byte string *)
Theorem C16_gen_validatePluginName_equiv : forall notexist name,
  errc notexist (gen_plugin_validatePluginName name) = if valid_name name then ENone else EInvalid.
Proof.
  intros ne name. destruct (gen_validate_cases name) as [[V G]|[V [e [G F]]]]; rewrite V, G.
  - reflexivity.
  - unfold errc. rewrite F. reflexivity.
Qed.
Print Assumptions C16_gen_validatePluginName_equiv.

Theorem C16_gen_validatePluginName_nil_iff : forall name,
  gen_plugin_validatePluginName name = None <-> valid_name name = true.
Proof.
  intros name. destruct (gen_validate_cases name) as [[V G]|[V [e [G F]]]]; rewrite V, G; split; congruence.
Qed.
Print Assumptions C16_gen_validatePluginName_nil_iff.

(* C16_validation_sound / C16_validation_residue on the code as translated:
   the generated validation accepts exactly the single path components without
   backslash and NUL *)
Theorem C16_gen_validatePluginName_accepts_iff : forall name,
  gen_plugin_validatePluginName name = None
  <-> single_component name /\ contains_byte bslash name = false /\ contains_byte nul name = false.
Proof. intros name. rewrite C16_gen_validatePluginName_nil_iff. apply valid_name_spec. Qed.
Print Assumptions C16_gen_validatePluginName_accepts_iff.

(* C16_paths_of_valid_name / C16_characterise transported: a name the generated
   validation accepts makes <root>/<name> the direct child of the clean root named
   <name>, and the executable path that child's entry notation-<name> *)
Theorem C16_gen_accepted_name_is_child : forall root name,
  is_abs root = true -> gen_plugin_validatePluginName name = None ->
  comps_of (pjoin [root; name]) = (comps_of (clean root) ++ [name])%list
  /\ pjoin [root; name] = allowed root name
  /\ pjoin [root; pjoin [name; gen_plugin_binName name]]
     = child_path (allowed root name) (gen_plugin_binName name).
Proof.
  intros root name A G. apply C16_gen_validatePluginName_nil_iff in G.
  split; [|split].
  - apply (characterise root name A). now apply valid_name_single.
  - now apply dir_path.
  - exact (bin_path root name A G).
Qed.
Print Assumptions C16_gen_accepted_name_is_child.

(* C16_resolving_elsewhere_rejected transported: a name whose joined path is not
   that child is refused by the generated validation, with the invalid-name class *)
Theorem C16_gen_resolving_elsewhere_rejected : forall root name,
  is_abs root = true ->
  comps_of (pjoin [root; name]) <> (comps_of (clean root) ++ [name])%list ->
  exists e, gen_plugin_validatePluginName name = Some e /\ fmt_invalid e = true.
Proof.
  intros root name A H. pose proof (elsewhere_invalid root name A H) as V.
  destruct (gen_validate_cases name) as [[V' _]|[_ E]]; [congruence|exact E].
Qed.
Print Assumptions C16_gen_resolving_elsewhere_rejected.

(* ================================================================== *)
(* 2. binName, parsePluginName                                         *)

Theorem C16_gen_binName_equiv : forall name, gen_plugin_binName name = bin_name name.
Proof. reflexivity. Qed.
Print Assumptions C16_gen_binName_equiv.

Theorem C16_gen_parsePluginName_equiv : forall fileName,
  match parse_plugin_name fileName with
  | Some n => gen_plugin_parsePluginName fileName = (n, None)
  | None => exists e, gen_plugin_parsePluginName fileName = ("", Some e) /\ fmt_invalid e = false
  end.
Proof.
  intros f. unfold gen_plugin_parsePluginName, parse_plugin_name, str_cut_prefix, cut_prefix, bin_prefix.
  destruct (has_prefix "notation-" f).
  - cbv beta iota. cbn [negb orb].
    destruct (gen_validate_cases (drop (String.length "notation-") f)) as [[V G]|[V [e [G _]]]];
      rewrite V, G; cbn [GoLib.is_none negb].
    + reflexivity.
    + eexists; split; [reflexivity|vm_compute; reflexivity].
  - cbv beta iota. cbn [negb orb]. eexists; split; [reflexivity|vm_compute; reflexivity].
Qed.
Print Assumptions C16_gen_parsePluginName_equiv.

(* a file name the generated parser accepts is notation-<name> with <name>
   accepted by the generated validation: Install never derives another name
   (C16_install_candidates_valid on the code as translated) *)
Theorem C16_gen_parsePluginName_accepts : forall fileName n,
  gen_plugin_parsePluginName fileName = (n, None) ->
  fileName = gen_plugin_binName n /\ gen_plugin_validatePluginName n = None.
Proof.
  intros f n H. pose proof (C16_gen_parsePluginName_equiv f) as E.
  destruct (parse_plugin_name f) as [m|] eqn:P.
  - rewrite E in H. inversion H; subst m. split.
    + apply parse_plugin_name_some in P. rewrite C16_gen_binName_equiv. tauto.
    + apply C16_gen_validatePluginName_nil_iff. apply parse_plugin_name_some in P. tauto.
  - destruct E as [e [E _]]. rewrite E in H. discriminate.
Qed.
Print Assumptions C16_gen_parsePluginName_accepts.

(* parsePluginName inverts binName exactly on the names validatePluginName accepts *)
Theorem C16_gen_parse_of_binName : forall name,
  if valid_name name
  then gen_plugin_parsePluginName (gen_plugin_binName name) = (name, None)
  else exists e, gen_plugin_parsePluginName (gen_plugin_binName name) = ("", Some e).
Proof.
  intros name. pose proof (C16_gen_parsePluginName_equiv (gen_plugin_binName name)) as E.
  assert (P : parse_plugin_name (gen_plugin_binName name) = if valid_name name then Some name else None).
  { reflexivity. }
  rewrite P in E. destruct (valid_name name); [exact E|].
  destruct E as [e [E _]]. exists e. exact E.
Qed.
Print Assumptions C16_gen_parse_of_binName.

(* ================================================================== *)
(* 3. NewCLIPlugin (oracle os.Stat) and the composition CLIManager.Get  *)

(* the operating system answers like the model's file system: os.Stat fails with
   an error that is (or wraps) "does not exist" where the model's kernel walk says
   ENOENT, with another error where it says ENOTDIR / ENAMETOOLONG, and otherwise
   describes a regular file exactly for the model's file nodes *)
Definition stat_agrees (FI : Type) (Stat : string -> FI * option GoLib.err) (IsRegular : FI -> bool)
           (notexist : GoLib.err -> bool) (w : fs) : Prop :=
  forall p,
    match stat w p with
    | SNotExist => exists fi e, Stat p = (fi, Some e) /\ chain_is notexist e = true /\ fmt_invalid e = false
    | SOtherErr => exists fi e, Stat p = (fi, Some e) /\ chain_is notexist e = false /\ fmt_invalid e = false
    | SOk n => exists fi, Stat p = (fi, None)
                          /\ IsRegular fi = match n with NFile _ _ => true | NDir => false end
    end.

(* what the harness observes of NewCLIPlugin's result: error class, path of the plugin *)
Definition new_cli_abs (notexist : GoLib.err -> bool) (r : ptr plugin_CLIPlugin * option GoLib.err)
  : C16_Model.err * option string :=
  (errc notexist (snd r), option_map CLIPlugin_path (ptr_val (fst r))).

Theorem C16_gen_NewCLIPlugin_equiv :
  forall FI Stat IsRegular notexist w,
    lib_errors_distinct notexist -> stat_agrees FI Stat IsRegular notexist w ->
    forall name p,
      new_cli_abs notexist (gen_plugin_NewCLIPlugin FI Stat IsRegular name p) = new_cli_plugin w p.
Proof.
  intros FI Stat IsReg ne w Hd Hs name p.
  unfold new_cli_abs, gen_plugin_NewCLIPlugin, new_cli_plugin.
  specialize (Hs p). destruct (stat w p) as [| |n].
  - destruct Hs as [fi [e [Hs [Hc _]]]]. rewrite Hs. cbn [GoLib.is_none negb fst snd ptr_val option_map olist].
    unfold errc. eval_fmt_invalid. rewrite (chain_is_wrap1 ne Hd), Hc. reflexivity.
  - destruct Hs as [fi [e [Hs [Hc _]]]]. rewrite Hs. cbn [GoLib.is_none negb fst snd ptr_val option_map olist].
    unfold errc. eval_fmt_invalid. rewrite (chain_is_wrap1 ne Hd), Hc. reflexivity.
  - destruct Hs as [fi [Hs Hr]]. rewrite Hs. cbn [GoLib.is_none negb]. rewrite Hr.
    destruct n as [|x m]; cbn [negb fst snd ptr_val option_map].
    + (* the sentinel plugin.ErrNotRegularFile, whatever its encoding: a library leaf *)
      rewrite (errc_lib_leaf ne Hd plugin_ErrNotRegularFile) by (vm_compute; reflexivity). reflexivity.
    + reflexivity.
Qed.
Print Assumptions C16_gen_NewCLIPlugin_equiv.

(* the plugin object carries exactly the name and the path it was created with:
   every later command of that plugin runs that path (no oracle hypothesis) *)
Theorem C16_gen_NewCLIPlugin_keeps_path :
  forall FI Stat IsRegular name p c,
    ptr_val (fst (gen_plugin_NewCLIPlugin FI Stat IsRegular name p)) = Some c ->
    CLIPlugin_name c = name /\ CLIPlugin_path c = p
    /\ snd (gen_plugin_NewCLIPlugin FI Stat IsRegular name p) = None.
Proof.
  intros FI Stat IsReg name p c. unfold gen_plugin_NewCLIPlugin.
  destruct (Stat p) as [fi [e|]]; cbn [GoLib.is_none negb fst snd ptr_val]; [discriminate|].
  destruct (IsReg fi); cbn [negb fst snd ptr_val]; [|discriminate].
  intros H. inversion H. subst c. repeat split.
Qed.
Print Assumptions C16_gen_NewCLIPlugin_keeps_path.

(* CLIManager.Get of the model is the composition, in the order of
   plugin/manager.go:52-63, of the three translated functions; what is NOT
   translated is that glue and SysPath / path.Join (= pjoin, tied to
   filepath.Join by the harness family "path") *)
Theorem C16_gen_Get_composition :
  forall FI Stat IsRegular notexist w,
    lib_errors_distinct notexist -> stat_agrees FI Stat IsRegular notexist w ->
    forall root name,
      get w root name =
      match gen_plugin_validatePluginName name with
      | Some e => (errc notexist (Some e), None, [])
      | None =>
          let p := pjoin [root; pjoin [name; gen_plugin_binName name]] in
          let r := new_cli_abs notexist (gen_plugin_NewCLIPlugin FI Stat IsRegular name p) in
          (fst r, snd r, [EStat p])
      end.
Proof.
  intros FI Stat IsReg ne w Hd Hs root name. rewrite get_is_validate_then_new.
  destruct (gen_validate_cases name) as [[V G]|[V [e [G F]]]]; rewrite V, G.
  - cbn zeta. rewrite (C16_gen_NewCLIPlugin_equiv FI Stat IsReg ne w Hd Hs). reflexivity.
  - unfold errc. rewrite F. reflexivity.
Qed.
Print Assumptions C16_gen_Get_composition.

(* C16_rejected / C16_contained for Get, phrased on the generated functions: a name
   the generated validation refuses causes no stat at all; otherwise the one
   path looked at is the plugin binary below <root>/<name> *)
Theorem C16_gen_Get_contained : forall w root name,
  is_abs root = true ->
  match gen_plugin_validatePluginName name with
  | Some _ => get w root name = (EInvalid, None, [])
  | None => snd (get w root name)
            = [EStat (child_path (allowed root name) (gen_plugin_binName name))]
  end.
Proof.
  intros w root name A. rewrite get_is_validate_then_new.
  destruct (gen_validate_cases name) as [[V G]|[V [e [G F]]]]; rewrite V, G; [|reflexivity].
  cbn zeta. cbn [snd]. change (gen_plugin_binName name) with (bin_name name).
  rewrite (bin_path root name A V). reflexivity.
Qed.
Print Assumptions C16_gen_Get_contained.

(* ================================================================== *)
(* 4. validate (the metadata document a plugin process printed)        *)

Lemma gen_Contains_In (s : list string) v : gen_slices_Contains_string s v = true <-> In v s.
Proof.
  unfold gen_slices_Contains_string. induction s as [|x s IH]; cbn [gen_slices_Contains_string_loop1 In].
  - split; [discriminate|tauto].
  - destruct (String.eqb v x) eqn:E.
    + apply String.eqb_eq in E. subst x. tauto.
    + apply String.eqb_neq in E. rewrite IH. split; [tauto|]. intros [H|H]; [congruence|exact H].
Qed.

Theorem C16_gen_validate_spec : forall md,
  gen_plugin_validate md = None
  <-> GetMetadataResponse_Name md <> "" /\ GetMetadataResponse_Description md <> ""
      /\ GetMetadataResponse_Version md <> "" /\ GetMetadataResponse_URL md <> ""
      /\ GetMetadataResponse_Capabilities md <> []
      /\ In "1.0" (GetMetadataResponse_SupportedContractVersions md).
Proof.
  intros md. unfold gen_plugin_validate. rewrite !list_len_zero.
  destruct (String.eqb (GetMetadataResponse_Name md) "") eqn:E1;
    [apply String.eqb_eq in E1; split; [discriminate|tauto]|apply String.eqb_neq in E1].
  destruct (String.eqb (GetMetadataResponse_Description md) "") eqn:E2;
    [apply String.eqb_eq in E2; split; [discriminate|tauto]|apply String.eqb_neq in E2].
  destruct (String.eqb (GetMetadataResponse_Version md) "") eqn:E3;
    [apply String.eqb_eq in E3; split; [discriminate|tauto]|apply String.eqb_neq in E3].
  destruct (String.eqb (GetMetadataResponse_URL md) "") eqn:E4;
    [apply String.eqb_eq in E4; split; [discriminate|tauto]|apply String.eqb_neq in E4].
  destruct (GetMetadataResponse_Capabilities md) as [|c cs]; [split; [discriminate|tauto]|].
  destruct (GetMetadataResponse_SupportedContractVersions md) as [|v vs];
    [split; [discriminate|cbn [In]; tauto]|].
  destruct (gen_slices_Contains_string (v :: vs) "1.0") eqn:EC; cbn [negb].
  - apply gen_Contains_In in EC. split; [intros _|reflexivity]. repeat split; try assumption. discriminate.
  - split; [discriminate|]. intros (_ & _ & _ & _ & _ & HI). apply gen_Contains_In in HI. congruence.
Qed.
Print Assumptions C16_gen_validate_spec.

(* run_meta's first test: a document with an empty name is no metadata document *)
Theorem C16_gen_validate_rejects_empty_name : forall md,
  GetMetadataResponse_Name md = "" -> gen_plugin_validate md <> None.
Proof. intros md H G. apply C16_gen_validate_spec in G. tauto. Qed.
Print Assumptions C16_gen_validate_rejects_empty_name.

(* ================================================================== *)
(* 5. the verifier: the name taken from the signature                  *)

Definition key_plugin : string := "io.cncf.notary.verificationPlugin".
Definition key_min_version : string := "io.cncf.notary.verificationPluginMinVersion".

(* how the model classifies what notation-core-go's SignerInfo.ExtendedAttribute
   (the oracle) returned: a FUNCTION of the oracle's answer, no hypothesis *)
Definition vattr_of (r : signature_Attribute * option GoLib.err) : vattr :=
  match r with
  | (_, Some _) => VAbsent
  | (a, None) =>
      if Attribute_Critical a
      then (if snd (any_str "string" (Attribute_Value a))
            then VStr (fst (any_str "string" (Attribute_Value a))) else VNotString)
      else VNotCritical (fst (any_str "string" (Attribute_Value a)))
  end.

(* extractCriticalStringExtendedAttribute (now translated: comma-ok assertion on
   the `any` value): absent -> exactly the sentinel errExtendedAttributeNotExist,
   not critical / not a string -> another error made by fmt.Errorf, else the string *)
Theorem C16_gen_extract_equiv : forall SI EA si key,
  match vattr_of (EA si key) with
  | VAbsent => gen_verifier_extractCriticalStringExtendedAttribute SI EA si key
               = ("", verifier_errExtendedAttributeNotExist)
  | VStr s => gen_verifier_extractCriticalStringExtendedAttribute SI EA si key = (s, None)
  | _ => exists e, gen_verifier_extractCriticalStringExtendedAttribute SI EA si key = ("", Some e)
                   /\ err_typ e = "fmt"
  end.
Proof.
  intros SI EA si key. unfold gen_verifier_extractCriticalStringExtendedAttribute, vattr_of.
  destruct (EA si key) as [a [e|]]; cbn [GoLib.is_none negb]; [reflexivity|].
  destruct (Attribute_Critical a); cbn [negb].
  - destruct (any_str "string" (Attribute_Value a)) as [v ok]. cbn [fst snd].
    destruct ok; cbn [negb]; [reflexivity|]. eexists; split; reflexivity.
  - eexists; split; reflexivity.
Qed.
Print Assumptions C16_gen_extract_equiv.

(* the sentinel is not an error made by fmt.Errorf: processSignature's test
   `err != errExtendedAttributeNotExist` separates "no plugin" from "stop" *)
Theorem C16_gen_not_exist_sentinel_distinct :
  match verifier_errExtendedAttributeNotExist with
  | Some e => err_typ e <> "fmt"
  | None => False
  end.
Proof. vm_compute. discriminate. Qed.
Print Assumptions C16_gen_not_exist_sentinel_distinct.

(* getVerificationPlugin = the first stage of the model's verify_plan, for every
   answer of the oracle; strings.TrimSpace = all_space on every byte string *)
Theorem C16_gen_getVerificationPlugin_equiv : forall SI EA si,
  match verification_plugin_stage (vattr_of (EA si key_plugin)) with
  | NSName s => gen_verifier_getVerificationPlugin SI EA si = (s, None)
  | NSNoPlugin => gen_verifier_getVerificationPlugin SI EA si = ("", verifier_errExtendedAttributeNotExist)
  | NSError _ => exists e, gen_verifier_getVerificationPlugin SI EA si = ("", Some e) /\ err_typ e = "fmt"
  end.
Proof.
  intros SI EA si. pose proof (C16_gen_extract_equiv SI EA si key_plugin) as X.
  unfold gen_verifier_getVerificationPlugin. fold key_plugin.
  destruct (vattr_of (EA si key_plugin)) as [|s| |s]; cbn [verification_plugin_stage].
  - rewrite X. destruct verifier_errExtendedAttributeNotExist eqn:E; [reflexivity|].
    exfalso. pose proof C16_gen_not_exist_sentinel_distinct as D. rewrite E in D. exact D.
  - destruct X as [e [X T]]. rewrite X. cbn [GoLib.is_none negb]. exists e. split; [reflexivity|exact T].
  - destruct X as [e [X T]]. rewrite X. cbn [GoLib.is_none negb]. exists e. split; [reflexivity|exact T].
  - rewrite X. cbn [GoLib.is_none negb]. rewrite trim_space_empty_all_space.
    destruct (all_space s); [eexists; split; reflexivity|reflexivity].
Qed.
Print Assumptions C16_gen_getVerificationPlugin_equiv.

(* C16_from_signature / C16_signature_attribute_calls on the code as translated:
   whatever the manager is called with by the model's plan is the string the
   generated getVerificationPlugin returned, and that string is not blank *)
Theorem C16_gen_signature_name_to_manager : forall SI EA si mb pm s,
  In (CGet s) (snd (verify_plan (vattr_of (EA si key_plugin)) mb pm)) ->
  gen_verifier_getVerificationPlugin SI EA si = (s, None) /\ all_space s = false.
Proof.
  intros SI EA si mb pm s HI. apply verify_plan_calls_stage in HI.
  pose proof (C16_gen_getVerificationPlugin_equiv SI EA si) as E. rewrite HI in E.
  split; [exact E|]. destruct (vattr_of (EA si key_plugin)) as [|x| |x]; cbn in HI; try discriminate.
  destruct (all_space x) eqn:A; [discriminate|]. now inversion HI; subst.
Qed.
Print Assumptions C16_gen_signature_name_to_manager.

(* conversely: when the generated function fails, the model's plan calls nothing *)
Theorem C16_gen_signature_error_no_call : forall SI EA si mb pm n e,
  gen_verifier_getVerificationPlugin SI EA si = (n, Some e) ->
  snd (verify_plan (vattr_of (EA si key_plugin)) mb pm) = [].
Proof.
  intros SI EA si mb pm n e G. rewrite verify_plan_stages.
  pose proof (C16_gen_getVerificationPlugin_equiv SI EA si) as E.
  destruct (verification_plugin_stage (vattr_of (EA si key_plugin))) as [|c|s]; [reflexivity|reflexivity|congruence].
Qed.
Print Assumptions C16_gen_signature_error_no_call.

(* getVerificationPluginMinVersion: fails exactly when the attribute is not a
   critical string, the value is blank, or it is not a semantic version (oracle
   semver.IsValid) *)
Theorem C16_gen_getVerificationPluginMinVersion_spec : forall SI EA is_valid si,
  match vattr_of (EA si key_min_version) with
  | VStr v =>
      if all_space v || negb (is_valid v)
      then exists e, gen_verifier_getVerificationPluginMinVersion SI EA is_valid si = ("", Some e)
                     /\ err_typ e = "fmt"
      else gen_verifier_getVerificationPluginMinVersion SI EA is_valid si = (v, None)
  | VAbsent => gen_verifier_getVerificationPluginMinVersion SI EA is_valid si
               = ("", verifier_errExtendedAttributeNotExist)
  | _ => exists e, gen_verifier_getVerificationPluginMinVersion SI EA is_valid si = ("", Some e)
                   /\ err_typ e = "fmt"
  end.
Proof.
  intros SI EA is_valid si. pose proof (C16_gen_extract_equiv SI EA si key_min_version) as X.
  unfold gen_verifier_getVerificationPluginMinVersion. fold key_min_version.
  destruct (vattr_of (EA si key_min_version)) as [|s| |s].
  - rewrite X. destruct verifier_errExtendedAttributeNotExist eqn:E; [reflexivity|].
    exfalso. pose proof C16_gen_not_exist_sentinel_distinct as D. rewrite E in D. exact D.
  - destruct X as [e [X T]]. rewrite X. cbn [GoLib.is_none negb]. exists e. split; [reflexivity|exact T].
  - destruct X as [e [X T]]. rewrite X. cbn [GoLib.is_none negb]. exists e. split; [reflexivity|exact T].
  - rewrite X. cbn [GoLib.is_none negb]. rewrite trim_space_empty_all_space.
    destruct (all_space s); cbn [orb]; [eexists; split; reflexivity|].
    destruct (is_valid s); cbn [negb]; [reflexivity|eexists; split; reflexivity].
Qed.
Print Assumptions C16_gen_getVerificationPluginMinVersion_spec.

(* ================================================================== *)
(* 6. dir.sysFS.SysPath, CLIManager.Uninstall, isExecutableFile         *)

(* SysPath(items...) joins the root in front of the items (oracle filepath.Join) *)
Theorem C16_gen_SysPath_equiv : forall Join s items,
  gen_dir_sysFS_SysPath Join s items = (Join (sysFS_root s :: items), None).
Proof. reflexivity. Qed.
Print Assumptions C16_gen_SysPath_equiv.

(* the manager's file system (interface dir.SysFS, an oracle of Uninstall)
   answers like sysFS{root}.SysPath with filepath.Join = the model's pjoin
   (pjoin is tied to filepath.Join by the harness family "path") *)
Definition syspath_agrees (SysPath : list string -> string * option GoLib.err) (root : string) : Prop :=
  forall items, SysPath items = (pjoin (root :: items), None).

Theorem C16_gen_SysPath_agrees : forall Join root,
  (forall l, Join l = pjoin l) -> syspath_agrees (gen_dir_sysFS_SysPath Join (mk_sysFS root)) root.
Proof. intros Join root H items. rewrite C16_gen_SysPath_equiv. cbn [sysFS_root]. now rewrite H. Qed.
Print Assumptions C16_gen_SysPath_agrees.

(* Uninstall, every behaviour of every oracle: validation first; then ONE path,
   SysPath(name); stat it; remove exactly it *)
Theorem C16_gen_Uninstall_spec : forall FI Stat SysPath RemoveAll m name,
  gen_plugin_CLIManager_Uninstall FI Stat SysPath RemoveAll m name =
  match gen_plugin_validatePluginName name with
  | Some e => Some e
  | None =>
      match SysPath [name] with
      | (_, Some e) => Some e
      | (p, None) => match Stat p with (_, Some e) => Some e | (_, None) => RemoveAll p end
      end
  end.
Proof.
  intros. unfold gen_plugin_CLIManager_Uninstall.
  destruct (gen_plugin_validatePluginName name) as [e|]; cbn [GoLib.is_none negb]; [reflexivity|].
  destruct (SysPath [name]) as [p [e|]]; cbn [GoLib.is_none negb]; [reflexivity|].
  destruct (Stat p) as [fi [e|]]; reflexivity.
Qed.
Print Assumptions C16_gen_Uninstall_spec.

(* a refused name: the result is the validation error whatever the operating
   system and the file system object are (none of them is consulted) *)
Theorem C16_gen_Uninstall_rejected : forall FI Stat SysPath RemoveAll m name e,
  gen_plugin_validatePluginName name = Some e ->
  gen_plugin_CLIManager_Uninstall FI Stat SysPath RemoveAll m name = Some e.
Proof. intros. rewrite C16_gen_Uninstall_spec, H. reflexivity. Qed.
Print Assumptions C16_gen_Uninstall_rejected.

(* footprint: the result depends on the operating system only through what
   Stat and RemoveAll answer on the one path SysPath(name) *)
Theorem C16_gen_Uninstall_footprint : forall FI Stat Stat' SysPath RemoveAll RemoveAll' m name,
  let p := fst (SysPath [name]) in
  Stat p = Stat' p -> RemoveAll p = RemoveAll' p ->
  gen_plugin_CLIManager_Uninstall FI Stat SysPath RemoveAll m name
  = gen_plugin_CLIManager_Uninstall FI Stat' SysPath RemoveAll' m name.
Proof.
  intros FI Stat Stat' SysPath RA RA' m name p HS HR. rewrite !C16_gen_Uninstall_spec.
  destruct (gen_plugin_validatePluginName name); [reflexivity|]. subst p.
  destruct (SysPath [name]) as [q [e|]]; [reflexivity|]. cbn [fst] in *. rewrite <- HS, <- HR. reflexivity.
Qed.
Print Assumptions C16_gen_Uninstall_footprint.

(* = the model's uninstall: same error class; where the model removes, the
   generated function returns what RemoveAll answers on the model's path
   <root>/<name> (the path of every entry of the model's effect log) *)
Theorem C16_gen_Uninstall_equiv :
  forall FI Stat IsRegular SysPath RemoveAll notexist w root,
    stat_agrees FI Stat IsRegular notexist w -> syspath_agrees SysPath root ->
    forall m name,
      let g := gen_plugin_CLIManager_Uninstall FI Stat SysPath RemoveAll m name in
      match uninstall w root name with
      | (ENone, w', l) => g = RemoveAll (pjoin [root; name])
                          /\ l = [EStat (pjoin [root; name]); ERemoveAll (pjoin [root; name])]
      | (c, w', l) => errc notexist g = c /\ w' = w
                      /\ (l = [] \/ l = [EStat (pjoin [root; name])])
      end.
Proof.
  intros FI Stat IsReg SysPath RA ne w root Hs Hp m name. cbn zeta.
  rewrite C16_gen_Uninstall_spec, uninstall_is_validate_then_stat.
  destruct (gen_validate_cases name) as [[V G]|[V [e [G F]]]]; rewrite V, G.
  - cbn zeta. rewrite (Hp [name]). specialize (Hs (pjoin [root; name])).
    destruct (stat w (pjoin [root; name])) as [| |n].
    + destruct Hs as [fi [e [Hs [Hc Hf]]]]. rewrite Hs. unfold errc. rewrite Hf, Hc. tauto.
    + destruct Hs as [fi [e [Hs [Hc Hf]]]]. rewrite Hs. unfold errc. rewrite Hf, Hc. tauto.
    + destruct Hs as [fi [Hs _]]. rewrite Hs. tauto.
  - unfold errc. rewrite F. tauto.
Qed.
Print Assumptions C16_gen_Uninstall_equiv.

(* C16_rejected / C16_contained for Uninstall on the code as translated: refused
   names consult nothing; an accepted name makes SysPath(name) the direct child
   <clean root>/<name>, the only path stat'ed and removed *)
Theorem C16_gen_Uninstall_contained :
  forall FI Stat SysPath RemoveAll root m name,
    is_abs root = true -> syspath_agrees SysPath root ->
    gen_plugin_validatePluginName name = None ->
    gen_plugin_CLIManager_Uninstall FI Stat SysPath RemoveAll m name
    = match Stat (allowed root name) with
      | (_, Some e) => Some e
      | (_, None) => RemoveAll (allowed root name)
      end.
Proof.
  intros FI Stat SysPath RA root m name A Hp G. rewrite C16_gen_Uninstall_spec, G, (Hp [name]).
  apply C16_gen_validatePluginName_nil_iff in G. rewrite (dir_path root name A G). reflexivity.
Qed.
Print Assumptions C16_gen_Uninstall_contained.

(* ---- CLIManager.Get (result: the interface plugin.Plugin = ptr (ptr CLIPlugin),
   PNil = nil interface, PNew PNil = a nil *CLIPlugin inside a non-nil interface) ---- *)

(* the plugin a Get result lets the caller use, as its path *)
Definition plugin_path_of (r : ptr (ptr plugin_CLIPlugin) * option GoLib.err) : option string :=
  match ptr_val (fst r) with
  | Some inner => option_map CLIPlugin_path (ptr_val inner)
  | None => None
  end.

(* Get, every behaviour of every oracle: validation first; then ONE path,
   SysPath(path.Join(name, binName(name))), handed to NewCLIPlugin *)
Theorem C16_gen_Get_spec : forall FI Stat IsRegular SysPath PJoin m name,
  gen_plugin_CLIManager_Get FI Stat IsRegular SysPath PJoin m name =
  match gen_plugin_validatePluginName name with
  | Some e => (PNil, Some e)
  | None =>
      match SysPath [PJoin [name; gen_plugin_binName name]] with
      | (_, Some e) => (PNil, Some e)
      | (p, None) => (PNew (fst (gen_plugin_NewCLIPlugin FI Stat IsRegular name p)),
                      snd (gen_plugin_NewCLIPlugin FI Stat IsRegular name p))
      end
  end.
Proof.
  intros. unfold gen_plugin_CLIManager_Get.
  destruct (gen_plugin_validatePluginName name) as [e|]; cbn [GoLib.is_none negb]; [reflexivity|].
  destruct (SysPath _) as [p [e|]]; cbn [GoLib.is_none negb]; [reflexivity|].
  destruct (gen_plugin_NewCLIPlugin FI Stat IsRegular name p); reflexivity.
Qed.
Print Assumptions C16_gen_Get_spec.

(* a refused name: nil interface and the validation error, whatever the oracles are *)
Theorem C16_gen_Get_rejected : forall FI Stat IsRegular SysPath PJoin m name e,
  gen_plugin_validatePluginName name = Some e ->
  gen_plugin_CLIManager_Get FI Stat IsRegular SysPath PJoin m name = (PNil, Some e).
Proof. intros. rewrite C16_gen_Get_spec, H. reflexivity. Qed.
Print Assumptions C16_gen_Get_rejected.

(* footprint: the result depends on the operating system only through what Stat
   answers (and IsRegular says of that answer) on the one executable path *)
Theorem C16_gen_Get_footprint : forall FI Stat Stat' IsRegular SysPath PJoin m name,
  let p := fst (SysPath [PJoin [name; gen_plugin_binName name]]) in
  Stat p = Stat' p ->
  gen_plugin_CLIManager_Get FI Stat IsRegular SysPath PJoin m name
  = gen_plugin_CLIManager_Get FI Stat' IsRegular SysPath PJoin m name.
Proof.
  intros FI Stat Stat' IsReg SysPath PJ m name p HS. rewrite !C16_gen_Get_spec.
  destruct (gen_plugin_validatePluginName name); [reflexivity|]. subst p.
  destruct (SysPath _) as [q [e|]]; [reflexivity|]. cbn [fst] in HS.
  unfold gen_plugin_NewCLIPlugin. rewrite <- HS. reflexivity.
Qed.
Print Assumptions C16_gen_Get_footprint.

(* an error means no usable plugin (the interface may be non-nil then: Go's
   typed nil, kept by the translation - callers must test the error) *)
Theorem C16_gen_Get_error_no_plugin : forall FI Stat IsRegular SysPath PJoin m name,
  let g := gen_plugin_CLIManager_Get FI Stat IsRegular SysPath PJoin m name in
  snd g <> None -> plugin_path_of g = None.
Proof.
  intros FI Stat IsReg SysPath PJ m name. cbn zeta. rewrite C16_gen_Get_spec.
  destruct (gen_plugin_validatePluginName name); [reflexivity|].
  destruct (SysPath _) as [q [e|]]; [reflexivity|].
  unfold plugin_path_of, gen_plugin_NewCLIPlugin.
  destruct (Stat q) as [fi [e|]]; cbn [GoLib.is_none negb fst snd ptr_val option_map]; [reflexivity|].
  destruct (IsReg fi); cbn [negb fst snd ptr_val option_map]; [intros H; now elim H|reflexivity].
Qed.
Print Assumptions C16_gen_Get_error_no_plugin.

(* = the model's get, for every name, root and file system: error class, the
   path of the plugin found, and the effect log (nothing for a refused name, one
   stat of <root>/<name>/notation-<name> otherwise) *)
Theorem C16_gen_Get_equiv :
  forall FI Stat IsRegular SysPath PJoin notexist w root,
    lib_errors_distinct notexist -> stat_agrees FI Stat IsRegular notexist w ->
    syspath_agrees SysPath root -> (forall l, PJoin l = pjoin l) ->
    forall m name,
      let g := gen_plugin_CLIManager_Get FI Stat IsRegular SysPath PJoin m name in
      get w root name =
      (errc notexist (snd g), plugin_path_of g,
       if GoLib.is_none (gen_plugin_validatePluginName name)
       then [EStat (pjoin [root; pjoin [name; gen_plugin_binName name]])] else []).
Proof.
  intros FI Stat IsReg SysPath PJ ne w root Hd Hs Hp Hj m name. cbn zeta.
  rewrite (C16_gen_Get_composition FI Stat IsReg ne w Hd Hs), C16_gen_Get_spec.
  destruct (gen_plugin_validatePluginName name) as [e|]; cbn [GoLib.is_none]; [reflexivity|].
  rewrite Hj, (Hp [pjoin [name; gen_plugin_binName name]]). cbn zeta.
  unfold new_cli_abs, plugin_path_of. cbn [fst snd ptr_val]. reflexivity.
Qed.
Print Assumptions C16_gen_Get_equiv.

(* isExecutableFile (view Mode() of the opaque FileInfo; FileMode.IsRegular and
   FileMode.Perm translated from io/fs): the model's stat + x bit *)
Definition mode_agrees (FI : Type) (Stat : string -> FI * option GoLib.err) (Mode : FI -> Z)
           (notexist : GoLib.err -> bool) (w : fs) : Prop :=
  forall p,
    match stat w p with
    | SNotExist => exists fi e, Stat p = (fi, Some e) /\ chain_is notexist e = true /\ fmt_invalid e = false
    | SOtherErr => exists fi e, Stat p = (fi, Some e) /\ chain_is notexist e = false /\ fmt_invalid e = false
    | SOk NDir => exists fi, Stat p = (fi, None) /\ gen_fs_FileMode_IsRegular (Mode fi) = false
    | SOk (NFile x _) =>
        exists fi, Stat p = (fi, None) /\ gen_fs_FileMode_IsRegular (Mode fi) = true
                   /\ Z.testbit (Mode fi) 6 = x           (* 0100: the owner's x bit *)
    end.

Lemma perm_bit_0100 m :
  negb (Z.eqb (Z.land (gen_fs_FileMode_Perm m) 64) 0) = Z.testbit m 6.
Proof.
  unfold gen_fs_FileMode_Perm. rewrite <- Z.land_assoc.
  change (Z.land 511 64) with (2 ^ 6)%Z.
  destruct (Z.testbit m 6) eqn:T.
  - apply negb_true_iff, Z.eqb_neq. intros H.
    assert (X : Z.testbit (Z.land m (2 ^ 6)) 6 = true).
    { rewrite Z.land_spec, T, Z.pow2_bits_true by lia. reflexivity. }
    rewrite H in X. cbn in X. discriminate.
  - apply negb_false_iff, Z.eqb_eq. apply Z.bits_inj'. intros n Hn.
    rewrite Z.land_spec, Z.bits_0, Z.pow2_bits_eqb by lia.
    destruct (Z.eqb_spec 6 n) as [<-|]; [rewrite T; reflexivity|apply andb_false_r].
Qed.

Lemma perm_bit_0100' m :
  negb (Z.eqb (Z.land 64 (gen_fs_FileMode_Perm m)) 0) = Z.testbit m 6.
Proof. rewrite Z.land_comm. apply perm_bit_0100. Qed.

Theorem C16_gen_isExecutableFile_equiv :
  forall FI Stat Mode notexist w,
    lib_errors_distinct notexist -> mode_agrees FI Stat Mode notexist w ->
    forall p,
      (fst (gen_plugin_isExecutableFile FI Stat Mode p),
       errc notexist (snd (gen_plugin_isExecutableFile FI Stat Mode p)))
      = is_executable_file w p.
Proof.
  intros FI Stat Mode ne w Hd Hm p. unfold gen_plugin_isExecutableFile, is_executable_file.
  specialize (Hm p). destruct (stat w p) as [| |[|x md]].
  - destruct Hm as [fi [e [Hs [Hc Hf]]]]. rewrite Hs. cbn [GoLib.is_none negb fst snd].
    unfold errc. rewrite Hf, Hc. reflexivity.
  - destruct Hm as [fi [e [Hs [Hc Hf]]]]. rewrite Hs. cbn [GoLib.is_none negb fst snd].
    unfold errc. rewrite Hf, Hc. reflexivity.
  - destruct Hm as [fi [Hs Hr]]. rewrite Hs. cbn [GoLib.is_none negb]. rewrite Hr. cbn [negb fst snd].
    rewrite (errc_lib_leaf ne Hd plugin_ErrNotRegularFile) by (vm_compute; reflexivity). reflexivity.
  - destruct Hm as [fi [Hs [Hr Hx]]]. rewrite Hs. cbn [GoLib.is_none negb]. rewrite Hr. cbn [negb fst snd].
    rewrite ?perm_bit_0100, ?perm_bit_0100', Hx. reflexivity.
Qed.
Print Assumptions C16_gen_isExecutableFile_equiv.

(* ================================================================== *)
(* 7. CLIManager.List (fs.WalkDir: the oracle supplies the tree the walk sees,
      GoLib.walk_dir is the library's algorithm with the SkipDir protocol)      *)

(* the loop over the children inside GoLib.walk_node, named *)
Definition kids_loop {E S : Type} (fn : S -> string -> ptr E -> option GoLib.err -> option (S * option GoLib.err)) :=
  fix kids_loop (l : list (walk_tree E)) (s : S) : option (S * option GoLib.err) :=
    match l with
    | [] => Some (s, None)
    | k :: l' =>
        match walk_node fn k s with
        | None => None
        | Some (s, None) => kids_loop l' s
        | Some (s, Some e) =>
            if err_is_sentinel "fs.SkipDir" (Some e) then Some (s, None) else Some (s, Some e)
        end
    end.

Lemma walk_node_dir_unfold {E S : Type} (fn : S -> string -> ptr E -> option GoLib.err -> option (S * option GoLib.err))
      name d kids s :
  fn s name (PNew d) None = Some (s, None) ->
  walk_node fn (WNode name d true None kids) s = kids_loop fn kids s.
Proof. intros H. cbn [walk_node]. rewrite H. reflexivity. Qed.

Definition entry_of_kid {E : Type} (k : walk_tree E) : E := match k with WNode _ d _ _ _ => d end.

(* a child of the root as ReadDir reports it: its path is not ".", and the
   directory flag the walk reads says [isd] of the entry *)
Definition kid_ok {E : Type} (isd : E -> bool) (k : walk_tree E) : Prop :=
  match k with WNode name d isdir _ _ => name <> "." /\ isdir = isd d end.

Lemma kids_loop_spec {E : Type} (fn : list string -> string -> ptr E -> option GoLib.err -> option (list string * option GoLib.err))
      (isd : E -> bool) (nm : E -> string) (skip : option GoLib.err) :
  err_is_sentinel "fs.SkipDir" skip = true ->
  (forall s name d, name <> "." ->
     fn s name (PNew d) None = Some (if isd d then (s ++ [nm d], skip) else (s, None))) ->
  forall kids, Forall (kid_ok isd) kids ->
  forall s, kids_loop fn kids s = Some (s ++ map nm (filter isd (map entry_of_kid kids)), None).
Proof.
  intros Hskip Hfn kids HF. induction HF as [|k kids Hk _ IH]; intros s.
  - cbn. now rewrite app_nil_r.
  - destruct k as [name d isdir rerr gk]. destruct Hk as [Hn Hd]. subst isdir.
    cbn [kids_loop map filter entry_of_kid]. fold (kids_loop fn).
    assert (W : walk_node fn (WNode name d (isd d) rerr gk) s
                = Some (if isd d then s ++ [nm d] else s, None)).
    { cbn [walk_node]. rewrite (Hfn s name d Hn). destruct (isd d).
      - destruct skip as [e|]; [|discriminate]. cbn [is_some orb]. rewrite Hskip. reflexivity.
      - reflexivity. }
    rewrite W. destruct (isd d); rewrite IH; cbn [map app]; [rewrite <- app_assoc|]; reflexivity.
Qed.

(* a real (non-symlink) directory, as List tests it on DirEntry.Type() *)
Definition real_dir {E : Type} (Ty : E -> Z) (d : E) : bool :=
  gen_fs_FileMode_IsDir (Ty d) && Z.eqb (Z.land (Ty d) 134217728 (* fs.ModeSymlink *)) 0.

(* the entry list of the model: name and kind (which non-directory kind is
   immaterial to list_plugins) *)
Definition model_entry {E : Type} (Ty : E -> Z) (Nm : E -> string) (k : walk_tree E) : string * ekind :=
  (Nm (entry_of_kid k), if real_dir Ty (entry_of_kid k) then KDir else KOther).

Lemma list_plugins_entries {E : Type} (Ty : E -> Z) (Nm : E -> string) kids :
  list_plugins true (map (model_entry Ty Nm) kids)
  = map Nm (filter (real_dir Ty) (map entry_of_kid kids)).
Proof.
  unfold list_plugins. induction kids as [|k kids IH]; [reflexivity|].
  cbn [map filter]. unfold model_entry at 1. cbn [snd].
  destruct (real_dir Ty (entry_of_kid k)); cbn [is_kdir map fst]; rewrite IH; reflexivity.
Qed.

(* List = the model's list_plugins over what the walk of the plugin root sees:
   exactly the names of the real (non-symlink) sub-directories, in ReadDir order,
   nothing below them (SkipDir); a missing root lists nothing without error *)
Theorem C16_gen_List_equiv : forall DE Ty Nm Walk m,
  match Walk "." with
  | inr e =>
      if err_is (Some e) os_ErrNotExist
      then gen_plugin_CLIManager_List DE Ty Nm Walk m = Some (list_plugins false [], None)
      else exists r, gen_plugin_CLIManager_List DE Ty Nm Walk m = Some ([], r)
  | inl (WNode nm d isdir rerr kids) =>
      nm = "." ->
      if isdir
      then rerr = None -> Forall (kid_ok (real_dir Ty)) kids ->
           gen_plugin_CLIManager_List DE Ty Nm Walk m
           = Some (list_plugins true (map (model_entry Ty Nm) kids), None)
      else gen_plugin_CLIManager_List DE Ty Nm Walk m = Some ([], None)
  end.
Proof.
  intros DE Ty Nm Walk m. unfold gen_plugin_CLIManager_List.
  match goal with |- context [walk_dir ?f _ _ _] => set (fn := f) end.
  assert (Froot : forall s d, fn s "." (PNew d) None = Some (s, None)) by (intros; reflexivity).
  assert (Fkid : forall s name d, name <> "." ->
            fn s name (PNew d) None
            = Some (if real_dir Ty d then (s ++ [Nm d], fs_SkipDir) else (s, None))).
  { intros s name d Hn. subst fn. cbv beta. cbn [GoLib.is_none negb ptr_val].
    apply String.eqb_neq in Hn. rewrite Hn. unfold real_dir.
    destruct (gen_fs_FileMode_IsDir (Ty d)); cbn [negb orb andb]; [|reflexivity].
    destruct (Z.eqb (Z.land (Ty d) 134217728) 0); reflexivity. }
  destruct (Walk ".") as [[nm d isdir rerr kids]|e]; unfold walk_dir.
  - intros ->. destruct isdir.
    + intros -> HF. rewrite (walk_node_dir_unfold fn "." d kids [] (Froot [] d)).
      rewrite (kids_loop_spec fn (real_dir Ty) Nm fs_SkipDir eq_refl Fkid kids HF []).
      cbn [app err_is_sentinel orb GoLib.is_none negb]. rewrite list_plugins_entries. reflexivity.
    + cbn [walk_node]. rewrite Froot. reflexivity.
  - subst fn. cbv beta. cbn [GoLib.is_none negb].
    destruct (err_is (Some e) os_ErrNotExist); [reflexivity|].
    destruct (err_is_sentinel "fs.SkipDir" (Some e) || err_is_sentinel "fs.SkipAll" (Some e));
      cbn [GoLib.is_none negb]; eexists; reflexivity.
Qed.
Print Assumptions C16_gen_List_equiv.

(* C16_list on the code as translated: a name is listed iff the walk saw a child
   of the root with that name that is a real (non-symlink) directory *)
Theorem C16_gen_List_exact : forall DE Ty Nm Walk m d kids n,
  Walk "." = inl (WNode "." d true None kids) -> Forall (kid_ok (real_dir Ty)) kids ->
  exists names, gen_plugin_CLIManager_List DE Ty Nm Walk m = Some (names, None)
    /\ (In n names <-> exists k, In k kids /\ Nm (entry_of_kid k) = n /\ real_dir Ty (entry_of_kid k) = true).
Proof.
  intros DE Ty Nm Walk m d kids n HW HF.
  pose proof (C16_gen_List_equiv DE Ty Nm Walk m) as L. rewrite HW in L.
  specialize (L eq_refl eq_refl HF). eexists. split; [exact L|].
  rewrite (list_exact true (map (model_entry Ty Nm) kids) n). split.
  - intros [_ HI]. apply in_map_iff in HI. destruct HI as [k [Hk HI]]. exists k.
    unfold model_entry in Hk. destruct (real_dir Ty (entry_of_kid k)) eqn:R; inversion Hk; subst; auto.
  - intros [k [HI [Hn Hr]]]. split; [reflexivity|]. apply in_map_iff. exists k. split; [|exact HI].
    unfold model_entry. rewrite Hr, Hn. reflexivity.
Qed.
Print Assumptions C16_gen_List_exact.

(* ================================================================== *)
(* 8. parsePluginFromDir (filepath.WalkDir): the scan of an install source    *)

Definition scan_tuple (st : scan) : string * string * string * bool * list string :=
  (sc_file st, sc_name st, sc_cand st, sc_found st, sc_files st).

Definition is_ndir (n : node) : bool := match n with NDir => true | _ => false end.

(* what the walk shows of one entry (c, n) of the source directory src: its path,
   its name, whether it is a directory, a FileInfo that says "regular" exactly for
   files; for a file, isExecutableFile's answer is the node's x bit *)
Definition kid_rel (FI DE : Type) (Stat : string -> FI * option GoLib.err) (IsRegular : FI -> bool)
           (Mode : FI -> Z) (Nm : DE -> string) (IsDir : DE -> bool)
           (Info : DE -> FI * option GoLib.err) (src : string)
           (k : walk_tree DE) (e : string * node) : Prop :=
  match k with
  | WNode p d isdir _ _ =>
      p = child_path src (fst e) /\ p <> src /\ Nm d = fst e
      /\ IsDir d = isdir /\ isdir = is_ndir (snd e)
      /\ (exists fi, Info d = (fi, None) /\ IsRegular fi = negb (is_ndir (snd e)))
      /\ match snd e with
         | NFile x _ => gen_plugin_isExecutableFile FI Stat Mode p = (x, None)
         | NDir => True
         end
  end.

Section ScanWalk.
  Variables (FI DE : Type) (Stat : string -> FI * option GoLib.err) (IsRegular : FI -> bool)
            (Mode : FI -> Z) (Nm : DE -> string) (IsDir : DE -> bool)
            (Info : DE -> FI * option GoLib.err) (src : string).
  Variable fn : (string * string * string * bool * list string) -> string -> ptr DE -> option GoLib.err
                -> option ((string * string * string * bool * list string) * option GoLib.err).

  (* the callback on one related entry follows the model's scan_step *)
  Definition fn_follows_scan_step : Prop :=
    forall k e st, kid_rel FI DE Stat IsRegular Mode Nm IsDir Info src k e ->
      match k with
      | WNode p d _ _ _ =>
          match scan_step src (Some st) e with
          | Some st' =>
              fn (scan_tuple st) p (PNew d) None
              = Some (scan_tuple st', if is_ndir (snd e) then fs_SkipDir else None)
          | None =>
              exists s' er, fn (scan_tuple st) p (PNew d) None = Some (s', Some er)
                            /\ err_typ er = "errors"
          end
      end.

  Lemma scan_walk (Hfn : fn_follows_scan_step) : forall kids es,
    Forall2 (kid_rel FI DE Stat IsRegular Mode Nm IsDir Info src) kids es ->
    forall st,
      match fold_left (scan_step src) es (Some st) with
      | Some st' => kids_loop fn kids (scan_tuple st) = Some (scan_tuple st', None)
      | None => exists s' er, kids_loop fn kids (scan_tuple st) = Some (s', Some er)
                              /\ err_typ er = "errors"
      end.
  Proof.
    intros kids es HF. induction HF as [|k e kids es Hk _ IH]; intros st.
    - reflexivity.
    - cbn [fold_left]. pose proof (Hfn k e st Hk) as H.
      destruct k as [p d isdir rerr gk]. cbn [kids_loop]. fold (kids_loop fn).
      destruct Hk as (_ & _ & _ & _ & Hd & _).
      destruct (scan_step src (Some st) e) as [st'|] eqn:E.
      + assert (W : walk_node fn (WNode p d isdir rerr gk) (scan_tuple st) = Some (scan_tuple st', None)).
        { cbn [walk_node]. rewrite H, Hd. destruct (is_ndir (snd e)); reflexivity. }
        rewrite W. apply IH.
      + destruct H as [s' [er [H Ht]]].
        assert (Hs : err_is_sentinel "fs.SkipDir" (Some er) = false).
        { destruct er as [t f ws]. cbn in Ht. subst t. reflexivity. }
        assert (W : walk_node fn (WNode p d isdir rerr gk) (scan_tuple st) = Some (s', Some er)).
        { cbn [walk_node]. rewrite H. cbn [is_some orb]. rewrite Hs. reflexivity. }
        rewrite W, Hs.
        assert (F : fold_left (scan_step src) es None = None).
        { clear. induction es as [|x es IH]; [reflexivity|exact IH]. }
        rewrite F. eexists; eexists; split; [reflexivity|exact Ht].
  Qed.
End ScanWalk.

(* parsePluginFromDir on a directory = the model's scan (fold of scan_step over
   the entries) followed by the model's decision; setExecutable is an oracle *)
Theorem C16_gen_parsePluginFromDir_equiv :
  forall FI Stat IsRegular Mode DE Nm IsDir Info Walk SetExec src fi0 d0 kids es,
    Stat src = (fi0, None) -> gen_fs_FileMode_IsDir (Mode fi0) = true ->
    Walk src = inl (WNode src d0 true None kids) ->
    (exists fi, Info d0 = (fi, None) /\ IsRegular fi = false) ->
    Forall2 (kid_rel FI DE Stat IsRegular Mode Nm IsDir Info src) kids es ->
    let g := gen_plugin_parsePluginFromDir FI Stat IsRegular Mode DE Nm IsDir Info Walk SetExec src in
    match fold_left (scan_step src) es (Some scan0) with
    | None => exists e, g = Some ("", "", Some e)
    | Some st =>
        if sc_found st then g = Some (sc_file st, sc_name st, None)
        else match sc_files st with
             | [cand] => match SetExec cand with
                         | None => g = Some (cand, sc_cand st, None)
                         | Some _ => exists e, g = Some ("", "", Some e)
                         end
             | _ => exists e, g = Some ("", "", Some e)
             end
    end.
Proof.
  intros FI Stat IsReg Mode DE Nm IsDir Info Walk SetExec src fi0 d0 kids es HS HD HW [fi [HI HR]] HF.
  cbn zeta. unfold gen_plugin_parsePluginFromDir. rewrite HS. cbn [GoLib.is_none negb]. rewrite HD.
  cbn [negb]. cbv zeta.
  match goal with |- context [walk_dir ?f _ _ _] => set (fn := f) end.
  rewrite HW. unfold walk_dir.
  assert (Froot : forall st, fn (scan_tuple st) src (PNew d0) None = Some (scan_tuple st, None)).
  { intros st. subst fn. unfold scan_tuple. cbv beta iota zeta. cbn [GoLib.is_none negb ptr_val].
    rewrite (proj2 (String.eqb_eq src src) eq_refl), andb_false_r. rewrite HI. cbn [GoLib.is_none negb].
    rewrite HR. reflexivity. }
  assert (Hfn : fn_follows_scan_step FI DE Stat IsReg Mode Nm IsDir Info src fn).
  { intros [p d isdir rerr gk] [c n] st (Hp & Hne & Hn & Hd & Hi & [fi' [Hinfo Hreg]] & Hx). cbn [fst snd] in *.
    subst fn. unfold scan_tuple. cbv beta iota zeta. cbn [GoLib.is_none negb ptr_val].
    apply String.eqb_neq in Hne. rewrite Hne, Hd, Hi. cbn [negb]. rewrite andb_true_r.
    destruct n as [|x md]; cbn [is_ndir scan_step snd fst].
    - reflexivity.
    - rewrite Hinfo. cbn [GoLib.is_none negb]. rewrite Hreg. cbn [is_ndir negb]. rewrite Hn.
      pose proof (C16_gen_parsePluginName_equiv c) as P.
      destruct (parse_plugin_name c) as [nm|].
      + rewrite P. cbn [GoLib.is_none negb]. rewrite <- Hp, Hx. cbn [GoLib.is_none negb].
        destruct x; cbn [negb].
        * destruct (sc_found st) eqn:F.
          -- eexists; eexists; split; [reflexivity|reflexivity].
          -- reflexivity.
        * reflexivity.
      + destruct P as [e [P _]]. rewrite P. cbn [GoLib.is_none negb]. reflexivity. }
  change ("", "", "", false, @nil string) with (scan_tuple scan0).
  rewrite (walk_node_dir_unfold fn src d0 kids (scan_tuple scan0) (Froot scan0)).
  pose proof (scan_walk FI DE Stat IsReg Mode Nm IsDir Info src fn Hfn kids es HF scan0) as L.
  destruct (fold_left (scan_step src) es (Some scan0)) as [st|].
  - rewrite L. unfold scan_tuple. cbv beta iota zeta. cbn [err_is_sentinel orb GoLib.is_none negb].
    destruct (sc_found st); cbn [negb]; [reflexivity|].
    destruct (sc_files st) as [|cand [|c2 r]].
    + eexists; reflexivity.
    + change (Z.eqb (list_len [cand]) 1) with true. change (list_get [cand] 0) with (Some cand).
      cbv beta iota zeta.
      destruct (SetExec cand); cbn [GoLib.is_none negb]; [eexists|]; reflexivity.
    + replace (Z.eqb (list_len (cand :: c2 :: r)) 1) with false.
      * eexists; reflexivity.
      * symmetry. apply Z.eqb_neq. unfold list_len. cbn [List.length]. lia.
  - destruct L as [s' [er [L Ht]]]. rewrite L.
    destruct er as [t f ws]. cbn in Ht. subst t.
    destruct s' as [[[[a b] c] fd] l]. cbv beta iota zeta.
    cbn [err_is_sentinel orb GoLib.is_none negb]. eexists; reflexivity.
Qed.
Print Assumptions C16_gen_parsePluginFromDir_equiv.

(* ... = the model's parse_dir: es are the entries the model reads (children w src),
   setExecutable succeeds exactly on the model's regular files *)
Theorem C16_gen_parsePluginFromDir_parse_dir :
  forall FI Stat IsRegular Mode DE Nm IsDir Info Walk SetExec w src fi0 d0 kids,
    Stat src = (fi0, None) -> gen_fs_FileMode_IsDir (Mode fi0) = true ->
    Walk src = inl (WNode src d0 true None kids) ->
    (exists fi, Info d0 = (fi, None) /\ IsRegular fi = false) ->
    Forall2 (kid_rel FI DE Stat IsRegular Mode Nm IsDir Info src) kids (children w src) ->
    (forall p, SetExec p = None <-> exists x m, fs_lookup p w = Some (NFile x m)) ->
    let g := gen_plugin_parsePluginFromDir FI Stat IsRegular Mode DE Nm IsDir Info Walk SetExec src in
    match fst (parse_dir w src) with
    | Some (file, name, _) => g = Some (file, name, None)
    | None => exists e, g = Some ("", "", Some e)
    end.
Proof.
  intros FI Stat IsReg Mode DE Nm IsDir Info Walk SetExec w src fi0 d0 kids HS HD HW HI HF HX. cbn zeta.
  pose proof (C16_gen_parsePluginFromDir_equiv FI Stat IsReg Mode DE Nm IsDir Info Walk SetExec src fi0 d0 kids
                (children w src) HS HD HW HI HF) as E. cbn zeta in E.
  unfold parse_dir. destruct (fold_left (scan_step src) (children w src) (Some scan0)) as [st|]; [|exact E].
  destruct (sc_found st); [exact E|].
  destruct (sc_files st) as [|cand [|c2 r]]; [exact E| |exact E].
  destruct (SetExec cand) as [e|] eqn:X.
  - destruct (fs_lookup cand w) as [[|x m]|] eqn:L; try exact E.
    exfalso. assert (SetExec cand = None) by (apply HX; eauto). congruence.
  - apply HX in X. destruct X as [x [m X]]. rewrite X. exact E.
Qed.
Print Assumptions C16_gen_parsePluginFromDir_parse_dir.

(* ---------- non-vacuity: the oracle hypotheses can be met ---------- *)

(* an operating system for a small world: FileInfo = the model's node *)
Definition ex_world : fs :=
  [("/v", NDir); ("/v/p", NDir); ("/v/p/good", NDir);
   ("/v/p/good/notation-good", NFile true (Some ("good", 5%N)))].
Definition ex_notexist (e : GoLib.err) : bool := String.eqb (err_typ e) "os.ErrNotExist".
Definition ex_Stat (p : string) : node * option GoLib.err :=
  match stat ex_world p with
  | SOk n => (n, None)
  | SNotExist => (NDir, Some (Err "os.ErrNotExist" "" []))
  | SOtherErr => (NDir, Some (Err "syscall.Errno" "" []))
  end.
Definition ex_IsRegular (n : node) : bool := match n with NFile _ _ => true | NDir => false end.

Example C16_gen_example :
  lib_errors_distinct ex_notexist
  /\ stat_agrees node ex_Stat ex_IsRegular ex_notexist ex_world
  /\ new_cli_abs ex_notexist (gen_plugin_NewCLIPlugin node ex_Stat ex_IsRegular "good" "/v/p/good/notation-good")
     = (ENone, Some "/v/p/good/notation-good")
  /\ new_cli_abs ex_notexist (gen_plugin_NewCLIPlugin node ex_Stat ex_IsRegular "bad" "/v/p/bad/notation-bad")
     = (ENotExist, None)
  /\ new_cli_abs ex_notexist (gen_plugin_NewCLIPlugin node ex_Stat ex_IsRegular "good" "/v/p/good")
     = (EOther, None)
  /\ gen_plugin_validatePluginName "../victim" <> None
  /\ fst (gen_plugin_parsePluginName "notation-..") = ""
  /\ gen_plugin_parsePluginName "notation-good" = ("good", None).
Proof.
  split; [|split].
  - intros e H. unfold ex_notexist in H. apply String.eqb_eq in H. rewrite H. reflexivity.
  - intros p. unfold ex_Stat. destruct (stat ex_world p) as [| |n].
    + eexists; eexists; repeat split; reflexivity.
    + eexists; eexists; repeat split; reflexivity.
    + eexists; split; [reflexivity|]. destruct n; reflexivity.
  - vm_compute. repeat split; discriminate.
Qed.
