From NV Require Import Base Generated C04_Model.
Theorem C04_constants_generated :
  C04_Model.wildcard = gen_wildcard /\ C04_Model.x509_subject = gen_x509_subject.
Proof. split; reflexivity. Qed.
Print Assumptions C04_constants_generated.
