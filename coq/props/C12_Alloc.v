(* C12 — "never ... runaway allocation": the size caps of registry/repository.go.
   Statements only; proofs in theories/C12_RegistryProofs.v over the model
   theories/C12_Registry.v (FetchSignatureBlob, getSignatureBlobDesc, ListSignatures,
   signatureReferrers), tied to /repo by the harness family "registry": the real
   registry client over a scripted oras.GraphTarget that logs the declared size of every
   descriptor handed to its Fetch.
   content.FetchAll (oras-go) allocates make([]byte, desc.Size) before it reads: the declared
   size of a descriptor handed to it IS the allocation it makes ([alloc_of]). That fact about
   the dependency is not proved here; what is proved is that notation-go's registry client
   hands it no descriptor above the cap, for every declared size (any integer) and every
   manifest content. *)
From NV Require Import Base Generated C12_Registry C12_RegistryProofs.
Open Scope Z_scope.

(* FetchSignatureBlob: at most two requests, each within its cap; never more than
   4 MiB + 32 MiB asked for, whatever the registry declares; never a panic *)
Theorem C12_fetch_allocation_bounded : forall q reqs res,
  fetch_sig q = RO reqs res ->
  Forall within_cap reqs /\ (List.length reqs <= 2)%nat /\ alloc_of reqs <= capM + capB.
Proof. exact fetch_sig_bounded. Qed.
Print Assumptions C12_fetch_allocation_bounded.

Theorem C12_fetch_no_panic : forall q, fetch_sig q <> RPanic.
Proof. exact fetch_sig_no_panic. Qed.
Print Assumptions C12_fetch_no_panic.

(* oversized content is refused BEFORE anything of that size is requested *)
Theorem C12_fetch_oversize_manifest_refused : forall q,
  rd_mt (fq_desc q) <> MTOther -> capM < rd_size (fq_desc q) -> fetch_sig q = RO [] (RErr 2).
Proof. exact fetch_sig_oversize_manifest. Qed.
Print Assumptions C12_fetch_oversize_manifest_refused.

Theorem C12_fetch_oversize_blob_refused : forall q b s n,
  rd_mt (fq_desc q) <> MTOther -> rd_size (fq_desc q) <= capM ->
  fq_view q = MVManifest [b] s n -> capB < rd_size b ->
  fetch_sig q = RO [(KManifest, rd_size (fq_desc q))] (RErr 6).
Proof. exact fetch_sig_oversize_blob. Qed.
Print Assumptions C12_fetch_oversize_blob_refused.

(* a successful fetch: exactly one blob, both descriptors within their caps *)
Theorem C12_fetch_success : forall q reqs,
  fetch_sig q = RO reqs RBlob ->
  exists b s n, fq_view q = MVManifest [b] s n /\ fq_blob_ok q = true /\
    rd_mt (fq_desc q) <> MTOther /\
    reqs = [(KManifest, rd_size (fq_desc q)); (KBlob, rd_size b)] /\
    rd_size (fq_desc q) <= capM /\ rd_size b <= capB.
Proof. exact fetch_sig_success. Qed.
Print Assumptions C12_fetch_success.

(* ListSignatures: one request per referrer at most, each within the manifest cap *)
Theorem C12_list_allocation_bounded : forall q reqs res,
  list_sigs q = RO reqs res ->
  Forall within_cap reqs /\ (List.length reqs <= List.length (lq_nodes q))%nat /\
  alloc_of reqs <= Z.of_nat (List.length (lq_nodes q)) * capM.
Proof. exact list_sigs_bounded. Qed.
Print Assumptions C12_list_allocation_bounded.

Theorem C12_list_no_panic : forall q, list_sigs q <> RPanic.
Proof. exact list_sigs_no_panic. Qed.
Print Assumptions C12_list_no_panic.

Theorem C12_list_oversize_refused : forall n rest,
  rd_mt (ln_desc n) <> MTOther -> capM < rd_size (ln_desc n) ->
  list_sigs (mk_lreq false (n :: rest)) = RO [] (RErr 2).
Proof. exact list_sigs_oversize. Qed.
Print Assumptions C12_list_oversize_refused.

(* what reaches the callback (and from there notation.Verify) decoded, refers to the artifact,
   is of the notation artifact type and was declared within the cap *)
Theorem C12_list_kept : forall q reqs kept id,
  list_sigs q = RO reqs (RList kept) -> In id kept ->
  exists n, In n (lq_nodes q) /\ ln_id n = id /\ rd_mt (ln_desc n) <> MTOther /\
            rd_size (ln_desc n) <= capM /\ exists bl, ln_view n = MVManifest bl true true.
Proof. exact list_sigs_kept. Qed.
Print Assumptions C12_list_kept.

(* the caps are what gives the bound: the same functions without the two size tests hand
   FetchAll any size the registry declares (here 1 TiB), where the real ones refuse *)
Theorem C12_without_caps_refuted :
  fetch_sig_nocap q_huge_manifest = RO [(KManifest, 1099511627776)] (RErr 3) /\
  fetch_sig q_huge_manifest = RO [] (RErr 2) /\
  fetch_sig_nocap q_huge_blob = RO [(KManifest, 300); (KBlob, 1099511627776)] (RErr 3) /\
  fetch_sig q_huge_blob = RO [(KManifest, 300)] (RErr 6) /\
  rspec_ok (fetch_sig_nocap q_huge_manifest) = false /\ rspec_ok (fetch_sig_nocap q_huge_blob) = false.
Proof. exact nocap_refuted. Qed.
Print Assumptions C12_without_caps_refuted.

Theorem C12_without_caps_unbounded : forall z : Z, capM < z ->
  exists q reqs res, fetch_sig_nocap q = RO reqs res /\ z <= alloc_of reqs /\ fetch_sig q = RO [] (RErr 2).
Proof. exact fetch_sig_nocap_unbounded. Qed.
Print Assumptions C12_without_caps_unbounded.

(* the oracle evaluated on the implementation's observations is met by the model and is sound *)
Theorem C12_registry_model_meets_oracle : forall qf ql,
  rspec_ok (fetch_sig qf) = true /\ rspec_ok (list_sigs ql) = true.
Proof. exact registry_spec_ok. Qed.
Print Assumptions C12_registry_model_meets_oracle.

Theorem C12_registry_oracle_sound : forall o, rspec_ok o = true ->
  o <> RPanic /\ forall reqs res, o = RO reqs res -> Forall within_cap reqs.
Proof. exact rspec_ok_sound. Qed.
Print Assumptions C12_registry_oracle_sound.

(* the caps are the constants of registry/repository.go (Generated.v is rebuilt on every run) *)
Theorem C12_caps_generated : capM = 4194304 /\ capB = 33554432 /\
  capM = Z.of_N gen_max_manifest_size /\ capB = Z.of_N gen_max_blob_size.
Proof. exact caps_generated. Qed.
Print Assumptions C12_caps_generated.

(* non-vacuity *)
Example C12_example_fetch : fetch_sig q_fetch_ok = RO [(KManifest, 700); (KBlob, 2500)] RBlob.
Proof. exact fetch_example. Qed.
Example C12_example_list :
  list_sigs q_list_ok = RO [(KManifest, 700); (KManifest, 600); (KManifest, 4194304)] (RList [1%N; 3%N]).
Proof. exact list_example. Qed.
