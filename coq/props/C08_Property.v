(* C08 — The policy statement applied is the one scoped to the artifact's repository.
   Statements only; every proof is [exact <lemma of C08_Proofs>].
   [model i] is the correspondence-checked model: it lays the document [i_doc i] out on a heap
   of Go objects (structs, backing arrays, maps), runs the selection [i_q1 i] with the loops and
   clone() of the code, lets the caller write [i_ws i] through the pointer it received, and
   selects again ([i_q2 i]).  [o_r1 (model i)] is the first result, [o_r2 (model i)] the later one.
   Quantifiers: documents with any number of statements, any strings, any writes. *)
From Coq Require Import Permutation Lia.
From NV Require Import Base Regex Generated C08_Model C08_Proofs C08_Audit.
Open Scope string_scope.

(* [model] computes, through the heap, exactly the value-level selection; a later selection
   is that of the pristine document whatever the caller wrote through what it got, and the
   document is deeply unchanged *)
Theorem C08_model_closed_form : forall i,
  model i =
  mk_obs (v_select (i_doc i) (i_q1 i)) (v_select (i_doc i) (i_q2 i)) true
         (if i_ver i && is_oci (i_q1 i) then skipverify_of (v_select (i_doc i) (ver_query (i_q1 i))) else 9%N)
         (if i_ver i then ver_of (v_select (i_doc i) (ver_query (i_q1 i))) else VNA).
Proof. exact model_eq. Qed.
Print Assumptions C08_model_closed_form.

(* valid document, reference registry/repository@digest: the statement applied is the unique
   statement whose scopes contain exactly registry/repository; failing that the unique wildcard
   statement (whose scopes are exactly ["*"]); failing that error 3 (no applicable statement).
   Uniqueness is derived from validity. *)
Theorem C08_selects : forall i p dg,
  wf i = true -> i_q1 i = QOci (p ++ "@" ++ dg) -> contains_byte "@" dg = false -> scope_ok p = true ->
  let d := i_doc i in
  let r := o_r1 (model i) in
  (forall s, In s d -> In p (s_scopes s) ->
     r = RSel s /\ forall s', In s' d -> In p (s_scopes s') -> s' = s)
  /\ ((forall s, In s d -> ~ In p (s_scopes s)) ->
      (forall w, In w d -> In wildcard (s_scopes w) ->
         r = RSel w /\ s_scopes w = [wildcard] /\
         forall w', In w' d -> In wildcard (s_scopes w') -> w' = w)
      /\ ((forall s, In s d -> ~ In wildcard (s_scopes s)) -> r = RErr 3)).
Proof. exact m_selects. Qed.
Print Assumptions C08_selects.

(* every reference that has an '@' is of that form, the path being the text before the LAST '@' *)
Theorem C08_reference_shape : forall ref p,
  last_at ref = Some p <-> exists dg, ref = p ++ "@" ++ dg /\ contains_byte "@" dg = false.
Proof. exact reference_shape. Qed.
Print Assumptions C08_reference_shape.

(* malformed references (no '@': tag-only, bare repository; or a registry/repository part
   that is not a valid scope) are refused whatever the document contains, wildcard included *)
Theorem C08_malformed_refused : forall i ref,
  i_q1 i = QOci ref ->
  (contains_byte "@" ref = false -> o_r1 (model i) = RErr 1)
  /\ (forall p dg, ref = p ++ "@" ++ dg -> contains_byte "@" dg = false -> scope_ok p = false ->
        o_r1 (model i) = RErr 2).
Proof. exact m_malformed_refused. Qed.
Print Assumptions C08_malformed_refused.

(* matching is string equality only, for EVERY document (valid or not): a statement is handed
   out only if its scopes contain the path itself, or the wildcard while every statement that
   lists the path is a wildcard statement; and it is a statement of the document, unchanged *)
Theorem C08_exact : forall i ref s,
  i_q1 i = QOci ref -> o_r1 (model i) = RSel s ->
  exists p, last_at ref = Some p /\ scope_ok p = true /\ In s (i_doc i) /\
    (In p (s_scopes s) \/
     (In wildcard (s_scopes s) /\
      forall s', In s' (i_doc i) -> In wildcard (s_scopes s') \/ ~ In p (s_scopes s'))).
Proof. exact m_exact. Qed.
Print Assumptions C08_exact.

(* corollary: a path that is a proper prefix, an extension, a case variant, or anything else
   that is not EQUAL to a listed scope never selects a non-wildcard statement *)
Theorem C08_no_near_miss : forall i p dg s,
  i_q1 i = QOci (p ++ "@" ++ dg) -> contains_byte "@" dg = false ->
  (forall x, In x (s_scopes s) -> x <> p) -> ~ In wildcard (s_scopes s) ->
  o_r1 (model i) <> RSel s.
Proof. exact m_no_near_miss. Qed.
Print Assumptions C08_no_near_miss.

(* never by tag or by case folding of the repository: a registry/repository part whose
   repository contains ':' or an upper-case letter is refused outright *)
Theorem C08_tag_or_upper_refused : forall i p dom repo dg c,
  i_q1 i = QOci (p ++ "@" ++ dg) -> contains_byte "@" dg = false ->
  cut_byte "/" p = Some (dom, repo) -> contains_byte c repo = true ->
  (c = ":"%char \/ ((65 <=? N_of_ascii c) && (N_of_ascii c <=? 90))%N = true) ->
  o_r1 (model i) = RErr 2.
Proof. exact m_tag_or_upper_refused. Qed.
Print Assumptions C08_tag_or_upper_refused.

(* the choice does not depend on the order of the statements (every kind of selection) *)
Theorem C08_order : forall i i',
  wf i = true -> Permutation (i_doc i) (i_doc i') -> i_q1 i' = i_q1 i ->
  o_r1 (model i') = o_r1 (model i).
Proof. exact m_order. Qed.
Print Assumptions C08_order.

(* blobs: the statement with exactly the requested name (unique by validity) *)
Theorem C08_blob_name : forall i n,
  wf i = true -> i_q1 i = QName n -> blank n = false ->
  let d := i_doc i in
  let r := o_r1 (model i) in
  (forall s, In s d -> s_name s = n ->
     r = RSel s /\ forall s', In s' d -> s_name s' = n -> s' = s)
  /\ ((forall s, In s d -> s_name s <> n) -> r = RErr 5).
Proof. exact m_blob_name. Qed.
Print Assumptions C08_blob_name.

(* ... an empty or blank name is an error, and a name never matches anything but itself *)
Theorem C08_blob_blank_or_exact : forall i n,
  i_q1 i = QName n ->
  (blank n = true -> o_r1 (model i) = RErr 4)
  /\ (forall s, o_r1 (model i) = RSel s -> In s (i_doc i) /\ s_name s = n /\ blank n = false).
Proof. exact m_blob_blank_or_exact. Qed.
Print Assumptions C08_blob_blank_or_exact.

(* ... the single global statement when no name is given *)
Theorem C08_blob_global : forall i,
  wf i = true -> i_q1 i = QGlobal ->
  let d := i_doc i in
  let r := o_r1 (model i) in
  (forall s, In s d -> s_global s = true ->
     r = RSel s /\ forall s', In s' d -> s_global s' = true -> s' = s)
  /\ ((forall s, In s d -> s_global s = false) -> r = RErr 6).
Proof. exact m_blob_global. Qed.
Print Assumptions C08_blob_global.

(* VerifyBlob without a policy name uses the global selection *)
Theorem C08_blob_no_name_is_global : forall i,
  i_ver i = true -> i_q1 i = QName "" ->
  o_ver (model i) = ver_of (v_select (i_doc i) QGlobal).
Proof. exact m_blob_no_name_is_global. Qed.
Print Assumptions C08_blob_no_name_is_global.

(* private copy, heap level: the struct handed out and every object it points to are
   allocated by the selection (at or above the size of the heap holding the document),
   every object reachable from the document lies below *)
Theorem C08_private_copy_disjoint : forall rep d q h0 doc h1 p,
  load_doc rep [] d = (h0, doc) -> h_select true h0 doc q = (h1, HSel p) ->
  (forall o, In o (reach h1 p) -> (List.length h0 <= o)%nat)
  /\ (forall sid o, In sid doc -> In o (reach h1 sid) -> (o < List.length h0)%nat).
Proof. exact handed_out_disjoint. Qed.
Print Assumptions C08_private_copy_disjoint.

(* private copy, behaviour: in ANY session — any number of selections interleaved with any
   writes (fields, slice elements, appends, map entries) through any of the statements handed
   out so far — every selection returns what the pristine document prescribes, no object of
   the document is written, and the document is deeply unchanged at the end *)
Theorem C08_private_copy : forall rep d ops h0 doc rs hf,
  load_doc rep [] d = (h0, doc) -> session true doc h0 [] ops = (rs, hf) ->
  rs = map (v_select d) (sel_queries ops)
  /\ map (view hf) doc = d
  /\ forall o, (o < List.length h0)%nat -> nth_error hf o = nth_error h0 o.
Proof. exact session_private. Qed.
Print Assumptions C08_private_copy.

(* the same on the correspondence model: the later selection is the first selection of a
   fresh run, whatever was written *)
Theorem C08_later_selection_unaffected : forall d acc q1 ws q2 ver rep,
  o_r2 (model (mk_input d acc q1 ws q2 ver rep)) = o_r1 (model (mk_input d acc q2 [] q2 ver rep))
  /\ o_same (model (mk_input d acc q1 ws q2 ver rep)) = true.
Proof. exact m_later_selection_unaffected. Qed.
Print Assumptions C08_later_selection_unaffected.

(* [rep] = whether empty slices / maps of the document are nil or empty non-nil objects *)

(* the copy that shares the override map (SignatureVerification copied by value: the code
   before fix 355ef9e, [deep] = false) is NOT private: witness *)
Theorem C08_private_copy_shallow_refuted :
  exists d ops h0 doc, valid_doc d = true /\ load_doc false [] d = (h0, doc) /\
    fst (session false doc h0 [] ops) <> map (v_select d) (sel_queries ops).
Proof. exact shallow_refuted. Qed.
Print Assumptions C08_private_copy_shallow_refuted.

(* selection errors, and only they, surface as ErrorNoApplicableTrustPolicy from
   SkipVerify / Verify / VerifyBlob; otherwise the verifier works with the selected statement *)
Theorem C08_error_kind : forall i,
  i_ver i = true -> ver_query (i_q1 i) = i_q1 i ->
  (o_ver (model i) = VNoPolicy <-> is_err (o_r1 (model i)) = true)
  /\ (is_oci (i_q1 i) = true -> (o_sv (model i) = 0%N <-> is_err (o_r1 (model i)) = true))
  /\ o_ver (model i) = ver_of (o_r1 (model i)).
Proof. exact m_error_kind. Qed.
Print Assumptions C08_error_kind.

(* the boolean oracle evaluated on the implementation's observations is met by the model
   on every input whose document is valid *)
Theorem C08_model_meets_oracle : forall i, wf i = true -> spec_ok i (model i) = true.
Proof. exact model_spec_ok. Qed.
Print Assumptions C08_model_meets_oracle.

(* ---- added by the theorem audit (docs/audit/C08.md) ---- *)

(* the headline at the verifier level: what SkipVerify and Verify APPLY (skip / the first ca
   store consulted) is the unique statement listing exactly registry/repository, failing that
   the wildcard statement, failing that they refuse with ErrorNoApplicableTrustPolicy *)
Theorem C08_verifier_applies_scoped_statement : forall i p dg,
  wf i = true -> i_ver i = true -> i_q1 i = QOci (p ++ "@" ++ dg) ->
  contains_byte "@" dg = false -> scope_ok p = true ->
  let d := i_doc i in
  (forall s, In s d -> In p (s_scopes s) ->
     o_ver (model i) = ver_of (RSel s) /\ o_sv (model i) = skipverify_of (RSel s))
  /\ ((forall s, In s d -> ~ In p (s_scopes s)) ->
      (forall w, In w d -> In wildcard (s_scopes w) ->
         o_ver (model i) = ver_of (RSel w) /\ o_sv (model i) = skipverify_of (RSel w))
      /\ ((forall s, In s d -> ~ In wildcard (s_scopes s)) ->
          o_ver (model i) = VNoPolicy /\ o_sv (model i) = 0%N)).
Proof. exact m_verifier_applies. Qed.
Print Assumptions C08_verifier_applies_scoped_statement.

(* ... and a reference not of the form registry/repository@digest is refused by the verifier
   with that error whatever the document lists (any document, valid or not) *)
Theorem C08_verifier_refuses_malformed : forall i ref,
  i_ver i = true -> i_q1 i = QOci ref ->
  (contains_byte "@" ref = false \/
   exists p dg, ref = p ++ "@" ++ dg /\ contains_byte "@" dg = false /\ scope_ok p = false) ->
  o_ver (model i) = VNoPolicy /\ o_sv (model i) = 0%N.
Proof. exact m_verifier_refuses_malformed. Qed.
Print Assumptions C08_verifier_refuses_malformed.

(* VerifyBlob applies the global statement when no name is given, the statement of exactly
   that name otherwise, and refuses when there is none or the name is white space only *)
Theorem C08_verifier_blob : forall i n,
  wf i = true -> i_ver i = true -> i_q1 i = QName n ->
  let d := i_doc i in
  (n = "" ->
     (forall s, In s d -> s_global s = true -> o_ver (model i) = ver_of (RSel s))
     /\ ((forall s, In s d -> s_global s = false) -> o_ver (model i) = VNoPolicy))
  /\ (blank n = false ->
     (forall s, In s d -> s_name s = n -> o_ver (model i) = ver_of (RSel s))
     /\ ((forall s, In s d -> s_name s <> n) -> o_ver (model i) = VNoPolicy))
  /\ (n <> "" -> blank n = true -> o_ver (model i) = VNoPolicy).
Proof. exact m_verifier_blob. Qed.
Print Assumptions C08_verifier_blob.

(* order, whole observation: both selections, the state of the document afterwards, SkipVerify
   and Verify / VerifyBlob are the same for every permutation of a valid document (whatever
   the caller writes, however empty slices are represented) *)
Theorem C08_order_whole_observation : forall d d' acc acc' q1 ws q2 ver rep rep',
  valid_doc d = true -> Permutation d d' ->
  model (mk_input d' acc' q1 ws q2 ver rep') = model (mk_input d acc q1 ws q2 ver rep).
Proof. exact m_order_whole. Qed.
Print Assumptions C08_order_whole_observation.

(* the validity hypothesis of C08_order is necessary: two statements listing the same scope
   (rejected by Validate) are told apart by their order - the loop keeps the last *)
Theorem C08_order_without_validity_refuted :
  exists i i', wf i = false /\ Permutation (i_doc i) (i_doc i') /\ i_q1 i' = i_q1 i
               /\ o_r1 (model i') <> o_r1 (model i).
Proof. exact order_invalid_refuted. Qed.
Print Assumptions C08_order_without_validity_refuted.

(* private copy as a frame property, independent of any language of writes: on EVERY heap that
   coincides with the loaded document on the document's own objects (indices below
   [length h0]) - whatever else it holds, whatever was done to all other objects, in
   particular to everything reachable from statements handed out earlier, which
   C08_private_copy_disjoint places at or above [length h0] - a selection answers as on the
   pristine document, only appends to the heap (no existing object, of the document or of
   anyone else, is written), and the statement it hands out consists of objects allocated by
   this very call: it shares nothing with the document, with any statement handed out
   earlier, or with anything else the program holds *)
Theorem C08_private_copy_frame : forall rep d h0 doc h q,
  load_doc rep [] d = (h0, doc) ->
  (forall o, (o < List.length h0)%nat -> nth_error h o = nth_error h0 o) ->
  (List.length h0 <= List.length h)%nat ->
  res_view (h_select true h doc q) = v_select d q
  /\ (exists e, fst (h_select true h doc q) = (h ++ e)%list)
  /\ (forall p, snd (h_select true h doc q) = HSel p ->
        forall o, In o (reach (fst (h_select true h doc q)) p) -> (List.length h <= o)%nat).
Proof. exact select_frame. Qed.
Print Assumptions C08_private_copy_frame.

(* every listed scope of the registry/repository form selects its own statement, and every
   statement whose name is not blank is the answer to its own name *)
Theorem C08_every_listed_scope_selects : forall i s p dg,
  wf i = true -> In s (i_doc i) -> In p (s_scopes s) -> scope_ok p = true ->
  contains_byte "@" dg = false -> i_q1 i = QOci (p ++ "@" ++ dg) ->
  o_r1 (model i) = RSel s.
Proof. exact m_every_listed_scope_selectable. Qed.
Print Assumptions C08_every_listed_scope_selects.

Theorem C08_every_named_statement_selects : forall i s,
  wf i = true -> In s (i_doc i) -> blank (s_name s) = false -> i_q1 i = QName (s_name s) ->
  o_r1 (model i) = RSel s.
Proof. exact m_blob_every_named_statement_selectable. Qed.
Print Assumptions C08_every_named_statement_selects.

(* FALSE at full strength - "for blobs the statement is the one with exactly the requested
   name" without the restriction [blank n = false] of C08_blob_name (which is the part that
   holds): a statement named " " (accepted by Validate, see C08_FromC09) is not handed out for
   the name " "; GetApplicableTrustPolicy and VerifyBlob refuse (fail closed). Replayed on the
   real code by the harness family "blank-named". *)
Theorem C08_blob_name_full_refuted :
  exists i n s, wf i = true /\ i_q1 i = QName n /\ In s (i_doc i) /\ s_name s = n
                /\ o_r1 (model i) = RErr 4 /\ o_ver (model i) = VNoPolicy.
Proof. exact blob_name_full_refuted. Qed.
Print Assumptions C08_blob_name_full_refuted.

(* ---- non-vacuity ---- *)
(* ex_doc = [ab: reg.io/a/b, reg.io:80/a/b; abc: reg.io/a/b/c; any: *], ex_blob = [b0; B0 (global)] : C08_Proofs *)
(* a valid three-statement document with nested scopes and a wildcard: the nested path, the
   extension and the near misses each get their own answer; writing through the result and
   selecting again gives the same *)
Example C08_example_select :
  let i := mk_input ex_doc true (QOci "reg.io/a/b@sha256:00") (wall "x") (QOci "reg.io/a/b@sha256:00") true true in
  wf i = true
  /\ o_r1 (model i) = RSel (nth 0 ex_doc dummy_stmt)
  /\ o_r2 (model i) = RSel (nth 0 ex_doc dummy_stmt)
  /\ o_same (model i) = true
  /\ o_ver (model i) = VUsed (Some "k0").
Proof. vm_compute. repeat split; reflexivity. Qed.

Example C08_example_near_misses :
  let sel ref := o_r1 (model (mk_input ex_doc true (QOci ref) [] (QOci ref) false false)) in
  sel "reg.io/a/b/c@sha256:00" = RSel (nth 1 ex_doc dummy_stmt)
  /\ sel "reg.io/a@sha256:00" = RSel (nth 2 ex_doc dummy_stmt)          (* prefix: wildcard *)
  /\ sel "reg.io/a/bc@sha256:00" = RSel (nth 2 ex_doc dummy_stmt)       (* sibling *)
  /\ sel "REG.io/a/b@sha256:00" = RSel (nth 2 ex_doc dummy_stmt)        (* case variant of the registry *)
  /\ sel "reg.io/a/B@sha256:00" = RErr 2                               (* case variant of the repository *)
  /\ sel "reg.io/a/b:v1@sha256:00" = RErr 2                            (* tag *)
  /\ sel "reg.io/a/b:v1" = RErr 1                                      (* tag only *)
  /\ sel "reg.io/a/b/c@x@sha256:00" = RErr 2                           (* path is the text before the LAST '@' *)
  /\ o_r1 (model (mk_input (firstn 2 ex_doc) true (QOci "reg.io/a@sha256:00") [] QGlobal false false)) = RErr 3.
Proof. vm_compute. repeat split; reflexivity. Qed.

Example C08_example_permuted :
  Permutation ex_doc (rev ex_doc)
  /\ o_r1 (model (mk_input (rev ex_doc) true (QOci "reg.io/a/b@sha256:00") [] QGlobal false true))
     = RSel (nth 0 ex_doc dummy_stmt).
Proof. split; [apply Permutation_rev | vm_compute; reflexivity]. Qed.

Example C08_example_blob :
  let sel q := o_r1 (model (mk_input ex_blob true q (wall "x") q false true)) in
  valid_doc ex_blob = true
  /\ sel (QName "b0") = RSel (nth 0 ex_blob dummy_stmt)
  /\ sel (QName "B0") = RSel (nth 1 ex_blob dummy_stmt)
  /\ sel (QName "b") = RErr 5 /\ sel (QName "b0 ") = RErr 5
  /\ sel (QName "") = RErr 4 /\ sel (QName "  ") = RErr 4
  /\ sel QGlobal = RSel (nth 1 ex_blob dummy_stmt)
  /\ o_ver (model (mk_input ex_blob true (QName "") [] QGlobal true false)) = VUsed (Some "k1").
Proof. vm_compute. repeat split; reflexivity. Qed.

(* a session with two selections and writes through both results *)
Example C08_example_session :
  let '(h0, doc) := load_doc true [] ex_doc in
  let q := QOci "reg.io/a/b@sha256:00" in
  fst (session true doc h0 []
         [OSel q; OWr 0 (WMapSet "revocation" "skip"); OWr 0 (WFill FScopes "x"); OSel q;
          OWr 1 (WAppend FStores "ca:evil"); OWr 0 (WName "z"); OSel q])
  = [RSel (nth 0 ex_doc dummy_stmt); RSel (nth 0 ex_doc dummy_stmt); RSel (nth 0 ex_doc dummy_stmt)].
Proof. vm_compute. reflexivity. Qed.

(* the hypotheses of C08_private_copy_disjoint / C08_private_copy_frame are met by a concrete
   selection: after selecting on a heap that also holds an earlier, overwritten copy, the
   answer is the pristine statement and the new copy lies above the document *)
Example C08_example_frame :
  let '(h0, doc) := load_doc true [] ex_doc in
  let q := QOci "reg.io/a/b@sha256:00" in
  let hr1 := h_select true h0 doc q in
  match snd hr1 with
  | HSel p =>
      let h := apply_ws p (fst hr1) (wall "x") in
      (forall o, (o < List.length h0)%nat -> nth_error h o = nth_error h0 o)
      /\ (List.length h0 <= List.length h)%nat
      /\ res_view (h_select true h doc q) = RSel (nth 0 ex_doc dummy_stmt)
      /\ view h p <> nth 0 ex_doc dummy_stmt
      /\ forallb (fun o => Nat.leb (List.length h0) o) (reach (fst hr1) p) = true
  | HErr _ => False
  end.
Proof.
  vm_compute. split; [|split; [|split; [|split]]].
  - intros o Ho. repeat (destruct o as [|o]; [reflexivity|]). exfalso. lia.
  - repeat constructor.
  - reflexivity.
  - intros E. discriminate E.
  - reflexivity.
Qed.

(* verifier level: listed path, unlisted path (wildcard), no wildcard, skip statement *)
Example C08_example_verifier :
  let ver d ref := let m := model (mk_input d true (QOci ref) [] (QOci ref) true false) in (o_ver m, o_sv m) in
  ver ex_doc "reg.io/a/b/c@sha256:00" = (VUsed (Some "k1"), 2%N)
  /\ ver ex_doc "reg.io/zzz@sha256:00" = (VUsed (Some "k2"), 2%N)
  /\ ver (firstn 2 ex_doc) "reg.io/zzz@sha256:00" = (VNoPolicy, 0%N)
  /\ ver ex_doc "reg.io/a/b:v1" = (VNoPolicy, 0%N)
  /\ ver (mk_stmt "s" ["reg.io/zzz"] (mk_sv "skip" [] "") [] [] false :: ex_doc) "reg.io/zzz@sha256:00" = (VSkip, 1%N).
Proof. vm_compute. repeat split; reflexivity. Qed.

(* VerifyBlob: by name, no name (global), unknown name, white-space name *)
Example C08_example_verifier_blob :
  let ver n := o_ver (model (mk_input ex_blob true (QName n) [] QGlobal true false)) in
  ver "b0" = VUsed (Some "k0") /\ ver "" = VUsed (Some "k1") /\ ver "B0" = VUsed (Some "k1")
  /\ ver "b" = VNoPolicy /\ ver " " = VNoPolicy
  /\ o_ver (model (mk_input (firstn 1 ex_blob) true (QName "") [] QGlobal true false)) = VNoPolicy.
Proof. vm_compute. repeat split; reflexivity. Qed.
