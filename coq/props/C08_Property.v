From NV Require Import Base C08_Model C08_Proofs.
Theorem C08_placeholder : True.
Proof. exact placeholder. Qed.
Print Assumptions C08_placeholder.
