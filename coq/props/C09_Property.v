(* C09 — Only well-formed trust policy documents are accepted.
   Statements only; every proof is [exact <lemma of C09_Proofs>].
   [validate_oci] / [validate_blob] model OCIDocument.Validate / BlobDocument.Validate
   (C09_Model.v); [WellFormed] is the declarative conjunction of the rules of the
   property text (C09_Spec.v). Quantifiers: every document — any number of
   statements, stores, identities, scopes, any strings. *)
From NV Require Import Base Regex Generated C02_Levels C04_DN C09_Model C09_Spec C09_Proofs C09_Audit C09_Examples.
Open Scope string_scope.

(* an OCI document is accepted iff it obeys every rule *)
Theorem C09_oci_iff : forall d, validate_oci d = EOk <-> WellFormed OCI d.
Proof. exact oci_iff. Qed.
Print Assumptions C09_oci_iff.

(* a blob document is accepted iff it obeys every rule, including: at most one
   global statement, which is not skip (holds after fix 81abfe4) *)
Theorem C09_blob_iff : forall d, validate_blob d = EOk <-> WellFormed Blob d.
Proof. exact blob_iff. Qed.
Print Assumptions C09_blob_iff.

(* the error reported is that of the first violated rule in code order: per
   statement, and for whole documents of both kinds *)
Theorem C09_first_error_statement : forall s, core_of s = first_error (stmt_rules s).
Proof. exact core_first_error. Qed.
Print Assumptions C09_first_error_statement.

Theorem C09_first_error_oci : forall d, validate_oci d = first_error (oci_rules d).
Proof. exact oci_first_error. Qed.
Print Assumptions C09_first_error_oci.

Theorem C09_first_error_blob : forall d, validate_blob d = first_error (blob_rules d).
Proof. exact blob_first_error. Qed.
Print Assumptions C09_first_error_blob.

(* every statement of an accepted document yields a level (GetVerificationLevel
   cannot fail on it) that enforces integrity unless the statement is skip *)
Theorem C09_integrity : forall k d, validate k d = EOk -> Forall YieldsIntegrity (d_stmts d).
Proof. exact integrity. Qed.
Print Assumptions C09_integrity.

(* an accepted trust store is type:name with a known type and a name that is
   a single path component other than "." and ".." over [a-zA-Z0-9_.-] *)
Theorem C09_names_safe : forall k d s st, validate k d = EOk ->
  In s (d_stmts d) -> In st (s_stores s) ->
  exists ty nm, st = (ty ++ ":" ++ nm)%string /\ In ty gen_store_types /\ SafeComponent nm.
Proof. exact names_safe. Qed.
Print Assumptions C09_names_safe.

(* in particular no byte of the name is '/', '\' or NUL *)
Theorem C09_names_no_separator : forall c, fn_byte c -> c <> 47%N /\ c <> 92%N /\ c <> 0%N.
Proof. exact fn_byte_not_separator. Qed.
Print Assumptions C09_names_no_separator.

(* an accepted x509.subject identity parses and carries C, ST and O *)
Theorem C09_identities_mandatory : forall k d s id v, validate k d = EOk ->
  In s (d_stmts d) -> In id (s_ids s) -> x509_value id = Some v ->
  exists m, parse_distinguished_name v = DOk m
    /\ lookup_default "C" m <> "" /\ lookup_default "ST" m <> "" /\ lookup_default "O" m <> "".
Proof. exact identities_mandatory. Qed.
Print Assumptions C09_identities_mandatory.

(* NewVerifierWithOptions succeeds iff a document is given and every given
   document is well-formed: validation cannot be bypassed at construction *)
Theorem C09_forced : forall oci blob,
  new_verifier oci blob = EOk <->
  (oci <> None \/ blob <> None)
  /\ (forall d, oci = Some d -> WellFormed OCI d)
  /\ (forall d, blob = Some d -> WellFormed Blob d).
Proof. exact forced. Qed.
Print Assumptions C09_forced.

(* the three regular expressions of the source (Generated.v) accept and reject
   the pinned strings of C09_Spec.v *)
Theorem C09_pinned_strings :
  forallb scope_ok_b pinned_good_scopes = true
  /\ forallb (fun s => negb (scope_ok_b s)) pinned_bad_scopes = true
  /\ forallb is_valid_file_name pinned_good_names = true
  /\ forallb (fun s => negb (is_valid_file_name s)) pinned_bad_names = true.
Proof. exact pinned_strings. Qed.
Print Assumptions C09_pinned_strings.

(* whatever the regular expressions say, an accepted store name is a safe path
   component and an accepted scope stays inside the alphabet of repository
   paths (hand-written alphabets of C09_Model.v) *)
Theorem C09_strings_safe : forall k d, validate k d = EOk -> strings_safe_b k d = true.
Proof. exact accepted_strings_safe. Qed.
Print Assumptions C09_strings_safe.

(* the boolean checker used by the oracle on the implementation's observations
   is the declarative predicate *)
Theorem C09_oracle_reflects : forall k d, wellformed_b k d = true <-> WellFormed k d.
Proof. exact wellformed_reflect. Qed.
Print Assumptions C09_oracle_reflects.

(* the model meets the oracle on every input of the contract (unique override
   keys, ASCII identities) *)
Theorem C09_model_meets_oracle : forall i, wf i = true -> spec_ok i (model i) = true.
Proof. exact model_meets_oracle. Qed.
Print Assumptions C09_model_meets_oracle.

(* ---------- audit (docs/audit/C09.md): clauses spelled out further ---------- *)

(* acceptance through a possibly nil pointer, and of a document decoded from
   JSON text ("null" decodes to the zero document): iff a document is there
   and it obeys every rule *)
Theorem C09_ptr_iff : forall k od, validate_ptr k od = EOk <-> exists d, od = Some d /\ WellFormed k d.
Proof. exact ptr_iff. Qed.
Print Assumptions C09_ptr_iff.

Theorem C09_json_iff : forall k od, validate_json k od = EOk <-> exists d, od = Some d /\ WellFormed k d.
Proof. exact json_iff. Qed.
Print Assumptions C09_json_iff.

(* "x509.subject identities parse, contain C, ST and O": the identity rule of
   [WellFormed] with the mandatory attributes visible. ParseDistinguishedName
   accepts v with map m iff v has no "=#", go-ldap parses it, every RDN is
   single-valued with no attribute type twice, and C, ST, O are non-empty in m *)
Theorem C09_dn_accepted_iff : forall v m, parse_distinguished_name v = DOk m <-> DNAccepted v m.
Proof. exact dn_accepted_iff. Qed.
Print Assumptions C09_dn_accepted_iff.

Theorem C09_identity_rule_explicit : forall id, IdentityOK id <-> IdentityExplicit id.
Proof. exact identity_explicit. Qed.
Print Assumptions C09_identity_rule_explicit.

(* the converse of C09_identities_mandatory: an x509.subject identity, anywhere
   in the document, whose value parses but lacks C, ST or O (absent or empty),
   or does not parse, makes the document unacceptable (both kinds) *)
Theorem C09_mandatory_required : forall k d s id v rdns m f,
  In s (d_stmts d) -> In id (s_ids s) -> x509_value id = Some v ->
  parse_dn v = POk rdns -> add_rdns rdns [] = DOk m ->
  In f ["C"; "ST"; "O"] -> lookup_default f m = "" ->
  validate k d <> EOk.
Proof. exact mandatory_required. Qed.
Print Assumptions C09_mandatory_required.

Theorem C09_unparsable_rejected : forall k d s id v e,
  In s (d_stmts d) -> In id (s_ids s) -> x509_value id = Some v ->
  parse_distinguished_name v = DErr e -> validate k d <> EOk.
Proof. exact unparsable_rejected. Qed.
Print Assumptions C09_unparsable_rejected.

(* "and do not overlap", on the identities of the statement themselves:
   IsSubsetDN(a, b) says every attribute of a occurs in b with the same value;
   [NoOverlap (dn_maps ids)] of [WellFormed] says no x509.subject identity of
   the statement is within another one (by position, so an identity given
   twice overlaps with itself) *)
Theorem C09_subset_within : forall a b, is_subset_dn a b = true <-> Within a b.
Proof. exact subset_within. Qed.
Print Assumptions C09_subset_within.

Theorem C09_no_overlap_meaning : forall ids, NoOverlap (dn_maps ids) <-> IdentitiesDisjoint ids.
Proof. exact no_overlap_identities. Qed.
Print Assumptions C09_no_overlap_meaning.

Theorem C09_identities_disjoint : forall k d s, validate k d = EOk -> In s (d_stmts d) ->
  IdentitiesDisjoint (s_ids s).
Proof. exact identities_disjoint. Qed.
Print Assumptions C09_identities_disjoint.

Theorem C09_overlap_rejected : forall k d s i j idi idj vi vj mi mj,
  In s (d_stmts d) -> i <> j ->
  nth_error (s_ids s) i = Some idi -> nth_error (s_ids s) j = Some idj ->
  x509_value idi = Some vi -> x509_value idj = Some vj ->
  parse_distinguished_name vi = DOk mi -> parse_distinguished_name vj = DOk mj ->
  Within mi mj -> validate k d <> EOk.
Proof. exact overlap_rejected. Qed.
Print Assumptions C09_overlap_rejected.

(* "every scope ... used by at most one statement". [WellFormed OCI] reads it as
   "every scope string occurs once in the whole document" (the count map of
   validateRegistryScopes). Read literally - no scope in two different
   statements - it holds of every accepted document ... *)
Theorem C09_scope_one_statement : forall d, validate_oci d = EOk -> ScopesOneStatement (d_stmts d).
Proof. exact scope_one_statement. Qed.
Print Assumptions C09_scope_one_statement.

(* ... but "accepted iff the rules as literally worded" is FALSE: one statement
   listing the same scope twice obeys them and is rejected (with the message
   "present in multiple oci trust policy statements"). Replayed on the real
   code: harness stream audit-witness, scope-twice-one-statement *)
Theorem C09_scope_literal_refuted : exists d, WellFormedLiteralOCI d /\ validate_oci d = EScopeDup.
Proof. exact scope_literal_refuted. Qed.
Print Assumptions C09_scope_literal_refuted.

(* the exact difference: acceptance = the literal rules + no statement lists a
   scope twice *)
Theorem C09_oci_iff_literal : forall d,
  validate_oci d = EOk <->
  WellFormedLiteralOCI d /\ Forall (fun s => NoDup (s_scopes s)) (d_stmts d).
Proof. exact oci_iff_literal. Qed.
Print Assumptions C09_oci_iff_literal.

(* every way of constructing a verifier from documents in memory -
   NewVerifierWithOptions with or without a trust store, the deprecated New (OCI
   document only) and NewWithOptions (the OCI document is a parameter; one left
   in the options is overwritten) - succeeds iff there is a trust store, a
   document is given and every document given is well-formed *)
Theorem C09_forced_constructors : forall c oci blob,
  construct c oci blob = EOk <->
  c <> CtorNilStore
  /\ (oci <> None \/ blob_given c blob <> None)
  /\ (forall d, oci = Some d -> WellFormed OCI d)
  /\ (forall d, blob_given c blob = Some d -> WellFormed Blob d).
Proof. exact forced_constructors. Qed.
Print Assumptions C09_forced_constructors.

(* the document left in the options of NewWithOptions plays no role *)
Theorem C09_decoy_ignored : forall decoy oci blob,
  construct (CtorWithOptions decoy) oci blob = construct CtorOptions oci blob.
Proof. exact decoy_ignored. Qed.
Print Assumptions C09_decoy_ignored.

(* every statement of every document a constructed verifier holds yields a
   level that enforces integrity unless the statement is skip *)
Theorem C09_verifier_integrity : forall c oci blob, construct c oci blob = EOk ->
  (forall d, oci = Some d -> Forall YieldsIntegrity (d_stmts d))
  /\ (forall d, blob_given c blob = Some d -> Forall YieldsIntegrity (d_stmts d)).
Proof. exact verifier_integrity. Qed.
Print Assumptions C09_verifier_integrity.

(* ---------- non-vacuity and regression witnesses ----------
   The documents ex_oci, ex_blob, ex_blob_global_skip and the evaluations behind the
   Examples are in theories/C09_Examples.v (compiled once by make). *)

Example C09_example_wellformed : WellFormed OCI ex_oci /\ validate_oci ex_oci = EOk.
Proof. exact example_wellformed. Qed.

Example C09_example_blob_wellformed :
  WellFormed Blob ex_blob /\ validate_blob ex_blob = EOk
  /\ new_verifier (Some ex_oci) (Some ex_blob) = EOk
  /\ new_verifier (Some ex_oci) (Some (mk_doc "1.0" [])) = ENoStatements.
Proof. exact example_blob_wellformed. Qed.

(* F1 (fixed by 81abfe4): a global blob statement with level skip is rejected *)
Example C09_example_global_skip :
  validate_blob ex_blob_global_skip = EGlobalSkip /\ ~ WellFormed Blob ex_blob_global_skip.
Proof. exact example_global_skip. Qed.

(* F11 (fixed by 7fbf478): the store names "." and ".." are rejected *)
Example C09_example_dotdot :
  validate_oci (mk_doc "1.0" [mk_stmt "a" (mk_sv "strict" [] "") ["ca:.."] ["*"] ["*"] false]) = EStoreName.
Proof. exact example_dotdot. Qed.

(* integrity cannot be overridden; overlapping identities; a scope used twice *)
Example C09_example_rejections :
  validate_oci (mk_doc "1.0" [mk_stmt "a" (mk_sv "strict" [("integrity", "log")] "") ["ca:s"] ["*"] ["*"] false]) = EOverride
  /\ validate_oci (mk_doc "1.0" [mk_stmt "a" (mk_sv "strict" [] "") ["ca:s"]
        ["x509.subject:C=US,ST=WA,O=x"; "x509.subject:O=x,CN=y,ST=WA,C=US"] ["*"] false]) = EIdOverlap
  /\ validate_oci (mk_doc "1.0" [mk_stmt "a" (mk_sv "strict" [] "") ["ca:s"] ["*"] ["a/b"] false;
                                 mk_stmt "b" (mk_sv "strict" [] "") ["ca:s"] ["*"] ["a/b"] false]) = EScopeDup.
Proof. exact example_rejections. Qed.

(* ---------- audit: the hypotheses of the theorems above are satisfiable ---------- *)

(* C09_integrity on a custom level: strict with revocation skipped still
   enforces integrity; a skip statement yields the skip level *)
Example C09_example_integrity :
  validate OCI ex_oci = EOk
  /\ map level_obs (d_stmts ex_oci)
     = [Some ("custom", "eeees"); Some ("skip", "sssss"); Some ("audit", "ellll")].
Proof. exact example_integrity. Qed.

(* C09_names_safe / C09_identities_mandatory / C09_identities_disjoint: a
   store, an identity and a pair of identities of an accepted document *)
Example C09_example_instances :
  let s := nth 0 (d_stmts ex_oci) (mk_stmt "" (mk_sv "" [] "") [] [] [] false) in
  validate OCI ex_oci = EOk /\ In s (d_stmts ex_oci)
  /\ In "signingAuthority:valid-trust-store" (s_stores s)
  /\ x509_value (nth 1 (s_ids s) "") = Some "C=US,S=CA,O=acme"
  /\ parse_distinguished_name "C=US,S=CA,O=acme" = DOk [("O", "acme"); ("ST", "CA"); ("C", "US")]
  /\ (exists m, parse_distinguished_name "C=US, ST=WA, O=wabbit-network.io, OU=org1" = DOk m).
Proof. exact example_instances. Qed.

(* C09_mandatory_required: "C=US,ST=WA" parses, is single-valued, lacks O, and
   the document is rejected by the real rule (class EIdDN) *)
Example C09_example_mandatory :
  exists rdns m, parse_dn "C=US,ST=WA" = POk rdns /\ add_rdns rdns [] = DOk m
    /\ lookup_default "O" m = "" /\ validate_oci (mk_doc "1.0" [stmt_no_O]) = EIdDN.
Proof. exact example_mandatory. Qed.

(* C09_overlap_rejected: the first identity is within the third (positions 0 and 2) *)
Example C09_example_overlap :
  Within [("O", "x"); ("ST", "WA"); ("C", "US")] [("C", "US"); ("ST", "WA"); ("CN", "y"); ("O", "x")]
  /\ parse_distinguished_name "C=US,ST=WA,O=x" = DOk [("O", "x"); ("ST", "WA"); ("C", "US")]
  /\ parse_distinguished_name "O=x,CN=y,ST=WA,C=US" = DOk [("C", "US"); ("ST", "WA"); ("CN", "y"); ("O", "x")]
  /\ validate_oci (mk_doc "1.0" [mk_stmt "a" (mk_sv "strict" [] "") ["ca:s"]
        ["x509.subject:C=US,ST=WA,O=x"; "foo:bar"; "x509.subject:O=x,CN=y,ST=WA,C=US"] ["*"] false]) = EIdOverlap.
Proof. exact example_overlap. Qed.

(* C09_forced_constructors: each constructor accepts something; nothing is
   constructed without a trust store; New does not take the blob document;
   the decoy left in the options of NewWithOptions does not count *)
Example C09_example_constructors :
  construct CtorOptions (Some ex_oci) (Some ex_blob) = EOk
  /\ construct CtorNilStore (Some ex_oci) (Some ex_blob) = EStoreNil
  /\ construct CtorNew (Some ex_oci) (Some ex_blob_global_skip) = EOk
  /\ construct CtorNew None (Some ex_blob) = EBothNil
  /\ construct (CtorWithOptions (Some ex_oci)) None None = EBothNil
  /\ construct (CtorWithOptions (Some ex_oci)) (Some ex_scope_twice) (Some ex_blob) = EScopeDup
  /\ construct (CtorWithOptions (Some ex_scope_twice)) (Some ex_oci) None = EOk.
Proof. exact example_constructors. Qed.

(* C09_model_meets_oracle: inputs inside the contract, for every constructor *)
Example C09_example_contract :
  wf (mk_input OCI (Some ex_oci) (Some ex_blob)) = true
  /\ wf (mk_input_c Blob (Some ex_blob) None (CtorWithOptions (Some ex_oci))) = true
  /\ o_new (model (mk_input_c Blob (Some ex_blob) (Some ex_oci) CtorNew)) = EOk
  /\ o_new (model (mk_input_c OCI None (Some ex_blob) CtorNew)) = EBothNil.
Proof. exact example_contract. Qed.

