(* C09 — Only well-formed trust policy documents are accepted.
   Statements only; every proof is [exact <lemma of C09_Proofs>].
   [validate_oci] / [validate_blob] model OCIDocument.Validate / BlobDocument.Validate
   (C09_Model.v); [WellFormed] is the declarative conjunction of the rules of the
   property text (C09_Spec.v). Quantifiers: every document — any number of
   statements, stores, identities, scopes, any strings. *)
From NV Require Import Base Regex Generated C02_Levels C04_DN C09_Model C09_Spec C09_Proofs.
Open Scope string_scope.

(* an OCI document is accepted iff it obeys every rule *)
Theorem C09_oci_iff : forall d, validate_oci d = EOk <-> WellFormed OCI d.
Proof. exact oci_iff. Qed.
Print Assumptions C09_oci_iff.

(* a blob document is accepted iff it obeys every rule, including: at most one
   global statement, which is not skip (holds after fix 81abfe4) *)
Theorem C09_blob_iff : forall d, validate_blob d = EOk <-> WellFormed Blob d.
Proof. exact blob_iff. Qed.
Print Assumptions C09_blob_iff.

(* the error reported is that of the first violated rule in code order: per
   statement, and for whole documents of both kinds *)
Theorem C09_first_error_statement : forall s, core_of s = first_error (stmt_rules s).
Proof. exact core_first_error. Qed.
Print Assumptions C09_first_error_statement.

Theorem C09_first_error_oci : forall d, validate_oci d = first_error (oci_rules d).
Proof. exact oci_first_error. Qed.
Print Assumptions C09_first_error_oci.

Theorem C09_first_error_blob : forall d, validate_blob d = first_error (blob_rules d).
Proof. exact blob_first_error. Qed.
Print Assumptions C09_first_error_blob.

(* every statement of an accepted document yields a level (GetVerificationLevel
   cannot fail on it) that enforces integrity unless the statement is skip *)
Theorem C09_integrity : forall k d, validate k d = EOk -> Forall YieldsIntegrity (d_stmts d).
Proof. exact integrity. Qed.
Print Assumptions C09_integrity.

(* an accepted trust store is type:name with a known type and a name that is
   a single path component other than "." and ".." over [a-zA-Z0-9_.-] *)
Theorem C09_names_safe : forall k d s st, validate k d = EOk ->
  In s (d_stmts d) -> In st (s_stores s) ->
  exists ty nm, st = (ty ++ ":" ++ nm)%string /\ In ty gen_store_types /\ SafeComponent nm.
Proof. exact names_safe. Qed.
Print Assumptions C09_names_safe.

(* in particular no byte of the name is '/', '\' or NUL *)
Theorem C09_names_no_separator : forall c, fn_byte c -> c <> 47%N /\ c <> 92%N /\ c <> 0%N.
Proof. exact fn_byte_not_separator. Qed.
Print Assumptions C09_names_no_separator.

(* an accepted x509.subject identity parses and carries C, ST and O *)
Theorem C09_identities_mandatory : forall k d s id v, validate k d = EOk ->
  In s (d_stmts d) -> In id (s_ids s) -> x509_value id = Some v ->
  exists m, parse_distinguished_name v = DOk m
    /\ lookup_default "C" m <> "" /\ lookup_default "ST" m <> "" /\ lookup_default "O" m <> "".
Proof. exact identities_mandatory. Qed.
Print Assumptions C09_identities_mandatory.

(* NewVerifierWithOptions succeeds iff a document is given and every given
   document is well-formed: validation cannot be bypassed at construction *)
Theorem C09_forced : forall oci blob,
  new_verifier oci blob = EOk <->
  (oci <> None \/ blob <> None)
  /\ (forall d, oci = Some d -> WellFormed OCI d)
  /\ (forall d, blob = Some d -> WellFormed Blob d).
Proof. exact forced. Qed.
Print Assumptions C09_forced.

(* the three regular expressions of the source (Generated.v) accept and reject
   the pinned strings of C09_Spec.v *)
Theorem C09_pinned_strings :
  forallb scope_ok_b pinned_good_scopes = true
  /\ forallb (fun s => negb (scope_ok_b s)) pinned_bad_scopes = true
  /\ forallb is_valid_file_name pinned_good_names = true
  /\ forallb (fun s => negb (is_valid_file_name s)) pinned_bad_names = true.
Proof. exact pinned_strings. Qed.
Print Assumptions C09_pinned_strings.

(* whatever the regular expressions say, an accepted store name is a safe path
   component and an accepted scope stays inside the alphabet of repository
   paths (hand-written alphabets of C09_Model.v) *)
Theorem C09_strings_safe : forall k d, validate k d = EOk -> strings_safe_b k d = true.
Proof. exact accepted_strings_safe. Qed.
Print Assumptions C09_strings_safe.

(* the boolean checker used by the oracle on the implementation's observations
   is the declarative predicate *)
Theorem C09_oracle_reflects : forall k d, wellformed_b k d = true <-> WellFormed k d.
Proof. exact wellformed_reflect. Qed.
Print Assumptions C09_oracle_reflects.

(* the model meets the oracle on every input of the contract (unique override
   keys, ASCII identities) *)
Theorem C09_model_meets_oracle : forall i, wf i = true -> spec_ok i (model i) = true.
Proof. exact model_meets_oracle. Qed.
Print Assumptions C09_model_meets_oracle.

(* ---------- non-vacuity and regression witnesses ---------- *)

Definition ex_oci : doc :=
  mk_doc "1.0"
    [ mk_stmt "wabbit-networks-images" (mk_sv "strict" [("revocation", "skip")] "afterCertExpiry")
        ["ca:valid-trust-store"; "signingAuthority:valid-trust-store"]
        ["x509.subject:C=US, ST=WA, O=wabbit-network.io, OU=org1"; "x509.subject:C=US,S=CA,O=acme"]
        ["registry.acme-rockets.io/software/net-monitor"; "localhost:5000/a"] false;
      mk_stmt "unsigned" (mk_sv "skip" [] "") [] [] ["registry.acme-rockets.io/software/unsigned"] false;
      mk_stmt "rest" (mk_sv "audit" [] "") ["ca:a"] ["*"] ["*"] false ].

Example C09_example_wellformed : WellFormed OCI ex_oci /\ validate_oci ex_oci = EOk.
Proof. split; [apply oci_iff|]; vm_compute; reflexivity. Qed.

Definition ex_blob : doc :=
  mk_doc "1.0"
    [ mk_stmt "skip-some" (mk_sv "skip" [] "") [] [] [] false;
      mk_stmt "global" (mk_sv "permissive" [("expiry", "enforce")] "always")
        ["ca:acme-rockets"; "tsa:...a"] ["x509.subject:C=US;ST=WA;O=a\,b"; "spiffe://other"] [] true ].

Example C09_example_blob_wellformed :
  WellFormed Blob ex_blob /\ validate_blob ex_blob = EOk
  /\ new_verifier (Some ex_oci) (Some ex_blob) = EOk
  /\ new_verifier (Some ex_oci) (Some (mk_doc "1.0" [])) = ENoStatements.
Proof. split; [apply blob_iff|]; repeat split; vm_compute; reflexivity. Qed.

Definition ex_blob_global_skip : doc :=
  mk_doc "1.0" [ mk_stmt "a" (mk_sv "strict" [] "") ["ca:s"] ["*"] [] false;
                 mk_stmt "g" (mk_sv "skip" [] "") [] [] [] true ].

(* F1 (fixed by 81abfe4): a global blob statement with level skip is rejected *)
Example C09_example_global_skip :
  validate_blob ex_blob_global_skip = EGlobalSkip /\ ~ WellFormed Blob ex_blob_global_skip.
Proof.
  split; [vm_compute; reflexivity|]. intros H. apply blob_iff in H. vm_compute in H. discriminate.
Qed.

(* F11 (fixed by 7fbf478): the store names "." and ".." are rejected *)
Example C09_example_dotdot :
  validate_oci (mk_doc "1.0" [mk_stmt "a" (mk_sv "strict" [] "") ["ca:.."] ["*"] ["*"] false]) = EStoreName.
Proof. vm_compute; reflexivity. Qed.

(* integrity cannot be overridden; overlapping identities; a scope used twice *)
Example C09_example_rejections :
  validate_oci (mk_doc "1.0" [mk_stmt "a" (mk_sv "strict" [("integrity", "log")] "") ["ca:s"] ["*"] ["*"] false]) = EOverride
  /\ validate_oci (mk_doc "1.0" [mk_stmt "a" (mk_sv "strict" [] "") ["ca:s"]
        ["x509.subject:C=US,ST=WA,O=x"; "x509.subject:O=x,CN=y,ST=WA,C=US"] ["*"] false]) = EIdOverlap
  /\ validate_oci (mk_doc "1.0" [mk_stmt "a" (mk_sv "strict" [] "") ["ca:s"] ["*"] ["a/b"] false;
                                 mk_stmt "b" (mk_sv "strict" [] "") ["ca:s"] ["*"] ["a/b"] false]) = EScopeDup.
Proof. repeat split; vm_compute; reflexivity. Qed.
