(* C13_Generated.v — equivalence of the GoLite translations (theories/C13_Gen.v,
   regenerated from /repo by `vh-gen` on every run, docs/GOLITE.md) of
     internal/file.IsValidFileName
     internal/slices.Contains (instance truststore.Type), truststore.Types
     truststore.isValidStoreType
     truststore.ValidateCertificates
     truststore.isRootCACertificate
   with the functions of the C13 model that play the same role, for ALL inputs.

   Certificates are values of a dependency (crypto/x509): the generated code is
   parameterised by an opaque type [Cert] and by oracles
     is_ca c                 cert.IsCA
     check_sig c a t s       cert.CheckSignature(a, t, s)           (nil = None)
     sig_alg / raw_tbs / sig cert.SignatureAlgorithm / .RawTBSCertificate / .Signature
     check_from c p          cert.CheckSignatureFrom(p)
     bytes_equal a b         bytes.Equal(a, b)
     raw_subj / raw_iss      cert.RawSubject / cert.RawIssuer
   The theorems hold for EVERY choice of them. [agrees abs] says that the model
   certificate [abs c] carries the four facts the oracles give about [c] (what the
   harness asks from crypto/x509 per certificate); [abs_of] is the abstraction
   that does so by construction, so the hypothesis is never vacuous.

   x509TrustStore.GetCertificates translates too (operating system, dir.SysFS and the parser
   of notation-core-go are oracles): [C13_gen_GetCertificates_all_or_nothing] (for EVERY oracle
   behaviour the result is (nil, error) or (exactly all certificates of all entries, nil)),
   [C13_gen_GetCertificates_equiv] / [_loadable] (= the model for every world that answers like
   the model's tree). [C13_gen_entry_step] / [C13_gen_store_of_files] tie the generated
   validators to the place of the model (load_entries) where the same decisions are made. *)
From Coq Require Import List Bool String Ascii NArith ZArith Lia.
From NV Require Import Base Regex Generated GoLib C13_Model C13_Proofs C13_Gen.
Import ListNotations.
Local Open Scope string_scope.
Local Open Scope list_scope.

(* ================= IsValidFileName ================= *)

Theorem C13_gen_IsValidFileName_equiv :
  forall s, gen_file_IsValidFileName s = is_valid_file_name s.
Proof. intros s. reflexivity. Qed.
Print Assumptions C13_gen_IsValidFileName_equiv.

(* the regular expression compiled inside the function is the one of Generated.v *)
Theorem C13_gen_IsValidFileName_regex :
  forall s, gen_file_IsValidFileName s
            = if String.eqb s "." || String.eqb s ".." then false else matches gen_re_filename s.
Proof. intros s. reflexivity. Qed.
Print Assumptions C13_gen_IsValidFileName_regex.

(* the property theorem C13_name_check, transported onto the code as translated *)
Corollary C13_gen_IsValidFileName_plain :
  forall s, gen_file_IsValidFileName s = true <-> plain_name s.
Proof. intros s. rewrite C13_gen_IsValidFileName_equiv. apply is_valid_file_name_spec. Qed.
Print Assumptions C13_gen_IsValidFileName_plain.

(* ================= isValidStoreType ================= *)

(* the package-level table as translated = the table of Generated.v = the property's *)
Theorem C13_gen_store_types_pinned :
  truststore_Types = gen_store_types /\ truststore_Types = spec_store_types.
Proof. split; reflexivity. Qed.
Print Assumptions C13_gen_store_types_pinned.

(* slices.Contains at truststore.Type: membership, for every list and every value *)
Theorem C13_gen_Contains_equiv :
  forall l v, gen_slices_Contains_truststore_Type l v = mem_str v l.
Proof.
  intros l v. unfold gen_slices_Contains_truststore_Type, mem_str.
  induction l as [|x l IH]; [reflexivity|].
  cbn [gen_slices_Contains_truststore_Type_loop1 existsb].
  rewrite IH. destruct (String.eqb v x); reflexivity.
Qed.
Print Assumptions C13_gen_Contains_equiv.

Theorem C13_gen_isValidStoreType_equiv :
  forall ty, gen_truststore_isValidStoreType ty = is_valid_store_type ty.
Proof.
  intros ty. unfold gen_truststore_isValidStoreType, is_valid_store_type.
  rewrite ?C13_gen_Contains_equiv. change truststore_Types with gen_store_types.
  destruct (mem_str ty gen_store_types); reflexivity.
Qed.
Print Assumptions C13_gen_isValidStoreType_equiv.

(* C13_type_check transported: the code's check accepts exactly ca, signingAuthority, tsa *)
Corollary C13_gen_isValidStoreType_known :
  forall ty, gen_truststore_isValidStoreType ty = true <-> known_type ty.
Proof. intros ty. rewrite C13_gen_isValidStoreType_equiv. apply is_valid_store_type_spec. Qed.
Print Assumptions C13_gen_isValidStoreType_known.

(* ================= ValidateCertificates, isRootCACertificate ================= *)

(* decides comparisons of list_len with small constants (robust against
   `len(x) < 1` / `len(x) == 0` / `len(x) <= 0` spellings) *)
Ltac len_cmp :=
  repeat rewrite list_len_cons; try rewrite list_len_nil;
  repeat match goal with
         | |- context [list_len ?l] =>
             lazymatch goal with
             | _ : (0 <= list_len l)%Z |- _ => fail
             | _ => pose proof (list_len_nonneg l)
             end
         end;
  repeat match goal with
         | |- context [(?a <? ?b)%Z] => destruct (Z.ltb_spec a b); try lia
         | |- context [(?a <=? ?b)%Z] => destruct (Z.leb_spec a b); try lia
         | |- context [(?a =? ?b)%Z] => destruct (Z.eqb_spec a b); try lia
         | |- context [(?a >? ?b)%Z] => rewrite (Z.gtb_ltb a b)
         | |- context [(?a >=? ?b)%Z] => rewrite (Z.geb_leb a b)
         end.

Lemma fb_map {A B} (f : A -> B) (p : B -> bool) l :
  forallb p (map f l) = forallb (fun x => p (f x)) l.
Proof. induction l as [|x l IH]; [reflexivity|]. cbn [map forallb]. now rewrite IH. Qed.

Lemma fb_ext {A} (p q : A -> bool) l : (forall x, p x = q x) -> forallb p l = forallb q l.
Proof. intros H. induction l as [|x l IH]; [reflexivity|]. cbn [forallb]. now rewrite H, IH. Qed.

Section Certs.
  Variable Cert : Type.
  Variable check_sig : Cert -> Z -> list Z -> list Z -> option err.
  Variable check_from : Cert -> Cert -> option err.
  Variable bytes_equal : list Z -> list Z -> bool.
  Variable is_ca : Cert -> bool.
  Variable sig_alg : Cert -> Z.
  Variables raw_tbs sig raw_subj raw_iss : Cert -> list Z.

  (* the generated functions at these oracles *)
  Definition VC : list Cert -> option err :=
    gen_truststore_ValidateCertificates Cert check_sig is_ca sig_alg raw_tbs sig.
  Definition VC_loop : list Cert -> option err :=
    gen_truststore_ValidateCertificates_loop1 Cert check_sig is_ca sig_alg raw_tbs sig.
  Definition ROOT : Cert -> option err :=
    gen_truststore_isRootCACertificate Cert check_from bytes_equal raw_subj raw_iss.

  (* the four facts, read off the oracles *)
  Definition f_ca (c : Cert) : bool := is_ca c.
  Definition f_selfsig (c : Cert) : bool := is_none (check_sig c (sig_alg c) (raw_tbs c) (sig c)).
  Definition f_sigfrom (c : Cert) : bool := is_none (check_from c c).
  Definition f_subj_iss (c : Cert) : bool := bytes_equal (raw_subj c) (raw_iss c).

  (* "the oracles answer like the model of them" *)
  Definition agrees (abs : Cert -> cert) : Prop :=
    forall c, ct_ca (abs c) = f_ca c /\ ct_selfsig (abs c) = f_selfsig c /\
              ct_sigfrom (abs c) = f_sigfrom c /\ ct_subj_iss (abs c) = f_subj_iss c.

  (* the abstraction that agrees by construction *)
  Definition abs_of (id : Cert -> N) (c : Cert) : cert :=
    mk_cert (id c) (f_ca c) (f_selfsig c) (f_sigfrom c) (f_subj_iss c).

  Lemma abs_of_agrees id : agrees (abs_of id).
  Proof. intros c. repeat split. Qed.

  (* ---- direct characterisations (no hypothesis at all) ---- *)

  Lemma VC_loop_spec certs :
    is_none (VC_loop certs) = forallb (fun c => f_ca c || f_selfsig c) certs.
  Proof.
    unfold VC_loop, f_ca, f_selfsig. induction certs as [|c certs IH]; [reflexivity|].
    cbn [gen_truststore_ValidateCertificates_loop1 forallb].
    destruct (is_ca c); destruct (check_sig c (sig_alg c) (raw_tbs c) (sig c));
      cbn [is_none negb orb andb]; solve [reflexivity | exact IH].
  Qed.

  Lemma VC_spec certs :
    is_none (VC certs)
    = match certs with [] => false | _ => forallb (fun c => f_ca c || f_selfsig c) certs end.
  Proof.
    unfold VC, gen_truststore_ValidateCertificates. fold VC_loop.
    destruct certs as [|c certs]; [reflexivity|].
    rewrite <- VC_loop_spec. len_cmp; reflexivity.
  Qed.

  Lemma ROOT_spec c : is_none (ROOT c) = f_sigfrom c && f_subj_iss c.
  Proof.
    unfold ROOT, gen_truststore_isRootCACertificate, f_sigfrom, f_subj_iss.
    destruct (check_from c c); destruct (bytes_equal (raw_subj c) (raw_iss c)); reflexivity.
  Qed.

  (* ---- against the model ---- *)
  Variable abs : Cert -> cert.
  Hypothesis Hagree : agrees abs.

  Lemma accepted_abs c : cert_accepted (abs c) = f_ca c || f_selfsig c.
  Proof. unfold cert_accepted. destruct (Hagree c) as (-> & -> & _). reflexivity. Qed.

  Lemma root_abs c : is_root_ca (abs c) = is_none (ROOT c).
  Proof. unfold is_root_ca. rewrite ROOT_spec. destruct (Hagree c) as (_ & _ & -> & ->). reflexivity. Qed.

  Lemma validate_abs certs : validate_certificates (map abs certs) = is_none (VC certs).
  Proof.
    rewrite VC_spec. unfold validate_certificates. destruct certs as [|c certs]; [reflexivity|].
    cbn [map]. rewrite <- (map_cons abs). rewrite fb_map.
    apply fb_ext. intros x. apply accepted_abs.
  Qed.

  Lemma roots_abs certs :
    forallb is_root_ca (map abs certs) = forallb (fun c => is_none (ROOT c)) certs.
  Proof. rewrite fb_map. apply fb_ext. intros x. apply root_abs. Qed.

  (* one iteration of the model's loop over the entries, on a regular file whose
     parser answer is [certs], written with the generated validators *)
  Lemma entry_step tsa nm certs es acc :
    load_entries tsa ((nm, NFile (CCerts (map abs certs))) :: es) acc
    = match VC certs with
      | Some _ => Failed ECertificate KValidate nm
      | None =>
          if tsa && negb (forallb (fun c => is_none (ROOT c)) certs)
          then Failed ECertificate KNotRoot nm
          else load_entries tsa es (acc ++ map abs certs)
      end.
  Proof.
    cbn [load_entries]. rewrite validate_abs, roots_abs.
    destruct (VC certs); reflexivity.
  Qed.

  Lemma entry_good_gen tsa nm certs :
    entry_good tsa (nm, NFile (CCerts (map abs certs))) <->
    VC certs = None /\ (tsa = true -> forall c, In c certs -> ROOT c = None).
  Proof.
    rewrite entry_good_file, validate_abs, roots_abs, forallb_forall.
    assert (N : forall o : option err, is_none o = true <-> o = None)
      by (intros [e|]; cbn; split; congruence).
    rewrite N. split; intros [V R]; (split; [exact V|]); intros T c Hc; apply N; now apply R.
  Qed.

  (* a store directory that holds only regular files: file i is named [fst] and the
     parser answers [snd] for it *)
  Definition files_node (files : list (string * list Cert)) : list (string * node) :=
    map (fun f => (fst f, NFile (CCerts (map abs (snd f))))) files.

  Lemma store_of_files tsa files l :
    load_entries tsa (files_node files) [] = Loaded l <->
    (forall f, In f files ->
       VC (snd f) = None /\ (tsa = true -> forall c, In c (snd f) -> ROOT c = None)) /\
    l = flat_map (fun f => map abs (snd f)) files /\ l <> [].
  Proof.
    rewrite load_entries_ok. cbn [app]. unfold files_node. rewrite Forall_map, Forall_forall.
    assert (E : flat_map certs_of_entry
                  (map (fun f => (fst f, NFile (CCerts (map abs (snd f))))) files)
                = flat_map (fun f => map abs (snd f)) files).
    { induction files as [|f files IH]; [reflexivity|]. cbn [map flat_map]. now rewrite IH. }
    rewrite E. split; intros (F & L & NE); (split; [|split; assumption]);
      intros f Hf; apply (entry_good_gen tsa (fst f) (snd f)); now apply F.
  Qed.

  (* ================= GetCertificates ================= *)
  (* the operating system, dir.SysFS and the parser of notation-core-go as oracles *)
  Variables SysFS FileInfo DirEntry : Type.
  Variable sys_path_o : SysFS -> list string -> string * option err.  (* SysFS.SysPath(items...) *)
  Variable store_dir_o : list string -> string.                       (* dir.X509TrustStoreDir(items...) *)
  Variable lstat_o : string -> FileInfo * option err.                 (* os.Lstat *)
  Variable not_exist_o : option err -> bool.                          (* os.IsNotExist *)
  Variable read_dir_o : string -> list DirEntry * option err.         (* os.ReadDir *)
  Variable join_o : list string -> string.                            (* filepath.Join(elem...) *)
  Variable read_file_o : string -> list Cert * option err.            (* corex509.ReadCertificateFile *)
  Variable mode_o : FileInfo -> Z.                                    (* FileInfo.Mode() *)
  Variable name_o : DirEntry -> string.                               (* DirEntry.Name() *)
  Variable type_o : DirEntry -> Z.                                    (* DirEntry.Type() *)

  Definition GC : truststore_x509TrustStore SysFS -> string -> string -> list Cert * option err :=
    gen_truststore_x509TrustStore_GetCertificates Cert check_sig check_from bytes_equal is_ca sig_alg
      raw_tbs sig raw_subj raw_iss SysFS sys_path_o store_dir_o FileInfo lstat_o not_exist_o DirEntry
      read_dir_o join_o read_file_o mode_o name_o type_o.
  Definition GC_loop1 : string -> string -> list DirEntry -> list Cert -> list Cert * option err :=
    gen_truststore_x509TrustStore_GetCertificates_loop1 Cert check_sig check_from bytes_equal is_ca sig_alg
      raw_tbs sig raw_subj raw_iss DirEntry join_o read_file_o name_o type_o.
  Definition GC_loop2 : (unit -> list Cert * option err) -> list Cert -> list Cert * option err :=
    gen_truststore_x509TrustStore_GetCertificates_loop2 Cert check_from bytes_equal raw_subj raw_iss.

  (* the two shapes a result may have: everything and no error, or nothing and an error *)
  Definition verdict (r : list Cert * option err) (m : option (list Cert)) : Prop :=
    match m with
    | Some cs => r = (cs, None) /\ cs <> []
    | None => exists e, r = ([], Some e)
    end.

  Definition roots_ok (certs : list Cert) : bool := forallb (fun c => is_none (ROOT c)) certs.

  Lemma GC_loop2_ok K certs : roots_ok certs = true -> GC_loop2 K certs = K tt.
  Proof.
    unfold GC_loop2, roots_ok, ROOT. induction certs as [|c certs IH]; [reflexivity|].
    cbn [gen_truststore_x509TrustStore_GetCertificates_loop2 forallb].
    destruct (gen_truststore_isRootCACertificate Cert check_from bytes_equal raw_subj raw_iss c);
      cbn [is_none negb andb]; [discriminate | exact IH].
  Qed.

  Lemma GC_loop2_bad K certs : roots_ok certs = false -> exists e, GC_loop2 K certs = ([], Some e).
  Proof.
    unfold GC_loop2, roots_ok, ROOT. induction certs as [|c certs IH]; [discriminate|].
    cbn [gen_truststore_x509TrustStore_GetCertificates_loop2 forallb].
    destruct (gen_truststore_isRootCACertificate Cert check_from bytes_equal raw_subj raw_iss c);
      cbn [is_none negb andb]; [intros _; eexists; reflexivity | exact IH].
  Qed.

  (* what the parser answers for entry f of the directory at path p *)
  Definition efile (p : string) (f : DirEntry) : list Cert * option err :=
    read_file_o (join_o [p; name_o f]).

  (* the per-entry decision of the loop, as a boolean *)
  Definition entry_okb (tsa : bool) (p : string) (f : DirEntry) : bool :=
    gen_fs_FileMode_IsRegular (type_o f) && is_none (snd (efile p f)) &&
    is_none (VC (fst (efile p f))) && (negb tsa || roots_ok (fst (efile p f))).

  Definition nonempty (l : list Cert) : option (list Cert) :=
    match l with [] => None | _ => Some l end.

  Definition loop_spec (tsa : bool) (p : string) (files : list DirEntry) (acc : list Cert)
    : option (list Cert) :=
    if forallb (entry_okb tsa p) files
    then nonempty (acc ++ flat_map (fun f => fst (efile p f)) files) else None.

  Lemma loop_spec_cons tsa p f files acc :
    loop_spec tsa p (f :: files) acc
    = if entry_okb tsa p f then loop_spec tsa p files (acc ++ fst (efile p f)) else None.
  Proof.
    unfold loop_spec. cbn [forallb flat_map]. rewrite app_assoc.
    destruct (entry_okb tsa p f); reflexivity.
  Qed.

  Lemma GC_loop1_spec p ty files : forall acc,
    verdict (GC_loop1 p ty files acc) (loop_spec (String.eqb ty "tsa") p files acc).
  Proof.
    induction files as [|f files IH]; intros acc.
    - unfold loop_spec, GC_loop1. cbn [forallb flat_map gen_truststore_x509TrustStore_GetCertificates_loop1].
      rewrite app_nil_r. destruct acc as [|c acc]; cbn [nonempty verdict].
      + eexists. reflexivity.
      + len_cmp. split; [reflexivity | discriminate].
    - rewrite loop_spec_cons. unfold GC_loop1, entry_okb, efile, VC, roots_ok.
      cbn [gen_truststore_x509TrustStore_GetCertificates_loop1].
      fold GC_loop1. fold GC_loop2.
      destruct (gen_fs_FileMode_IsRegular (type_o f)); cbn [negb andb];
        [|eexists; reflexivity].
      destruct (read_file_o (join_o [p; name_o f])) as [certs [e|]]; cbn [fst snd is_none negb andb];
        [eexists; reflexivity|].
      destruct (gen_truststore_ValidateCertificates Cert check_sig is_ca sig_alg raw_tbs sig certs);
        cbn [is_none negb andb]; [eexists; reflexivity|].
      destruct (String.eqb ty "tsa"); cbn [negb orb]; [|apply IH].
      fold (roots_ok certs). destruct (roots_ok certs) eqn:R.
      + rewrite (GC_loop2_ok _ _ R). apply IH.
      + destruct (GC_loop2_bad (fun _ => GC_loop1 p ty files (acc ++ certs)) _ R) as [e E].
        cbn [verdict]. exists e. exact E.
  Qed.

  Definition mode_real_dir (m : Z) : bool :=
    gen_fs_FileMode_IsDir m && (Z.land m 134217728 (* fs.ModeSymlink *) =? 0)%Z.

  (* GetCertificates as a function of the oracles' answers: Some l = success with exactly l *)
  Definition gc_spec (fs : SysFS) (ty name : string) : option (list Cert) :=
    if gen_truststore_isValidStoreType ty && gen_file_IsValidFileName name then
      let '(p, e1) := sys_path_o fs [store_dir_o [ty; name]] in
      if is_none e1 then
        let '(fi, e2) := lstat_o p in
        if is_none e2 && mode_real_dir (mode_o fi) then
          let '(files, e3) := read_dir_o p in
          if is_none e3 then loop_spec (String.eqb ty "tsa") p files [] else None
        else None
      else None
    else None.

  Lemma GC_spec ts ty name :
    verdict (GC ts ty name) (gc_spec (x509TrustStore_trustStorefs SysFS ts) ty name).
  Proof.
    unfold GC, gc_spec, gen_truststore_x509TrustStore_GetCertificates, mode_real_dir.
    fold GC_loop1.
    destruct (gen_truststore_isValidStoreType ty); cbn [negb andb]; [|eexists; reflexivity].
    destruct (gen_file_IsValidFileName name); cbn [negb andb]; [|eexists; reflexivity].
    destruct (sys_path_o (x509TrustStore_trustStorefs SysFS ts) [store_dir_o [ty; name]]) as [p [e1|]];
      cbn [is_none negb]; [eexists; reflexivity|].
    destruct (lstat_o p) as [fi [e2|]]; cbn [is_none negb andb].
    { destruct (not_exist_o (Some e2)); eexists; reflexivity. }
    destruct (gen_fs_FileMode_IsDir (mode_o fi)); cbn [negb orb andb]; [|eexists; reflexivity].
    destruct (Z.land (mode_o fi) 134217728 =? 0)%Z; cbn [negb]; [|eexists; reflexivity].
    destruct (read_dir_o p) as [files [e3|]]; cbn [is_none negb]; [eexists; reflexivity|].
    apply GC_loop1_spec.
  Qed.

  (* reading a success of the specification *)
  Lemma loop_spec_inv tsa p files l :
    loop_spec tsa p files [] = Some l ->
    l <> [] /\ l = flat_map (fun f => fst (efile p f)) files /\
    forall f, In f files ->
      gen_fs_FileMode_IsRegular (type_o f) = true /\ snd (efile p f) = None /\
      VC (fst (efile p f)) = None /\
      (tsa = true -> forall c, In c (fst (efile p f)) -> ROOT c = None).
  Proof.
    unfold loop_spec. cbn [app].
    assert (N : forall o : option err, is_none o = true <-> o = None)
      by (intros [e|]; cbn; split; congruence).
    destruct (forallb (entry_okb tsa p) files) eqn:F; [|discriminate].
    intros H. assert (L : l = flat_map (fun f => fst (efile p f)) files).
    { destruct (flat_map (fun f => fst (efile p f)) files); [discriminate | now inversion H]. }
    split; [|split; [exact L|]].
    - rewrite <- L in H. destruct l; [discriminate | discriminate].
    - intros f Hf. rewrite forallb_forall in F. specialize (F f Hf). unfold entry_okb in F.
      rewrite !andb_true_iff, !N in F. destruct F as [[[R E] V] T].
      repeat split; try assumption.
      intros -> c Hc. cbn [negb orb] in T. unfold roots_ok in T. rewrite forallb_forall in T.
      apply N. now apply T.
  Qed.

  (* ---- GetCertificates against the model, for a world that answers like the tree ---- *)

  Definition entry_agrees (p : string) (f : DirEntry) (e : string * node) : Prop :=
    match snd e with
    | NFile CErr => gen_fs_FileMode_IsRegular (type_o f) = true /\ snd (efile p f) <> None
    | NFile (CCerts cs) =>
        gen_fs_FileMode_IsRegular (type_o f) = true /\ snd (efile p f) = None /\
        map abs (fst (efile p f)) = cs
    | NDir _ | NLink _ => gen_fs_FileMode_IsRegular (type_o f) = false
    end.

  (* the oracles answer like the kernel on the tree [root] (lstat does not follow the last
     component), and the parser like the contents recorded in the tree *)
  Definition world_agrees (fs : SysFS) (root : node) : Prop :=
    forall ty name, known_type ty -> plain_name name ->
    exists p, sys_path_o fs [store_dir_o [ty; name]] = (p, None) /\
      match lstat root (store_path ty name) with
      | LNotExist | LOther => exists fi e, lstat_o p = (fi, Some e)
      | LNode (NDir es) =>
          exists fi files, lstat_o p = (fi, None) /\ mode_real_dir (mode_o fi) = true /\
                           read_dir_o p = (files, None) /\ Forall2 (entry_agrees p) files es
      | LNode _ => exists fi, lstat_o p = (fi, None) /\ mode_real_dir (mode_o fi) = false
      end.

  Definition model_verdict (r : res) (m : option (list Cert)) : Prop :=
    match r with
    | Loaded l => exists cs, m = Some cs /\ map abs cs = l
    | Failed _ _ _ => m = None
    end.

  Lemma loop_spec_model tsa p files es :
    Forall2 (entry_agrees p) files es ->
    forall acc, model_verdict (load_entries tsa es (map abs acc)) (loop_spec tsa p files acc).
  Proof.
    induction 1 as [|f [nm n] files es A _ IH]; intros acc.
    - unfold loop_spec. cbn [forallb flat_map load_entries]. rewrite app_nil_r.
      destruct acc as [|c acc]; cbn [map nonempty model_verdict]; [reflexivity|].
      eexists. split; reflexivity.
    - rewrite loop_spec_cons. unfold entry_agrees in A. cbn [snd] in A. unfold entry_okb.
      destruct n as [[|cs]|es0|t].
      + destruct A as [-> A]. destruct (snd (efile p f)); [|congruence]. reflexivity.
      + destruct A as (-> & -> & <-). cbn [is_none andb].
        rewrite entry_step. fold (roots_ok (fst (efile p f))).
        destruct (VC (fst (efile p f))); cbn [is_none andb]; [reflexivity|].
        destruct tsa; cbn [negb orb andb].
        * destruct (roots_ok (fst (efile p f))); cbn [negb]; [|reflexivity].
          rewrite <- map_app. apply IH.
        * rewrite <- map_app. apply IH.
      + rewrite A. reflexivity.
      + rewrite A. reflexivity.
  Qed.

  Lemma gc_spec_model fs root ty name :
    world_agrees fs root ->
    model_verdict (get_certificates is_valid_file_name root ty name) (gc_spec fs ty name).
  Proof.
    intros W. unfold gc_spec.
    rewrite C13_gen_isValidStoreType_equiv, C13_gen_IsValidFileName_equiv.
    destruct (is_valid_store_type ty) eqn:Ht.
    2:{ unfold get_certificates. rewrite Ht. reflexivity. }
    destruct (is_valid_file_name name) eqn:Hn.
    2:{ unfold get_certificates. rewrite Ht, Hn. reflexivity. }
    apply is_valid_store_type_spec in Ht. apply is_valid_file_name_spec in Hn.
    rewrite get_certificates_valid by assumption. cbn [andb].
    destruct (W ty name Ht Hn) as (p & -> & L). cbn [is_none].
    destruct (lstat root (store_path ty name)) as [| |[c|es|t]].
    - destruct L as (fi & e & ->). reflexivity.
    - destruct L as (fi & e & ->). reflexivity.
    - destruct L as (fi & -> & ->). reflexivity.
    - destruct L as (fi & files & -> & -> & -> & F). cbn [is_none andb].
      apply (loop_spec_model (is_tsa ty) p files es F []).
    - destruct L as (fi & -> & ->). reflexivity.
  Qed.

  Lemma gc_spec_inv fs ty name l :
    gc_spec fs ty name = Some l ->
    gen_truststore_isValidStoreType ty = true /\ gen_file_IsValidFileName name = true /\
    exists p fi files,
      sys_path_o fs [store_dir_o [ty; name]] = (p, None) /\ lstat_o p = (fi, None) /\
      mode_real_dir (mode_o fi) = true /\ read_dir_o p = (files, None) /\
      loop_spec (String.eqb ty "tsa") p files [] = Some l.
  Proof.
    unfold gc_spec.
    destruct (gen_truststore_isValidStoreType ty); [|discriminate].
    destruct (gen_file_IsValidFileName name); [|discriminate]. cbn [andb].
    destruct (sys_path_o fs [store_dir_o [ty; name]]) as [p [e1|]]; [discriminate|]. cbn [is_none].
    destruct (lstat_o p) as [fi [e2|]] eqn:L; [discriminate|]. cbn [is_none andb].
    destruct (mode_real_dir (mode_o fi)) eqn:M; [|discriminate].
    destruct (read_dir_o p) as [files [e3|]] eqn:R; [discriminate|]. cbn [is_none].
    intros H. split; [reflexivity|]. split; [reflexivity|].
    exists p, fi, files. rewrite L. repeat split; assumption.
  Qed.

  Lemma verdict_cases r m :
    verdict r m ->
    (exists e, r = ([], Some e) /\ m = None) \/ (exists cs, r = (cs, None) /\ cs <> [] /\ m = Some cs).
  Proof.
    destruct m as [cs|]; cbn [verdict].
    - intros [-> N]. right. exists cs. repeat split; assumption.
    - intros [e ->]. left. exists e. split; reflexivity.
  Qed.

  Lemma GC_model ts root ty name :
    world_agrees (x509TrustStore_trustStorefs SysFS ts) root ->
    match get_certificates is_valid_file_name root ty name with
    | Loaded l => exists cs, GC ts ty name = (cs, None) /\ map abs cs = l
    | Failed _ _ _ => exists e, GC ts ty name = ([], Some e)
    end.
  Proof.
    intros W. pose proof (gc_spec_model _ root ty name W) as M.
    pose proof (GC_spec ts ty name) as V.
    destruct (get_certificates is_valid_file_name root ty name) as [l|c k e]; cbn [model_verdict] in M.
    - destruct M as (cs & E & A). rewrite E in V. destruct V as [V _]. exists cs. split; assumption.
    - rewrite M in V. exact V.
  Qed.
End Certs.

(* ---- the theorems, closed over every oracle ---- *)

(* ValidateCertificates returns nil exactly when the model's validate_certificates
   accepts the abstracted list *)
Theorem C13_gen_ValidateCertificates_equiv :
  forall Cert check_sig is_ca sig_alg raw_tbs sig abs,
    (forall c : Cert, ct_ca (abs c) = is_ca c /\
                      ct_selfsig (abs c) = is_none (check_sig c (sig_alg c) (raw_tbs c) (sig c))) ->
    forall certs,
      is_none (gen_truststore_ValidateCertificates Cert check_sig is_ca sig_alg raw_tbs sig certs)
      = validate_certificates (map abs certs).
Proof.
  intros Cert check_sig is_ca sig_alg raw_tbs sig abs H certs.
  pose (abs' := fun c => mk_cert (ct_id (abs c)) (ct_ca (abs c)) (ct_selfsig (abs c)) true true).
  assert (A : agrees Cert check_sig (fun _ _ => None) (fun _ _ => true) is_ca sig_alg raw_tbs sig
                     (fun _ => []) (fun _ => []) abs').
  { intros c. destruct (H c) as [H1 H2]. repeat split; assumption. }
  pose proof (validate_abs Cert check_sig (fun _ _ => None) (fun _ _ => true) is_ca sig_alg raw_tbs sig
                (fun _ => []) (fun _ => []) abs' A certs) as V.
  unfold VC in V. rewrite <- V.
  unfold validate_certificates. destruct certs as [|c certs]; [reflexivity|].
  cbn [map]. rewrite <- !(map_cons), !fb_map. apply fb_ext. intros x. reflexivity.
Qed.
Print Assumptions C13_gen_ValidateCertificates_equiv.

(* direct reading, no abstraction: nil iff non-empty and every certificate is a CA
   or verifies its own signature *)
Theorem C13_gen_ValidateCertificates_spec :
  forall Cert check_sig is_ca sig_alg raw_tbs sig certs,
    gen_truststore_ValidateCertificates Cert check_sig is_ca sig_alg raw_tbs sig certs = None <->
    certs <> [] /\
    forall c : Cert, In c certs ->
      is_ca c = true \/ check_sig c (sig_alg c) (raw_tbs c) (sig c) = None.
Proof.
  intros Cert check_sig is_ca sig_alg raw_tbs sig certs.
  pose proof (VC_spec Cert check_sig is_ca sig_alg raw_tbs sig certs) as V. unfold VC in V.
  assert (N : forall o : option err, is_none o = true <-> o = None)
    by (intros [e|]; cbn; split; congruence).
  rewrite <- N, V. destruct certs as [|c0 certs].
  - split; [discriminate | intros [E _]; congruence].
  - rewrite forallb_forall. unfold f_ca, f_selfsig. split.
    + intros F. split; [discriminate|]. intros c Hc. specialize (F c Hc).
      apply orb_true_iff in F. rewrite N in F. exact F.
    + intros [_ F] c Hc. apply orb_true_iff. rewrite N. now apply F.
Qed.
Print Assumptions C13_gen_ValidateCertificates_spec.

Theorem C13_gen_isRootCACertificate_equiv :
  forall Cert check_from bytes_equal raw_subj raw_iss abs,
    (forall c : Cert, ct_sigfrom (abs c) = is_none (check_from c c) /\
                      ct_subj_iss (abs c) = bytes_equal (raw_subj c) (raw_iss c)) ->
    forall c,
      is_none (gen_truststore_isRootCACertificate Cert check_from bytes_equal raw_subj raw_iss c)
      = is_root_ca (abs c).
Proof.
  intros Cert check_from bytes_equal raw_subj raw_iss abs H c.
  pose proof (ROOT_spec Cert check_from bytes_equal raw_subj raw_iss c) as R. unfold ROOT in R.
  rewrite R. unfold is_root_ca, f_sigfrom, f_subj_iss. destruct (H c) as [-> ->]. reflexivity.
Qed.
Print Assumptions C13_gen_isRootCACertificate_equiv.

Theorem C13_gen_isRootCACertificate_spec :
  forall Cert check_from bytes_equal raw_subj raw_iss (c : Cert),
    gen_truststore_isRootCACertificate Cert check_from bytes_equal raw_subj raw_iss c = None <->
    check_from c c = None /\ bytes_equal (raw_subj c) (raw_iss c) = true.
Proof.
  intros Cert check_from bytes_equal raw_subj raw_iss c.
  pose proof (ROOT_spec Cert check_from bytes_equal raw_subj raw_iss c) as R. unfold ROOT in R.
  assert (N : forall o : option err, is_none o = true <-> o = None)
    by (intros [e|]; cbn; split; congruence).
  rewrite <- N, R, andb_true_iff. unfold f_sigfrom, f_subj_iss. rewrite N. reflexivity.
Qed.
Print Assumptions C13_gen_isRootCACertificate_spec.

(* the hypothesis [agrees] is satisfiable for every choice of oracles *)
Theorem C13_gen_agrees_witness :
  forall Cert check_sig check_from bytes_equal is_ca sig_alg raw_tbs sig raw_subj raw_iss id,
    agrees Cert check_sig check_from bytes_equal is_ca sig_alg raw_tbs sig raw_subj raw_iss
           (abs_of Cert check_sig check_from bytes_equal is_ca sig_alg raw_tbs sig raw_subj raw_iss id).
Proof. intros. apply abs_of_agrees. Qed.
Print Assumptions C13_gen_agrees_witness.

(* the per-entry decision of GetCertificates as the model makes it (load_entries),
   expressed with the generated ValidateCertificates / isRootCACertificate *)
Theorem C13_gen_entry_step :
  forall Cert check_sig check_from bytes_equal is_ca sig_alg raw_tbs sig raw_subj raw_iss abs,
    agrees Cert check_sig check_from bytes_equal is_ca sig_alg raw_tbs sig raw_subj raw_iss abs ->
    forall tsa nm certs es acc,
      load_entries tsa ((nm, NFile (CCerts (map abs certs))) :: es) acc
      = match gen_truststore_ValidateCertificates Cert check_sig is_ca sig_alg raw_tbs sig certs with
        | Some _ => Failed ECertificate KValidate nm
        | None =>
            if tsa && negb (forallb (fun c => is_none
                 (gen_truststore_isRootCACertificate Cert check_from bytes_equal raw_subj raw_iss c)) certs)
            then Failed ECertificate KNotRoot nm
            else load_entries tsa es (acc ++ map abs certs)
        end.
Proof. intros. now apply entry_step. Qed.
Print Assumptions C13_gen_entry_step.

(* clauses 5-7 of the property on the generated validators: a regular file is a good
   entry iff ValidateCertificates returns nil on what the parser gave and, in a tsa
   store, isRootCACertificate returns nil on each certificate *)
Theorem C13_gen_entry_good_iff :
  forall Cert check_sig check_from bytes_equal is_ca sig_alg raw_tbs sig raw_subj raw_iss abs,
    agrees Cert check_sig check_from bytes_equal is_ca sig_alg raw_tbs sig raw_subj raw_iss abs ->
    forall tsa nm certs,
      entry_good tsa (nm, NFile (CCerts (map abs certs))) <->
      gen_truststore_ValidateCertificates Cert check_sig is_ca sig_alg raw_tbs sig certs = None /\
      (tsa = true -> forall c, In c certs ->
         gen_truststore_isRootCACertificate Cert check_from bytes_equal raw_subj raw_iss c = None).
Proof. intros. now apply entry_good_gen. Qed.
Print Assumptions C13_gen_entry_good_iff.

(* a store of regular files loads iff the generated validators return nil on every
   file, and then holds exactly the files' certificates (and at least one) *)
Theorem C13_gen_store_of_files :
  forall Cert check_sig check_from bytes_equal is_ca sig_alg raw_tbs sig raw_subj raw_iss abs,
    agrees Cert check_sig check_from bytes_equal is_ca sig_alg raw_tbs sig raw_subj raw_iss abs ->
    forall tsa files l,
      load_entries tsa (files_node Cert abs files) [] = Loaded l <->
      (forall f, In f files ->
         gen_truststore_ValidateCertificates Cert check_sig is_ca sig_alg raw_tbs sig (snd f) = None /\
         (tsa = true -> forall c, In c (snd f) ->
            gen_truststore_isRootCACertificate Cert check_from bytes_equal raw_subj raw_iss c = None)) /\
      l = flat_map (fun f => map abs (snd f)) files /\ l <> [].
Proof. intros. now apply store_of_files. Qed.
Print Assumptions C13_gen_store_of_files.

(* C13_iff with the two name checks as the code (translated) makes them *)
Theorem C13_gen_load_iff :
  forall i l,
    load i = Loaded l <->
    gen_truststore_isValidStoreType (i_ty i) = true /\
    gen_file_IsValidFileName (i_name i) = true /\
    exists es, lstat (i_root i) (store_path (i_ty i) (i_name i)) = LNode (NDir es) /\
               Forall (entry_good (is_tsa (i_ty i))) es /\
               l = flat_map certs_of_entry es /\ l <> [].
Proof.
  intros i l. rewrite load_iff. unfold loadable.
  rewrite C13_gen_isValidStoreType_known, C13_gen_IsValidFileName_plain. reflexivity.
Qed.
Print Assumptions C13_gen_load_iff.

(* ================= GetCertificates: the theorems, closed over every oracle ================= *)

(* ALL OR NOTHING on the translated body, for every behaviour of the operating system, of
   dir.SysFS and of the parser: the result of GetCertificates is either (nil, error) or
   (l, nil) with l non-empty and EXACTLY the certificates the parser gives for ALL the
   entries os.ReadDir returned, in that order, every entry being a regular file that
   parses and passes the generated validators. A partial set is impossible. *)
Theorem C13_gen_GetCertificates_all_or_nothing :
  forall Cert check_sig check_from bytes_equal is_ca sig_alg raw_tbs sig raw_subj raw_iss
         SysFS sys_path_o store_dir_o FileInfo lstat_o not_exist_o DirEntry read_dir_o join_o
         read_file_o mode_o name_o type_o ts ty name,
    let r := gen_truststore_x509TrustStore_GetCertificates Cert check_sig check_from bytes_equal is_ca
               sig_alg raw_tbs sig raw_subj raw_iss SysFS sys_path_o store_dir_o FileInfo lstat_o
               not_exist_o DirEntry read_dir_o join_o read_file_o mode_o name_o type_o ts ty name in
    let certs_of p (f : DirEntry) := fst (read_file_o (join_o [p; name_o f])) in
    (exists e, r = ([], Some e)) \/
    (exists l, r = (l, None) /\ l <> [] /\
       gen_truststore_isValidStoreType ty = true /\ gen_file_IsValidFileName name = true /\
       exists p fi files,
         sys_path_o (x509TrustStore_trustStorefs SysFS ts) [store_dir_o [ty; name]] = (p, None) /\
         lstat_o p = (fi, None) /\ gen_fs_FileMode_IsDir (mode_o fi) = true /\
         Z.land (mode_o fi) 134217728 = 0%Z /\
         read_dir_o p = (files, None) /\
         l = flat_map (certs_of p) files /\
         forall f, In f files ->
           gen_fs_FileMode_IsRegular (type_o f) = true /\
           snd (read_file_o (join_o [p; name_o f])) = None /\
           gen_truststore_ValidateCertificates Cert check_sig is_ca sig_alg raw_tbs sig (certs_of p f) = None /\
           (ty = "tsa" -> forall c, In c (certs_of p f) ->
              gen_truststore_isRootCACertificate Cert check_from bytes_equal raw_subj raw_iss c = None)).
Proof.
  intros. subst r certs_of.
  pose proof (GC_spec Cert check_sig check_from bytes_equal is_ca sig_alg raw_tbs sig raw_subj raw_iss
                SysFS FileInfo DirEntry sys_path_o store_dir_o lstat_o not_exist_o read_dir_o join_o
                read_file_o mode_o name_o type_o ts ty name) as V.
  apply verdict_cases in V. unfold GC in V.
  destruct V as [(e & -> & _) | (l & -> & N & S)]; [left; exists e; reflexivity|].
  right. exists l. split; [reflexivity|]. split; [exact N|].
  apply gc_spec_inv in S. destruct S as (Ht & Hn & p & fi & files & P & L & M & R & S).
  split; [exact Ht|]. split; [exact Hn|]. exists p, fi, files.
  unfold mode_real_dir in M. apply andb_true_iff in M. destruct M as [M1 M2]. apply Z.eqb_eq in M2.
  apply loop_spec_inv in S. destruct S as (_ & E & F).
  repeat split; try assumption.
  - apply (F f H).
  - apply (F f H).
  - apply (F f H).
  - intros T. apply (F f H). subst ty. reflexivity.
Qed.
Print Assumptions C13_gen_GetCertificates_all_or_nothing.

(* GetCertificates as translated against the model, for every world that answers like the
   tree of the model (lstat / readdir / parser) and every abstraction that agrees with the
   certificate oracles: success with l iff the model loads (map abs l); failure iff it fails *)
Theorem C13_gen_GetCertificates_equiv :
  forall Cert check_sig check_from bytes_equal is_ca sig_alg raw_tbs sig raw_subj raw_iss abs,
    agrees Cert check_sig check_from bytes_equal is_ca sig_alg raw_tbs sig raw_subj raw_iss abs ->
  forall SysFS sys_path_o store_dir_o FileInfo lstat_o not_exist_o DirEntry read_dir_o join_o
         read_file_o mode_o name_o type_o ts root,
    world_agrees Cert abs SysFS FileInfo DirEntry sys_path_o store_dir_o lstat_o read_dir_o join_o
                 read_file_o mode_o name_o type_o (x509TrustStore_trustStorefs SysFS ts) root ->
  forall ty name,
    let r := gen_truststore_x509TrustStore_GetCertificates Cert check_sig check_from bytes_equal is_ca
               sig_alg raw_tbs sig raw_subj raw_iss SysFS sys_path_o store_dir_o FileInfo lstat_o
               not_exist_o DirEntry read_dir_o join_o read_file_o mode_o name_o type_o ts ty name in
    match load (mk_input ty name root) with
    | Loaded l => exists cs, r = (cs, None) /\ map abs cs = l
    | Failed _ _ _ => exists e, r = ([], Some e)
    end.
Proof.
  intros Cert check_sig check_from bytes_equal is_ca sig_alg raw_tbs sig raw_subj raw_iss abs A
         SysFS sys_path_o store_dir_o FileInfo lstat_o not_exist_o DirEntry read_dir_o join_o
         read_file_o mode_o name_o type_o ts root W ty name r.
  exact (GC_model Cert check_sig check_from bytes_equal is_ca sig_alg raw_tbs sig raw_subj raw_iss abs A
           SysFS FileInfo DirEntry sys_path_o store_dir_o lstat_o not_exist_o read_dir_o join_o
           read_file_o mode_o name_o type_o ts root ty name W).
Qed.
Print Assumptions C13_gen_GetCertificates_equiv.

(* the property's main theorem (C13_iff) on the code as translated *)
Corollary C13_gen_GetCertificates_loadable :
  forall Cert check_sig check_from bytes_equal is_ca sig_alg raw_tbs sig raw_subj raw_iss abs,
    agrees Cert check_sig check_from bytes_equal is_ca sig_alg raw_tbs sig raw_subj raw_iss abs ->
  forall SysFS sys_path_o store_dir_o FileInfo lstat_o not_exist_o DirEntry read_dir_o join_o
         read_file_o mode_o name_o type_o ts root,
    world_agrees Cert abs SysFS FileInfo DirEntry sys_path_o store_dir_o lstat_o read_dir_o join_o
                 read_file_o mode_o name_o type_o (x509TrustStore_trustStorefs SysFS ts) root ->
  forall ty name,
    let r := gen_truststore_x509TrustStore_GetCertificates Cert check_sig check_from bytes_equal is_ca
               sig_alg raw_tbs sig raw_subj raw_iss SysFS sys_path_o store_dir_o FileInfo lstat_o
               not_exist_o DirEntry read_dir_o join_o read_file_o mode_o name_o type_o ts ty name in
    (forall cs, r = (cs, None) -> loadable root ty name (map abs cs)) /\
    (forall l, loadable root ty name l -> exists cs, r = (cs, None) /\ map abs cs = l) /\
    ((forall l, ~ loadable root ty name l) -> exists e, r = ([], Some e)).
Proof.
  intros Cert check_sig check_from bytes_equal is_ca sig_alg raw_tbs sig raw_subj raw_iss abs A
         SysFS sys_path_o store_dir_o FileInfo lstat_o not_exist_o DirEntry read_dir_o join_o
         read_file_o mode_o name_o type_o ts root W ty name r.
  pose proof (C13_gen_GetCertificates_equiv Cert check_sig check_from bytes_equal is_ca sig_alg raw_tbs
                sig raw_subj raw_iss abs A SysFS sys_path_o store_dir_o FileInfo lstat_o not_exist_o
                DirEntry read_dir_o join_o read_file_o mode_o name_o type_o ts root W ty name) as E.
  cbv zeta in E. fold r in E.
  pose proof (load_iff (mk_input ty name root)) as LI. cbn [i_root i_ty i_name] in LI.
  destruct (load (mk_input ty name root)) as [l|c k e].
  - destruct E as (cs & E & M). split; [|split].
    + intros cs' E'. rewrite E in E'. inversion E'; subst cs'. rewrite M. now apply LI.
    + intros l' L. apply LI in L. inversion L; subst l'. exists cs. split; assumption.
    + intros N. exfalso. apply (N l). now apply LI.
  - destruct E as [e' E]. split; [|split].
    + intros cs E'. rewrite E in E'. discriminate.
    + intros l L. apply LI in L. discriminate.
    + intros _. exists e'. exact E.
Qed.
Print Assumptions C13_gen_GetCertificates_loadable.
