(* C13_Generated.v — equivalence of the GoLite translations (theories/C13_Gen.v,
   regenerated from /repo by `vh-gen` on every run, docs/GOLITE.md) of
     internal/file.IsValidFileName
     internal/slices.Contains (instance truststore.Type), truststore.Types
     truststore.isValidStoreType
     truststore.ValidateCertificates
     truststore.isRootCACertificate
   with the functions of the C13 model that play the same role, for ALL inputs.

   Certificates are values of a dependency (crypto/x509): the generated code is
   parameterised by an opaque type [Cert] and by oracles
     is_ca c                 cert.IsCA
     check_sig c a t s       cert.CheckSignature(a, t, s)           (nil = None)
     sig_alg / raw_tbs / sig cert.SignatureAlgorithm / .RawTBSCertificate / .Signature
     check_from c p          cert.CheckSignatureFrom(p)
     bytes_equal a b         bytes.Equal(a, b)
     raw_subj / raw_iss      cert.RawSubject / cert.RawIssuer
   The theorems hold for EVERY choice of them. [agrees abs] says that the model
   certificate [abs c] carries the four facts the oracles give about [c] (what the
   harness asks from crypto/x509 per certificate); [abs_of] is the abstraction
   that does so by construction, so the hypothesis is never vacuous.

   x509TrustStore.GetCertificates itself is outside the translator (see
   docs/audit/C13.md, section GoLite): [C13_gen_entry_step] / [C13_gen_store_of_files]
   tie the generated validators to the place of the model (load_entries) where the
   same decisions are made. *)
From Coq Require Import List Bool String Ascii NArith ZArith Lia.
From NV Require Import Base Regex Generated GoLib C13_Model C13_Proofs C13_Gen.
Import ListNotations.
Local Open Scope string_scope.
Local Open Scope list_scope.

(* ================= IsValidFileName ================= *)

Theorem C13_gen_IsValidFileName_equiv :
  forall s, gen_file_IsValidFileName s = is_valid_file_name s.
Proof. intros s. reflexivity. Qed.
Print Assumptions C13_gen_IsValidFileName_equiv.

(* the regular expression compiled inside the function is the one of Generated.v *)
Theorem C13_gen_IsValidFileName_regex :
  forall s, gen_file_IsValidFileName s
            = if String.eqb s "." || String.eqb s ".." then false else matches gen_re_filename s.
Proof. intros s. reflexivity. Qed.
Print Assumptions C13_gen_IsValidFileName_regex.

(* the property theorem C13_name_check, transported onto the code as translated *)
Corollary C13_gen_IsValidFileName_plain :
  forall s, gen_file_IsValidFileName s = true <-> plain_name s.
Proof. intros s. rewrite C13_gen_IsValidFileName_equiv. apply is_valid_file_name_spec. Qed.
Print Assumptions C13_gen_IsValidFileName_plain.

(* ================= isValidStoreType ================= *)

(* the package-level table as translated = the table of Generated.v = the property's *)
Theorem C13_gen_store_types_pinned :
  truststore_Types = gen_store_types /\ truststore_Types = spec_store_types.
Proof. split; reflexivity. Qed.
Print Assumptions C13_gen_store_types_pinned.

(* slices.Contains at truststore.Type: membership, for every list and every value *)
Theorem C13_gen_Contains_equiv :
  forall l v, gen_slices_Contains_truststore_Type l v = mem_str v l.
Proof.
  intros l v. unfold gen_slices_Contains_truststore_Type, mem_str.
  induction l as [|x l IH]; [reflexivity|].
  cbn [gen_slices_Contains_truststore_Type_loop1 existsb].
  rewrite IH. destruct (String.eqb v x); reflexivity.
Qed.
Print Assumptions C13_gen_Contains_equiv.

Theorem C13_gen_isValidStoreType_equiv :
  forall ty, gen_truststore_isValidStoreType ty = is_valid_store_type ty.
Proof.
  intros ty. unfold gen_truststore_isValidStoreType, is_valid_store_type.
  rewrite ?C13_gen_Contains_equiv. change truststore_Types with gen_store_types.
  destruct (mem_str ty gen_store_types); reflexivity.
Qed.
Print Assumptions C13_gen_isValidStoreType_equiv.

(* C13_type_check transported: the code's check accepts exactly ca, signingAuthority, tsa *)
Corollary C13_gen_isValidStoreType_known :
  forall ty, gen_truststore_isValidStoreType ty = true <-> known_type ty.
Proof. intros ty. rewrite C13_gen_isValidStoreType_equiv. apply is_valid_store_type_spec. Qed.
Print Assumptions C13_gen_isValidStoreType_known.

(* ================= ValidateCertificates, isRootCACertificate ================= *)

(* decides comparisons of list_len with small constants (robust against
   `len(x) < 1` / `len(x) == 0` / `len(x) <= 0` spellings) *)
Ltac len_cmp :=
  repeat rewrite list_len_cons; try rewrite list_len_nil;
  repeat match goal with
         | |- context [list_len ?l] =>
             lazymatch goal with
             | _ : (0 <= list_len l)%Z |- _ => fail
             | _ => pose proof (list_len_nonneg l)
             end
         end;
  repeat match goal with
         | |- context [(?a <? ?b)%Z] => destruct (Z.ltb_spec a b); try lia
         | |- context [(?a <=? ?b)%Z] => destruct (Z.leb_spec a b); try lia
         | |- context [(?a =? ?b)%Z] => destruct (Z.eqb_spec a b); try lia
         | |- context [(?a >? ?b)%Z] => rewrite (Z.gtb_ltb a b)
         | |- context [(?a >=? ?b)%Z] => rewrite (Z.geb_leb a b)
         end.

Lemma fb_map {A B} (f : A -> B) (p : B -> bool) l :
  forallb p (map f l) = forallb (fun x => p (f x)) l.
Proof. induction l as [|x l IH]; [reflexivity|]. cbn [map forallb]. now rewrite IH. Qed.

Lemma fb_ext {A} (p q : A -> bool) l : (forall x, p x = q x) -> forallb p l = forallb q l.
Proof. intros H. induction l as [|x l IH]; [reflexivity|]. cbn [forallb]. now rewrite H, IH. Qed.

Section Certs.
  Variable Cert : Type.
  Variable check_sig : Cert -> Z -> list Z -> list Z -> option err.
  Variable check_from : Cert -> Cert -> option err.
  Variable bytes_equal : list Z -> list Z -> bool.
  Variable is_ca : Cert -> bool.
  Variable sig_alg : Cert -> Z.
  Variables raw_tbs sig raw_subj raw_iss : Cert -> list Z.

  (* the generated functions at these oracles *)
  Definition VC : list Cert -> option err :=
    gen_truststore_ValidateCertificates Cert check_sig is_ca sig_alg raw_tbs sig.
  Definition VC_loop : list Cert -> option err :=
    gen_truststore_ValidateCertificates_loop1 Cert check_sig is_ca sig_alg raw_tbs sig.
  Definition ROOT : Cert -> option err :=
    gen_truststore_isRootCACertificate Cert check_from bytes_equal raw_subj raw_iss.

  (* the four facts, read off the oracles *)
  Definition f_ca (c : Cert) : bool := is_ca c.
  Definition f_selfsig (c : Cert) : bool := is_none (check_sig c (sig_alg c) (raw_tbs c) (sig c)).
  Definition f_sigfrom (c : Cert) : bool := is_none (check_from c c).
  Definition f_subj_iss (c : Cert) : bool := bytes_equal (raw_subj c) (raw_iss c).

  (* "the oracles answer like the model of them" *)
  Definition agrees (abs : Cert -> cert) : Prop :=
    forall c, ct_ca (abs c) = f_ca c /\ ct_selfsig (abs c) = f_selfsig c /\
              ct_sigfrom (abs c) = f_sigfrom c /\ ct_subj_iss (abs c) = f_subj_iss c.

  (* the abstraction that agrees by construction *)
  Definition abs_of (id : Cert -> N) (c : Cert) : cert :=
    mk_cert (id c) (f_ca c) (f_selfsig c) (f_sigfrom c) (f_subj_iss c).

  Lemma abs_of_agrees id : agrees (abs_of id).
  Proof. intros c. repeat split. Qed.

  (* ---- direct characterisations (no hypothesis at all) ---- *)

  Lemma VC_loop_spec certs :
    is_none (VC_loop certs) = forallb (fun c => f_ca c || f_selfsig c) certs.
  Proof.
    unfold VC_loop, f_ca, f_selfsig. induction certs as [|c certs IH]; [reflexivity|].
    cbn [gen_truststore_ValidateCertificates_loop1 forallb].
    destruct (is_ca c); destruct (check_sig c (sig_alg c) (raw_tbs c) (sig c));
      cbn [is_none negb orb andb]; solve [reflexivity | exact IH].
  Qed.

  Lemma VC_spec certs :
    is_none (VC certs)
    = match certs with [] => false | _ => forallb (fun c => f_ca c || f_selfsig c) certs end.
  Proof.
    unfold VC, gen_truststore_ValidateCertificates. fold VC_loop.
    destruct certs as [|c certs]; [reflexivity|].
    rewrite <- VC_loop_spec. len_cmp; reflexivity.
  Qed.

  Lemma ROOT_spec c : is_none (ROOT c) = f_sigfrom c && f_subj_iss c.
  Proof.
    unfold ROOT, gen_truststore_isRootCACertificate, f_sigfrom, f_subj_iss.
    destruct (check_from c c); destruct (bytes_equal (raw_subj c) (raw_iss c)); reflexivity.
  Qed.

  (* ---- against the model ---- *)
  Variable abs : Cert -> cert.
  Hypothesis Hagree : agrees abs.

  Lemma accepted_abs c : cert_accepted (abs c) = f_ca c || f_selfsig c.
  Proof. unfold cert_accepted. destruct (Hagree c) as (-> & -> & _). reflexivity. Qed.

  Lemma root_abs c : is_root_ca (abs c) = is_none (ROOT c).
  Proof. unfold is_root_ca. rewrite ROOT_spec. destruct (Hagree c) as (_ & _ & -> & ->). reflexivity. Qed.

  Lemma validate_abs certs : validate_certificates (map abs certs) = is_none (VC certs).
  Proof.
    rewrite VC_spec. unfold validate_certificates. destruct certs as [|c certs]; [reflexivity|].
    cbn [map]. rewrite <- (map_cons abs). rewrite fb_map.
    apply fb_ext. intros x. apply accepted_abs.
  Qed.

  Lemma roots_abs certs :
    forallb is_root_ca (map abs certs) = forallb (fun c => is_none (ROOT c)) certs.
  Proof. rewrite fb_map. apply fb_ext. intros x. apply root_abs. Qed.

  (* one iteration of the model's loop over the entries, on a regular file whose
     parser answer is [certs], written with the generated validators *)
  Lemma entry_step tsa nm certs es acc :
    load_entries tsa ((nm, NFile (CCerts (map abs certs))) :: es) acc
    = match VC certs with
      | Some _ => Failed ECertificate KValidate nm
      | None =>
          if tsa && negb (forallb (fun c => is_none (ROOT c)) certs)
          then Failed ECertificate KNotRoot nm
          else load_entries tsa es (acc ++ map abs certs)
      end.
  Proof.
    cbn [load_entries]. rewrite validate_abs, roots_abs.
    destruct (VC certs); reflexivity.
  Qed.

  Lemma entry_good_gen tsa nm certs :
    entry_good tsa (nm, NFile (CCerts (map abs certs))) <->
    VC certs = None /\ (tsa = true -> forall c, In c certs -> ROOT c = None).
  Proof.
    rewrite entry_good_file, validate_abs, roots_abs, forallb_forall.
    assert (N : forall o : option err, is_none o = true <-> o = None)
      by (intros [e|]; cbn; split; congruence).
    rewrite N. split; intros [V R]; (split; [exact V|]); intros T c Hc; apply N; now apply R.
  Qed.

  (* a store directory that holds only regular files: file i is named [fst] and the
     parser answers [snd] for it *)
  Definition files_node (files : list (string * list Cert)) : list (string * node) :=
    map (fun f => (fst f, NFile (CCerts (map abs (snd f))))) files.

  Lemma store_of_files tsa files l :
    load_entries tsa (files_node files) [] = Loaded l <->
    (forall f, In f files ->
       VC (snd f) = None /\ (tsa = true -> forall c, In c (snd f) -> ROOT c = None)) /\
    l = flat_map (fun f => map abs (snd f)) files /\ l <> [].
  Proof.
    rewrite load_entries_ok. cbn [app]. unfold files_node. rewrite Forall_map, Forall_forall.
    assert (E : flat_map certs_of_entry
                  (map (fun f => (fst f, NFile (CCerts (map abs (snd f))))) files)
                = flat_map (fun f => map abs (snd f)) files).
    { induction files as [|f files IH]; [reflexivity|]. cbn [map flat_map]. now rewrite IH. }
    rewrite E. split; intros (F & L & NE); (split; [|split; assumption]);
      intros f Hf; apply (entry_good_gen tsa (fst f) (snd f)); now apply F.
  Qed.
End Certs.

(* ---- the theorems, closed over every oracle ---- *)

(* ValidateCertificates returns nil exactly when the model's validate_certificates
   accepts the abstracted list *)
Theorem C13_gen_ValidateCertificates_equiv :
  forall Cert check_sig is_ca sig_alg raw_tbs sig abs,
    (forall c : Cert, ct_ca (abs c) = is_ca c /\
                      ct_selfsig (abs c) = is_none (check_sig c (sig_alg c) (raw_tbs c) (sig c))) ->
    forall certs,
      is_none (gen_truststore_ValidateCertificates Cert check_sig is_ca sig_alg raw_tbs sig certs)
      = validate_certificates (map abs certs).
Proof.
  intros Cert check_sig is_ca sig_alg raw_tbs sig abs H certs.
  pose (abs' := fun c => mk_cert (ct_id (abs c)) (ct_ca (abs c)) (ct_selfsig (abs c)) true true).
  assert (A : agrees Cert check_sig (fun _ _ => None) (fun _ _ => true) is_ca sig_alg raw_tbs sig
                     (fun _ => []) (fun _ => []) abs').
  { intros c. destruct (H c) as [H1 H2]. repeat split; assumption. }
  pose proof (validate_abs Cert check_sig (fun _ _ => None) (fun _ _ => true) is_ca sig_alg raw_tbs sig
                (fun _ => []) (fun _ => []) abs' A certs) as V.
  unfold VC in V. rewrite <- V.
  unfold validate_certificates. destruct certs as [|c certs]; [reflexivity|].
  cbn [map]. rewrite <- !(map_cons), !fb_map. apply fb_ext. intros x. reflexivity.
Qed.
Print Assumptions C13_gen_ValidateCertificates_equiv.

(* direct reading, no abstraction: nil iff non-empty and every certificate is a CA
   or verifies its own signature *)
Theorem C13_gen_ValidateCertificates_spec :
  forall Cert check_sig is_ca sig_alg raw_tbs sig certs,
    gen_truststore_ValidateCertificates Cert check_sig is_ca sig_alg raw_tbs sig certs = None <->
    certs <> [] /\
    forall c : Cert, In c certs ->
      is_ca c = true \/ check_sig c (sig_alg c) (raw_tbs c) (sig c) = None.
Proof.
  intros Cert check_sig is_ca sig_alg raw_tbs sig certs.
  pose proof (VC_spec Cert check_sig is_ca sig_alg raw_tbs sig certs) as V. unfold VC in V.
  assert (N : forall o : option err, is_none o = true <-> o = None)
    by (intros [e|]; cbn; split; congruence).
  rewrite <- N, V. destruct certs as [|c0 certs].
  - split; [discriminate | intros [E _]; congruence].
  - rewrite forallb_forall. unfold f_ca, f_selfsig. split.
    + intros F. split; [discriminate|]. intros c Hc. specialize (F c Hc).
      apply orb_true_iff in F. rewrite N in F. exact F.
    + intros [_ F] c Hc. apply orb_true_iff. rewrite N. now apply F.
Qed.
Print Assumptions C13_gen_ValidateCertificates_spec.

Theorem C13_gen_isRootCACertificate_equiv :
  forall Cert check_from bytes_equal raw_subj raw_iss abs,
    (forall c : Cert, ct_sigfrom (abs c) = is_none (check_from c c) /\
                      ct_subj_iss (abs c) = bytes_equal (raw_subj c) (raw_iss c)) ->
    forall c,
      is_none (gen_truststore_isRootCACertificate Cert check_from bytes_equal raw_subj raw_iss c)
      = is_root_ca (abs c).
Proof.
  intros Cert check_from bytes_equal raw_subj raw_iss abs H c.
  pose proof (ROOT_spec Cert check_from bytes_equal raw_subj raw_iss c) as R. unfold ROOT in R.
  rewrite R. unfold is_root_ca, f_sigfrom, f_subj_iss. destruct (H c) as [-> ->]. reflexivity.
Qed.
Print Assumptions C13_gen_isRootCACertificate_equiv.

Theorem C13_gen_isRootCACertificate_spec :
  forall Cert check_from bytes_equal raw_subj raw_iss (c : Cert),
    gen_truststore_isRootCACertificate Cert check_from bytes_equal raw_subj raw_iss c = None <->
    check_from c c = None /\ bytes_equal (raw_subj c) (raw_iss c) = true.
Proof.
  intros Cert check_from bytes_equal raw_subj raw_iss c.
  pose proof (ROOT_spec Cert check_from bytes_equal raw_subj raw_iss c) as R. unfold ROOT in R.
  assert (N : forall o : option err, is_none o = true <-> o = None)
    by (intros [e|]; cbn; split; congruence).
  rewrite <- N, R, andb_true_iff. unfold f_sigfrom, f_subj_iss. rewrite N. reflexivity.
Qed.
Print Assumptions C13_gen_isRootCACertificate_spec.

(* the hypothesis [agrees] is satisfiable for every choice of oracles *)
Theorem C13_gen_agrees_witness :
  forall Cert check_sig check_from bytes_equal is_ca sig_alg raw_tbs sig raw_subj raw_iss id,
    agrees Cert check_sig check_from bytes_equal is_ca sig_alg raw_tbs sig raw_subj raw_iss
           (abs_of Cert check_sig check_from bytes_equal is_ca sig_alg raw_tbs sig raw_subj raw_iss id).
Proof. intros. apply abs_of_agrees. Qed.
Print Assumptions C13_gen_agrees_witness.

(* the per-entry decision of GetCertificates as the model makes it (load_entries),
   expressed with the generated ValidateCertificates / isRootCACertificate *)
Theorem C13_gen_entry_step :
  forall Cert check_sig check_from bytes_equal is_ca sig_alg raw_tbs sig raw_subj raw_iss abs,
    agrees Cert check_sig check_from bytes_equal is_ca sig_alg raw_tbs sig raw_subj raw_iss abs ->
    forall tsa nm certs es acc,
      load_entries tsa ((nm, NFile (CCerts (map abs certs))) :: es) acc
      = match gen_truststore_ValidateCertificates Cert check_sig is_ca sig_alg raw_tbs sig certs with
        | Some _ => Failed ECertificate KValidate nm
        | None =>
            if tsa && negb (forallb (fun c => is_none
                 (gen_truststore_isRootCACertificate Cert check_from bytes_equal raw_subj raw_iss c)) certs)
            then Failed ECertificate KNotRoot nm
            else load_entries tsa es (acc ++ map abs certs)
        end.
Proof. intros. now apply entry_step. Qed.
Print Assumptions C13_gen_entry_step.

(* clauses 5-7 of the property on the generated validators: a regular file is a good
   entry iff ValidateCertificates returns nil on what the parser gave and, in a tsa
   store, isRootCACertificate returns nil on each certificate *)
Theorem C13_gen_entry_good_iff :
  forall Cert check_sig check_from bytes_equal is_ca sig_alg raw_tbs sig raw_subj raw_iss abs,
    agrees Cert check_sig check_from bytes_equal is_ca sig_alg raw_tbs sig raw_subj raw_iss abs ->
    forall tsa nm certs,
      entry_good tsa (nm, NFile (CCerts (map abs certs))) <->
      gen_truststore_ValidateCertificates Cert check_sig is_ca sig_alg raw_tbs sig certs = None /\
      (tsa = true -> forall c, In c certs ->
         gen_truststore_isRootCACertificate Cert check_from bytes_equal raw_subj raw_iss c = None).
Proof. intros. now apply entry_good_gen. Qed.
Print Assumptions C13_gen_entry_good_iff.

(* a store of regular files loads iff the generated validators return nil on every
   file, and then holds exactly the files' certificates (and at least one) *)
Theorem C13_gen_store_of_files :
  forall Cert check_sig check_from bytes_equal is_ca sig_alg raw_tbs sig raw_subj raw_iss abs,
    agrees Cert check_sig check_from bytes_equal is_ca sig_alg raw_tbs sig raw_subj raw_iss abs ->
    forall tsa files l,
      load_entries tsa (files_node Cert abs files) [] = Loaded l <->
      (forall f, In f files ->
         gen_truststore_ValidateCertificates Cert check_sig is_ca sig_alg raw_tbs sig (snd f) = None /\
         (tsa = true -> forall c, In c (snd f) ->
            gen_truststore_isRootCACertificate Cert check_from bytes_equal raw_subj raw_iss c = None)) /\
      l = flat_map (fun f => map abs (snd f)) files /\ l <> [].
Proof. intros. now apply store_of_files. Qed.
Print Assumptions C13_gen_store_of_files.

(* C13_iff with the two name checks as the code (translated) makes them *)
Theorem C13_gen_load_iff :
  forall i l,
    load i = Loaded l <->
    gen_truststore_isValidStoreType (i_ty i) = true /\
    gen_file_IsValidFileName (i_name i) = true /\
    exists es, lstat (i_root i) (store_path (i_ty i) (i_name i)) = LNode (NDir es) /\
               Forall (entry_good (is_tsa (i_ty i))) es /\
               l = flat_map certs_of_entry es /\ l <> [].
Proof.
  intros i l. rewrite load_iff. unfold loadable.
  rewrite C13_gen_isValidStoreType_known, C13_gen_IsValidFileName_plain. reflexivity.
Qed.
Print Assumptions C13_gen_load_iff.
