(* C13_Generated.v — equivalence of the GoLite translation of
   internal/file.IsValidFileName (theories/C13_Gen.v, regenerated from /repo by
   `vh-gen` on every run, docs/GOLITE.md) with the file-name predicate of the
   C13 model, for every string. *)
From Coq Require Import List Bool String Ascii NArith ZArith.
From NV Require Import Base Regex Generated GoLib C13_Model C13_Proofs C13_Gen.
Import ListNotations.
Local Open Scope string_scope.

Theorem C13_gen_IsValidFileName_equiv :
  forall s, gen_file_IsValidFileName s = is_valid_file_name s.
Proof. intros s. reflexivity. Qed.
Print Assumptions C13_gen_IsValidFileName_equiv.

(* the regular expression compiled inside the function is the one of Generated.v *)
Theorem C13_gen_IsValidFileName_regex :
  forall s, gen_file_IsValidFileName s
            = if String.eqb s "." || String.eqb s ".." then false else matches gen_re_filename s.
Proof. intros s. reflexivity. Qed.
Print Assumptions C13_gen_IsValidFileName_regex.

(* the property theorem C13_name_check, transported onto the code as translated *)
Corollary C13_gen_IsValidFileName_plain :
  forall s, gen_file_IsValidFileName s = true <-> plain_name s.
Proof. intros s. rewrite C13_gen_IsValidFileName_equiv. apply is_valid_file_name_spec. Qed.
Print Assumptions C13_gen_IsValidFileName_plain.
