From NV Require Import Base Generated C11_Model.
Theorem C11_constants_generated : k_thumb = gen_annotation_x509_chain_thumbprint.
Proof. reflexivity. Qed.
Print Assumptions C11_constants_generated.
