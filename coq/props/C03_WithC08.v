(* C03 — "the applicable policy statement" of the C03 theorems ([C03_Model.select]) IS the
   statement that C08 proves to be the one applied, for both entry points.

   Verify:      C08's value-level model of OCIDocument.GetApplicableTrustPolicy
                ([v_oci d ref]: getArtifactPathFromReference, then the loop) selects s
                <-> C03's [select] on the artifact path selects the translation of s.
   VerifyBlob:  the C03 driver renders a blob document as scoped statements (each statement
                gets the single scope <its name>; the global statement gets "*" when the call
                names no policy; the policy name plays the repository). [enc] is that rendering.
                On a blob document with unique names, at most one global statement and no
                statement named "*" or "" (the first two are BlobDocument.Validate's rules,
                C08_Model.names_unique / global_unique; the last is a restriction of the driver's
                generator), C03's [select] on the rendering selects exactly what C08's
                [v_name] / [v_global] (BlobDocument.GetApplicableTrustPolicy, GetGlobalTrustPolicy)
                select. Hence every C03 theorem speaks about VerifyBlob too.
   [g] supplies the two statement fields derived from signatureVerification (C02/C09).
   Statements only; every proof is [exact <lemma of C03_WithC08>]. *)
From NV Require Import Base C03_Model C03_WithC08.
From NV Require C08_Model.
Open Scope string_scope.

Theorem C03_verify_selects : forall g d ref s, C08_Model.v_oci d ref = C08_Model.RSel s ->
  exists path, C08_Model.last_at ref = Some path /\ select (map (tr g) d) path = Some (tr g s).
Proof. exact verify_selects. Qed.
Print Assumptions C03_verify_selects.

Theorem C03_verify_selects_none : forall g d ref, C08_Model.v_oci d ref = C08_Model.RErr 3 ->
  exists path, C08_Model.last_at ref = Some path /\ select (map (tr g) d) path = None.
Proof. exact verify_selects_none. Qed.
Print Assumptions C03_verify_selects_none.

Theorem C03_verifyblob_named_selects : forall g d n s,
  C08_Model.names_unique d = true -> (forall x, In x d -> C08_Model.s_name x <> wildcard) ->
  C08_Model.v_name d n = C08_Model.RSel s ->
  select (map (enc g false) d) n = Some (enc g false s).
Proof. exact verifyblob_named_selects. Qed.
Print Assumptions C03_verifyblob_named_selects.

Theorem C03_verifyblob_named_none : forall g d n,
  C08_Model.names_unique d = true -> (forall x, In x d -> C08_Model.s_name x <> wildcard) ->
  C08_Model.v_name d n = C08_Model.RErr 5 ->
  select (map (enc g false) d) n = None.
Proof. exact verifyblob_named_none. Qed.
Print Assumptions C03_verifyblob_named_none.

Theorem C03_verifyblob_global_selects : forall g d s,
  C08_Model.global_unique d = true ->
  (forall x, In x d -> C08_Model.s_name x <> wildcard /\ C08_Model.s_name x <> "") ->
  C08_Model.v_global d = C08_Model.RSel s ->
  select (map (enc g true) d) "" = Some (enc g true s).
Proof. exact verifyblob_global_selects. Qed.
Print Assumptions C03_verifyblob_global_selects.

Theorem C03_verifyblob_global_none : forall g d,
  C08_Model.global_unique d = true ->
  (forall x, In x d -> C08_Model.s_name x <> wildcard /\ C08_Model.s_name x <> "") ->
  C08_Model.v_global d = C08_Model.RErr 6 ->
  select (map (enc g true) d) "" = None.
Proof. exact verifyblob_global_none. Qed.
Print Assumptions C03_verifyblob_global_none.

(* the first sentence of the property worded on the statement C08 selects: a pass has a
   chain certificate in a store of the scheme's type listed BY THAT STATEMENT *)
Theorem C03_verify_sound : forall g d ref s sch fs chain tok path,
  C08_Model.v_oci d ref = C08_Model.RSel s -> C08_Model.last_at ref = Some path ->
  o_auth (model (mk_input sch (map (tr g) d) path fs chain tok)) = Some APass ->
  exists ty name l c, store_type_of sch = Some ty /\ In (store_value ty name) (C08_Model.s_stores s) /\
    fs_get fs ty name = Certs l /\ In c l /\ In c chain.
Proof. exact verify_sound. Qed.
Print Assumptions C03_verify_sound.

Theorem C03_verifyblob_sound : forall g d q s sch fs chain tok,
  C08_Model.names_unique d = true -> C08_Model.global_unique d = true ->
  (forall x, In x d -> C08_Model.s_name x <> wildcard /\ C08_Model.s_name x <> "") ->
  C08_Model.v_select d q = C08_Model.RSel s ->
  match q with
  | C08_Model.QOci _ => True
  | C08_Model.QName n =>
      o_auth (model (mk_input sch (map (enc g false) d) n fs chain tok)) = Some APass ->
      exists ty name l c, store_type_of sch = Some ty /\ In (store_value ty name) (C08_Model.s_stores s) /\
        fs_get fs ty name = Certs l /\ In c l /\ In c chain
  | C08_Model.QGlobal =>
      o_auth (model (mk_input sch (map (enc g true) d) "" fs chain tok)) = Some APass ->
      exists ty name l c, store_type_of sch = Some ty /\ In (store_value ty name) (C08_Model.s_stores s) /\
        fs_get fs ty name = Certs l /\ In c l /\ In c chain
  end.
Proof. exact verifyblob_sound. Qed.
Print Assumptions C03_verifyblob_sound.

(* ---------- non-vacuity ---------- *)
Definition ex_sv : C08_Model.sigver := C08_Model.mk_sv "strict" [] "".
Definition ex_g (s : C08_Model.stmt) : action * bool :=
  (if String.eqb (C08_Model.sv_level (C08_Model.s_sv s)) "audit" then Log else Enforce, true).

(* an OCI document: the statement scoped to the repository wins over the wildcard statement
   that comes later; a reference to another repository gets the wildcard statement *)
Definition ex_oci : list C08_Model.stmt :=
  [ C08_Model.mk_stmt "P" ["reg.example/repo"] ex_sv ["ca:good"] ["*"] false;
    C08_Model.mk_stmt "W" ["*"] ex_sv ["ca:other"] ["*"] false ].
Example C03_with_C08_example_oci :
  C08_Model.v_oci ex_oci "reg.example/repo@sha256:00" = C08_Model.RSel (C08_Model.mk_stmt "P" ["reg.example/repo"] ex_sv ["ca:good"] ["*"] false)
  /\ C08_Model.last_at "reg.example/repo@sha256:00" = Some "reg.example/repo"
  /\ select (map (tr ex_g) ex_oci) "reg.example/repo" = Some (mk_stmt "P" ["reg.example/repo"] ["ca:good"] Enforce true)
  /\ C08_Model.v_oci (firstn 1 ex_oci) "reg.example/else@sha256:00" = C08_Model.RErr 3.
Proof. repeat split; vm_compute; reflexivity. Qed.

(* a blob document with the SAME statement name as the OCI document and another list; the
   global statement in the middle; the hypotheses of the VerifyBlob theorems hold *)
Definition ex_blob : list C08_Model.stmt :=
  [ C08_Model.mk_stmt "P" [] ex_sv ["ca:noise"] ["*"] false;
    C08_Model.mk_stmt "G" [] (C08_Model.mk_sv "audit" [] "") ["signingAuthority:good"] ["*"] true;
    C08_Model.mk_stmt "p" [] ex_sv ["ca:good"] ["*"] false ].
Example C03_with_C08_example_blob :
  C08_Model.names_unique ex_blob = true /\ C08_Model.global_unique ex_blob = true
  /\ (forall x, In x ex_blob -> C08_Model.s_name x <> wildcard /\ C08_Model.s_name x <> "")
  /\ C08_Model.v_name ex_blob "p" = C08_Model.RSel (C08_Model.mk_stmt "p" [] ex_sv ["ca:good"] ["*"] false)
  /\ select (map (enc ex_g false) ex_blob) "p" = Some (mk_stmt "p" ["p"] ["ca:good"] Enforce true)
  /\ C08_Model.v_name ex_blob "Q" = C08_Model.RErr 5
  /\ select (map (enc ex_g false) ex_blob) "Q" = None
  /\ C08_Model.v_global ex_blob = C08_Model.RSel (C08_Model.mk_stmt "G" [] (C08_Model.mk_sv "audit" [] "") ["signingAuthority:good"] ["*"] true)
  /\ select (map (enc ex_g true) ex_blob) "" = Some (mk_stmt "G" ["*"] ["signingAuthority:good"] Log true)
  /\ C08_Model.v_global (firstn 1 ex_blob) = C08_Model.RErr 6.
Proof.
  repeat split; try (vm_compute; reflexivity);
    destruct H as [<-|[<-|[<-|[]]]]; discriminate.
Qed.

(* why the restriction on names is needed: a blob statement named "*" would be rendered as a
   wildcard statement and "selected" for a policy name no statement has *)
Example C03_with_C08_star_name_excluded :
  let d := [C08_Model.mk_stmt "*" [] ex_sv ["ca:good"] ["*"] false] in
  C08_Model.v_name d "nobody" = C08_Model.RErr 5 /\ select (map (enc ex_g false) d) "nobody" <> None.
Proof. split; vm_compute; [reflexivity | discriminate]. Qed.
