(* C03 — the policy part of the input contract of the C03 theorems (C03_Model.wf:
   every trust store value is <type>:<name> with a known type and a non-empty name
   without ':', and no scope value occurs in two statements), which C03 only checks on
   generated documents, is PROVED here from acceptance by the C09 model of
   OCIDocument.Validate. [to_c03 expired] translates a C09 document field by field
   (C09_Compose.v; [expired] only feeds the verifyTimestamp flag of C03's statements).
   Statements only; every proof is [exact <lemma of C09_Compose>]. *)
From NV Require Import Base C09_Model C09_Compose.
From NV Require C03_Model.
Open Scope string_scope.

Theorem C03_validity_from_C09 : forall expired d,
  validate_oci d = EOk -> c03_policy_wf (to_c03 expired d) = true.
Proof. exact c03_policy_from_oci. Qed.
Print Assumptions C03_validity_from_C09.

(* the whole contract [C03_Model.wf], for the signing schemes notation-core-go accepts *)
Theorem C03_wf_from_C09 : forall expired d sch repo fs chain token,
  validate_oci d = EOk -> sch <> C03_Model.SOther ->
  C03_Model.wf (C03_Model.mk_input sch (to_c03 expired d) repo fs chain token) = true.
Proof. exact c03_wf_from_oci. Qed.
Print Assumptions C03_wf_from_C09.

Definition ex3 : doc :=
  mk_doc "1.0"
    [ mk_stmt "images" (mk_sv "strict" [("revocation", "skip")] "afterCertExpiry")
        ["ca:acme"; "signingAuthority:acme"] ["x509.subject:C=US, ST=WA, O=acme"]
        ["registry.acme-rockets.io/net"; "localhost:5000/a"] false;
      mk_stmt "unsigned" (mk_sv "skip" [] "") [] [] ["registry.acme-rockets.io/unsigned"] false;
      mk_stmt "rest" (mk_sv "audit" [] "") ["ca:a"; "tsa:t"] ["*"] ["*"] false ].

Example C03_from_C09_example :
  validate_oci ex3 = EOk
  /\ c03_policy_wf (to_c03 false ex3) = true
  /\ map C03_Model.st_action (to_c03 false ex3) = [C03_Model.Enforce; C03_Model.SkipLevel; C03_Model.Log]
  /\ map C03_Model.st_ts (to_c03 false ex3) = [false; true; true]
  /\ map C03_Model.st_stores (to_c03 true ex3) = [["ca:acme"; "signingAuthority:acme"]; []; ["ca:a"; "tsa:t"]].
Proof. repeat split; vm_compute; reflexivity. Qed.
