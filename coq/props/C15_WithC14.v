(* C15 composed with C14 — what FileCache.Get can answer while ANY number of
   FileCache.Set calls and other Gets run concurrently and writers crash anywhere.
   Statements only; every proof is [exact <lemma of C15_C14Compose>].

   C15_Property.v is about histories of calls made one after the other (Set is one
   atomic step of the model).  C14_Property.v is about the directory shared by
   concurrent writers (file.WriteFile as called by Set: temporary name, chunks,
   close, rename) and readers (os.ReadFile in Get), every interleaving and crash
   point.  Here the rest of Get after os.ReadFile — json.Unmarshal,
   x509.ParseRevocationList, checkExpiry, i.e. [get_entry] of C15_Model — is put on
   top of a completed read of the C14 semantics: [cget dec parse res t] is what
   Get returns at time t when the read completed with [res]; C15_cget_is_get says
   that this is the [get] of C15_Model on the file that was read.
   [sets_only enc dec tr]: every writer of the run stores the encoding of a bundle
   and encoding/json reads it back (the round trip that C15's wf checks on every
   Set).  Kernel semantics of rename/open/O_EXCL are the meaning of the C14 events:
   assumed, not proved (partial, as in C14). *)
From Coq Require Import List String ZArith.
From NV Require Import Base C15_Model C15_C14Compose.
From NV Require C14_Model.
Open Scope string_scope.

Theorem C15_cget_is_get : forall dec parse sha (f : fs) u t r,
  view (alookup (file_name sha u) f) = Some r ->
  get sha dec parse f u t = cget dec parse r t.
Proof. exact cget_is_get. Qed.
Print Assumptions C15_cget_is_get.

(* Under every interleaving and every crash, a Get answers a cache miss, or exactly
   what the sequential model answers for the bundle that SOME Set stored completely
   (created and renamed) for a URL with the key of the URL read. *)
Theorem C15_get_concurrent : forall sha14 enc dec parse tr s,
  forallb M14.safe tr = true -> M14.exec sha14 M14.init tr = Some s -> sets_only enc dec tr ->
  forall r rr res t, M14.getN r (M14.s_r s) = Some rr -> M14.r_st rr = M14.RDone res ->
    cget dec parse res t = RMiss 0 \/
    exists w u e b d tt,
      In (M14.ECreate w u (M14.dat_of (enc e b d)) tt) tr /\ In (M14.ERename w) tr /\
      M14.key sha14 u = M14.key sha14 (M14.r_url rr) /\
      cget dec parse res t = get_entry parse b (norm d) t.
Proof. exact get_concurrent. Qed.
Print Assumptions C15_get_concurrent.

(* ... so no Get ever reports a decoding error: an entry is never seen half-written or mixed *)
Theorem C15_get_concurrent_decodes : forall sha14 enc dec parse tr s,
  forallb M14.safe tr = true -> M14.exec sha14 M14.init tr = Some s -> sets_only enc dec tr ->
  forall r rr res t, M14.getN r (M14.s_r s) = Some rr -> M14.r_st rr = M14.RDone res ->
    cget dec parse res t <> RErr 2.
Proof. exact get_concurrent_decodes. Qed.
Print Assumptions C15_get_concurrent_decodes.

(* ... and a bundle that is answered has exactly the Raw bytes of base and delta of a
   bundle some Set stored for that key, both still fresh at the time of the call *)
Theorem C15_get_concurrent_hit : forall sha14 enc dec parse tr s,
  forallb M14.safe tr = true -> M14.exec sha14 M14.init tr = Some s -> sets_only enc dec tr ->
  forall r rr res t b' d', M14.getN r (M14.s_r s) = Some rr -> M14.r_st rr = M14.RDone res ->
    cget dec parse res t = RHit b' d' ->
    exists w u e b d tt,
      In (M14.ECreate w u (M14.dat_of (enc e b d)) tt) tr /\ In (M14.ERename w) tr /\
      M14.key sha14 u = M14.key sha14 (M14.r_url rr) /\
      (exists nb, parse b = POk b' (Some nb) /\ (t <= nb)%Z) /\
      match norm d with
      | None => d' = None
      | Some dd => exists rd nd, d' = Some rd /\ parse dd = POk rd (Some nd) /\ (t <= nd)%Z
      end.
Proof. exact get_concurrent_hit. Qed.
Print Assumptions C15_get_concurrent_hit.

(* ... and a Get that opens the key after the rename of a Set for that key never misses with
   "no file": it answers what the sequential model answers for the bundle of that Set or of
   one that renamed after it and before the open (read-your-write across processes) *)
Theorem C15_get_concurrent_fresh : forall sha14 enc dec parse tr1 tr2 tr3 w r u s,
  let tr := (tr1 ++ M14.ERename w :: tr2 ++ M14.EOpen r u :: tr3)%list in
  forallb M14.safe tr = true -> M14.exec sha14 M14.init tr = Some s -> sets_only enc dec tr ->
  forall wr, M14.getN w (M14.s_w s) = Some wr -> M14.key sha14 (M14.w_url wr) = M14.key sha14 u ->
  forall rr res t, M14.getN r (M14.s_r s) = Some rr -> M14.r_st rr = M14.RDone res ->
    exists w' wr' e b d,
      M14.getN w' (M14.s_w s) = Some wr' /\ (w' = w \/ In (M14.ERename w') tr2) /\
      M14.key sha14 (M14.w_url wr') = M14.key sha14 u /\
      M14.w_content wr' = M14.dat_of (enc e b d) /\
      cget dec parse res t = get_entry parse b (norm d) t /\ cget dec parse res t <> RMiss 0.
Proof. exact get_concurrent_fresh. Qed.
Print Assumptions C15_get_concurrent_fresh.

(* non-vacuity: two writers of one URL and a reader that opens between their renames and
   finishes after the second; it ends with the complete first entry, which is a hit
   before its NextUpdate and a miss (base expired) after it *)
Example C15_example_concurrent :
  sets_only ex_enc ex_dec ex_tr /\
  forallb M14.safe ex_tr = true /\
  exists s rr, M14.exec ex_sha M14.init ex_tr = Some s /\ M14.getN 7%N (M14.s_r s) = Some rr /\
    M14.r_st rr = M14.RDone (M14.Hit (M14.dat_of "AAAA")) /\
    cget ex_dec ex_parse (M14.Hit (M14.dat_of "AAAA")) 5 = RHit "AAAA" None /\
    cget ex_dec ex_parse (M14.Hit (M14.dat_of "AAAA")) 11 = RMiss 1.
Proof. exact (conj ex_sets_only ex_run). Qed.

(* the example run has the shape of C15_get_concurrent_fresh: rename of writer 0, then the open *)
Example C15_example_concurrent_shape :
  ex_tr = (firstn 6 ex_tr ++ M14.ERename 0 :: [] ++ M14.EOpen 7 "u" :: skipn 8 ex_tr)%list.
Proof. reflexivity. Qed.
