(* C01 — notation.Verify: the signatures a repository lists for an artifact.
   Statements only; every proof is [exact <lemma of C01_Registry>].

   [notation_verify ri] is what notation.Verify returns for the inputs ri: level
   and override of the applicable statement, the caller's required metadata and
   attempt limit, the descriptor the reference resolves to, and the listing as
   paged by the repository; per listed signature whether it can be fetched, the
   facts of its envelope, and the behaviour of the rest of processSignature for
   it (s_rest, s_touch: trust store, identities, expiry, timestamp, revocation,
   plugins). All of these are universally quantified. Every fetched signature
   is judged by verifier.Verify of C01_Model ([model (sig_input ri d s)]) on the
   RESOLVED descriptor d. *)
From NV Require Import Base C01_Model C01_Proofs C01_Registry.
Open Scope string_scope.
Open Scope list_scope.

(* success => the reference resolved to d, d is returned, and exactly the outcome
   of ONE listed signature is returned: it lies inside the attempt limit, was
   fetched, is intact, its signed target has digest, size and media type of d,
   carries every required metadata pair; the verdicts of the calls made are those
   verifier.Verify gives for each listed signature on its own, everything listed
   before the accepted one was fetched and rejected, nothing after it was looked at *)
Theorem C01_registry : forall ri, NonSkip (r_level ri) (r_override ri) ->
  ro_err (notation_verify ri) = RNone ->
  exists d pre s post,
    r_resolved ri = Some d /\ all_sigs ri = pre ++ s :: post /\ (Z.of_nat (List.length pre) < r_max ri)%Z /\
    s_fetch s = true /\ s_rest s = true /\ Intact (s_env s) /\
    (exists t, e_decode (s_env s) = Some t /\ t_dg t = t_dg d /\ t_sz t = t_sz d /\ t_mt t = t_mt d /\
               (forall k v, In (k, v) (r_md ri) -> lookup k (t_ann t) = Some v)) /\
    ro_desc (notation_verify ri) = Some d /\
    ro_outs (notation_verify ri) = ROSig (N.of_nat (List.length pre)) /\
    ro_verdicts (notation_verify ri) = map (fun s' => o_err (model (sig_input ri d s'))) pre ++ [ENone] /\
    Forall (fun s' => s_fetch s' = true /\ o_err (model (sig_input ri d s')) <> ENone) pre.
Proof. exact registry_sound. Qed.
Print Assumptions C01_registry.

(* success, characterised exactly *)
Theorem C01_registry_iff : forall ri, NonSkip (r_level ri) (r_override ri) ->
  (ro_err (notation_verify ri) = RNone <->
   (0 < r_max ri)%Z /\
   exists d pre s post, r_resolved ri = Some d /\ all_sigs ri = pre ++ s :: post /\
     (Z.of_nat (List.length pre) < r_max ri)%Z /\
     Forall (fun s' => s_fetch s' = true /\ ~ Verifies (r_md ri) d s') pre /\
     s_fetch s = true /\ Verifies (r_md ri) d s).
Proof. exact registry_iff. Qed.
Print Assumptions C01_registry_iff.

(* no level, override, trust store / revocation / plugin situation (r_level,
   r_override, s_rest, s_touch: the hypothesis mentions none of them), no limit
   and no paging makes notation.Verify succeed when no listed signature is
   fetchable, intact, bound to the resolved descriptor and carries the required
   metadata: only the level named "skip", without override, does *)
Theorem C01_registry_no_configuration_helps : forall ri,
  (forall d s, r_resolved ri = Some d -> In s (all_sigs ri) -> ~ (s_fetch s = true /\ SigFacts (r_md ri) d s)) ->
  ro_err (notation_verify ri) = RNone ->
  r_level ri = "skip" /\ r_override ri = [].
Proof. exact registry_no_configuration_helps. Qed.
Print Assumptions C01_registry_no_configuration_helps.

(* the skip level resolves, fetches and verifies nothing and returns the zero descriptor *)
Theorem C01_registry_skip : forall ri, r_level ri = "skip" -> r_override ri = [] -> (0 < r_max ri)%Z ->
  notation_verify ri = mk_ro RNone (Some zero_target) [] ROSkip.
Proof. exact registry_skip. Qed.
Print Assumptions C01_registry_skip.

(* the boolean oracle evaluated on the implementation's observations is met by the model *)
Theorem C01_registry_meets_oracle : forall ri, rspec_ok ri (notation_verify ri) = true.
Proof. exact registry_meets_oracle. Qed.
Print Assumptions C01_registry_meets_oracle.

(* ---------- non-vacuity ---------- *)
Definition rx_target (ann : amap) : target :=
  mk_t "application/vnd.oci.image.manifest.v1+json" "sha256:aa" 528 ann.
Definition rx_other : target :=
  mk_t "application/vnd.oci.image.manifest.v1+json" "sha256:bb" 628 [("k1", "v1")].
Definition rx_sig (v : verr) (t : target) : sigin :=
  mk_s true (mk_e true v media_type_payload_v1 (Some t) H256) true true.

(* listed: a signature for another artifact that carries the metadata, a tampered one,
   one for this artifact without the metadata, a good one, another good one; two pages.
   The fourth is accepted; the fifth is never looked at *)
Example C01_example_registry_accept :
  let ri := mk_ri "permissive" [("revocation", "skip")] [("k1", "v1")] 4 (Some (rx_target []))
              [[rx_sig VOk rx_other; rx_sig VSig (rx_target [("k1", "v1")])];
               [rx_sig VOk (rx_target []); rx_sig VOk (rx_target [("k1", "v1"); ("k2", "v2")]); rx_sig VOk (rx_target [("k1", "v1")])]] in
  NonSkip (r_level ri) (r_override ri) /\
  notation_verify ri = mk_ro RNone (Some (rx_target [])) [EMismatch; EIntegrity ISig; EMetadata; ENone] (ROSig 3).
Proof. split; [eexists; split; reflexivity | reflexivity]. Qed.

(* the same listing with a limit of three attempts: the good signature is out of reach *)
Example C01_example_registry_limit :
  let ri := mk_ri "permissive" [("revocation", "skip")] [("k1", "v1")] 3 (Some (rx_target []))
              [[rx_sig VOk rx_other; rx_sig VSig (rx_target [("k1", "v1")])];
               [rx_sig VOk (rx_target []); rx_sig VOk (rx_target [("k1", "v1"); ("k2", "v2")])]] in
  notation_verify ri = mk_ro RLimit None [EMismatch; EIntegrity ISig; EMetadata] RONil.
Proof. reflexivity. Qed.

(* metadata of one signature and the artifact of another do not add up *)
Example C01_example_registry_no_mixing :
  let ri := mk_ri "audit" [] [("k1", "v1")] 50 (Some (rx_target []))
              [[rx_sig VOk rx_other; rx_sig VOk (rx_target [])]] in
  notation_verify ri = mk_ro RFailed None [EMismatch; EMetadata] RONil.
Proof. reflexivity. Qed.

(* the premises of C01_registry_no_configuration_helps are satisfiable: that listing
   under the skip level "succeeds" — with the zero descriptor and a level-only outcome *)
Example C01_example_registry_skip :
  let ri := mk_ri "skip" [] [("k1", "v1")] 50 (Some (rx_target []))
              [[rx_sig VOk rx_other; rx_sig VOk (rx_target [])]] in
  (forall d s, r_resolved ri = Some d -> In s (all_sigs ri) -> ~ (s_fetch s = true /\ SigFacts (r_md ri) d s)) /\
  notation_verify ri = mk_ro RNone (Some zero_target) [] ROSkip.
Proof.
  split; [|reflexivity].
  intros d s HR HIn [_ [_ [t [HD [E1 [_ [_ M]]]]]]]. simpl in HR. inversion HR; subst d.
  destruct HIn as [<-|[<-|[]]]; simpl in HD; inversion HD; subst t.
  - discriminate.
  - specialize (M "k1" "v1" (or_introl eq_refl)). discriminate.
Qed.
