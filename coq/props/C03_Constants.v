From NV Require Import Base Generated C03_Model.
Theorem C03_constants_generated : C03_Model.wildcard = gen_wildcard.
Proof. reflexivity. Qed.
Print Assumptions C03_constants_generated.
