(* C04_Generated.v — equivalence of the GoLite translation of pkix.IsSubsetDN
   (theories/C04_Gen.v, regenerated from /repo by `vh-gen` on every run,
   docs/GOLITE.md) with the C04 model, for ALL inputs: a Go map is any
   association list (any order; a shadowed binding is invisible, exactly as in
   the model, which looks every key up). *)
From Coq Require Import List Bool String Ascii NArith ZArith Lia.
From NV Require Import Base GoLib C04_DN C04_Model C04_Proofs C04_Gen.
Import ListNotations.
Local Open Scope string_scope.
Local Open Scope list_scope.

Lemma forallb_ext_in {A} (f g : A -> bool) l :
  (forall x, In x l -> f x = g x) -> forallb f l = forallb g l.
Proof.
  induction l as [|a l IH]; intros H; [reflexivity|]. cbn.
  rewrite (H a (or_introl eq_refl)), IH; [reflexivity|]. intros x Hx. apply H. right. exact Hx.
Qed.

(* the loop of IsSubsetDN over any list whose pairs are bindings of dn1 *)
Lemma IsSubsetDN_loop a b : forall l,
  (forall k v, In (k, v) l -> map_get String.eqb k a = Some v) ->
  gen_pkix_IsSubsetDN_loop1 b l
  = forallb (fun kv => match map_get String.eqb (fst kv) a, map_get String.eqb (fst kv) b with
                       | Some v, Some v' => String.eqb v v' | _, _ => false end) l.
Proof.
  induction l as [|[k v] l IH]; intros Hin; [reflexivity|].
  cbn [forallb fst snd gen_pkix_IsSubsetDN_loop1]. rewrite (Hin k v (or_introl eq_refl)).
  unfold map_get_ok. destruct (map_get String.eqb k b) as [v'|]; cbn [negb orb andb].
  - destruct (String.eqb v v'); cbn [negb]; [|reflexivity].
    apply IH. intros k0 v0 H0. apply Hin. right. exact H0.
  - reflexivity.
Qed.

Theorem C04_gen_IsSubsetDN_equiv :
  forall dn1 dn2, gen_pkix_IsSubsetDN dn1 dn2 = is_subset_dn dn1 dn2.
Proof.
  intros a b. unfold gen_pkix_IsSubsetDN, is_subset_dn.
  rewrite (IsSubsetDN_loop a b).
  - rewrite (forallb_map_entries String.eqb string_eqb_spec'
               (fun k o => match o, map_get String.eqb k b with Some v, Some v' => String.eqb v v' | _, _ => false end) a).
    apply forallb_ext_in. intros kv _. rewrite !map_get_lookup. reflexivity.
  - intros k v Hin. eapply map_entries_in; [apply string_eqb_spec'|exact Hin].
Qed.
Print Assumptions C04_gen_IsSubsetDN_equiv.

(* the property theorem C04_subset, transported onto the code as translated *)
Corollary C04_gen_IsSubsetDN_within :
  forall dn1 dn2, gen_pkix_IsSubsetDN dn1 dn2 = true <-> within dn1 dn2.
Proof. intros a b. rewrite C04_gen_IsSubsetDN_equiv. apply is_subset_dn_spec. Qed.
Print Assumptions C04_gen_IsSubsetDN_within.
