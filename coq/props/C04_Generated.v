(* C04_Generated.v — equivalence of the GoLite translations (theories/C04_Gen.v,
   regenerated from /repo by `vh-gen` on every run, docs/GOLITE.md; targets in
   harness/cmd/vh-gen/targets_c04.go) with the C04 model, for ALL inputs:
     pkix.IsSubsetDN, slices.Contains, verifier.verifyX509TrustedIdentities,
     verifier.isCriticalFailure, trustpolicy.validateOverlappingDNs,
     trustpolicy.validateTrustedIdentities
   (oracle: pkix.ParseDistinguishedName; opaque: x509.Certificate with Subject.String()),
   and the property's theorems transported onto the translated code.
   A Go map is any association list (any order; a shadowed binding is invisible,
   exactly as in the model, which looks every key up).
   Table function -> theorem -> hypotheses -> clause: docs/audit/C04.md, section GoLite. *)
From Coq Require Import List Bool String Ascii NArith ZArith Lia.
From NV Require Import Base GoLib C04_DN C04_Model C04_Proofs C04_Audit C04_Gen.
Import ListNotations.
Local Open Scope string_scope.
Local Open Scope list_scope.

Lemma forallb_ext_in {A} (f g : A -> bool) l :
  (forall x, In x l -> f x = g x) -> forallb f l = forallb g l.
Proof.
  induction l as [|a l IH]; intros H; [reflexivity|]. cbn.
  rewrite (H a (or_introl eq_refl)), IH; [reflexivity|]. intros x Hx. apply H. right. exact Hx.
Qed.

(* the loop of IsSubsetDN over any list whose pairs are bindings of dn1 *)
Lemma IsSubsetDN_loop a b : forall l,
  (forall k v, In (k, v) l -> map_get String.eqb k a = Some v) ->
  gen_pkix_IsSubsetDN_loop1 b l
  = forallb (fun kv => match map_get String.eqb (fst kv) a, map_get String.eqb (fst kv) b with
                       | Some v, Some v' => String.eqb v v' | _, _ => false end) l.
Proof.
  induction l as [|[k v] l IH]; intros Hin; [reflexivity|].
  cbn [forallb fst snd gen_pkix_IsSubsetDN_loop1]. rewrite (Hin k v (or_introl eq_refl)).
  unfold map_get_ok. destruct (map_get String.eqb k b) as [v'|]; cbn [negb orb andb].
  - destruct (String.eqb v v'); cbn [negb]; [|reflexivity].
    apply IH. intros k0 v0 H0. apply Hin. right. exact H0.
  - reflexivity.
Qed.

Theorem C04_gen_IsSubsetDN_equiv :
  forall dn1 dn2, gen_pkix_IsSubsetDN dn1 dn2 = is_subset_dn dn1 dn2.
Proof.
  intros a b. unfold gen_pkix_IsSubsetDN, is_subset_dn.
  rewrite (IsSubsetDN_loop a b).
  - rewrite (forallb_map_entries String.eqb string_eqb_spec'
               (fun k o => match o, map_get String.eqb k b with Some v, Some v' => String.eqb v v' | _, _ => false end) a).
    apply forallb_ext_in. intros kv _. rewrite !map_get_lookup. reflexivity.
  - intros k v Hin. eapply map_entries_in; [apply string_eqb_spec'|exact Hin].
Qed.
Print Assumptions C04_gen_IsSubsetDN_equiv.

(* the property theorem C04_subset, transported onto the code as translated *)
Corollary C04_gen_IsSubsetDN_within :
  forall dn1 dn2, gen_pkix_IsSubsetDN dn1 dn2 = true <-> within dn1 dn2.
Proof. intros a b. rewrite C04_gen_IsSubsetDN_equiv. apply is_subset_dn_spec. Qed.
Print Assumptions C04_gen_IsSubsetDN_within.

(* ====================================================================
   The functions around IsSubsetDN (added with targets_c04.go): slices.Contains,
   verifier.verifyX509TrustedIdentities, verifier.isCriticalFailure,
   trustpolicy.validateOverlappingDNs, trustpolicy.validateTrustedIdentities.

   pkix.ParseDistinguishedName is an ORACLE of the translation (its body writes
   through a pointer returned by go-ldap, internal/pkix/pkix.go:43: outside the
   GoLite subset), crypto/x509.Certificate is opaque with the view
   Subject.String().  After the Section of C04_Gen.v every generated function takes
   what it uses of  parse, X (the certificate type), subj  as leading arguments.
   The hypotheses about the oracle:
     parse_agrees parse cls          parse answers like the model of it
                                     (C04_DN.parse_distinguished_name): the parsed map
                                     and no error, or an error that [cls] reads as the
                                     model's error class;
     parse_errors_foreign parse      no error of the oracle carries one of
                                     verifyX509TrustedIdentities' OWN messages (the
                                     function returns the oracle's error unwrapped, so
                                     the reading of a returned error must be able to tell
                                     them apart).
   Both are satisfiable (C04_gen_oracle_hypotheses_satisfiable).
   Errors are compared through abstractions that look at the error's format
   string only (message texts are not modelled): which rule fired.
   ==================================================================== *)

Ltac case_const c x :=
  let E := fresh "E" in
  destruct (String.eqb c x) eqn:E; [apply String.eqb_eq in E; subst x|].

(* ---------- slices.Contains ---------- *)

Theorem C04_gen_Contains_equiv :
  forall l v, gen_slices_Contains_string l v = mem_str v l.
Proof.
  intros l v. unfold gen_slices_Contains_string, mem_str.
  induction l as [|x l IH]; [reflexivity|].
  cbn [gen_slices_Contains_string_loop1 existsb]. destruct (String.eqb v x); [reflexivity|exact IH].
Qed.
Print Assumptions C04_gen_Contains_equiv.

(* ---------- the oracle ---------- *)

Definition parse_agrees (parse : string -> amap * option err) (cls : err -> dnerr) : Prop :=
  forall v, match parse_distinguished_name v with
            | DOk m => parse v = (m, None)
            | DErr e => exists dn x, parse v = (dn, Some x) /\ cls x = e
            end.

(* ---------- verifyX509TrustedIdentities: which rule fired ---------- *)

(* vclass with the reason of an unreadable LEAF subject erased: the code formats the
   parse error of the leaf with %q (not %w), the returned value does not carry it *)
Inductive vkind :=
| KPass | KNoSep | KEmptyValue | KBadIdentity (e : dnerr) | KNoX509 | KBadLeaf | KNoMatch | KPanic | KOther.

Definition kind_of (v : vclass) : vkind :=
  match v with
  | VPass => KPass | VNoSep => KNoSep | VEmptyValue => KEmptyValue
  | VBadIdentity e => KBadIdentity e | VNoX509 => KNoX509 | VBadLeaf _ => KBadLeaf
  | VNoMatch => KNoMatch | VPanic => KPanic
  | VPluginFail | VStoreFail => KOther       (* never results of verify_identities *)
  end.

(* the phrases by which the correspondence harness recognises the messages
   (harness/cmd/vh-c04/api.go, classifyVerifyErr) *)
Definition vtable : list (string * vkind) :=
  [("missing separator", KNoSep);
   ("without an identity value", KEmptyValue);
   ("no x509 trusted identities are configured", KNoX509);
   ("error while parsing the certificate subject from the digital signature", KBadLeaf);
   ("does not match the X.509 trusted identities", KNoMatch)].

Fixpoint vclassify (t : list (string * vkind)) (f : string) : option vkind :=
  match t with
  | [] => None
  | (p, k) :: t' => if str_contains p f then Some k else vclassify t' f
  end.

Definition own_vkind (x : err) : option vkind := vclassify vtable (err_fmt x).

Definition parse_errors_foreign (parse : string -> amap * option err) : Prop :=
  forall v dn x, parse v = (dn, Some x) -> own_vkind x = None.

(* the result of the generated function: None = run-time panic (certs[0] on an empty
   chain), Some None = nil, Some (Some x) = error x; an error that is not one of the
   function's own messages is the oracle's error for an identity value *)
Definition vkind_of (cls : err -> dnerr) (r : option (option err)) : vkind :=
  match r with
  | None => KPanic
  | Some None => KPass
  | Some (Some x) => match own_vkind x with Some k => k | None => KBadIdentity (cls x) end
  end.

(* what verify_identities does once the identities are collected *)
Definition verify_tail (maps : list amap) (chain : list string) : vclass :=
  match maps with
  | [] => VNoX509
  | _ => match chain with
         | [] => VPanic
         | leaf :: _ =>
             match parse_distinguished_name leaf with
             | DErr e => VBadLeaf e
             | DOk m => if existsb (fun i => is_subset_dn i m) maps then VPass else VNoMatch
             end
         end
  end.

Lemma verify_identities_tail ids chain :
  verify_identities ids chain
  = if mem_str wildcard ids then VPass
    else match collect_ids ids with inl e => e | inr maps => verify_tail maps chain end.
Proof.
  unfold verify_identities, verify_tail. destruct (mem_str wildcard ids); [reflexivity|].
  destruct (collect_ids ids) as [e|[|i l]]; reflexivity.
Qed.

Lemma verify_loop2 (K : unit -> option (option err)) m : forall l,
  gen_verifier_verifyX509TrustedIdentities_loop2 K m l
  = if existsb (fun i => is_subset_dn i m) l then Some None else K tt.
Proof.
  induction l as [|i l IH]; [reflexivity|].
  cbn [gen_verifier_verifyX509TrustedIdentities_loop2 existsb]. rewrite C04_gen_IsSubsetDN_equiv.
  destruct (is_subset_dn i m); [reflexivity|exact IH].
Qed.

Section Verify.
Variable X : Type.
Variable subj : X -> string.
Variable parse : string -> amap * option err.
Variable cls : err -> dnerr.
Hypothesis Hp : parse_agrees parse cls.
Hypothesis Hf : parse_errors_foreign parse.

Lemma verify_loop1 certs : forall ids acc,
  vkind_of cls (gen_verifier_verifyX509TrustedIdentities_loop1 parse X subj certs ids acc)
  = kind_of match collect_ids ids with
            | inl e => e
            | inr l => verify_tail (acc ++ l) (map subj certs)
            end.
Proof.
  induction ids as [|id rest IH]; intros acc.
  - cbn [gen_verifier_verifyX509TrustedIdentities_loop1 collect_ids]. rewrite app_nil_r, list_len_zero.
    destruct acc as [|a acc]; [vm_compute; reflexivity|].
    change 0%Z with (Z.of_nat 0). rewrite list_get_nth.
    destruct certs as [|c cs]; [reflexivity|]. cbn [nth_error map verify_tail].
    pose proof (Hp (subj c)) as Hl. destruct (parse_distinguished_name (subj c)) as [m|e].
    + rewrite Hl. cbn [is_none negb]. rewrite verify_loop2.
      destruct (existsb (fun i => is_subset_dn i m) (a :: acc)); [reflexivity|vm_compute; reflexivity].
    + destruct Hl as [dn [x [Hl _]]]. rewrite Hl. cbn [is_none negb]. vm_compute. reflexivity.
  - cbn [gen_verifier_verifyX509TrustedIdentities_loop1 collect_ids]. rewrite str_cut_byte.
    unfold colon, x509_subject.
    destruct (cut_byte ":" id) as [[p v]|]; cbn [negb]; [|vm_compute; reflexivity].
    destruct (String.eqb p "x509.subject"); cbn [negb]; [|apply IH].
    destruct (String.eqb v ""); [vm_compute; reflexivity|].
    pose proof (Hp v) as Hv. destruct (parse_distinguished_name v) as [m|e].
    + rewrite Hv. cbn [is_none negb]. rewrite IH.
      destruct (collect_ids rest) as [e|l]; [reflexivity|]. rewrite <- app_assoc. reflexivity.
    + destruct Hv as [dn [x [Hv Hc]]]. rewrite Hv. cbn [is_none negb vkind_of kind_of].
      rewrite (Hf v dn x Hv), Hc. reflexivity.
Qed.

(* the code's verifyX509TrustedIdentities is the model's verify_identities on the
   Subject.String() values of the chain, for ALL identity lists and chains *)
Lemma verify_equiv name ids certs :
  vkind_of cls (gen_verifier_verifyX509TrustedIdentities parse X subj name ids certs)
  = kind_of (verify_identities ids (map subj certs)).
Proof.
  unfold gen_verifier_verifyX509TrustedIdentities. rewrite verify_identities_tail, C04_gen_Contains_equiv.
  unfold wildcard. destruct (mem_str "*" ids); [reflexivity|].
  rewrite verify_loop1. reflexivity.
Qed.

End Verify.

Theorem C04_gen_verifyX509TrustedIdentities_equiv :
  forall (X : Type) (subj : X -> string) parse cls,
    parse_agrees parse cls -> parse_errors_foreign parse ->
  forall name ids certs,
    vkind_of cls (gen_verifier_verifyX509TrustedIdentities parse X subj name ids certs)
    = kind_of (verify_identities ids (map subj certs)).
Proof. exact verify_equiv. Qed.
Print Assumptions C04_gen_verifyX509TrustedIdentities_equiv.

(* ---------- the property, transported onto the code as translated ---------- *)

Lemma own_vkind_not_pass x : own_vkind x <> Some KPass.
Proof.
  unfold own_vkind, vtable. cbn [vclassify].
  repeat match goal with |- context [if ?c then _ else _] => destruct c end; discriminate.
Qed.

Lemma vkind_pass cls r : vkind_of cls r = KPass <-> r = Some None.
Proof.
  split; [|intros ->; reflexivity].
  destruct r as [[x|]|]; cbn [vkind_of]; [|reflexivity|discriminate].
  pose proof (own_vkind_not_pass x) as H. destruct (own_vkind x) as [k|]; [|discriminate].
  intros ->. exfalso. apply H. reflexivity.
Qed.

Lemma kind_pass v : kind_of v = KPass <-> v = VPass.
Proof. destruct v; cbn; split; congruence. Qed.

(* C04_match on the code: without a wildcard, verifyX509TrustedIdentities returns nil
   exactly when the LEAF subject can be interpreted, every listed identity can be
   interpreted, and every attribute of some x509.subject identity occurs with an
   equal value in the leaf subject *)
Theorem C04_gen_verify_pass_iff :
  forall (X : Type) (subj : X -> string) parse cls,
    parse_agrees parse cls -> parse_errors_foreign parse ->
  forall name ids leaf rest, mem_str wildcard ids = false ->
    (gen_verifier_verifyX509TrustedIdentities parse X subj name ids (leaf :: rest) = Some None <->
     exists m, parse_distinguished_name (subj leaf) = DOk m /\
               (forall id, In id ids -> interpretable id) /\
               exists id v i, In id ids /\ x509_value id = Some v /\
                              parse_distinguished_name v = DOk i /\ within i m).
Proof.
  intros X subj parse cls Hp Hf name ids leaf rest Hw.
  rewrite <- (match_iff ids (subj leaf) (map subj rest) Hw), <- kind_pass.
  change (subj leaf :: map subj rest) with (map subj (leaf :: rest)).
  rewrite <- (verify_equiv X subj parse cls Hp Hf name). symmetry. apply vkind_pass.
Qed.
Print Assumptions C04_gen_verify_pass_iff.

(* the wildcard accepts every chain, whatever the oracle answers *)
Theorem C04_gen_verify_wildcard :
  forall (X : Type) (subj : X -> string) parse name ids certs,
    mem_str wildcard ids = true ->
    gen_verifier_verifyX509TrustedIdentities parse X subj name ids certs = Some None.
Proof.
  intros X subj parse name ids certs H. unfold gen_verifier_verifyX509TrustedIdentities.
  rewrite C04_gen_Contains_equiv. unfold wildcard in H. rewrite H. reflexivity.
Qed.
Print Assumptions C04_gen_verify_wildcard.

(* never on the strength of an intermediate's or root's subject: the code's result is a
   function of certs[0] only - for every oracle, agreeing with the model or not *)
Theorem C04_gen_verify_leaf_only :
  forall (X : Type) (subj : X -> string) parse name ids leaf rest1 rest2,
    gen_verifier_verifyX509TrustedIdentities parse X subj name ids (leaf :: rest1)
    = gen_verifier_verifyX509TrustedIdentities parse X subj name ids (leaf :: rest2).
Proof.
  intros X subj parse name ids leaf r1 r2. unfold gen_verifier_verifyX509TrustedIdentities.
  destruct (gen_slices_Contains_string ids "*"); [reflexivity|].
  generalize (@nil (list (string * string))).
  induction ids as [|id rest IH]; intros acc.
  - cbn [gen_verifier_verifyX509TrustedIdentities_loop1]. change 0%Z with (Z.of_nat 0).
    rewrite !list_get_nth. reflexivity.
  - cbn [gen_verifier_verifyX509TrustedIdentities_loop1].
    destruct (str_cut ":" id) as [[p v] f]. destruct f; cbn [negb]; [|reflexivity].
    destruct (String.eqb p "x509.subject"); cbn [negb]; [|apply IH].
    destruct (String.eqb v ""); [reflexivity|].
    destruct (parse v) as [ps [e|]]; cbn [is_none negb]; [reflexivity|apply IH].
Qed.
Print Assumptions C04_gen_verify_leaf_only.

(* certs[0] is the only partial operation: on a non-empty chain the code does not panic *)
Theorem C04_gen_verify_total :
  forall (X : Type) (subj : X -> string) parse name ids leaf rest,
    gen_verifier_verifyX509TrustedIdentities parse X subj name ids (leaf :: rest) <> None.
Proof.
  intros X subj parse name ids leaf r. unfold gen_verifier_verifyX509TrustedIdentities.
  destruct (gen_slices_Contains_string ids "*"); [discriminate|].
  generalize (@nil (list (string * string))).
  induction ids as [|id rest IH]; intros acc.
  - cbn [gen_verifier_verifyX509TrustedIdentities_loop1]. rewrite list_len_zero.
    destruct acc as [|a acc]; [discriminate|].
    change 0%Z with (Z.of_nat 0). rewrite list_get_nth. cbn [nth_error].
    destruct (parse (subj leaf)) as [m [e|]]; cbn [is_none negb]; [discriminate|].
    rewrite verify_loop2. match goal with |- (if ?c then _ else _) <> _ => destruct c end; discriminate.
  - cbn [gen_verifier_verifyX509TrustedIdentities_loop1].
    destruct (str_cut ":" id) as [[p v] f]. destruct f; cbn [negb]; [|discriminate].
    destruct (String.eqb p "x509.subject"); cbn [negb]; [|apply IH].
    destruct (String.eqb v ""); [discriminate|].
    destruct (parse v) as [ps [e|]]; cbn [is_none negb]; [discriminate|apply IH].
Qed.
Print Assumptions C04_gen_verify_total.

(* ---------- isCriticalFailure: when a failed check rejects the signature ---------- *)

Theorem C04_gen_isCriticalFailure_spec :
  forall r, gen_verifier_isCriticalFailure r = true <->
            ValidationResult_Action r = "enforce" /\ ValidationResult_Error r <> None.
Proof.
  intros [ty a e]. unfold gen_verifier_isCriticalFailure. cbn [ValidationResult_Action ValidationResult_Error].
  rewrite andb_true_iff, String.eqb_eq. destruct e; cbn [is_none negb]; intuition congruence.
Qed.
Print Assumptions C04_gen_isCriticalFailure_spec.

(* the action of the authenticity check at level strict / audit (Generated.gen_levels) *)
Definition action_of (log : bool) : string := if log then "log" else "enforce".

(* the observation of the model (class of the authenticity error, and whether Verify
   rejects) is what the code computes: processSignature stores the error returned by
   verifyX509TrustedIdentities in the authenticity result (whose error was nil: the
   chain is trusted) and returns it iff isCriticalFailure *)
Theorem C04_gen_verify_obs :
  forall (X : Type) (subj : X -> string) parse cls,
    parse_agrees parse cls -> parse_errors_foreign parse ->
  forall name log ids certs r ty,
    gen_verifier_verifyX509TrustedIdentities parse X subj name ids certs = Some r ->
    exists v, verify_obs log ids (map subj certs)
              = OVerify v (gen_verifier_isCriticalFailure (mk_ValidationResult ty (action_of log) r))
              /\ kind_of v = vkind_of cls (Some r).
Proof.
  intros X subj parse cls Hp Hf name log ids certs r ty Hr.
  exists (verify_identities ids (map subj certs)). unfold verify_obs.
  pose proof (verify_equiv X subj parse cls Hp Hf name ids certs) as E. rewrite Hr in E.
  split; [|symmetry; exact E]. f_equal.
  unfold gen_verifier_isCriticalFailure. cbn [ValidationResult_Action ValidationResult_Error].
  assert (P : is_pass (verify_identities ids (map subj certs)) = is_none r).
  { destruct r as [x|].
    - destruct (verify_identities ids (map subj certs)) eqn:V; try reflexivity.
      exfalso. apply (proj1 (vkind_pass cls _)) in E. discriminate.
    - symmetry in E. apply kind_pass in E. rewrite E. reflexivity. }
  rewrite P. destruct log, r; reflexivity.
Qed.
Print Assumptions C04_gen_verify_obs.

(* ---------- validateOverlappingDNs ---------- *)

Definition overlap_err : err :=
  Err "fmt" "trust policy statement %q has overlapping x509 trustedIdentities, %q overlaps with %q" [].

Lemma overlap_inner (K : unit -> option err) i dn1 l : forall j0,
  gen_trustpolicy_validateOverlappingDNs_loop2 K (Z.of_nat i) dn1 l (Z.of_nat j0)
  = if existsb (fun jb => negb (Nat.eqb i (fst jb)) && is_subset_dn (parsedDN_ParsedMap dn1) (snd jb))
         (combine (seq j0 (List.length (map parsedDN_ParsedMap l))) (map parsedDN_ParsedMap l))
    then Some overlap_err else K tt.
Proof.
  induction l as [|d l IH]; intros j0; [reflexivity|].
  cbn [List.length seq map combine existsb fst snd gen_trustpolicy_validateOverlappingDNs_loop2].
  rewrite C04_gen_IsSubsetDN_equiv.
  replace (Z.eqb (Z.of_nat i) (Z.of_nat j0)) with (Nat.eqb i j0).
  2:{ destruct (Nat.eqb_spec i j0) as [->|N]; [symmetry; apply Z.eqb_refl|].
      symmetry. apply Z.eqb_neq. lia. }
  destruct (negb (Nat.eqb i j0) && is_subset_dn (parsedDN_ParsedMap dn1) (parsedDN_ParsedMap d)); [reflexivity|].
  cbn [orb]. replace (Z.of_nat j0 + 1)%Z with (Z.of_nat (S j0)) by lia. apply IH.
Qed.

Lemma existsb_indexed_above {A} (f : A -> bool) i : forall r j1, (i < j1)%nat ->
  existsb (fun jb => negb (Nat.eqb i (fst jb)) && f (snd jb)) (combine (seq j1 (List.length r)) r) = existsb f r.
Proof.
  induction r as [|a r IH]; intros j1 H; [reflexivity|].
  cbn [List.length seq combine existsb fst snd].
  replace (Nat.eqb i j1) with false by (symmetry; apply Nat.eqb_neq; lia).
  cbn [negb andb]. rewrite IH by lia. reflexivity.
Qed.

Lemma existsb_indexed_skip {A} (f : A -> bool) x r : forall pre j0,
  existsb (fun jb => negb (Nat.eqb (j0 + List.length pre) (fst jb)) && f (snd jb))
          (combine (seq j0 (List.length (pre ++ x :: r))) (pre ++ x :: r))
  = existsb f pre || existsb f r.
Proof.
  induction pre as [|a pre IH]; intros j0.
  - cbn [List.length app seq combine existsb fst snd]. rewrite Nat.add_0_r, Nat.eqb_refl.
    cbn [negb andb orb]. apply existsb_indexed_above. lia.
  - cbn [List.length app seq combine existsb fst snd].
    replace (Nat.eqb (j0 + S (List.length pre)) j0) with false by (symmetry; apply Nat.eqb_neq; lia).
    cbn [negb andb]. replace (j0 + S (List.length pre))%nat with (S j0 + List.length pre)%nat by lia.
    rewrite IH, orb_assoc. reflexivity.
Qed.

Lemma existsb_indexed_skip' {A} (f : A -> bool) x r pre j0 i : i = (j0 + List.length pre)%nat ->
  existsb (fun jb => negb (Nat.eqb i (fst jb)) && f (snd jb))
          (combine (seq j0 (List.length (pre ++ x :: r))) (pre ++ x :: r))
  = existsb f pre || existsb f r.
Proof. intros ->. apply existsb_indexed_skip. Qed.

Lemma overlap_outer : forall l pre,
  gen_trustpolicy_validateOverlappingDNs_loop1 (pre ++ l) l (Z.of_nat (List.length pre))
  = if overlapping (map parsedDN_ParsedMap pre) (map parsedDN_ParsedMap l) then Some overlap_err else None.
Proof.
  induction l as [|x r IH]; intros pre; [reflexivity|].
  cbn [gen_trustpolicy_validateOverlappingDNs_loop1 map overlapping].
  change 0%Z with (Z.of_nat 0). rewrite overlap_inner, map_app. cbn [map].
  rewrite existsb_app.
  match goal with |- (if ?c then _ else _) = (if ?a || ?b || _ then _ else _) =>
    replace c with (a || b)
      by (symmetry; apply existsb_indexed_skip'; rewrite map_length; reflexivity);
    destruct (a || b); [reflexivity|]
  end.
  cbn [orb]. specialize (IH (pre ++ [x])). rewrite <- app_assoc in IH. cbn [app] in IH.
  rewrite app_length, map_app in IH. cbn [List.length map] in IH.
  replace (Z.of_nat (List.length pre) + 1)%Z with (Z.of_nat (List.length pre + 1)) by lia. exact IH.
Qed.

(* some identity's attributes are all attributes of another identity of the list *)
Theorem C04_gen_validateOverlappingDNs_equiv :
  forall name pds,
    gen_trustpolicy_validateOverlappingDNs name pds
    = if overlapping [] (map parsedDN_ParsedMap pds) then Some overlap_err else None.
Proof.
  intros name pds. unfold gen_trustpolicy_validateOverlappingDNs. exact (overlap_outer pds []).
Qed.
Print Assumptions C04_gen_validateOverlappingDNs_equiv.

(* ---------- validateTrustedIdentities (what NewVerifier enforces) ---------- *)

Inductive wtag := TClass (w : wclass) | TBadDN.

Definition wtable : list (string * wtag) :=
  [("uses a wildcard trusted identity", TClass WWildcardMixed);
   ("has an empty trusted identity", TClass WEmpty);
   ("missing separator", TClass WNoSep);
   ("without an identity value", TClass WEmptyValue);
   ("with invalid identity value", TBadDN);
   ("has overlapping x509 trustedIdentities", TClass WOverlap)].

Fixpoint wclassify (t : list (string * wtag)) (f : string) : option wtag :=
  match t with
  | [] => None
  | (p, k) :: t' => if str_contains p f then Some k else wclassify t' f
  end.

(* None = an error this function does not produce; the class of an invalid DN is the
   oracle's error, which the code wraps with %w *)
Definition wclass_of (cls : err -> dnerr) (r : option err) : option wclass :=
  match r with
  | None => Some WOk
  | Some (Err _ f w) =>
      match wclassify wtable f, w with
      | Some (TClass c), _ => Some c
      | Some TBadDN, [x] => Some (WBadDN (cls x))
      | _, _ => None
      end
  end.

Lemma validate_loop1 parse cls (Hp : parse_agrees parse cls) name : forall ids acc,
  wclass_of cls (gen_trustpolicy_validateTrustedIdentities_loop1 parse name ids acc)
  = Some match validate_loop ids with
         | inl w => w
         | inr dns => if overlapping [] (map parsedDN_ParsedMap acc ++ dns) then WOverlap else WOk
         end.
Proof.
  induction ids as [|id rest IH]; intros acc.
  - cbn [gen_trustpolicy_validateTrustedIdentities_loop1 validate_loop].
    rewrite C04_gen_validateOverlappingDNs_equiv, app_nil_r.
    destruct (overlapping [] (map parsedDN_ParsedMap acc)); [vm_compute; reflexivity|reflexivity].
  - cbn [gen_trustpolicy_validateTrustedIdentities_loop1 validate_loop].
    destruct (String.eqb id ""); [vm_compute; reflexivity|].
    unfold wildcard, x509_subject, colon. destruct (String.eqb id "*"); cbn [negb]; [apply IH|].
    rewrite str_cut_byte. destruct (cut_byte ":" id) as [[p v]|]; [|vm_compute; reflexivity].
    cbn [negb]. destruct (String.eqb p "x509.subject"); cbn [negb]; [|apply IH].
    destruct (String.eqb v ""); [vm_compute; reflexivity|].
    pose proof (Hp v) as Hv. destruct (parse_distinguished_name v) as [m|e].
    + rewrite Hv. cbn [is_none negb]. rewrite IH, map_app. cbn [map parsedDN_ParsedMap].
      destruct (validate_loop rest) as [w|dns]; [reflexivity|].
      rewrite <- app_assoc. reflexivity.
    + destruct Hv as [dn [x [Hv Hc]]]. rewrite Hv. cbn [is_none negb olist]. rewrite <- Hc.
      reflexivity.
Qed.

(* the code's validateTrustedIdentities is the model's validate_ids (whose first test,
   the emptiness of the list, is made by the caller validatePolicyCore: C09_Generated) *)
Theorem C04_gen_validateTrustedIdentities_equiv :
  forall parse cls, parse_agrees parse cls ->
  forall name ids,
    wclass_of cls (gen_trustpolicy_validateTrustedIdentities parse name ids)
    = Some (if is_nil ids then WOk else validate_ids ids).
Proof.
  intros parse cls Hp name ids. unfold gen_trustpolicy_validateTrustedIdentities, validate_ids.
  rewrite list_len_gt1, C04_gen_Contains_equiv. unfold wildcard.
  destruct ids as [|i0 rest]; [reflexivity|]. cbn [is_nil].
  destruct (Nat.ltb 1 (List.length (i0 :: rest)) && mem_str "*" (i0 :: rest)); [vm_compute; reflexivity|].
  rewrite (validate_loop1 parse cls Hp). cbn [map app]. reflexivity.
Qed.
Print Assumptions C04_gen_validateTrustedIdentities_equiv.

Lemma wclass_ok cls r : wclass_of cls r = Some WOk -> r = None.
Proof.
  destruct r as [[t f w]|]; [|reflexivity]. unfold wclass_of, wtable. cbn [wclassify].
  repeat match goal with |- context [if ?c then _ else _] => destruct c end;
    try discriminate; destruct w as [|x [|y w]]; discriminate.
Qed.

(* a non-empty identity list that the code's validateTrustedIdentities accepts: the
   wildcard only alone, every other identity interpretable ("the LONE wildcard",
   unreadable identities are refused when the verifier is constructed) *)
Theorem C04_gen_validated :
  forall parse cls, parse_agrees parse cls ->
  forall name ids, ids <> [] ->
    (gen_trustpolicy_validateTrustedIdentities parse name ids = None <-> validate_ids ids = WOk).
Proof.
  intros parse cls Hp name ids Hne.
  pose proof (C04_gen_validateTrustedIdentities_equiv parse cls Hp name ids) as E.
  destruct ids as [|i0 rest]; [congruence|]. cbn [is_nil] in E. split.
  - intros H. rewrite H in E. cbn [wclass_of] in E. injection E as E'. symmetry. exact E'.
  - intros H. rewrite H in E. exact (wclass_ok cls _ E).
Qed.
Print Assumptions C04_gen_validated.

Corollary C04_gen_validated_lone_wildcard_interpretable :
  forall parse cls, parse_agrees parse cls ->
  forall name ids, ids <> [] ->
    gen_trustpolicy_validateTrustedIdentities parse name ids = None ->
    (mem_str wildcard ids = true -> ids = [wildcard]) /\
    (forall id, In id ids -> id = wildcard \/ (id <> "" /\ interpretable id)).
Proof.
  intros parse cls Hp name ids Hne H. apply (C04_gen_validated parse cls Hp name ids Hne) in H.
  split; [apply validated_wildcard_lone; exact H|apply validated_interpretable; exact H].
Qed.
Print Assumptions C04_gen_validated_lone_wildcard_interpretable.

(* ---------- the hypotheses about the oracle can be met ---------- *)

Definition enc_dnerr (e : dnerr) : err :=
  match e with
  | EHash => Err "" "H" [] | ESyntax => Err "" "S" [] | EMulti => Err "" "M" []
  | EDup k => Err k "D" [] | EMissing k => Err k "X" []
  end.

Definition dec_dnerr (x : err) : dnerr :=
  let f := err_fmt x in
  if String.eqb f "H" then EHash else if String.eqb f "M" then EMulti
  else if String.eqb f "D" then EDup (err_typ x) else if String.eqb f "X" then EMissing (err_typ x)
  else ESyntax.

Definition model_oracle (v : string) : amap * option err :=
  match parse_distinguished_name v with
  | DOk m => (m, None)
  | DErr e => ([], Some (enc_dnerr e))
  end.

Theorem C04_gen_oracle_hypotheses_satisfiable :
  parse_agrees model_oracle dec_dnerr /\ parse_errors_foreign model_oracle.
Proof.
  split.
  - intros v. unfold model_oracle. destruct (parse_distinguished_name v) as [m|e]; [reflexivity|].
    exists [], (enc_dnerr e). split; [reflexivity|]. destruct e; reflexivity.
  - intros v dn x. unfold model_oracle. destruct (parse_distinguished_name v) as [m|e]; [discriminate|].
    intros H. inversion H. destruct e; reflexivity.
Qed.
Print Assumptions C04_gen_oracle_hypotheses_satisfiable.
