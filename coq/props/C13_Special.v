(* C13 over a LARGER alphabet of directory trees than the property quantifies over.
   Statements only; every proof is [exact <lemma of C13_Special>].
   The property's quantifier assembles directory contents from regular files,
   sub-directories and symbolic links. A directory can also hold FIFOs, sockets
   and device nodes. [xnode] adds them ([XOther c], c = what ReadCertificateFile
   answers when it opens and reads the entry); [xget_certificates] is
   GetCertificates over such trees: the only test on the kind of an entry is
       file.IsDir() || file.Type()&fs.ModeSymlink != 0     (truststore.go:98).
   What is shown: (1) the code cannot tell such an entry from a regular file;
   (2) the exact condition of success over the larger alphabet; (3) within the
   property's alphabet the wording "every entry is a regular file" holds;
   (4) outside it that wording is FALSE of the code (a FIFO into which a
   certificate is written is loaded - replayed on the real code by the harness
   family special-entry). (4) is not a violation of the property as quantified
   (its alphabet has no such files); it is recorded because the statement read
   alone says "regular file".                                                *)
From NV Require Import Base Regex Generated C13_Model C13_Proofs C13_Special.
Open Scope string_scope.
Open Scope list_scope.

(* (1) GetCertificates on a tree with other files = GetCertificates on the tree in
   which each of them is replaced by a regular file with the content a read
   delivers; hence every theorem of C13_Property transfers through [erase] *)
Theorem C13_special_read_as_regular : forall root ty name,
  xget_certificates root ty name = get_certificates is_valid_file_name (erase root) ty name.
Proof. exact xget_erase. Qed.
Print Assumptions C13_special_read_as_regular.

(* (2) success iff known type, plain name, the store path a real directory, every
   entry a regular OR other file delivering >= 1 acceptable certificates; the
   result is exactly what these entries deliver, in entry order, not empty *)
Theorem C13_special_iff : forall root ty name l,
  xget_certificates root ty name = Loaded l <->
  known_type ty /\ plain_name name /\
  exists es, xlstat root (store_path ty name) = XLNode (XDir es) /\
             Forall (xentry_read_good (is_tsa ty)) es /\
             l = flat_map xcerts_of_entry es /\ l <> [].
Proof. exact xget_iff. Qed.
Print Assumptions C13_special_iff.

(* (3) when no entry of the named store is an other file (the property's
   alphabet), success implies that every entry is a REGULAR file holding >= 1
   acceptable certificates - whatever the rest of the tree holds *)
Theorem C13_regular_within_alphabet : forall root ty name l es,
  xget_certificates root ty name = Loaded l ->
  xlstat root (store_path ty name) = XLNode (XDir es) ->
  (forall e, In e es -> ~ is_other (snd e)) ->
  Forall (xentry_good (is_tsa ty)) es.
Proof. exact xget_regular. Qed.
Print Assumptions C13_regular_within_alphabet.

(* (4) without that hypothesis the clause is refuted: a store loads although an
   entry of it is not a regular file *)
Theorem C13_regular_only_refuted_outside_alphabet :
  exists root ty name l es,
    xget_certificates root ty name = Loaded l /\ l <> [] /\
    xlstat root (store_path ty name) = XLNode (XDir es) /\
    ~ Forall (fun e => exists c, snd e = XFile c) es.
Proof. exact regular_only_refuted. Qed.
Print Assumptions C13_regular_only_refuted_outside_alphabet.

(* the harness evaluates base cases and cases over the larger alphabet in one
   list with [grun]; on base cases it is [run] of C13_Model *)
Theorem C13_grun_is_run_on_base_cases : forall cs, grun (map GB cs) = run cs.
Proof. exact grun_base. Qed.
Print Assumptions C13_grun_is_run_on_base_cases.

(* the oracle applied to a case over the larger alphabet ([xspec_ok]: returned
   certificates must be exactly the store's, read with "regular file" widened to
   "neither directory nor link"; an error is accepted whenever the store is not
   loadable in the literal reading) is met by the model *)
Theorem C13_special_model_meets_oracle : forall i,
  spec_ok (erase_input i) (xmodel i) = true /\ xspec_ok i (xmodel i) = true.
Proof. exact xmodel_meets_oracles. Qed.
Print Assumptions C13_special_model_meets_oracle.

(* ---------- non-vacuity ---------- *)
(* hypotheses of (3): a store of regular files beside a FIFO elsewhere in the tree *)
Example C13_special_example_within :
  let t := XDir [("truststore", XDir [("x509", XDir [("ca", XDir [
             ("s", XDir [("a.pem", XFile (CCerts [xex_cert]))]);
             ("p", XDir [("pipe", XOther (CCerts [xex_cert])); ("z.pem", XFile (CCerts [xex_cert]))]);
             ("q", XDir [("a.pem", XFile (CCerts [xex_cert])); ("sock", XOther CErr)])])])])] in
  xget_certificates t "ca" "s" = Loaded [xex_cert] /\
  xlstat t (store_path "ca" "s") = XLNode (XDir [("a.pem", XFile (CCerts [xex_cert]))]) /\
  (forall e, In e [("a.pem", XFile (CCerts [xex_cert]))] -> ~ is_other (snd e)) /\
  (* the FIFO's certificate is returned with the regular file's; a socket (open fails) fails the store *)
  xget_certificates t "ca" "p" = Loaded [xex_cert; xex_cert] /\
  xget_certificates t "ca" "q" = Failed ECertificate KRead "sock".
Proof.
  cbn zeta. split; [reflexivity|]. split; [reflexivity|]. split; [|split; reflexivity].
  intros e [<-|[]] (c & E). discriminate.
Qed.
