(* C13 over a LARGER alphabet of directory trees than the property's quantifier lists.
   Statements only; every proof is [exact <lemma of C13_Special>].
   The quantifier assembles directory contents from regular files, sub-directories
   and symbolic links. A directory can also hold FIFOs, sockets and device nodes:
   [xnode] adds them ([XOther c], c = what ReadCertificateFile would answer if it
   opened and read the entry). Two variants of GetCertificates over such trees:
     [xget_certificates]     the code now (after fix 351e8a6): an entry is refused
                             unless file.Type().IsRegular()
     [xget_certificates_v0]  the code before: refused only if
                             file.IsDir() || file.Type()&fs.ModeSymlink != 0.
   Part A states the property for the present code over the larger alphabet at
   full strength: in particular clause "every entry is a regular file" with no
   restriction on what else a directory may hold. Part B keeps what the audit
   found about the old code ([_v0]): it read other files like regular ones, the
   clause was false of it (witness kept, replayed on the real code at the time:
   a FIFO into which a certificate is written was loaded), and shows the present
   code refuses the witness.                                                  *)
From NV Require Import Base Regex Generated C13_Model C13_Proofs C13_Special.
Open Scope string_scope.
Open Scope list_scope.

(* ================= Part A: the code as it is now ================= *)

(* [xloadable root ty name l]: known type /\ plain name /\ the store path is a real
   directory /\ every entry is a REGULAR file ([XFile]) holding >= 1 acceptable
   certificates /\ l = their concatenation in entry order /\ l <> [].
   Success with l iff loadable - for every tree of the larger alphabet *)
Theorem C13_x_iff : forall root ty name l,
  xget_certificates root ty name = Loaded l <-> xloadable root ty name l.
Proof. exact xget_iff. Qed.
Print Assumptions C13_x_iff.

(* clause "whose every entry is a regular file", directly: on success no entry of
   the store directory is a directory, a link, a FIFO, a socket or a device *)
Theorem C13_x_every_entry_regular : forall root ty name l es,
  xget_certificates root ty name = Loaded l ->
  xlstat root (store_path ty name) = XLNode (XDir es) ->
  forall nm n, In (nm, n) es -> exists cs, n = XFile (CCerts cs) /\ cs <> [].
Proof. exact xevery_entry_regular. Qed.
Print Assumptions C13_x_every_entry_regular.

(* all or nothing over the larger alphabet *)
Theorem C13_x_all_or_nothing : forall root ty name,
  (exists l, xget_certificates root ty name = Loaded l /\ xloadable root ty name l) \/
  (exists c k e, xget_certificates root ty name = Failed c k e /\ forall l, ~ xloadable root ty name l).
Proof. exact xall_or_nothing. Qed.
Print Assumptions C13_x_all_or_nothing.

(* one offending entry of ANY kind anywhere among good ones fails the store with a
   CertificateError naming the first offender; an other file is refused for its
   kind ([xentry_fault] = KEntryKind) like a sub-directory or a link *)
Theorem C13_x_first_offender : forall root ty name good nm n rest,
  known_type ty -> plain_name name ->
  xlstat root (store_path ty name) = XLNode (XDir (good ++ (nm, n) :: rest)) ->
  Forall (xentry_good (is_tsa ty)) good -> ~ xentry_good (is_tsa ty) (nm, n) ->
  xget_certificates root ty name = Failed ECertificate (xentry_fault (is_tsa ty) n) nm.
Proof. exact xfirst_offender. Qed.
Print Assumptions C13_x_first_offender.

(* a store holding an other file never loads, whatever a read of that file would
   deliver and wherever it stands among the entries *)
Theorem C13_x_other_entry_fails : forall root ty name,
  store_has_other root ty name = true -> forall l, xget_certificates root ty name <> Loaded l.
Proof. exact xother_fails. Qed.
Print Assumptions C13_x_other_entry_fails.

(* an other file is never opened: two stores that differ only in what their other
   files would deliver (and in what is below sub-directories / behind links of
   sub-entries) give the same result. [strict_entries] keeps of an other file
   only that it is not regular *)
Theorem C13_x_other_content_irrelevant : forall r1 r2 ty name es1 es2,
  xlstat r1 (store_path ty name) = XLNode (XDir es1) ->
  xlstat r2 (store_path ty name) = XLNode (XDir es2) ->
  strict_entries es1 = strict_entries es2 ->
  xget_certificates r1 ty name = xget_certificates r2 ty name.
Proof. exact xframe_entries. Qed.
Print Assumptions C13_x_other_content_irrelevant.

(* conservativity: where the named store holds no other file - in particular on
   every tree of the property's alphabet - the present code is the base model
   of C13_Property (on the erased tree) and coincides with the old code; every
   theorem of C13_Property transfers *)
Theorem C13_x_conservative : forall root ty name,
  store_has_other root ty name = false ->
  xget_certificates root ty name = get_certificates is_valid_file_name (erase root) ty name /\
  xget_certificates root ty name = xget_certificates_v0 root ty name.
Proof. exact xget_conservative. Qed.
Print Assumptions C13_x_conservative.

(* the harness's oracle for cases over the larger alphabet is the declarative
   predicate, and the model meets it *)
Theorem C13_x_oracle_is_spec : forall i l,
  xexpected i = Some l <-> xloadable (xi_root i) (xi_ty i) (xi_name i) l.
Proof. exact xexpected_spec. Qed.
Print Assumptions C13_x_oracle_is_spec.

Theorem C13_x_model_meets_oracle : forall i, xspec_ok i (xmodel i) = true.
Proof. exact xmodel_xspec_ok. Qed.
Print Assumptions C13_x_model_meets_oracle.

(* the harness evaluates base cases and cases over the larger alphabet in one
   list with [grun]; on base cases it is [run] of C13_Model *)
Theorem C13_grun_is_run_on_base_cases : forall cs, grun (map GB cs) = run cs.
Proof. exact grun_base. Qed.
Print Assumptions C13_grun_is_run_on_base_cases.

(* ================= Part B: the code before fix 351e8a6 ================= *)

(* the old code on a tree with other files = the base model on the tree in which
   each of them is replaced by a regular file with the content a read delivers *)
Theorem C13_special_read_as_regular_v0 : forall root ty name,
  xget_certificates_v0 root ty name = get_certificates is_valid_file_name (erase root) ty name.
Proof. exact xget_erase_v0. Qed.
Print Assumptions C13_special_read_as_regular_v0.

(* its exact condition of success: every entry a regular OR other file delivering
   >= 1 acceptable certificates *)
Theorem C13_special_iff_v0 : forall root ty name l,
  xget_certificates_v0 root ty name = Loaded l <->
  known_type ty /\ plain_name name /\
  exists es, xlstat root (store_path ty name) = XLNode (XDir es) /\
             Forall (xentry_read_good (is_tsa ty)) es /\
             l = flat_map xcerts_read_of_entry es /\ l <> [].
Proof. exact xget_iff_v0. Qed.
Print Assumptions C13_special_iff_v0.

(* it met the wording only under the hypothesis that the store held no other file *)
Theorem C13_regular_within_alphabet_v0 : forall root ty name l es,
  xget_certificates_v0 root ty name = Loaded l ->
  xlstat root (store_path ty name) = XLNode (XDir es) ->
  (forall e, In e es -> ~ is_other (snd e)) ->
  Forall (xentry_good (is_tsa ty)) es.
Proof. exact xget_regular_v0. Qed.
Print Assumptions C13_regular_within_alphabet_v0.

(* without it the clause was refuted: a store loaded although an entry of it was
   not a regular file; the present code fails on the same store, naming the entry *)
Theorem C13_regular_only_v0_refuted :
  exists root ty name l es,
    xget_certificates_v0 root ty name = Loaded l /\ l <> [] /\
    xlstat root (store_path ty name) = XLNode (XDir es) /\
    ~ Forall (fun e => exists c, snd e = XFile c) es /\
    xget_certificates root ty name = Failed ECertificate KEntryKind "pipe".
Proof. exact regular_only_v0_refuted. Qed.
Print Assumptions C13_regular_only_v0_refuted.

(* ---------- non-vacuity ---------- *)
Example C13_x_example :
  let t := XDir [("truststore", XDir [("x509", XDir [("ca", XDir [
             ("s", XDir [("a.pem", XFile (CCerts [xex_cert]))]);
             ("p", XDir [("a.pem", XFile (CCerts [xex_cert])); ("pipe", XOther (CCerts [xex_cert])); ("z.pem", XFile CErr)]);
             ("q", XDir [("a.pem", XFile (CCerts [xex_cert])); ("sock", XOther CErr)])])])])] in
  let t' := XDir [("truststore", XDir [("x509", XDir [("ca", XDir [
             ("p", XDir [("a.pem", XFile (CCerts [xex_cert])); ("pipe", XOther CErr); ("z.pem", XFile CErr)])])])])] in
  (* a loadable store beside stores with a FIFO / a socket *)
  xloadable t "ca" "s" [xex_cert] /\ xget_certificates t "ca" "s" = Loaded [xex_cert] /\
  store_has_other t "ca" "s" = false /\ store_has_other t "ca" "p" = true /\
  (* hypotheses of C13_x_first_offender: the FIFO after a good file, before an unparsable one *)
  known_type "ca" /\ plain_name "p" /\
  xlstat t (store_path "ca" "p") =
    XLNode (XDir ([("a.pem", XFile (CCerts [xex_cert]))] ++ ("pipe", XOther (CCerts [xex_cert])) :: [("z.pem", XFile CErr)])) /\
  Forall (xentry_good (is_tsa "ca")) [("a.pem", XFile (CCerts [xex_cert]))] /\
  ~ xentry_good (is_tsa "ca") ("pipe", XOther (CCerts [xex_cert])) /\
  xget_certificates t "ca" "p" = Failed ECertificate KEntryKind "pipe" /\
  xget_certificates t "ca" "q" = Failed ECertificate KEntryKind "sock" /\
  (* hypotheses of C13_x_other_content_irrelevant: same store, the FIFO would deliver something else *)
  (exists es1 es2, xlstat t (store_path "ca" "p") = XLNode (XDir es1) /\
                   xlstat t' (store_path "ca" "p") = XLNode (XDir es2) /\
                   es1 <> es2 /\ strict_entries es1 = strict_entries es2) /\
  (* the old code read the FIFO: it got past it and failed on z.pem only; on q it reported a read error *)
  xget_certificates_v0 t "ca" "p" = Failed ECertificate KRead "z.pem" /\
  xget_certificates_v0 t "ca" "q" = Failed ECertificate KRead "sock".
Proof.
  cbn zeta. split.
  { apply C13_x_iff. reflexivity. }
  split; [reflexivity|]. split; [reflexivity|]. split; [reflexivity|].
  split; [cbn; auto|]. split; [apply is_valid_file_name_spec; reflexivity|]. split; [reflexivity|].
  split.
  { constructor; [|constructor]. exists [xex_cert]. split; [reflexivity|]. split; [discriminate|].
    constructor; [|constructor]. split; [left; reflexivity | discriminate]. }
  split; [intros (cs & E & _); discriminate|].
  split; [reflexivity|]. split; [reflexivity|]. split.
  { eexists. eexists. split; [reflexivity|]. split; [reflexivity|]. split; [discriminate | reflexivity]. }
  split; reflexivity.
Qed.
