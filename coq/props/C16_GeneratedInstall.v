(* C16_GeneratedInstall.v — CLIManager.Install as translated by GoLite
   (theories/C16_Install_Gen.v, table "C16_Install" of harness/cmd/vh-gen/targets_c16.go:
   a table of its own because Install calls GetMetadata THROUGH the interface
   plugin.Plugin, which needs that interface as an opaque nilable value, while
   CLIManager.Get needs the row Concrete). Everything Install calls is an oracle;
   the three oracles with an effect on the plugin root are Uninstall, file.CopyToDir
   and file.CopyDirToDir.

   Footprint theorem: the result of Install depends on these three only through
     Uninstall(<name>), CopyToDir(_, SysPath(<name>)), CopyDirToDir(_, SysPath(<name>))
   for <name> one of the two names the source can stand for (what parsePluginFromDir
   returned / what parsePluginName made of the base name of the source). A body that
   consulted an effect oracle on any other name or directory (e.g. a fixed sibling
   <root>/<name>.old) does not satisfy it; a body that calls an effect function that
   is not in the table (os.Rename, os.RemoveAll) is refused by the translator. Either
   way the obligation breaks. (A call whose result is discarded leaves no trace in a
   pure translation: that case is left to the correspondence harness, family
   sibling-*.) *)
From Coq Require Import List Bool String Ascii NArith ZArith Lia.
From NV Require Import Base GoLib C16_Install_Gen C16_InstallProofs.
Import ListNotations.
Local Open Scope string_scope.
Local Open Scope list_scope.

Theorem C16_gen_Install_footprint :
  forall GMeta CGMeta NewP (PL : Type) Get Uninst Uninst' ParseDir ParseName IsExec SameDir SysPath
         Copy1 Copy1' Copy2 Copy2' Eval Dir Cmp m opts,
    let n1 := snd (fst (ParseDir (CLIInstallOptions_PluginPath opts))) in
    let n2 := fst (ParseName (filepath_base (CLIInstallOptions_PluginPath opts))) in
    Uninst (PNew m) n1 = Uninst' (PNew m) n1 ->
    Uninst (PNew m) n2 = Uninst' (PNew m) n2 ->
    (forall f d e, SysPath [n1] = (d, e) -> Copy1 f d = Copy1' f d) ->
    (forall f d e, SysPath [n2] = (d, e) -> Copy1 f d = Copy1' f d) ->
    (forall f d e, SysPath [n1] = (d, e) -> Copy2 f d = Copy2' f d) ->
    (forall f d e, SysPath [n2] = (d, e) -> Copy2 f d = Copy2' f d) ->
    gen_plugin_CLIManager_Install GMeta CGMeta NewP PL Get Uninst ParseDir ParseName IsExec SameDir SysPath
                                  Copy1 Copy2 Eval Dir Cmp m opts
    = gen_plugin_CLIManager_Install GMeta CGMeta NewP PL Get Uninst' ParseDir ParseName IsExec SameDir SysPath
                                    Copy1' Copy2' Eval Dir Cmp m opts.
Proof. exact gen_Install_footprint. Qed.
Print Assumptions C16_gen_Install_footprint.
