(* C14_Generated.v — the code's own functions against the C14 model.

   theories/C14_Gen.v is re-translated from the Go sources by `vh-gen` (GoLite, docs/GOLITE.md)
   on every run (targets: harness/cmd/vh-gen/targets_c14.go); the theorems below are about those
   generated definitions, for ALL their inputs.  Proofs: theories/C14_GenProofs.v (generated
   side) and theories/C14_Writer.v (the writer as a program over an explicit world, and its
   relation to the directory semantics of C14_Model.v).  Table: docs/audit/C14.md, section GoLite. *)
From Coq Require Import List Bool String Ascii NArith ZArith.
From NV Require Import Base Generated GoLib C14_Model C14_Writer C14_Gen C14_GenProofs.
Import ListNotations.
Local Open Scope list_scope.
Local Open Scope string_scope.

(* ---------- the names of temporary files: Go's own os.prefixAndSuffix ---------- *)

(* internal/bytealg.LastIndexByteString(s, '*') never panics and returns the position at which the
   model splits a pattern (-1: no '*') *)
Theorem C14_gen_LastIndexByteString_star : forall s,
  gen_bytealg_LastIndexByteString s 42 = Some (last_star_pos s).
Proof. exact gen_LastIndexByteString_star. Qed.
Print Assumptions C14_gen_LastIndexByteString_star.

(* os.prefixAndSuffix, for every pattern: never panics; an error iff the pattern contains '/';
   otherwise the split at the last '*' that C14_Model.split_last_star computes *)
Theorem C14_gen_prefixAndSuffix_equiv : forall p,
  gen_os_prefixAndSuffix p = Some (prefix_suffix_model p).
Proof. exact gen_prefixAndSuffix_equiv. Qed.
Print Assumptions C14_gen_prefixAndSuffix_equiv.

(* for the pattern of the code (Generated.gen_temp_file_pattern = file.tempFileNamePrefix) it returns
   the model's tmp_prefix / tmp_suffix, the two constants [is_temp] is defined with *)
Theorem C14_gen_prefixAndSuffix_pattern :
  gen_os_prefixAndSuffix gen_temp_file_pattern = Some (tmp_prefix, tmp_suffix, None).
Proof. exact gen_prefixAndSuffix_pattern. Qed.
Print Assumptions C14_gen_prefixAndSuffix_pattern.

(* hence every name os.CreateTemp can build from that pattern (prefix ++ decimal digits ++ suffix)
   is a temporary name of the model - never key-shaped (C14_temp) *)
Theorem C14_gen_created_name_is_temp : forall pre suf ds,
  gen_os_prefixAndSuffix gen_temp_file_pattern = Some (pre, suf, None) ->
  ds <> [] -> forallb is_digit ds = true ->
  is_temp (pre ++ string_of_list_ascii ds ++ suf) = true.
Proof. exact created_name_is_temp. Qed.
Print Assumptions C14_gen_created_name_is_temp.

(* ---------- the key: crl.FileCache.fileName ---------- *)

(* for every URL: the name of the entry is the model's [key] for the hash function the code uses
   (oracle crypto/sha256.Sum256 read as bytes; hypothesis: encoding/hex.EncodeToString is the model's
   [hex] - the correspondence harness compares the directory listings, which checks exactly this).
   The name does not depend on the receiver (the cache root). *)
Theorem C14_gen_fileName_key : forall (sum : list Z -> list Z) (hexenc : list Z -> string) c url,
  (forall l, hexenc l = hex (map Z.to_N l)) ->
  gen_crl_FileCache_fileName sum hexenc c url = key (sha_of_sum sum) url.
Proof. exact gen_fileName_key. Qed.
Print Assumptions C14_gen_fileName_key.

(* hence the name of an entry is never a temporary name (C14_temp transported onto the code) *)
Theorem C14_gen_fileName_not_temp : forall (sum : list Z -> list Z) (hexenc : list Z -> string) c url,
  (forall l, hexenc l = hex (map Z.to_N l)) ->
  is_temp (gen_crl_FileCache_fileName sum hexenc c url) = false.
Proof. exact gen_fileName_not_temp. Qed.
Print Assumptions C14_gen_fileName_not_temp.

(* ---------- the reader: crl.FileCache.Get ----------
   (translated with NilIsEmpty: the test `content.DeltaCRL != nil` of crl.go:104 is read as
   len != 0; the two theorems below concern the access to the directory, which precedes it, and hold
   whatever the decoding part does) *)

(* Get consults the file system through ONE path, <root>/<fileName url> = the key of the URL: two
   behaviours of os.ReadFile that agree on that path give the same result (so a hit is a function
   of the bytes one ReadFile of the key returned: the model's EOpen/ERead/EEof of one inode) *)
Theorem C14_gen_Get_reads_key_only :
  forall sum hexenc join parse now unmarshal (rf rf' : string -> list Z * option err) c url,
  rf (get_path sum hexenc join c url) = rf' (get_path sum hexenc join c url) ->
  gen_crl_FileCache_Get sum hexenc join rf parse now unmarshal c url =
  gen_crl_FileCache_Get sum hexenc join rf' parse now unmarshal c url.
Proof. exact gen_Get_reads_key_only. Qed.
Print Assumptions C14_gen_Get_reads_key_only.

(* os.ReadFile failed: Get reports a miss exactly when the error is (wraps) fs.ErrNotExist - the
   model's [Miss] = no directory entry for the key - and otherwise an error that is not a miss *)
Theorem C14_gen_Get_read_error :
  forall sum hexenc join parse now unmarshal (rf : string -> list Z * option err) c url e,
  snd (rf (get_path sum hexenc join c url)) = Some e ->
  exists r, gen_crl_FileCache_Get sum hexenc join rf parse now unmarshal c url = Some (PNil, r) /\
    if err_is (Some e) fs_ErrNotExist then r = crl_ErrCacheMiss
    else exists f w, r = Some (Err "fmt" f w).
Proof. exact gen_Get_read_error. Qed.
Print Assumptions C14_gen_Get_read_error.
