(* C14_Generated.v — the code's own functions against the C14 model.

   theories/C14_Gen.v is re-translated from the Go sources by `vh-gen` (GoLite, docs/GOLITE.md)
   on every run (targets: harness/cmd/vh-gen/targets_c14.go); the theorems below are about those
   generated definitions, for ALL their inputs.  Proofs: theories/C14_GenProofs.v (generated
   side) and theories/C14_Writer.v (the writer as a program over an explicit world, and its
   relation to the directory semantics of C14_Model.v).  Table: docs/audit/C14.md, section GoLite. *)
From Coq Require Import List Bool String Ascii NArith ZArith.
From NV Require Import Base Generated GoLib C14_Model C14_Writer C14_Gen C14_GenProofs.
Import ListNotations.
Local Open Scope list_scope.
Local Open Scope string_scope.

(* ---------- the names of temporary files: Go's own os.prefixAndSuffix ---------- *)

(* internal/bytealg.LastIndexByteString(s, '*') never panics and returns the position at which the
   model splits a pattern (-1: no '*') *)
Theorem C14_gen_LastIndexByteString_star : forall s,
  gen_bytealg_LastIndexByteString s 42 = Some (last_star_pos s).
Proof. exact gen_LastIndexByteString_star. Qed.
Print Assumptions C14_gen_LastIndexByteString_star.

(* os.prefixAndSuffix, for every pattern: never panics; an error iff the pattern contains '/';
   otherwise the split at the last '*' that C14_Model.split_last_star computes *)
Theorem C14_gen_prefixAndSuffix_equiv : forall p,
  gen_os_prefixAndSuffix p = Some (prefix_suffix_model p).
Proof. exact gen_prefixAndSuffix_equiv. Qed.
Print Assumptions C14_gen_prefixAndSuffix_equiv.

(* for the pattern of the code (Generated.gen_temp_file_pattern = file.tempFileNamePrefix) it returns
   the model's tmp_prefix / tmp_suffix, the two constants [is_temp] is defined with *)
Theorem C14_gen_prefixAndSuffix_pattern :
  gen_os_prefixAndSuffix gen_temp_file_pattern = Some (tmp_prefix, tmp_suffix, None).
Proof. exact gen_prefixAndSuffix_pattern. Qed.
Print Assumptions C14_gen_prefixAndSuffix_pattern.

(* hence every name os.CreateTemp can build from that pattern (prefix ++ decimal digits ++ suffix)
   is a temporary name of the model - never key-shaped (C14_temp) *)
Theorem C14_gen_created_name_is_temp : forall pre suf ds,
  gen_os_prefixAndSuffix gen_temp_file_pattern = Some (pre, suf, None) ->
  ds <> [] -> forallb is_digit ds = true ->
  is_temp (pre ++ string_of_list_ascii ds ++ suf) = true.
Proof. exact created_name_is_temp. Qed.
Print Assumptions C14_gen_created_name_is_temp.

(* ---------- the key: crl.FileCache.fileName ---------- *)

(* for every URL: the name of the entry is the model's [key] for the hash function the code uses
   (oracle crypto/sha256.Sum256 read as bytes; hypothesis: encoding/hex.EncodeToString is the model's
   [hex] - the correspondence harness compares the directory listings, which checks exactly this).
   The name does not depend on the receiver (the cache root). *)
Theorem C14_gen_fileName_key : forall (sum : list Z -> list Z) (hexenc : list Z -> string) c url,
  (forall l, hexenc l = hex (map Z.to_N l)) ->
  gen_crl_FileCache_fileName sum hexenc c url = key (sha_of_sum sum) url.
Proof. exact gen_fileName_key. Qed.
Print Assumptions C14_gen_fileName_key.

(* hence the name of an entry is never a temporary name (C14_temp transported onto the code) *)
Theorem C14_gen_fileName_not_temp : forall (sum : list Z -> list Z) (hexenc : list Z -> string) c url,
  (forall l, hexenc l = hex (map Z.to_N l)) ->
  is_temp (gen_crl_FileCache_fileName sum hexenc c url) = false.
Proof. exact gen_fileName_not_temp. Qed.
Print Assumptions C14_gen_fileName_not_temp.

(* ---------- the writer: internal/file.WriteFile ----------
   The five os calls of WriteFile are EFFECT oracles: GoLite threads an abstract [world] through them in
   Go's evaluation order (os.CreateTemp, File.Write, File.Close, os.Rename, os.Remove : world -> args ->
   world * results; File.Name is pure; the verif hook calls are dropped).  The deferred clean-up is run
   at every return after its registration.  All theorems quantify over the world type, the type of
   file handles and the six functions: nothing is assumed about the operating system. *)

(* WriteFile IS the writer program of C14_Writer.v (create temp in [dir] with the generated pattern;
   write; close; rename(temp, path); after the first failure past the creation: Close, Remove(temp)):
   same world afterwards, nil exactly when the program succeeds *)
Theorem C14_gen_WriteFile_equiv : forall F W create write close name rename remove w dir path content,
  (fst (gen_file_WriteFile F W create write close name rename remove w dir path content),
   is_none (snd (gen_file_WriteFile F W create write close name rename remove w dir path content)))
  = writer_prog W F (fun w d p => nest3 (create w d p)) (fun w f b => nest3 (write w f b))
      close name rename remove w dir path content.
Proof. exact gen_WriteFile_equiv. Qed.
Print Assumptions C14_gen_WriteFile_equiv.

(* the ORDER of the file-system steps.  World := the history of calls with their answers; the
   operating system is any [behaviour]: each answer an arbitrary function of the whole history so far
   and of the arguments.  Whatever it answers, the calls WriteFile makes are one of the five sequences
   of [writer_run]: Create(dir, pattern) failed | Create, Write(temp) failed, Close, Remove(temp) |
   Create, Write, Close failed, Close, Remove(temp) | Create, Write, Close, Rename(temp, path) failed,
   Close, Remove(temp) | Create, Write, Close, Rename(temp, path) - and nil is returned in the last only *)
Theorem C14_gen_WriteFile_steps : forall F name (B : behaviour F) dir path content,
  writer_run F name dir path content
    (fst (gen_write_logged F name B dir path content))
    (is_none (snd (gen_write_logged F name B dir path content))).
Proof. exact gen_WriteFile_steps. Qed.
Print Assumptions C14_gen_WriteFile_steps.

(* bytes are only ever written through the handle CreateTemp returned for [dir] and the pattern -
   there is no call that opens or writes [path] *)
Theorem C14_gen_WriteFile_writes_only_temp : forall F name (B : behaviour F) dir path content,
  writes_only_temp F dir (fst (gen_write_logged F name B dir path content)).
Proof. exact gen_WriteFile_writes_only_temp. Qed.
Print Assumptions C14_gen_WriteFile_writes_only_temp.

(* nil: exactly Create, Write, Close, Rename(temp, path), each answered nil *)
Theorem C14_gen_WriteFile_success_shape : forall F name (B : behaviour F) dir path content,
  snd (gen_write_logged F name B dir path content) = None ->
  exists f n, fst (gen_write_logged F name B dir path content) =
    [CCreate dir gen_temp_file_pattern (f, None); CWrite f content (n, None); CClose f None;
     CRename (name f) path None].
Proof. exact gen_WriteFile_success_shape. Qed.
Print Assumptions C14_gen_WriteFile_success_shape.

(* an error: either nothing was created, or the LAST call removes the temporary file *)
Theorem C14_gen_WriteFile_failure_removes : forall F name (B : behaviour F) dir path content,
  snd (gen_write_logged F name B dir path content) <> None ->
  let log := fst (gen_write_logged F name B dir path content) in
  (exists f e, log = [CCreate dir gen_temp_file_pattern (f, Some e)]) \/
  (exists f r0 mid rr, log = CCreate dir gen_temp_file_pattern (f, r0) :: mid ++ [CRemove (name f) rr])%list.
Proof. exact gen_WriteFile_failure_removes. Qed.
Print Assumptions C14_gen_WriteFile_failure_removes.

(* the tie to the step alphabet of C14_Model.v, Part 1.  The calls are read as events of writer [wid]
   ([events]: Create=nil -> ECreate, Write=(_,nil) -> EWrite of everything, Write=(n,error) -> EWrite n,
   Close=nil -> EClose, Rename=nil -> ERename; in the clean-up Remove=nil -> EFail, Remove=error ->
   ECrash).  From ANY state of the directory semantics in which the id is unused, and for any
   operating system whose successful CreateTemp(dir, pattern) returns a new name of the temporary form
   (O_EXCL + C14_gen_created_name_is_temp), the run is an ENABLED trace of [step], and it ends with the
   key denoting the complete content exactly when WriteFile returns nil; otherwise the key is untouched
   and the writer is PFailed (temporary name gone) or PDead (Remove failed) - the model's writer, which
   all theorems of C14_Property.v quantify over.  [nm] maps a path to its directory entry. *)
Theorem C14_gen_WriteFile_runs_model : forall F name sha nm (B : behaviour F) dir path content wid u s,
  getN wid (s_w s) = None -> getN wid (s_ino s) = None ->
  (forall f, b_create F B [] dir gen_temp_file_pattern = (f, None) ->
      is_temp (nm (name f)) = true /\ getS (nm (name f)) (s_dir s) = None) ->
  nm path = key sha u ->
  let r := gen_write_logged F name B dir path content in
  exists s', exec sha s (events F name wid u (data_of_bytes content) nm false (fst r)) = Some s' /\
             end_state sha s s' wid u (data_of_bytes content) (is_none (snd r)).
Proof. exact gen_WriteFile_runs_model. Qed.
Print Assumptions C14_gen_WriteFile_runs_model.

(* ---------- crl.FileCache.Set ---------- *)

(* Set never panics.  Without bytes to store (nil bundle, nil base CRL, json.Marshal failed) the world
   is untouched and an error returned; otherwise Set is WriteFile(root, <root>/<fileName url>, bytes):
   the temporary file is created in the cache root itself, the destination is the key of the URL *)
Theorem C14_gen_Set_equiv :
  forall sum hexenc F W create write close name rename remove join marshal w c url bundle,
  exists r, gen_crl_FileCache_Set sum hexenc F W create write close name rename remove join marshal w c url bundle
            = Some r /\
    match set_bytes marshal bundle with
    | None => r = (w, snd r) /\ is_none (snd r) = false
    | Some bytes =>
        let g := gen_file_WriteFile F W create write close name rename remove w (FileCache_root c)
                   (set_path sum hexenc join c url) bytes in
        (fst r, is_none (snd r)) = (fst g, is_none (snd g))
    end.
Proof. exact gen_Set_equiv. Qed.
Print Assumptions C14_gen_Set_equiv.

(* end to end: every run of the generated Set against any operating system (contract on CreateTemp as
   above, hex = the model's [hex], the paths <root>/<k> denote the entries k of the model's directory) is
   an enabled trace of ONE writer of C14_Model for this URL, storing [stored_bytes bundle] under
   key (sha256) url exactly when Set returns nil *)
Theorem C14_gen_Set_runs_model :
  forall sum hexenc F name join marshal nm (B : behaviour F) c url bundle wid s,
  (forall l, hexenc l = hex (map Z.to_N l)) ->
  (forall k, nm (join [FileCache_root c; k]) = k) ->
  getN wid (s_w s) = None -> getN wid (s_ino s) = None ->
  (forall f, b_create F B [] (FileCache_root c) gen_temp_file_pattern = (f, None) ->
      is_temp (nm (name f)) = true /\ getS (nm (name f)) (s_dir s) = None) ->
  exists r, gen_set_logged sum hexenc F name join marshal B c url bundle = Some r /\
  exists s', exec (sha_of_sum sum) s
               (events F name wid url (data_of_bytes (stored_bytes marshal bundle)) nm false (fst r)) = Some s' /\
             end_state (sha_of_sum sum) s s' wid url (data_of_bytes (stored_bytes marshal bundle)) (is_none (snd r)).
Proof. exact gen_Set_runs_model. Qed.
Print Assumptions C14_gen_Set_runs_model.

(* transport of the property theorems: the events of a generated Set extend any trace the theorems of
   C14_Property.v quantify over (safe, executable from [init]) to another such trace - so C14_inv, C14_read,
   C14_read_url, C14_fresh, C14_temp_never_read ... hold of every state reached through runs of the
   code's own Set, interleaved with anything else; and after a nil the key of the URL denotes the
   writer's inode holding exactly the stored bytes *)
Theorem C14_gen_Set_extends_trace :
  forall sum hexenc F name join marshal nm (B : behaviour F) c url bundle wid tr s,
  (forall l, hexenc l = hex (map Z.to_N l)) ->
  (forall k, nm (join [FileCache_root c; k]) = k) ->
  forallb safe tr = true -> exec (sha_of_sum sum) init tr = Some s ->
  getN wid (s_w s) = None -> getN wid (s_ino s) = None ->
  (forall f, b_create F B [] (FileCache_root c) gen_temp_file_pattern = (f, None) ->
      is_temp (nm (name f)) = true /\ getS (nm (name f)) (s_dir s) = None) ->
  exists r s', gen_set_logged sum hexenc F name join marshal B c url bundle = Some r /\
    let tr' := (tr ++ events F name wid url (data_of_bytes (stored_bytes marshal bundle)) nm false (fst r))%list in
    forallb safe tr' = true /\ exec (sha_of_sum sum) init tr' = Some s' /\
    (snd r = None -> getS (key (sha_of_sum sum) url) (s_dir s') = Some wid /\
                     getN wid (s_ino s') = Some (data_of_bytes (stored_bytes marshal bundle))).
Proof. exact gen_Set_extends_trace. Qed.
Print Assumptions C14_gen_Set_extends_trace.

(* ---------- the reader: crl.FileCache.Get ----------
   (translated with NilIsEmpty: the test `content.DeltaCRL != nil` of crl.go:104 is read as
   len != 0; the two theorems below concern the access to the directory, which precedes it, and hold
   whatever the decoding part does) *)

(* Get consults the file system through ONE path, <root>/<fileName url> = the key of the URL: two
   behaviours of os.ReadFile that agree on that path give the same result (so a hit is a function
   of the bytes one ReadFile of the key returned: the model's EOpen/ERead/EEof of one inode) *)
Theorem C14_gen_Get_reads_key_only :
  forall sum hexenc join parse now unmarshal (rf rf' : string -> list Z * option err) c url,
  rf (get_path sum hexenc join c url) = rf' (get_path sum hexenc join c url) ->
  gen_crl_FileCache_Get sum hexenc join rf parse now unmarshal c url =
  gen_crl_FileCache_Get sum hexenc join rf' parse now unmarshal c url.
Proof. exact gen_Get_reads_key_only. Qed.
Print Assumptions C14_gen_Get_reads_key_only.

(* os.ReadFile failed: Get reports a miss exactly when the error is (wraps) fs.ErrNotExist - the
   model's [Miss] = no directory entry for the key - and otherwise an error that is not a miss *)
Theorem C14_gen_Get_read_error :
  forall sum hexenc join parse now unmarshal (rf : string -> list Z * option err) c url e,
  snd (rf (get_path sum hexenc join c url)) = Some e ->
  exists r, gen_crl_FileCache_Get sum hexenc join rf parse now unmarshal c url = Some (PNil, r) /\
    if err_is (Some e) fs_ErrNotExist then r = crl_ErrCacheMiss
    else exists f w, r = Some (Err "fmt" f w).
Proof. exact gen_Get_read_error. Qed.
Print Assumptions C14_gen_Get_read_error.
