(* C10 composed with C01 — what a successful registry verification means.
   Statements only; every proof is [exact <theorem of C10_Compose>].

   [verify_registry c] is C10's model of notation.Verify run on a listing whose
   elements are either unfetchable or fetched envelopes described by the inputs of
   C01's model (what notation-core-go / encoding/json report about the envelope,
   what the rest of processSignature answers); the kind of a fetched signature is
   what C01's model of verifier.Verify returns on it for the RESOLVED descriptor,
   the verifier's level / override and the caller's required metadata; the
   verifier's SkipVerify answers skip iff the level is the skip level.
   Quantifiers: every listing and paging, every limit, every reference, every
   resolved descriptor, every legal non-skip level / override, every required
   metadata map, every envelope and every behaviour of the rest of processSignature.

   Vocabulary (C10_Compose):
     sound_at c k   entry k was fetched; its envelope is Intact (parses, signature valid
                    over payload and signed attributes, Notary payload type); the payload
                    decodes to a target whose digest, size and media type equal those of
                    the resolved descriptor; every required metadata pair is a signed
                    annotation of that target
     failed_at c j  entry j was fetched and verifier.Verify returned an error on it *)
From NV Require C01_Model.
From NV Require Import Base C10_Model C10_Proofs C10_Compose.
Local Open Scope list_scope.

(* success under a non-skip level: it is the outcome of some signature k, k < N, the
   resolved descriptor is returned, signature k is sound for the RESOLVED descriptor,
   every earlier one was fetched and failed, and exactly 0..k were fetched and verified *)
Theorem C10_registry_verification_sound : forall c,
  C01_Model.NonSkip (ci_level c) (ci_override c) ->
  o_res (verify_registry c) = ROk ->
  exists k,
    o_outs (verify_registry c) = OSig k /\ o_desc (verify_registry c) = DResolved /\
    (Z.of_nat k < ci_max c)%Z /\
    sound_at c k /\
    (forall j, j < k -> failed_at c j) /\
    fetches (o_log (verify_registry c)) = range 0 (S k) /\
    C10_Proofs.verifies (o_log (verify_registry c)) = range 0 (S k).
Proof. exact registry_verification_sound. Qed.
Print Assumptions C10_registry_verification_sound.

(* digest reference: the resolved digest is the referenced one, hence the signed target's
   digest is the digest the caller asked for *)
Theorem C10_registry_pin : forall c dg,
  ci_ref c = CDigest dg ->
  C01_Model.NonSkip (ci_level c) (ci_override c) ->
  o_res (verify_registry c) = ROk ->
  C01_Model.t_dg (ci_resolved c) = dg /\
  exists k env rest touch t,
    o_outs (verify_registry c) = OSig k /\
    nth_error (entries c) k = Some (Fetched env rest touch) /\
    C01_Model.Intact env /\ C01_Model.e_decode env = Some t /\ C01_Model.t_dg t = dg.
Proof. exact registry_pin. Qed.
Print Assumptions C10_registry_pin.

(* ... and a digest reference that the repository resolves elsewhere never succeeds and
   fetches nothing, whatever is listed *)
Theorem C10_registry_pin_refuses : forall c dg,
  ci_ref c = CDigest dg -> C01_Model.t_dg (ci_resolved c) <> dg ->
  C01_Model.NonSkip (ci_level c) (ci_override c) ->
  o_res (verify_registry c) <> ROk /\ fetches (o_log (verify_registry c)) = [].
Proof. exact registry_pin_refuses. Qed.
Print Assumptions C10_registry_pin_refuses.

(* converse: a signature within the limit that verifier.Verify accepts, all earlier ones
   fetched and failing, makes the registry verification succeed with exactly it *)
Theorem C10_registry_verification_complete : forall c k env rest touch,
  C01_Model.NonSkip (ci_level c) (ci_override c) ->
  reaches_listing (to_c10 c) ->
  (Z.of_nat k < ci_max c)%Z ->
  nth_error (entries c) k = Some (Fetched env rest touch) ->
  C01_Model.o_err (C01_Model.model (c01_in c env rest touch)) = C01_Model.ENone ->
  (forall j, j < k -> failed_at c j) ->
  verify_registry c = mk_obs ROk DResolved (OSig k) (head_of (to_c10 c) ++ pairs 0 (S k)) true.
Proof. exact registry_verification_complete. Qed.
Print Assumptions C10_registry_verification_complete.

(* ---------- non-vacuity ---------- *)
(* digest reference sha256:aa; listed: an intact signature of ANOTHER artifact (fails on
   the descriptor mismatch), then — on the next page — an intact signature of the resolved
   one carrying the required annotation, then an unfetchable one that is never touched *)
Example C10_compose_example :
  let res := C01_Model.mk_t "application/vnd.oci.image.manifest.v1+json" "sha256:aa" 528 [] in
  let signed := C01_Model.mk_t "application/vnd.oci.image.manifest.v1+json" "sha256:aa" 528 [("k1", "v1")] in
  let other := C01_Model.mk_t "application/vnd.oci.image.manifest.v1+json" "sha256:bb" 528 [("k1", "v1")] in
  let env t := C01_Model.mk_e true C01_Model.VOk C01_Model.media_type_payload_v1 (Some t) C01_Model.H256 in
  let c := mk_cin 2 (CDigest "sha256:aa") false res
             [[Fetched (env other) true true]; [Fetched (env signed) true true; Unfetchable]] false
             "strict" [] [("k1", "v1")] in
  C01_Model.NonSkip (ci_level c) (ci_override c) /\
  verify_registry c = mk_obs ROk DResolved (OSig 1) [ES; ER; EL; EF 0; EV 0; EF 1; EV 1] true.
Proof. cbv zeta. split; [eexists; split; reflexivity | reflexivity]. Qed.

(* the same listing with limit 1: the good signature is beyond the limit *)
Example C10_compose_example_limit :
  let res := C01_Model.mk_t "application/vnd.oci.image.manifest.v1+json" "sha256:aa" 528 [] in
  let signed := C01_Model.mk_t "application/vnd.oci.image.manifest.v1+json" "sha256:aa" 528 [("k1", "v1")] in
  let other := C01_Model.mk_t "application/vnd.oci.image.manifest.v1+json" "sha256:bb" 528 [("k1", "v1")] in
  let env t := C01_Model.mk_e true C01_Model.VOk C01_Model.media_type_payload_v1 (Some t) C01_Model.H256 in
  let c := mk_cin 1 (CDigest "sha256:aa") false res
             [[Fetched (env other) true true]; [Fetched (env signed) true true; Unfetchable]] false
             "strict" [] [("k1", "v1")] in
  o_res (verify_registry c) = RExceeded.
Proof. reflexivity. Qed.

(* ---------- skip, with "the applicable level is skip" read off the statement ---------- *)

(* the statement's level (after override validation, C01's get_level) is the skip level:
   Verify makes the one SkipVerify call, returns the zero descriptor and the skip outcome, and
   calls nothing on the repository — whatever the reference (even a mismatching digest), the
   resolved descriptor, the listing, the limit (> 0) *)
Theorem C10_registry_skip : forall c l,
  C01_Model.get_level (ci_level c) (ci_override c) = Some l -> C01_Model.is_skip l = true ->
  (0 < ci_max c)%Z ->
  verify_registry c = mk_obs ROk DZero OSkip [ES] true /\
  repo_calls (o_log (verify_registry c)) = [].
Proof. exact registry_skip. Qed.
Print Assumptions C10_registry_skip.

(* and the skip outcome is returned only then *)
Theorem C10_registry_skip_only : forall c,
  o_outs (verify_registry c) = OSkip ->
  exists l, C01_Model.get_level (ci_level c) (ci_override c) = Some l /\ C01_Model.is_skip l = true.
Proof. exact registry_skip_only. Qed.
Print Assumptions C10_registry_skip_only.

(* level "skip", a digest reference the repository would resolve elsewhere, an unfetchable listing *)
Example C10_compose_example_skip :
  let res := C01_Model.mk_t "application/vnd.oci.image.manifest.v1+json" "sha256:bb" 528 [] in
  let c := mk_cin 1 (CDigest "sha256:aa") false res [[Unfetchable]] false "skip" [] [("k1", "v1")] in
  (exists l, C01_Model.get_level (ci_level c) (ci_override c) = Some l /\ C01_Model.is_skip l = true) /\
  verify_registry c = mk_obs ROk DZero OSkip [ES] true.
Proof. cbv zeta. split; [eexists; split; reflexivity | reflexivity]. Qed.
