(* C07 — statements added by the theorem audit (docs/audit/C07.md).
   Statements only; every proof is [exact <lemma of C07_Audit>]. *)
From NV Require Import Base C07_Model C07_Proofs C07_Audit.
Open Scope string_scope.
Open Scope list_scope.

(* "it reports what was signed", with NO hypothesis on the input (any key, any
   format, legal or illegal metadata, truthful plugin or not, any request):
   whenever verification succeeds, the signer is trusted, the envelope carries a
   payload p, the metadata read back is exactly the annotations of p, the
   demanded metadata is among them, and
   - OCI: the returned descriptor is the resolved one, and p names its content;
   - blob: the returned descriptor IS p, and p names the digest of the presented
     blob under the algorithm bound to the signature algorithm, its size and
     (if a content media type was given) its media type *)
Theorem C07_verify_reports_payload : forall i s,
  o_env (model i) = Some s -> o_verify (model i) = 0%N ->
  i_trusted i = true /\
  exists p, s_payload s = Some p /\
    o_meta (model i) = Some (d_anns p) /\ submap (i_vmeta i) (d_anns p) = true /\
    match i_vtarget i with
    | TOCI vd => o_ret (model i) = Some vd /\ content_equal p vd = true
    | TBlob vb vmt vok =>
        o_ret (model i) = Some p /\ b_readerr vb = false /\
        exists an, o_vhash (model i) = Some an /\
                   verifier_algorithms (alg_hash (match o_env (model i) with Some s => s_alg s | None => A0 end)) = Some an /\
                   d_digest p = blob_digest vb an /\ d_size p = b_size vb /\ (vmt = "" \/ vmt = d_mt p)
    end.
Proof. exact verify_reports_payload. Qed.
Print Assumptions C07_verify_reports_payload.

(* what must not happen, for ALL inputs: a failed verification returns neither a
   descriptor nor metadata; a failed signing leaves nothing to verify *)
Theorem C07_verify_failure_returns_nothing : forall i,
  o_verify (model i) <> 0%N -> o_ret (model i) = None /\ o_meta (model i) = None.
Proof. exact verify_failure_returns_nothing. Qed.
Print Assumptions C07_verify_failure_returns_nothing.

Theorem C07_no_signature_no_verification : forall i,
  o_sign (model i) <> 0%N ->
  o_env (model i) = None /\ o_verify (model i) = 7%N /\ o_ret (model i) = None /\ o_meta (model i) = None.
Proof. exact no_signature_no_verification. Qed.
Print Assumptions C07_no_signature_no_verification.

(* "any signing agent": the envelope names the caller's agent (local signer;
   the library's default when none is given), the library's agent + plugin
   name/version (signature-generator plugin), the plugin's own (envelope-generator) *)
Theorem C07_agent : forall i kn a hn an,
  wf i = true -> spec_row (i_ks i) spec_table = Some (kn, a, hn, an) ->
  exists s, o_env (model i) = Some s /\
    s_agent s = match i_signer i with
                | Local => if i_agent i =? "" then c_agent0 (i_consts i) else i_agent i
                | Plug true _ _ => (c_agent0 (i_consts i) ++ " " ++ c_pname (i_consts i) ++ "/" ++ c_pver (i_consts i))%string
                | Plug false _ _ => c_penv_agent (i_consts i)
                end.
Proof. exact agent_in_envelope. Qed.
Print Assumptions C07_agent.

(* non-vacuity over the WHOLE grid of the quantifier: for each of the six key
   specs x {JWS, COSE} x {local, signature plugin, envelope plugin, plugin with
   both capabilities} there is a well-formed OCI input and a well-formed blob
   input (hypotheses of C07_roundtrip_oci / _blob, C07_expiry, C07_plugin_requests,
   C07_hash_bound) that signs, verifies and reads the signed metadata back *)
Theorem C07_grid_nonvacuous : forall k kn a hn an fmt sg,
  In (k, (kn, a, hn, an)) spec_table -> In fmt [mt_jws; mt_cose] ->
  In sg [Local; Plug true false kn; Plug false true kn; Plug true true kn] ->
  grid_ok (grid_oci k fmt sg) = true /\ grid_ok (grid_blob k fmt sg) = true.
Proof. exact grid_nonvacuous. Qed.
Print Assumptions C07_grid_nonvacuous.

(* the hypothesis of C07_negative_rejected is met by a well-formed input *)
Example C07_example_negative :
  wf ex_untrusted = true /\ positive ex_untrusted (expected_signed ex_untrusted "sha384") "sha384" = false /\
  o_sign (model ex_untrusted) = 0%N /\ o_verify (model ex_untrusted) = 1%N /\ o_ret (model ex_untrusted) = None.
Proof. exact example_negative. Qed.

(* the four hypotheses of C07_any_codec are met by the codec of [model] *)
Example C07_codec_hypotheses_satisfiable :
  (forall d, in_int64 (d_size d) -> dec_descr ((fun d => d) d) = Some (json_rt d)) /\
  (forall d : descr, (fun _ : descr => ["targetArtifact"]) d = ["targetArtifact"]) /\
  (forall d, present_keys ((fun d => d) d) = present_keys d) /\
  (forall d, c_recode ((fun d => d) d) = (fun d => d) (set_size d (jws_number (d_size d)))).
Proof. exact codec_hypotheses_satisfiable. Qed.
