(* C02_Generated.v — property C02: the code's OWN function bodies, re-translated into Gallina from
   /repo on every run (theories/C02_Gen.v, translator `vh-gen` GoLite, docs/GOLITE.md, targets in
   harness/cmd/vh-gen/targets_c02.go), are proved equal to the hand-written model the C02 theorems
   are about (C02_Levels, VerifyCore, C02_Versions) — for ALL inputs of the generated functions.
   A change of one of these Go bodies changes C02_Gen.v and these obligations are re-checked
   against what the code says now. Proofs: theories/C02_GenProofs.v (compiled once by make).
   Table function -> theorem -> oracle hypotheses -> clause: docs/audit/C02.md, section GoLite.  *)
From Coq Require Import List Bool String Ascii NArith ZArith.
From NV Require Import Base Regex Generated C02_Levels VerifyCore C02_Model C20_Semver C02_Versions.
From NV Require Import GoLib C02_Gen C02_GenProofs.
Import ListNotations.
Local Open Scope string_scope.
Local Open Scope list_scope.

(* ---------------------------------------------------------------------- *)
(* isCriticalFailure (verifier/helpers.go): the rule "enforce and failed"  *)
(* ---------------------------------------------------------------------- *)

(* = VerifyCore.is_critical_failure on the model's reading of a result *)
Theorem C02_gen_isCriticalFailure_equiv : forall r,
  gen_verifier_isCriticalFailure r = is_critical_failure (vr_action r) (vr_failed r).
Proof. exact gen_isCriticalFailure_equiv. Qed.
Print Assumptions C02_gen_isCriticalFailure_equiv.

Theorem C02_gen_isCriticalFailure_iff : forall r,
  gen_verifier_isCriticalFailure r = true
  <-> ValidationResult_Action r = "enforce" /\ ValidationResult_Error r <> None.
Proof. exact gen_isCriticalFailure_iff. Qed.
Print Assumptions C02_gen_isCriticalFailure_iff.

(* ---------------------------------------------------------------------- *)
(* GetVerificationLevel (verifier/trustpolicy): the enforcement maps       *)
(* ---------------------------------------------------------------------- *)

Theorem C02_gen_levels_pinned :
  map (fun p => match ptr_val p with
                | Some l => (VerificationLevel_Name l, VerificationLevel_Enforcement l)
                | None => ("", [])
                end) trustpolicy_VerificationLevels = gen_levels.
Proof. exact gen_levels_pinned. Qed.
Print Assumptions C02_gen_levels_pinned.

(* = C02_Levels.get_level, the override read as the map it denotes; errors by which rule fired *)
Theorem C02_gen_GetVerificationLevel_equiv : forall sv,
  match get_level (sv_lvl sv) (sv_ov sv) with
  | inl e => exists x, gen_trustpolicy_SignatureVerification_GetVerificationLevel sv = Some (PNil, Some x)
                       /\ lerr_of x = Some e
  | inr (name, enf) => exists p, gen_trustpolicy_SignatureVerification_GetVerificationLevel sv = Some (p, None)
                                 /\ level_rel p name enf
  end.
Proof. exact gen_GetVerificationLevel_equiv. Qed.
Print Assumptions C02_gen_GetVerificationLevel_equiv.

(* transported C02_levels_legal: every level the code returns for a name other than "skip" is
   one of the 24 enforcement maps of the property, with integrity enforced *)
Theorem C02_gen_GetVerificationLevel_reachable : forall sv p l,
  gen_trustpolicy_SignatureVerification_GetVerificationLevel sv = Some (p, None) -> ptr_val p = Some l ->
  (sv_lvl sv = "skip" /\ VerificationLevel_Name l = "skip")
  \/ (In (sv_lvl sv) base_names /\ In (glevel_of l) all_24 /\ enf_get l "integrity" = "enforce").
Proof. exact gen_GetVerificationLevel_reachable. Qed.
Print Assumptions C02_gen_GetVerificationLevel_reachable.

(* transported C02_levels_complete: every legal configuration is accepted by the code *)
Theorem C02_gen_GetVerificationLevel_complete : forall sv,
  In (sv_lvl sv) base_names -> Forall legal_entry (sv_ov sv) ->
  exists p l, gen_trustpolicy_SignatureVerification_GetVerificationLevel sv = Some (p, None) /\ ptr_val p = Some l.
Proof. exact gen_GetVerificationLevel_complete. Qed.
Print Assumptions C02_gen_GetVerificationLevel_complete.

(* ---------------------------------------------------------------------- *)
(* the version gate of a demanded plugin                                   *)
(* ---------------------------------------------------------------------- *)

Theorem C02_gen_IsValid_equiv : forall s, gen_semver_IsValid s = sv_valid s.
Proof. exact gen_IsValid_equiv. Qed.
Print Assumptions C02_gen_IsValid_equiv.

(* = C02_Versions.ver_ge ("not too old"), x/mod/semver.Compare being an oracle that answers like
   C20's mirror of it on the arguments processSignature can pass *)
Theorem C02_gen_isRequiredVerificationPluginVer_equiv : forall gcmp, compare_agrees gcmp -> compare_range gcmp ->
  forall v min, sv_valid v = true ->
    match min with AStr m => sv_valid m = true | AAbsent => True | _ => False end ->
    gen_verifier_isRequiredVerificationPluginVer gcmp v (minver_string min) = ver_ge v min.
Proof. exact gen_isRequired_equiv. Qed.
Print Assumptions C02_gen_isRequiredVerificationPluginVer_equiv.

(* ---------------------------------------------------------------------- *)
(* the answer of the revocation validator (fix d78db00)                    *)
(* ---------------------------------------------------------------------- *)

Theorem C02_gen_checkRevocationResults_iff : forall (C : Type) results (chain : list C),
  gen_verifier_checkRevocationResults C results chain = None
  <-> List.length results = List.length chain /\ forallb res_nonnil results = true.
Proof. exact gen_checkRevocationResults_iff. Qed.
Print Assumptions C02_gen_checkRevocationResults_iff.

(* revocationFinalResult after that check: total (fix a146158), ResultOK iff every certificate
   is OK or non-revokable *)
Theorem C02_gen_revocationFinalResult_ok_iff : forall (C : Type) (subjs : C -> string) results (chain : list C),
  List.length results = List.length chain -> forallb res_nonnil results = true ->
  exists z s, gen_verifier_revocationFinalResult C subjs results chain = Some (z, s)
              /\ (z = 1%Z <-> forallb res_ok results = true).
Proof. exact gen_revocationFinalResult_ok_iff. Qed.
Print Assumptions C02_gen_revocationFinalResult_ok_iff.

(* "revocation ok" ([s_rev_ok] of the model, [Unrevoked] of C02_Compose) on the code's own two
   functions: one result per certificate, each OK or non-revokable *)
Theorem C02_gen_revocation_passes_iff : forall (C : Type) (subjs : C -> string) results (chain : list C),
  (gen_verifier_checkRevocationResults C results chain = None
   /\ exists s, gen_verifier_revocationFinalResult C subjs results chain = Some (1%Z, s))
  <-> rev_answer_ok C results chain.
Proof. exact gen_revocation_passes_iff. Qed.
Print Assumptions C02_gen_revocation_passes_iff.
