(* C02_Generated.v — property C02: the code's OWN function bodies, re-translated into Gallina from
   /repo on every run (theories/C02_Gen.v, translator `vh-gen` GoLite, docs/GOLITE.md, targets in
   harness/cmd/vh-gen/targets_c02.go), are proved equal to the hand-written model the C02 theorems
   are about (C02_Levels, VerifyCore, C02_Versions) — for ALL inputs of the generated functions.
   A change of one of these Go bodies changes C02_Gen.v and these obligations are re-checked
   against what the code says now. Proofs: theories/C02_GenProofs.v (compiled once by make).
   Table function -> theorem -> oracle hypotheses -> clause: docs/audit/C02.md, section GoLite.  *)
From Coq Require Import List Bool String Ascii NArith ZArith.
From NV Require Import Base Regex Generated C02_Levels VerifyCore C02_Model C20_Semver C02_Versions.
From NV Require Import GoLib C02_Gen C02_GenProofs C02_GenSig.
Import ListNotations.
Local Open Scope string_scope.
Local Open Scope list_scope.

(* ---------------------------------------------------------------------- *)
(* isCriticalFailure (verifier/helpers.go): the rule "enforce and failed"  *)
(* ---------------------------------------------------------------------- *)

(* = VerifyCore.is_critical_failure on the model's reading of a result *)
Theorem C02_gen_isCriticalFailure_equiv : forall r,
  gen_verifier_isCriticalFailure r = is_critical_failure (vr_action r) (vr_failed r).
Proof. exact gen_isCriticalFailure_equiv. Qed.
Print Assumptions C02_gen_isCriticalFailure_equiv.

Theorem C02_gen_isCriticalFailure_iff : forall r,
  gen_verifier_isCriticalFailure r = true
  <-> ValidationResult_Action r = "enforce" /\ ValidationResult_Error r <> None.
Proof. exact gen_isCriticalFailure_iff. Qed.
Print Assumptions C02_gen_isCriticalFailure_iff.

(* ---------------------------------------------------------------------- *)
(* GetVerificationLevel (verifier/trustpolicy): the enforcement maps       *)
(* ---------------------------------------------------------------------- *)

Theorem C02_gen_levels_pinned :
  map (fun p => match ptr_val p with
                | Some l => (VerificationLevel_Name l, VerificationLevel_Enforcement l)
                | None => ("", [])
                end) trustpolicy_VerificationLevels = gen_levels.
Proof. exact gen_levels_pinned. Qed.
Print Assumptions C02_gen_levels_pinned.

(* = C02_Levels.get_level, the override read as the map it denotes; errors by which rule fired *)
Theorem C02_gen_GetVerificationLevel_equiv : forall sv,
  match get_level (sv_lvl sv) (sv_ov sv) with
  | inl e => exists x, gen_trustpolicy_SignatureVerification_GetVerificationLevel sv = Some (PNil, Some x)
                       /\ lerr_of x = Some e
  | inr (name, enf) => exists p, gen_trustpolicy_SignatureVerification_GetVerificationLevel sv = Some (p, None)
                                 /\ level_rel p name enf
  end.
Proof. exact gen_GetVerificationLevel_equiv. Qed.
Print Assumptions C02_gen_GetVerificationLevel_equiv.

(* transported C02_levels_legal: every level the code returns for a name other than "skip" is
   one of the 24 enforcement maps of the property, with integrity enforced *)
Theorem C02_gen_GetVerificationLevel_reachable : forall sv p l,
  gen_trustpolicy_SignatureVerification_GetVerificationLevel sv = Some (p, None) -> ptr_val p = Some l ->
  (sv_lvl sv = "skip" /\ VerificationLevel_Name l = "skip")
  \/ (In (sv_lvl sv) base_names /\ In (glevel_of l) all_24 /\ enf_get l "integrity" = "enforce").
Proof. exact gen_GetVerificationLevel_reachable. Qed.
Print Assumptions C02_gen_GetVerificationLevel_reachable.

(* transported C02_levels_complete: every legal configuration is accepted by the code *)
Theorem C02_gen_GetVerificationLevel_complete : forall sv,
  In (sv_lvl sv) base_names -> Forall legal_entry (sv_ov sv) ->
  exists p l, gen_trustpolicy_SignatureVerification_GetVerificationLevel sv = Some (p, None) /\ ptr_val p = Some l.
Proof. exact gen_GetVerificationLevel_complete. Qed.
Print Assumptions C02_gen_GetVerificationLevel_complete.

(* ---------------------------------------------------------------------- *)
(* the version gate of a demanded plugin                                   *)
(* ---------------------------------------------------------------------- *)

Theorem C02_gen_IsValid_equiv : forall s, gen_semver_IsValid s = sv_valid s.
Proof. exact gen_IsValid_equiv. Qed.
Print Assumptions C02_gen_IsValid_equiv.

(* = C02_Versions.ver_ge ("not too old"), x/mod/semver.Compare being an oracle that answers like
   C20's mirror of it on the arguments processSignature can pass *)
Theorem C02_gen_isRequiredVerificationPluginVer_equiv : forall gcmp, compare_agrees gcmp -> compare_range gcmp ->
  forall v min, sv_valid v = true ->
    match min with VerifyCore.AStr m => sv_valid m = true | AAbsent => True | _ => False end ->
    gen_verifier_isRequiredVerificationPluginVer gcmp v (minver_string min) = ver_ge v min.
Proof. exact gen_isRequired_equiv. Qed.
Print Assumptions C02_gen_isRequiredVerificationPluginVer_equiv.

(* ---------------------------------------------------------------------- *)
(* the answer of the revocation validator (fix d78db00)                    *)
(* ---------------------------------------------------------------------- *)

Theorem C02_gen_checkRevocationResults_iff : forall (C : Type) results (chain : list C),
  gen_verifier_checkRevocationResults C results chain = None
  <-> List.length results = List.length chain /\ forallb res_nonnil results = true.
Proof. exact gen_checkRevocationResults_iff. Qed.
Print Assumptions C02_gen_checkRevocationResults_iff.

(* revocationFinalResult after that check: total (fix a146158), ResultOK iff every certificate
   is OK or non-revokable *)
Theorem C02_gen_revocationFinalResult_ok_iff : forall (C : Type) (subjs : C -> string) results (chain : list C),
  List.length results = List.length chain -> forallb res_nonnil results = true ->
  exists z s, gen_verifier_revocationFinalResult C subjs results chain = Some (z, s)
              /\ (z = 1%Z <-> forallb res_ok results = true).
Proof. exact gen_revocationFinalResult_ok_iff. Qed.
Print Assumptions C02_gen_revocationFinalResult_ok_iff.

(* "revocation ok" ([s_rev_ok] of the model, [Unrevoked] of C02_Compose) on the code's own two
   functions: one result per certificate, each OK or non-revokable *)
Theorem C02_gen_revocation_passes_iff : forall (C : Type) (subjs : C -> string) results (chain : list C),
  (gen_verifier_checkRevocationResults C results chain = None
   /\ exists s, gen_verifier_revocationFinalResult C subjs results chain = Some (1%Z, s))
  <-> rev_answer_ok C results chain.
Proof. exact gen_revocation_passes_iff. Qed.
Print Assumptions C02_gen_revocation_passes_iff.

(* ---------------------------------------------------------------------- *)
(* the plugin headers and the attributes handed to the plugin              *)
(* (verifier/helpers.go; keys and values of type any)                      *)
(* ---------------------------------------------------------------------- *)

(* [attr_state key attrs] reads a header off the attribute list the code sees as the model's
   [attr]: absent / not critical / value not a Go string / the string. [xres_of] is how
   processSignature reads a (value, error) pair: err == errExtendedAttributeNotExist, another
   error, or nil. *)
Theorem C02_gen_extractCriticalStringExtendedAttribute_equiv : forall (C : Type) (si : signature_SignerInfo C) key,
  xres_of (gen_verifier_extractCriticalStringExtendedAttribute C si key)
  = extract_res (attr_state key (SignedAttributes_ExtendedAttributes (SignerInfo_SignedAttributes C si)))
  /\ (snd (gen_verifier_extractCriticalStringExtendedAttribute C si key) <> None ->
      fst (gen_verifier_extractCriticalStringExtendedAttribute C si key) = "").
Proof. exact gen_extract_equiv. Qed.
Print Assumptions C02_gen_extractCriticalStringExtendedAttribute_equiv.

(* the demand: absent / malformed (not critical, not a string, blank) / the plugin name *)
Theorem C02_gen_getVerificationPlugin_equiv : forall (C : Type) (si : signature_SignerInfo C),
  xres_of (gen_verifier_getVerificationPlugin C si)
  = plugin_res (attr_state hdr_plugin (SignedAttributes_ExtendedAttributes (SignerInfo_SignedAttributes C si)))
  /\ (snd (gen_verifier_getVerificationPlugin C si) <> None -> fst (gen_verifier_getVerificationPlugin C si) = "").
Proof. exact gen_getVerificationPlugin_equiv. Qed.
Print Assumptions C02_gen_getVerificationPlugin_equiv.

(* ... and [plugin_res] is the decision VerifyCore.discover takes on the header *)
Theorem C02_gen_discover_by_plugin_res : forall sc,
  discover sc
  = match plugin_res (s_plugin_attr sc) with
    | XErr => DErr EOther []
    | XAbsent => if s_nonstring_crit sc then DErr EInconclusive [] else DNoPlugin
    | XVal name => if s_nonstring_crit sc then DErr EInconclusive [] else lookup_plugin sc name
    end.
Proof. exact discover_by_plugin_res. Qed.
Print Assumptions C02_gen_discover_by_plugin_res.

(* the demanded minimum version: absent / malformed (not critical, not a string, blank, not
   SemVer) / the version *)
Theorem C02_gen_getVerificationPluginMinVersion_equiv : forall (C : Type) (si : signature_SignerInfo C),
  xres_of (gen_verifier_getVerificationPluginMinVersion C si)
  = minver_res (attr_state hdr_minver (SignedAttributes_ExtendedAttributes (SignerInfo_SignedAttributes C si)))
  /\ (snd (gen_verifier_getVerificationPluginMinVersion C si) <> None ->
      fst (gen_verifier_getVerificationPluginMinVersion C si) = "").
Proof. exact gen_getVerificationPluginMinVersion_equiv. Qed.
Print Assumptions C02_gen_getVerificationPluginMinVersion_equiv.

Theorem C02_gen_minver_error_by_minver_res : forall sc,
  s_minver_valid sc = minver_valid_of (s_minver_attr sc) ->
  minver_error sc = match minver_res (s_minver_attr sc) with XErr => true | _ => false end.
Proof. exact minver_error_by_minver_res. Qed.
Print Assumptions C02_gen_minver_error_by_minver_res.

(* what is handed to the plugin: every attribute with a Go-string key other than the two plugin
   headers, critical or not, in order = [s_other] / [other_keys] of the scenario *)
Theorem C02_gen_getNonPluginExtendedCriticalAttributes_equiv : forall (C : Type) (si : signature_SignerInfo C),
  map attr_kc (gen_verifier_getNonPluginExtendedCriticalAttributes C si)
  = other_of (SignedAttributes_ExtendedAttributes (SignerInfo_SignedAttributes C si))
  /\ Forall (fun a => exists k, Attribute_Key a = GoLib.AStr "string" k)
            (gen_verifier_getNonPluginExtendedCriticalAttributes C si).
Proof. exact gen_getNonPlugin_equiv. Qed.
Print Assumptions C02_gen_getNonPluginExtendedCriticalAttributes_equiv.

(* "was this attribute processed": slices.ContainsAny on a string key never panics and is
   membership among the Go strings the plugin listed *)
Theorem C02_gen_ContainsAny_equiv : forall l k,
  gen_slices_ContainsAny l (GoLib.AStr "string" k) = Some (mem_str k (strs_of l)).
Proof. exact gen_ContainsAny_equiv. Qed.
Print Assumptions C02_gen_ContainsAny_equiv.

(* hence the model's [crit_processed] (clause 2e: a critical attribute left unprocessed) is the
   conjunction of the code's own tests over the critical attributes it hands to the plugin *)
Theorem C02_gen_crit_processed_by_ContainsAny : forall sc (l : list signature_Attribute) (processed : list anyv),
  s_other sc = other_of l ->
  crit_processed sc (strs_of processed)
  = forallb (fun kc => match gen_slices_ContainsAny processed (GoLib.AStr "string" (fst kc)) with
                       | Some b => b | None => false end)
            (filter snd (other_of l)).
Proof. exact crit_processed_by_ContainsAny. Qed.
Print Assumptions C02_gen_crit_processed_by_ContainsAny.

(* ---------------------------------------------------------------------- *)
(* ( *verifier).verifyRevocation: the native revocation validation          *)
(* ---------------------------------------------------------------------- *)

(* For every verifier configuration and outcome (non-nil envelope content and level): the function
   returns one result of type "revocation" carrying the action the level assigns to revocation,
   and its Error is nil EXACTLY WHEN the configured validator (code-signing validator, else the
   deprecated client; none configured = failure) answered without error one result per certificate
   of the chain, each OK or non-revokable. This is [s_rev_ok] of the scenario ("revocation ok" of
   the property's quantifier; [Unrevoked] of C02_Compose) on the code's own body. Oracles: the
   validator itself (a function field of the verifier) and SignerInfo.AuthenticSigningTime. *)
Theorem C02_gen_verifyRevocation_spec :
  forall (C : Type) (subjs : C -> string) (ast : ptr (signature_SignerInfo C) -> Z * option GoLib.err) (PM : Type)
         (v : verifier_verifier C PM) outcome o env lvl,
  ptr_val outcome = Some o ->
  ptr_val (VerificationOutcome_EnvelopeContent C o) = Some env ->
  ptr_val (VerificationOutcome_VerificationLevel C o) = Some lvl ->
  exists r, gen_verifier_verifier_verifyRevocation C subjs ast PM v outcome = Some (PNew r)
            /\ ValidationResult_Type r = "revocation"
            /\ ValidationResult_Action r = enf_get lvl "revocation"
            /\ (ValidationResult_Error r = None <-> rev_ok_of C ast PM v env).
Proof. exact gen_verifyRevocation_spec. Qed.
Print Assumptions C02_gen_verifyRevocation_spec.

(* ---------------------------------------------------------------------- *)
(* executePlugin: what the plugin is asked, and the nil answer              *)
(* ---------------------------------------------------------------------- *)

(* With a plugin and an envelope: the plugin is asked once ([vsig], the oracle for
   VerifyPlugin.VerifySignature), for exactly the capabilities to verify and the statement's trusted
   identities, and is handed the keys of getNonPluginExtendedCriticalAttributes = [other_keys] of
   the scenario as attributes to process (the [o_exec] component of the model's observation,
   theorem C02_plugin_request); [exec_post]: a nil answer without error becomes an error (fix
   686cc56), anything else is handed on unchanged. *)
Theorem C02_gen_executePlugin_spec :
  forall (C : Type) (vsig : ptr plugin_VerifySignatureRequest -> ptr plugin_VerifySignatureResponse * option GoLib.err)
         (VP : Type) (raw : C -> list Z) plugin p caps envelope env ids cfg,
  ptr_val plugin = Some p -> ptr_val envelope = Some env ->
  exists req out,
    gen_verifier_executePlugin C vsig VP raw plugin caps envelope ids cfg = Some out
    /\ exec_post (vsig (PNew req)) out
    /\ TrustPolicy_SignatureVerification (VerifySignatureRequest_TrustPolicy req) = caps
    /\ TrustPolicy_TrustedIdentities (VerifySignatureRequest_TrustPolicy req) = ids
    /\ Signature_UnprocessedAttributes (VerifySignatureRequest_Signature req)
       = map fst (other_of (SignedAttributes_ExtendedAttributes (SignerInfo_SignedAttributes C (EnvelopeContent_SignerInfo C env))))
    /\ VerifySignatureRequest_PluginConfig req = cfg.
Proof. exact gen_executePlugin_spec. Qed.
Print Assumptions C02_gen_executePlugin_spec.

(* ---------------------------------------------------------------------- *)
(* stages of the model on the generated functions                           *)
(* ---------------------------------------------------------------------- *)

(* the revocation stage of VerifyCore.native (verifyRevocation, then isCriticalFailure) on the
   code's own two functions: the reported result is [mk_res TRev (l_rev lvl) (negb s_rev_ok)], the
   early exit is [is_critical_failure (l_rev lvl) (negb s_rev_ok)]; b is the scenario's [s_rev_ok] *)
Theorem C02_gen_revocation_stage :
  forall (C : Type) (subjs : C -> string) ast (PM : Type) (v : verifier_verifier C PM) outcome o env lvl b,
  ptr_val outcome = Some o ->
  ptr_val (VerificationOutcome_EnvelopeContent C o) = Some env ->
  ptr_val (VerificationOutcome_VerificationLevel C o) = Some lvl ->
  (rev_ok_of C ast PM v env <-> b = true) ->
  exists r, gen_verifier_verifier_verifyRevocation C subjs ast PM v outcome = Some (PNew r)
            /\ ValidationResult_Type r = "revocation"
            /\ vr_action r = l_rev (glevel_of lvl) /\ vr_failed r = negb b
            /\ gen_verifier_isCriticalFailure r = is_critical_failure (l_rev (glevel_of lvl)) (negb b).
Proof. exact gen_revocation_stage. Qed.
Print Assumptions C02_gen_revocation_stage.

(* the version facts of a scenario are what the code's own IsValid / isRequiredVerificationPluginVer
   answer ([plugin_of] of C02_Versions) *)
Theorem C02_gen_version_gate : forall gcmp, compare_agrees gcmp -> compare_range gcmp ->
  forall version min caps,
    match min with VerifyCore.AStr m => sv_valid m = true | AAbsent => True | _ => False end ->
    PMPlugin (gen_semver_IsValid version)
             (gen_semver_IsValid version && gen_verifier_isRequiredVerificationPluginVer gcmp version (minver_string min)) caps
    = PMPlugin (sv_valid version) (sv_valid version && ver_ge version min) caps.
Proof. exact gen_version_gate. Qed.
Print Assumptions C02_gen_version_gate.

(* transported C02_too_old_rejects: the code's own version test says "too old" => rejected as
   inconclusive right after integrity, whatever the level, capabilities and plugin answer *)
Theorem C02_gen_too_old_rejects : forall gcmp, compare_agrees gcmp -> compare_range gcmp ->
  forall lvl sc version caps n m,
  s_integrity_ok sc = true -> s_nonstring_crit sc = false ->
  s_plugin_attr sc = VerifyCore.AStr n -> blank n = false ->
  s_minver_attr sc = VerifyCore.AStr m -> blank m = false -> gen_semver_IsValid m = true ->
  gen_semver_IsValid version = true ->
  gen_verifier_isRequiredVerificationPluginVer gcmp version m = false ->
  verify_core lvl (versioned sc version caps)
  = mk_obs EInconclusive [mk_res TIntegrity Enforce false] false [n] None.
Proof. exact gen_too_old_rejects. Qed.
Print Assumptions C02_gen_too_old_rejects.


(* ====================================================================== *)
(* ( *verifier).processSignature ITSELF                                     *)
(* ====================================================================== *)

(* The GoLite translation of the whole function (theories/C02_Gen.v,
   gen_verifier_verifier_processSignature, wrapped as [run O K]) is the staged model
   VerifyCore.process_signature = verify_core, the object of every C02 theorem.

   [O : oracles]  every call that leaves the function: verifyIntegrity, loadX509TrustStores,
                  verifyAuthenticity, verifyX509TrustedIdentities, verifyExpiry, verifyAuthenticTimestamp,
                  the revocation validator + AuthenticSigningTime (through the translated verifyRevocation),
                  pluginManager.Get, the plugin's get-plugin-metadata and verify-signature (through the
                  translated executePlugin), x/mod/semver.Compare, and processPluginResponse (refused by
                  the translator: it writes through a pointer it finds in outcome.VerificationResults).
   [K : call O]   the arguments (verifier, blob, policy name, identities, stores, config, outcome).
   [F : facts O]  what the oracles answered and the five native facts.
   [Describes O K F] = each oracle answers like the model of it (C02_GenSig.Describes, 16 clauses);
   [scenario_of O K F] = the VerifyCore scenario read off the envelope's extended attributes (header
   states, attributes handed to the plugin, integer-labelled critical attribute), the manager's and the
   plugin's answers (installed / metadata / version facts computed by the code's own IsValid and
   isRequiredVerificationPluginVer / capabilities) and the native facts.
   Conclusion [matches_model]: the function returns (no nil dereference), the results it appended to
   outcome.VerificationResults are the model's o_results in order (type, action as the code reads it,
   failed = Error is not nil - including the authenticity result whose Error is overwritten by the
   identity check AFTER it was appended), the error has the model's class (nil / the Error of the
   reported result of that type / ErrorVerificationInconclusive / another error), EnvelopeContent is set
   and the level untouched. *)
Theorem C02_gen_processSignature_is_model : forall (O : oracles) (K : call O) (F : facts O),
  Describes O K F ->
  matches_model O K F (run O K) (obs2 (process_signature (level_of_call O F) (scenario_of O K F))).
Proof. exact gen_processSignature_is_model. Qed.
Print Assumptions C02_gen_processSignature_is_model.

Theorem C02_gen_processSignature_returns : forall (O : oracles) (K : call O) (F : facts O),
  Describes O K F ->
  let ob := verify_core (level_of_call O F) (scenario_of O K F) in
  exists out e news,
    run O K = Some (out, e)
    /\ VerificationOutcome_VerificationResults (or_C O) out
       = VerificationOutcome_VerificationResults (or_C O) (cl_outcome K) ++ news
    /\ Forall2 res_is news (o_results ob)
    /\ err_rel e (o_err ob) news
    /\ VerificationOutcome_EnvelopeContent (or_C O) out = ft_envp F
    /\ VerificationOutcome_VerificationLevel (or_C O) out = VerificationOutcome_VerificationLevel (or_C O) (cl_outcome K)
    /\ (e = None <-> accepted ob = true).
Proof. exact gen_processSignature_returns. Qed.
Print Assumptions C02_gen_processSignature_returns.

(* transported C02_exact_all: THE acceptance rule of the property, on the code's own function *)
Theorem C02_gen_processSignature_rejects_iff : forall (O : oracles) (K : call O) (F : facts O),
  Describes O K F ->
  let l := level_of_call O F in let sc := scenario_of O K F in
  exists out e, run O K = Some (out, e)
    /\ (e <> None <->
        s_integrity_ok sc = false \/ enforced_failure l sc = true \/ plugin_or_attribute_problem l sc = true).
Proof. exact gen_processSignature_rejects_iff. Qed.
Print Assumptions C02_gen_processSignature_rejects_iff.

(* transported C02_monotone_all *)
Theorem C02_gen_processSignature_monotone : forall (O : oracles) (K1 K2 : call O) (F1 F2 : facts O),
  Describes O K1 F1 -> Describes O K2 F2 ->
  scenario_of O K1 F1 = scenario_of O K2 F2 ->
  level_le (level_of_call O F1) (level_of_call O F2) = true ->
  forall out1 out2 e2, run O K1 = Some (out1, None) -> run O K2 = Some (out2, e2) -> e2 = None.
Proof. exact gen_processSignature_monotone. Qed.
Print Assumptions C02_gen_processSignature_monotone.

(* non-vacuity: the hypotheses [Describes] are satisfiable, and on that instance the generated function
   can also simply be run: an expired signature under the permissive level with no revocation
   validator configured is accepted with the two failures reported, exactly as the model says *)
Theorem C02_gen_processSignature_example :
  Describes ex_O ex_K ex_F
  /\ (exists out, run ex_O ex_K = Some (out, None)
                  /\ List.length (VerificationOutcome_VerificationResults unit out) = 5%nat)
  /\ verify_core (level_of_call ex_O ex_F) (scenario_of ex_O ex_K ex_F)
     = mk_obs ENone [mk_res TIntegrity Enforce false; mk_res TAuth Enforce false; mk_res TExpiry Log true;
                     mk_res TTimestamp Log false; mk_res TRev Log true] true [] None.
Proof. exact gen_processSignature_example. Qed.
Print Assumptions C02_gen_processSignature_example.
