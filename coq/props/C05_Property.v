(* C05 — Revocation checking fails closed over the whole certificate chain.
   Statements only; every proof is [exact <lemma of C05_Proofs>].
   Quantifiers: every chain length, every result vector (one result per
   certificate: the revocation.Validator contract), every validator
   configuration, scheme and action. *)
From NV Require Import Base C05_Model C05_Proofs.

(* passes only if every certificate is OK or non-revokable (and then it does) *)
Theorem C05_pass_iff : forall i rs,
  i_action i <> Skip -> i_vout i = VRes rs -> List.length rs = List.length (i_chain i) ->
  (o_result (model i) = Some Pass <-> Forall (fun r => r = ROK \/ r = RNonRevokable) rs).
Proof. exact pass_iff. Qed.
Print Assumptions C05_pass_iff.

(* any revoked certificate => fails as revoked and names a revoked certificate *)
Theorem C05_revoked : forall i rs,
  i_action i <> Skip -> i_vout i = VRes rs -> List.length rs = List.length (i_chain i) ->
  In RRevoked rs ->
  exists k, k < List.length rs /\ nth k rs ROK = RRevoked /\
            o_result (model i) = Some (Revoked (nth k (i_chain i) "")).
Proof. exact revoked_named. Qed.
Print Assumptions C05_revoked.

(* any other status => fails as unknown, naming a certificate whose result is not OK *)
Theorem C05_unknown : forall i rs,
  i_action i <> Skip -> i_vout i = VRes rs -> List.length rs = List.length (i_chain i) ->
  ~ Forall (fun r => r = ROK \/ r = RNonRevokable) rs -> ~ In RRevoked rs ->
  exists k, k < List.length rs /\ is_ok (nth k rs ROK) = false /\
            o_result (model i) = Some (Unknown (nth k (i_chain i) "")).
Proof. exact unknown_named. Qed.
Print Assumptions C05_unknown.

(* an error from the validator fails the validation *)
Theorem C05_validator_error : forall i,
  i_action i <> Skip -> i_vout i = VErr -> o_result (model i) = Some Inconclusive.
Proof. exact validator_error. Qed.
Print Assumptions C05_validator_error.

(* exactly one consultation, of the context-aware validator when supplied and of
   the deprecated client otherwise, with the complete chain, and with the
   signing time iff the scheme is signingAuthority *)
Theorem C05_arguments : forall i,
  i_action i <> Skip -> (i_val i = 1 \/ i_val i = 2 \/ i_val i = 3)%N ->
  o_calls (model i) = [mk_call (if (i_val i =? 2)%N then 2 else 1) (i_chain i) (i_sa i)].
Proof. exact calls_exact. Qed.
Print Assumptions C05_arguments.

(* skipped revocation is not performed at all *)
Theorem C05_skip : forall i, i_action i = Skip -> model i = mk_obs [] None false.
Proof. exact skip_nothing. Qed.
Print Assumptions C05_skip.

(* the action decides: enforce rejects exactly on a failed result, log reports it *)
Theorem C05_rejected_iff : forall i,
  o_rejected (model i) = true <->
  i_action i = Enforce /\ exists c, o_result (model i) = Some c /\ c <> Pass.
Proof. exact rejected_iff. Qed.
Print Assumptions C05_rejected_iff.

Theorem C05_log_reports : forall i, i_action i = Log ->
  o_rejected (model i) = false /\ exists c, o_result (model i) = Some c.
Proof. exact log_reports. Qed.
Print Assumptions C05_log_reports.

(* the boolean oracle evaluated on the implementation's observations is met by
   the model on every well-formed input *)
Theorem C05_model_meets_oracle : forall i, wf i = true -> spec_ok i (model i) = true.
Proof. exact model_spec_ok. Qed.
Print Assumptions C05_model_meets_oracle.

(* non-vacuity: a concrete chain with a revoked intermediate *)
Example C05_example :
  let i := mk_input Enforce true 1 ["leaf"; "inter"; "root"] (VRes [RUnknown; RRevoked; ROK]) in
  wf i = true /\ model i = mk_obs [mk_call 1 ["leaf"; "inter"; "root"] true] (Some (Revoked "inter")) true.
Proof. split; reflexivity. Qed.
