(* C05 — Revocation checking fails closed over the whole certificate chain.
   Statements only; every proof is [exact <lemma of C05_Proofs>].
   Quantifiers: every chain length, every result vector (one result per
   certificate: the revocation.Validator contract), every validator
   configuration, scheme and action. *)
From NV Require Import Base C05_Model C05_Proofs C05_Full.

(* passes only if every certificate is OK or non-revokable (and then it does) *)
Theorem C05_pass_iff : forall i rs,
  i_action i <> Skip -> i_vout i = VRes rs -> List.length rs = List.length (i_chain i) ->
  (o_result (model i) = Some Pass <-> Forall (fun r => r = ROK \/ r = RNonRevokable) rs).
Proof. exact pass_iff. Qed.
Print Assumptions C05_pass_iff.

(* any revoked certificate => fails as revoked and names a revoked certificate *)
Theorem C05_revoked : forall i rs,
  i_action i <> Skip -> i_vout i = VRes rs -> List.length rs = List.length (i_chain i) ->
  In RRevoked rs ->
  exists k, k < List.length rs /\ nth k rs ROK = RRevoked /\
            o_result (model i) = Some (Revoked (nth k (i_chain i) "")).
Proof. exact revoked_named. Qed.
Print Assumptions C05_revoked.

(* any other status => fails as unknown, naming a certificate whose result is not OK *)
Theorem C05_unknown : forall i rs,
  i_action i <> Skip -> i_vout i = VRes rs -> List.length rs = List.length (i_chain i) ->
  ~ Forall (fun r => r = ROK \/ r = RNonRevokable) rs -> ~ In RRevoked rs ->
  exists k, k < List.length rs /\ is_ok (nth k rs ROK) = false /\
            o_result (model i) = Some (Unknown (nth k (i_chain i) "")).
Proof. exact unknown_named. Qed.
Print Assumptions C05_unknown.

(* an error from the validator fails the validation *)
Theorem C05_validator_error : forall i,
  i_action i <> Skip -> i_vout i = VErr -> o_result (model i) = Some Inconclusive.
Proof. exact validator_error. Qed.
Print Assumptions C05_validator_error.

(* exactly one consultation, of the context-aware validator when supplied and of
   the deprecated client otherwise, with the complete chain, and with the
   signing time iff the scheme is signingAuthority *)
Theorem C05_arguments : forall i,
  i_action i <> Skip -> (i_val i = 1 \/ i_val i = 2 \/ i_val i = 3)%N ->
  o_calls (model i) = [mk_call (if (i_val i =? 2)%N then 2 else 1) (i_chain i) (i_sa i)].
Proof. exact calls_exact. Qed.
Print Assumptions C05_arguments.

(* skipped revocation is not performed at all *)
Theorem C05_skip : forall i, i_action i = Skip -> model i = mk_obs [] None false.
Proof. exact skip_nothing. Qed.
Print Assumptions C05_skip.

(* the action decides: enforce rejects exactly on a failed result, log reports it *)
Theorem C05_rejected_iff : forall i,
  o_rejected (model i) = true <->
  i_action i = Enforce /\ exists c, o_result (model i) = Some c /\ c <> Pass.
Proof. exact rejected_iff. Qed.
Print Assumptions C05_rejected_iff.

Theorem C05_log_reports : forall i, i_action i = Log ->
  o_rejected (model i) = false /\ exists c, o_result (model i) = Some c.
Proof. exact log_reports. Qed.
Print Assumptions C05_log_reports.

(* the boolean oracle evaluated on the implementation's observations is met by
   the model on every well-formed input *)
Theorem C05_model_meets_oracle : forall i, wf i = true -> spec_ok i (model i) = true.
Proof. exact model_spec_ok. Qed.
Print Assumptions C05_model_meets_oracle.

(* since fix d78db00 of /repo (checkRevocationResults) the contract hypotheses above are no longer
   needed: an answer that is not one result per certificate is inconclusive *)
Theorem C05_pass_iff_total : forall i rs,
  i_action i <> Skip -> i_vout i = VRes rs ->
  (o_result (model i) = Some Pass <->
   List.length rs = List.length (i_chain i) /\ Forall (fun r => r = ROK \/ r = RNonRevokable) rs).
Proof. exact pass_iff_total. Qed.
Print Assumptions C05_pass_iff_total.

Theorem C05_incomplete_answer : forall i rs,
  i_action i <> Skip -> i_vout i = VRes rs -> List.length rs <> List.length (i_chain i) ->
  o_result (model i) = Some Inconclusive.
Proof. exact model_incomplete. Qed.
Print Assumptions C05_incomplete_answer.

Theorem C05_model_meets_oracle_total : forall i, spec_ok i (model i) = true.
Proof. exact model_spec_ok_total. Qed.
Print Assumptions C05_model_meets_oracle_total.

(* non-vacuity: a concrete chain with a revoked intermediate *)
Example C05_example :
  let i := mk_input Enforce true 1 ["leaf"; "inter"; "root"] (VRes [RUnknown; RRevoked; ROK]) in
  wf i = true /\ model i = mk_obs [mk_call 1 ["leaf"; "inter"; "root"] true] (Some (Revoked "inter")) true.
Proof. split; reflexivity. Qed.

(* further non-vacuity witnesses for the theorems above: each hypothesis set is met by a
   concrete input, and the conclusion is the non-trivial one *)
Example C05_example_pass :
  let i := mk_input Enforce false 2 ["leaf"; "root"] (VRes [ROK; RNonRevokable]) in
  i_action i <> Skip /\ wf i = true /\ Forall (fun r => r = ROK \/ r = RNonRevokable) [ROK; RNonRevokable] /\
  model i = mk_obs [mk_call 2 ["leaf"; "root"] false] (Some Pass) false.
Proof. cbv zeta. split; [discriminate|]. split; [reflexivity|]. split; [|reflexivity]. repeat (apply Forall_cons; [auto|]). apply Forall_nil. Qed.

Example C05_example_unknown_last_wins_not :   (* [OK; Unknown; OK]: the OK inspected last does not win *)
  let i := mk_input Enforce false 3 ["leaf"; "inter"; "root"] (VRes [ROK; RUnknown; ROK]) in
  wf i = true /\ ~ Forall (fun r => r = ROK \/ r = RNonRevokable) [ROK; RUnknown; ROK] /\ ~ In RRevoked [ROK; RUnknown; ROK] /\
  model i = mk_obs [mk_call 1 ["leaf"; "inter"; "root"] false] (Some (Unknown "inter")) true.
Proof.
  repeat split.
  - intros H. inversion H as [|? ? _ H2]. inversion H2 as [|? ? H3 _]. destruct H3; discriminate.
  - cbn. intros [H|[H|[H|[]]]]; discriminate.
Qed.

Example C05_example_other_value :            (* a result value outside the four constants fails as unknown *)
  model (mk_input Log true 1 ["leaf"] (VRes [ROther])) = mk_obs [mk_call 1 ["leaf"] true] (Some (Unknown "leaf")) false.
Proof. reflexivity. Qed.

Example C05_example_error :
  model (mk_input Enforce true 2 ["leaf"; "root"] VErr) = mk_obs [mk_call 2 ["leaf"; "root"] true] (Some Inconclusive) true.
Proof. reflexivity. Qed.

Example C05_example_skip :
  model (mk_input Skip true 3 ["leaf"; "root"] (VRes [RRevoked; RRevoked])) = mk_obs [] None false.
Proof. reflexivity. Qed.

Example C05_example_log :
  model (mk_input Log false 3 ["leaf"; "root"] (VRes [RRevoked; ROK])) =
  mk_obs [mk_call 1 ["leaf"; "root"] false] (Some (Revoked "leaf")) false.
Proof. reflexivity. Qed.

(* ====================================================================== *)
(* FULL-STRENGTH statements, over the full model [xmodel] (C05_Model.v, second part):
   every answer a validator can give is an input - an error with or without results,
   fewer or more results than certificates, nil entries, every method annotation and
   server result - as are the value of the signing time and the verifier without any
   validator. Theorems that carry [owner x = OwnerNotation] are about the validation as notation
   performs it itself (no verification plugin named, or one that does not advertise the revocation
   capability); the routing is the last part of this file.
   NO theorem below assumes anything about the validator's answer unless the
   assumption is the case distinction the theorem is about ([complete x = true]: exactly one
   non-nil result per certificate, which the code checks itself since fix d78db00).
   [model] is a projection of [xmodel]: C05_model_is_projection.
   [xmodel_v0] is the code before that fix; the defect it had stays stated below. *)

(* passes if and only if a validator exists, it returned no error, exactly one result per
   certificate, each of them present and OK or non-revokable. Total. *)
Theorem C05_full_pass_iff : forall x, owner x = OwnerNotation -> x_action x <> Skip ->
  (xo_result (xmodel x) = Some Pass <->
   x_val x <> 4%N /\ x_err x = false /\
   List.length (x_results x) = List.length (x_chain x) /\
   Forall (fun o => exists c, o = Some c /\ (cr_result c = ROK \/ cr_result c = RNonRevokable)) (x_results x)).
Proof. intros x Ho. rewrite (xmodel_notation x Ho). exact (xpass_iff x). Qed.
Print Assumptions C05_full_pass_iff.

(* the clause as worded, with no hypothesis on the validator's answer: passes only if EVERY
   CERTIFICATE OF THE CHAIN was reported, and reported OK or non-revokable *)
Theorem C05_full_pass_only_if : forall x, owner x = OwnerNotation -> x_action x <> Skip ->
  xo_result (xmodel x) = Some Pass ->
  forall k s, nth_error (x_chain x) k = Some s ->
    exists c, nth_error (x_results x) k = Some (Some c) /\ (cr_result c = ROK \/ cr_result c = RNonRevokable).
Proof. intros x Ho. rewrite (xmodel_notation x Ho). exact (xpass_only_if x). Qed.
Print Assumptions C05_full_pass_only_if.

(* the converse direction, with everything that must also hold: accepted, no panic *)
Theorem C05_full_pass_if : forall x, owner x = OwnerNotation -> x_action x <> Skip -> x_val x <> 4%N -> x_err x = false ->
  List.length (x_results x) = List.length (x_chain x) ->
  Forall (fun o => exists c, o = Some c /\ (cr_result c = ROK \/ cr_result c = RNonRevokable)) (x_results x) ->
  xo_result (xmodel x) = Some Pass /\ xo_rejected (xmodel x) = false /\ xo_panic (xmodel x) = false.
Proof. intros x Ho. rewrite (xmodel_notation x Ho). exact (xpass_if x). Qed.
Print Assumptions C05_full_pass_if.

(* an answer without error that is NOT exactly one non-nil result per certificate (fewer, more,
   none at all, a nil entry) fails the validation as inconclusive: checkRevocationResults *)
Theorem C05_full_incomplete_answer : forall x, owner x = OwnerNotation -> x_action x <> Skip -> x_err x = false ->
  (List.length (x_results x) <> List.length (x_chain x) \/ In None (x_results x)) ->
  xo_result (xmodel x) = Some Inconclusive /\ xo_panic (xmodel x) = false /\
  xo_rejected (xmodel x) = match x_action x with Enforce => true | _ => false end.
Proof. intros x Ho. rewrite (xmodel_notation x Ho). exact (xincomplete_answer x). Qed.
Print Assumptions C05_full_incomplete_answer.

Theorem C05_never_panics : forall x, xo_panic (xmodel x) = false.
Proof. exact xnever_panics_all. Qed.
Print Assumptions C05_never_panics.

(* any revoked result in a complete answer => fails as revoked and names exactly the LEAF-MOST
   revoked certificate, whatever the other results are *)
Theorem C05_full_revoked : forall x, owner x = OwnerNotation -> x_action x <> Skip -> x_val x <> 4%N -> x_err x = false ->
  complete x = true -> In RRevoked (xresults x) ->
  exists k s, nth_error (xresults x) k = Some RRevoked /\
              (forall j, j < k -> nth_error (xresults x) j <> Some RRevoked) /\
              nth_error (x_chain x) k = Some s /\
              xo_result (xmodel x) = Some (Revoked s).
Proof. intros x Ho. rewrite (xmodel_notation x Ho). exact (xrevoked x). Qed.
Print Assumptions C05_full_revoked.

(* no revoked result but some result that is not OK / non-revokable (Unknown or any other value)
   => fails as unknown and names exactly the leaf-most such certificate *)
Theorem C05_full_unknown : forall x, owner x = OwnerNotation -> x_action x <> Skip -> x_val x <> 4%N -> x_err x = false ->
  complete x = true ->
  ~ Forall (fun r => r = ROK \/ r = RNonRevokable) (xresults x) -> ~ In RRevoked (xresults x) ->
  exists k r s, nth_error (xresults x) k = Some r /\ is_ok r = false /\ r <> RRevoked /\
                (forall j r', j < k -> nth_error (xresults x) j = Some r' -> is_ok r' = true) /\
                nth_error (x_chain x) k = Some s /\
                xo_result (xmodel x) = Some (Unknown s).
Proof. intros x Ho. rewrite (xmodel_notation x Ho). exact (xunknown x). Qed.
Print Assumptions C05_full_unknown.

(* what [complete] and [xresults] mean, so that the two theorems above can be read without the
   definitions: the slice has one entry per certificate, none nil, and entry k of [xresults]
   is the result reported for certificate k *)
Theorem C05_complete_meaning : forall x,
  (complete x = true <->
   List.length (x_results x) = List.length (x_chain x) /\ ~ In None (x_results x)) /\
  (complete x = true -> forall k,
     nth_error (xresults x) k =
     option_map cr_result (match nth_error (x_results x) k with Some o => o | None => None end)).
Proof. exact complete_meaning. Qed.
Print Assumptions C05_complete_meaning.

(* an error from the validator fails the validation as inconclusive WHATEVER results come with it *)
Theorem C05_full_validator_error : forall x, owner x = OwnerNotation -> x_action x <> Skip -> x_err x = true ->
  xo_result (xmodel x) = Some Inconclusive /\ xo_panic (xmodel x) = false /\
  xo_rejected (xmodel x) = match x_action x with Enforce => true | _ => false end.
Proof. intros x Ho. rewrite (xmodel_notation x Ho). exact (xvalidator_error x). Qed.
Print Assumptions C05_full_validator_error.

Theorem C05_full_error_ignores_results : forall x rs', x_err x = true ->
  xmodel x = xmodel (mk_xinput_p (x_action x) (x_sa x) (x_val x) (x_stime x) (x_chain x) true rs' (x_plugin x)).
Proof. exact xerror_ignores_results_all. Qed.
Print Assumptions C05_full_error_ignores_results.

(* mandatory presence: a verifier without any validator fails the validation, consulting nothing;
   and no constructor produces such a verifier *)
Theorem C05_full_no_validator : forall x, owner x = OwnerNotation -> x_action x <> Skip -> x_val x = 4%N ->
  xo_calls (xmodel x) = [] /\ xo_result (xmodel x) = Some Inconclusive /\
  xo_rejected (xmodel x) = match x_action x with Enforce => true | _ => false end.
Proof. intros x Ho. rewrite (xmodel_notation x Ho). exact (xno_validator x). Qed.
Print Assumptions C05_full_no_validator.

Theorem C05_constructor_installs_validator : forall supplied_validator supplied_client,
  consulted (set_revocation supplied_validator supplied_client) <> None.
Proof. exact constructor_installs_validator. Qed.
Print Assumptions C05_constructor_installs_validator.

(* exactly one consultation, through the interface setRevocation selected, with the complete
   chain and with the signing time of the signed attributes under signingAuthority and the zero
   time otherwise - independently of what the validator then answers *)
Theorem C05_full_arguments : forall x, owner x = OwnerNotation -> x_action x <> Skip -> (x_val x = 1 \/ x_val x = 2 \/ x_val x = 3)%N ->
  xo_calls (xmodel x) =
    [mk_xcall (if (x_val x =? 2)%N then 2 else 1) (x_chain x) (if x_sa x then x_stime x else None)].
Proof. intros x Ho. rewrite (xmodel_notation x Ho). exact (xarguments x). Qed.
Print Assumptions C05_full_arguments.

Theorem C05_full_selection : forall a b x, owner x = OwnerNotation ->
  x_action x <> Skip -> x_val x = val_of_options a b -> (a || b = true) ->
  map (fun k => Some (xk_which k)) (xo_calls (xmodel x)) = [consulted (set_revocation a b)].
Proof. intros a b x Ho. rewrite (xmodel_notation x Ho). exact (selection_matches_xmodel a b x). Qed.
Print Assumptions C05_full_selection.

(* skipped revocation: nothing consulted, no result entry, no rejection, whatever the validator would say *)
Theorem C05_full_skip : forall x, owner x = OwnerNotation -> x_action x = Skip -> xmodel x = mk_xobs [] None false false.
Proof. intros x Ho. rewrite (xmodel_notation x Ho). exact (xmodel_skip x). Qed.
Print Assumptions C05_full_skip.

(* fail closed at the level of Verify: under enforce a signature gets past the revocation step
   (no error, no panic) exactly when the revocation validation passed *)
Theorem C05_full_accept_iff : forall x, x_action x = Enforce ->
  (xo_rejected (xmodel x) = false /\ xo_panic (xmodel x) = false <-> xo_result (xmodel x) = Some Pass).
Proof. exact xaccept_iff_all. Qed.
Print Assumptions C05_full_accept_iff.

Theorem C05_full_rejected_iff : forall x, owner x = OwnerNotation ->
  xo_rejected (xmodel x) = true <->
  x_action x = Enforce /\ exists c, xo_result (xmodel x) = Some c /\ c <> Pass.
Proof. intros x Ho. rewrite (xmodel_notation x Ho). exact (xrejected_iff x). Qed.
Print Assumptions C05_full_rejected_iff.

Theorem C05_full_log_reports : forall x, owner x = OwnerNotation -> x_action x = Log ->
  xo_rejected (xmodel x) = false /\ exists c, xo_result (xmodel x) = Some c.
Proof. intros x Ho. rewrite (xmodel_notation x Ho). exact (xlog_reports x). Qed.
Print Assumptions C05_full_log_reports.

(* the OCSP / CRL / fallback method annotations and the per-server results and errors never
   change anything: two inputs that differ only there have the same observation *)
Theorem C05_independent_of_annotations : forall x y,
  x_action x = x_action y -> x_sa x = x_sa y -> x_val x = x_val y -> x_stime x = x_stime y ->
  x_chain x = x_chain y -> x_err x = x_err y -> x_plugin x = x_plugin y ->
  map (option_map cr_result) (x_results x) = map (option_map cr_result) (x_results y) ->
  xmodel x = xmodel y.
Proof. exact xindependent_all. Qed.
Print Assumptions C05_independent_of_annotations.

(* the oracle the harness evaluates on the real code's observations is met by the full model
   on EVERY input (no contract) *)
Theorem C05_full_model_meets_oracle : forall x, xspec_ok x (xmodel x) = true.
Proof. exact xmodel_spec_ok_all. Qed.
Print Assumptions C05_full_model_meets_oracle.

(* [model] (first part) is the projection of [xmodel] that forgets annotations and the value of
   the time, for every decoration of its input *)
Theorem C05_model_is_projection : forall i t err rs,
  (i_val i <= 3)%N -> vout_matches (i_vout i) err rs ->
  let x := mk_xinput (i_action i) (i_sa i) (i_val i) (Some t) (i_chain i) err rs in
  obs_of_x (xmodel x) = model i.
Proof.
  intros i t err rs Hv Hm x. unfold x. rewrite (xmodel_notation _ (owner_mk_xinput _ _ _ _ _ _ _)).
  exact (xmodel_refines_model i t err rs Hv Hm).
Qed.
Print Assumptions C05_model_is_projection.

(* ---------- the code before fix d78db00 (model [xmodel_v0]) ---------- *)
(* the defect the audit found (F1): without checkRevocationResults a validator answering without
   error and with FEWER results than certificates (here none at all) made the validation pass
   under enforce although nothing was reported about a certificate of the chain; the fixed code
   rejects the same input *)
Theorem C05_pass_only_if_v0_refuted :
  exists x, x_action x = Enforce /\ x_err x = false /\ x_val x = 1%N /\ x_plugin x = None /\
            xo_result (xmodel_v0 x) = Some Pass /\ xo_rejected (xmodel_v0 x) = false /\ xo_panic (xmodel_v0 x) = false /\
            (exists k s, nth_error (x_chain x) k = Some s /\ nth_error (x_results x) k = None) /\
            xo_result (xmodel x) = Some Inconclusive /\ xo_rejected (xmodel x) = true.
Proof. exact xpass_only_if_v0_refuted_all. Qed.
Print Assumptions C05_pass_only_if_v0_refuted.

(* (F2) more results than certificates, or a nil entry, made Verify panic *)
Theorem C05_v0_panic_iff : forall x,
  xo_panic (xmodel_v0 x) = true <->
  x_action x <> Skip /\ x_val x <> 4%N /\ x_err x = false /\
  (List.length (x_chain x) < List.length (x_results x) \/ In None (x_results x)).
Proof. exact xv0_panic_iff. Qed.
Print Assumptions C05_v0_panic_iff.

(* the fix changed nothing for a validator that keeps the contract *)
Theorem C05_fix_conservative : forall x, owner x = OwnerNotation -> xwf x = true -> xmodel x = xmodel_v0 x.
Proof. intros x Ho. rewrite (xmodel_notation x Ho). exact (xfix_conservative x). Qed.
Print Assumptions C05_fix_conservative.

(* ---------- non-vacuity of the full statements ---------- *)
Definition cr (r : rres) : option certres := Some (mk_cr r 1 [Some (1%N, true); Some (2%N, false)]).

Example C05_full_example_revoked_leafmost :   (* two revoked: the leaf-most is named; hypotheses of C05_full_revoked hold *)
  let x := mk_xinput Enforce true 2 (Some 1700000000%Z) ["leaf"; "i1"; "i2"; "root"] false
             [cr RUnknown; cr RRevoked; cr RRevoked; cr ROK] in
  x_action x <> Skip /\ x_val x <> 4%N /\ x_err x = false /\ complete x = true /\ In RRevoked (xresults x) /\
  xmodel x = mk_xobs [mk_xcall 2 ["leaf"; "i1"; "i2"; "root"] (Some 1700000000%Z)] (Some (Revoked "i1")) true false.
Proof. cbn. repeat split; try discriminate; auto. Qed.

Example C05_full_example_unknown_leafmost :   (* Unknown and an out-of-range value: the leaf-most non-OK is named *)
  let x := mk_xinput Log false 3 (Some 1700000000%Z) ["leaf"; "inter"; "root"] false
             [cr RNonRevokable; cr ROther; cr RUnknown] in
  complete x = true /\ ~ Forall (fun r => r = ROK \/ r = RNonRevokable) (xresults x) /\ ~ In RRevoked (xresults x) /\
  xmodel x = mk_xobs [mk_xcall 1 ["leaf"; "inter"; "root"] None] (Some (Unknown "inter")) false false.
Proof.
  cbn. repeat split.
  - intros H. inversion H as [|? ? _ H2]. inversion H2 as [|? ? H3 _]. destruct H3; discriminate.
  - intros [H|[H|[H|[]]]]; discriminate.
Qed.

Example C05_full_example_pass :
  let x := mk_xinput Enforce true 1 (Some 1700000000%Z) ["leaf"; "root"] false [cr ROK; Some (mk_cr RNonRevokable 0 [])] in
  xmodel x = mk_xobs [mk_xcall 1 ["leaf"; "root"] (Some 1700000000%Z)] (Some Pass) false false.
Proof. reflexivity. Qed.

Example C05_full_example_error_with_passing_results :   (* seed C05-5: the error decides *)
  xmodel (mk_xinput Enforce false 1 (Some 1700000000%Z) ["leaf"; "root"] true [cr ROK; cr ROK]) =
  mk_xobs [mk_xcall 1 ["leaf"; "root"] None] (Some Inconclusive) true false.
Proof. reflexivity. Qed.

Example C05_full_example_short_vector :          (* (nil, nil): passed before the fix, inconclusive now *)
  let x := mk_xinput Enforce false 1 (Some 1700000000%Z) ["leaf"; "root"] false [] in
  xmodel_v0 x = mk_xobs [mk_xcall 1 ["leaf"; "root"] None] (Some Pass) false false /\
  xmodel x = mk_xobs [mk_xcall 1 ["leaf"; "root"] None] (Some Inconclusive) true false.
Proof. split; reflexivity. Qed.

Example C05_full_example_short_vector_with_revoked :   (* one result for two certificates, and it says revoked: inconclusive, rejected *)
  xmodel (mk_xinput Enforce false 1 (Some 1700000000%Z) ["leaf"; "root"] false [cr RRevoked]) =
  mk_xobs [mk_xcall 1 ["leaf"; "root"] None] (Some Inconclusive) true false.
Proof. reflexivity. Qed.

Example C05_full_example_overlong :              (* panicked before the fix *)
  let x := mk_xinput Log false 2 (Some 1700000000%Z) ["leaf"] false [cr ROK; cr ROK] in
  xmodel_v0 x = mk_xobs [mk_xcall 2 ["leaf"] None] None false true /\
  xmodel x = mk_xobs [mk_xcall 2 ["leaf"] None] (Some Inconclusive) false false.
Proof. split; reflexivity. Qed.

Example C05_full_example_nil_entry :
  let x := mk_xinput Enforce false 3 (Some 1700000000%Z) ["leaf"; "root"] false [cr ROK; None] in
  xo_panic (xmodel_v0 x) = true /\
  xmodel x = mk_xobs [mk_xcall 1 ["leaf"; "root"] None] (Some Inconclusive) true false.
Proof. split; reflexivity. Qed.

Example C05_full_example_no_validator :
  xmodel (mk_xinput Enforce true 4 (Some 1700000000%Z) ["leaf"] false [cr ROK]) =
  mk_xobs [] (Some Inconclusive) true false.
Proof. reflexivity. Qed.

Example C05_full_example_annotations :   (* same results, different annotations: same observation *)
  xmodel (mk_xinput Enforce true 1 (Some 1700000000%Z) ["leaf"; "root"] false
            [Some (mk_cr RUnknown 3 [Some (1%N, true); None; Some (2%N, true)]); Some (mk_cr ROK 0 [None])]) =
  xmodel (mk_xinput Enforce true 1 (Some 1700000000%Z) ["leaf"; "root"] false
            [Some (mk_cr RUnknown 1 []); Some (mk_cr ROK 2 [Some (2%N, false)])]).
Proof. reflexivity. Qed.

Example C05_full_example_projection :
  let i := mk_input Enforce true 1 ["leaf"; "inter"; "root"] (VRes [RUnknown; RRevoked; ROK]) in
  (i_val i <= 3)%N /\ vout_matches (i_vout i) false [cr RUnknown; cr RRevoked; cr ROK].
Proof. repeat split; cbn; lia. Qed.

Example C05_example_incomplete :   (* the first model on a short vector: inconclusive *)
  model (mk_input Enforce false 1 ["leaf"; "root"] (VRes [ROK])) =
  mk_obs [mk_call 1 ["leaf"; "root"] false] (Some Inconclusive) true.
Proof. reflexivity. Qed.

(* ====================================================================== *)
(* WHO OWNS THE REVOCATION CHECK. A signature may name a verification plugin (critical extended
   attribute io.cncf.notary.verificationPlugin); processSignature then routes the revocation
   validation by the capabilities the installed plugin advertises ([x_plugin], [owner]):
   notation performs it itself (the theorems above, which carry [owner x = OwnerNotation]) unless
   the plugin advertises SIGNATURE_VERIFIER.REVOCATION_CHECK. The same rule is
   VerifyCore.native_validations of C02's model (C02_Property: the native check runs iff the level
   does not skip it and the capability list lacks the revocation capability). *)

(* the three owners, in terms of the capability list of the plugin's metadata *)
Theorem C05_full_owner_meaning : forall x,
  (owner x = OwnerNotation <->
     x_plugin x = None \/ exists p, x_plugin x = Some p /\ In PcapTI (xp_caps p) /\ ~ In PcapRev (xp_caps p)) /\
  (owner x = OwnerPlugin <-> exists p, x_plugin x = Some p /\ In PcapRev (xp_caps p)) /\
  (owner x = OwnerNobody <-> exists p, x_plugin x = Some p /\ forall c, In c (xp_caps p) -> c = PcapOther).
Proof. exact owner_meaning. Qed.
Print Assumptions C05_full_owner_meaning.

Theorem C05_owner_plugin_iff : forall x, owner x = OwnerPlugin <-> plugin_owns_revocation x = true.
Proof. exact owner_plugin_owns. Qed.
Print Assumptions C05_owner_plugin_iff.

(* "when revocation is not skipped" + no plugin owns it: notation's own check IS performed - the
   validator is consulted - and in no other situation *)
Theorem C05_full_performed_iff : forall x, (x_val x = 1 \/ x_val x = 2 \/ x_val x = 3)%N ->
  (xo_calls (xmodel x) <> [] <-> x_action x <> Skip /\ owner x = OwnerNotation).
Proof. exact xperformed_iff. Qed.
Print Assumptions C05_full_performed_iff.

(* a plugin that advertises only other capabilities (e.g. trusted identity) changes nothing about
   the revocation validation: same consultation, same result, same rejection *)
Theorem C05_full_plugin_irrelevant : forall x, owner x = OwnerNotation ->
  xmodel x = xmodel (mk_xinput (x_action x) (x_sa x) (x_val x) (x_stime x) (x_chain x) (x_err x) (x_results x)).
Proof. exact xplugin_irrelevant. Qed.
Print Assumptions C05_full_plugin_irrelevant.

(* a plugin that advertises the revocation capability owns the check: the validator is not
   consulted and the plugin's verdict is the revocation result (none at all when the level skips) *)
Theorem C05_full_plugin_owns : forall x, owner x = OwnerPlugin ->
  xo_calls (xmodel x) = [] /\ xo_panic (xmodel x) = false /\
  (x_action x = Skip -> xo_result (xmodel x) = None /\ xo_rejected (xmodel x) = false) /\
  (x_action x <> Skip ->
     xo_result (xmodel x) = Some (plugin_verdict x) /\
     (xo_result (xmodel x) = Some Pass <-> exists p, x_plugin x = Some p /\ xp_rev_ok p = true) /\
     (xo_rejected (xmodel x) = true <-> x_action x = Enforce /\ exists p, x_plugin x = Some p /\ xp_rev_ok p = false)).
Proof. exact xplugin_owns. Qed.
Print Assumptions C05_full_plugin_owns.

(* a named plugin without any verification capability: the whole verification is rejected, whatever the level *)
Theorem C05_full_unusable_plugin : forall x, owner x = OwnerNobody -> xmodel x = mk_xobs [] None true false.
Proof. exact xnobody. Qed.
Print Assumptions C05_full_unusable_plugin.

(* non-vacuity; the first one is the regression a seeded mutant introduced (revocation taken for
   plugin-owned because the plugin verifies trusted identities): revoked leaf, enforce, TI-only plugin *)
Example C05_full_example_ti_plugin :
  let x := mk_xinput_p Enforce false 1 (Some 1700000000%Z) ["leaf"; "root"] false [cr RRevoked; cr ROK]
             (Some (mk_xplugin [PcapOther; PcapTI] true)) in
  owner x = OwnerNotation /\ plugin_owns_revocation x = false /\
  xmodel x = mk_xobs [mk_xcall 1 ["leaf"; "root"] None] (Some (Revoked "leaf")) true false.
Proof. repeat split. Qed.

Example C05_full_example_rev_plugin :   (* the plugin owns the check: a revoked answer of the validator is never asked for *)
  let x b a := mk_xinput_p a false 1 (Some 1700000000%Z) ["leaf"; "root"] false [cr RRevoked; cr ROK]
                 (Some (mk_xplugin [PcapRev; PcapTI] b)) in
  owner (x true Enforce) = OwnerPlugin /\
  xmodel (x true Enforce) = mk_xobs [] (Some Pass) false false /\
  xmodel (x false Enforce) = mk_xobs [] (Some PluginRejected) true false /\
  xmodel (x false Log) = mk_xobs [] (Some PluginRejected) false false /\
  xmodel (x false Skip) = mk_xobs [] None false false.
Proof. repeat split. Qed.

Example C05_full_example_unusable_plugin :
  let x := mk_xinput_p Skip false 1 (Some 1700000000%Z) ["leaf"] false [cr ROK] (Some (mk_xplugin [PcapOther] true)) in
  owner x = OwnerNobody /\ xmodel x = mk_xobs [] None true false.
Proof. repeat split. Qed.
