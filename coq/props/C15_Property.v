(* C15 — The CRL cache returns only fresh, byte-faithful bundles for the exact URL.
   Statements only; every proof is [exact <lemma of C15_Proofs / C15_Audit / C15_Codec>].
   The second half of the file (from C15_results_length on) was added by the theorem
   audit, docs/audit/C15.md, which maps every clause of the property text to theorems.

   The cache is verifier/crl.FileCache (model: C15_Model.get / set / run_ops over a
   directory).  Functions of other packages are universally quantified:
     sha    crypto/sha256.Sum256            enc / dec   json.Marshal / json.Unmarshal of the entry
     parse  crypto/x509.ParseRevocationList (error | Raw, NextUpdate)
   A history is a list of operations of any length: Set, Get (with the clock of
   the call) and operations of the environment on the stored files (OPut =
   overwritten with arbitrary bytes, ODel = removed, OMkdir = a directory in
   the way).  Hypotheses on a history:
     inj_on sha (urls ops)      no SHA-256 collision among the urls of the history
     roundtrip_on enc dec ops   Unmarshal gives back what Marshal was given, on each Set. *)
From NV Require Import Base C15_Model C15_Proofs C15_Audit C15_Codec.
Open Scope string_scope.

(* ---- the cache refines the map url -> entry, for histories of any length ---- *)
Theorem C15_refines : forall sha enc dec parse ops,
  inj_on sha (urls ops) -> roundtrip_on enc dec ops ->
  impl_results sha enc dec parse ops = map_results dec parse ops.
Proof. exact refines. Qed.
Print Assumptions C15_refines.

(* ---- Get u after the last Set u: decided by the bytes of that Set alone ---- *)
Theorem C15_get_after_set : forall sha enc dec parse pre mid u e b d t,
  let ops := (pre ++ OSet u e (Some (Some b, d)) :: mid)%list in
  inj_on sha (urls (ops ++ [OGet u t])) -> roundtrip_on enc dec (ops ++ [OGet u t]) ->
  (forall o, In o pre -> o <> OMkdir u) ->
  (forall o, In o mid -> op_url o <> u) ->
  last (impl_results sha enc dec parse (ops ++ [OGet u t])) RNone = get_entry parse b (norm d) t.
Proof. exact get_after_set. Qed.
Print Assumptions C15_get_after_set.

(* a bundle is answered iff base and delta parse, carry a NextUpdate and neither
   has passed at the time of the call; it then has exactly the Raw bytes of both *)
Theorem C15_hit_iff_fresh : forall parse b d t b' d',
  get_entry parse b d t = RHit b' d' <->
  (exists nb, parse b = POk b' (Some nb) /\ (t <= nb)%Z) /\
  match d with
  | None => d' = None
  | Some dd => exists rd nd, d' = Some rd /\ parse dd = POk rd (Some nd) /\ (t <= nd)%Z
  end.
Proof. exact hit_iff. Qed.
Print Assumptions C15_hit_iff_fresh.

(* afterwards: one NextUpdate has passed => cache miss (base and delta independently) *)
Theorem C15_expired_miss : forall parse b d t rb nb,
  parse b = POk rb (Some nb) ->
  match d with
  | None => (t > nb)%Z
  | Some dd => exists rd nd, parse dd = POk rd (Some nd) /\ ((t > nb)%Z \/ (t > nd)%Z)
  end ->
  exists k, get_entry parse b d t = RMiss k.
Proof. exact expired_miss. Qed.
Print Assumptions C15_expired_miss.

(* a miss for a stored entry is answered only if a NextUpdate has passed *)
Theorem C15_miss_only_expired : forall parse b d t k,
  get_entry parse b d t = RMiss k ->
  (exists rb nb, parse b = POk rb (Some nb) /\ (t > nb)%Z) \/
  (exists dd rd nd, d = Some dd /\ parse dd = POk rd (Some nd) /\ (t > nd)%Z).
Proof. exact miss_only_expired. Qed.
Print Assumptions C15_miss_only_expired.

(* a zero NextUpdate is an error, not a bundle *)
Theorem C15_zero_error : forall parse b d t,
  (exists rb, parse b = POk rb None) \/
  (exists rb nb dd rd, parse b = POk rb (Some nb) /\ (t <= nb)%Z /\ d = Some dd /\ parse dd = POk rd None) ->
  (forall dd, d = Some dd -> parse dd <> PErr) ->
  exists k, get_entry parse b d t = RErr k /\ (k = 5 \/ k = 6)%N.
Proof. exact zero_error. Qed.
Print Assumptions C15_zero_error.

(* a url never stored: cache miss *)
Theorem C15_never_set_miss : forall sha enc dec parse ops u t,
  inj_on sha (urls (ops ++ [OGet u t])) -> roundtrip_on enc dec (ops ++ [OGet u t]) ->
  (forall o, In o ops -> op_url o <> u) ->
  last (impl_results sha enc dec parse (ops ++ [OGet u t])) RNone = RMiss 0.
Proof. exact get_never_set. Qed.
Print Assumptions C15_never_set_miss.

(* ---- distinct urls never share or overwrite an entry ---- *)
(* one step: Set u leaves the stored file and the answer of every other url unchanged *)
Theorem C15_isolated : forall sha enc dec parse (f : fs) u u' e bd t,
  u' <> u -> (sha u' = sha u -> u' = u) ->
  alookup (file_name sha u') (fst (fst (set sha enc f u e bd))) = alookup (file_name sha u') f /\
  get sha dec parse (fst (fst (set sha enc f u e bd))) u' t = get sha dec parse f u' t.
Proof. exact set_isolated. Qed.
Print Assumptions C15_isolated.

(* whole histories: the answer for u is the one of the history with every
   operation on another url (however similar the string) deleted *)
Theorem C15_isolated_history : forall sha enc dec parse ops u t,
  inj_on sha (urls (ops ++ [OGet u t])) -> roundtrip_on enc dec (ops ++ [OGet u t]) ->
  last (impl_results sha enc dec parse (ops ++ [OGet u t])) RNone =
  last (impl_results sha enc dec parse (filter (on_url u) ops ++ [OGet u t])) RNone.
Proof. exact isolated_history. Qed.
Print Assumptions C15_isolated_history.

(* ---- no url reaches outside the root: for EVERY url, no hypothesis on sha ---- *)
(* the name joined to the root is made of lower-case hex digits, two per digest byte
   (64 for SHA-256): no separator, no dot, no NUL, never empty for a non-empty digest *)
Theorem C15_in_root_name : forall sha u,
  all_chars is_hexdigit (file_name sha u) = true /\
  String.length (file_name sha u) = 2 * String.length (sha u).
Proof. exact file_name_shape. Qed.
Print Assumptions C15_in_root_name.

Theorem C15_in_root_no_byte : forall sha u c,
  is_hexdigit c = false -> contains_byte c (file_name sha u) = false.
Proof. exact file_name_no_byte. Qed.
Print Assumptions C15_in_root_no_byte.

(* every destination written, in every history, is root/<that name> of a url of the history *)
Theorem C15_in_root_writes : forall sha enc dec parse ops p,
  In p (map (join root) (impl_writes sha enc dec parse ops)) ->
  exists u, In u (urls ops) /\ p = join root (file_name sha u).
Proof. exact writes_in_root. Qed.
Print Assumptions C15_in_root_writes.

(* and Get depends on the directory through the file of that name only *)
Theorem C15_in_root_reads : forall sha dec parse (f f' : fs) u t,
  alookup (file_name sha u) f = alookup (file_name sha u) f' ->
  get sha dec parse f u t = get sha dec parse f' u t.
Proof. exact get_reads_only. Qed.
Print Assumptions C15_in_root_reads.

(* ---- a stored file that is not a well-formed entry: an error, never a bundle ---- *)
Theorem C15_corrupt : forall sha dec parse (f : fs) u t c,
  alookup (file_name sha u) f = Some (Some c) -> not_an_entry dec parse c ->
  exists k, get sha dec parse f u t = RErr k.
Proof. exact corrupt_error. Qed.
Print Assumptions C15_corrupt.

Theorem C15_corrupt_history : forall sha enc dec parse pre mid u c t,
  let ops := (pre ++ OPut u c :: mid)%list in
  inj_on sha (urls (ops ++ [OGet u t])) -> roundtrip_on enc dec (ops ++ [OGet u t]) ->
  (forall o, In o mid -> op_url o <> u) -> not_an_entry dec parse c ->
  exists k, last (impl_results sha enc dec parse (ops ++ [OGet u t])) RNone = RErr k.
Proof. exact corrupt_history. Qed.
Print Assumptions C15_corrupt_history.

(* Set of a nil bundle / nil base: an error, nothing written *)
Theorem C15_set_nil : forall sha enc (f : fs) u,
  (forall e, set sha enc f u e None = (f, RErr 7, [])) /\
  forall e d, set sha enc f u e (Some (None, d)) = (f, RErr 8, []).
Proof. exact set_nil_nothing. Qed.
Print Assumptions C15_set_nil.

(* ---- the oracle run on the implementation's observations is met by the model ---- *)
Theorem C15_model_meets_oracle : forall i, wf i = true -> spec_ok i (model i) = true.
Proof. exact model_spec_ok. Qed.
Print Assumptions C15_model_meets_oracle.

(* ---- non-vacuity: a concrete history over two near-identical urls ---- *)
Example C15_example :
  let h1 := "0123456789abcdef0123456789abcdef" in
  let h2 := "0123456789abcdef0123456789abcdeF" in
  let h3 := "x123456789abcdef0123456789abcdef" in
  let i := mk_input
    [("http://h/a", h1); ("http://h/A", h2); ("../evil", h3)]
    [(enc_json false "X" None, Some ("X", None)); (enc_json false "Y" (Some "D"), Some ("Y", Some "D")); ("{", None);
     (enc_json true "" None, Some ("", None)); (enc_json false "" None, Some ("", None))]
    [("X", POk "X" (Some 100%Z)); ("Y", POk "Y" (Some 50%Z)); ("D", POk "D" (Some 10%Z))]
    [OSet "http://h/a" false (Some (Some "X", None)); OSet "http://h/A" false (Some (Some "Y", Some "D"));
     OGet "http://h/a" 5%Z; OGet "http://h/A" 5%Z; OGet "http://h/A" 20%Z; OGet "http://h/a" 101%Z;
     OGet "../evil" 5%Z; OPut "http://h/a" "{"; OGet "http://h/a" 5%Z; OGet "http://h/A" 5%Z;
     OSet "../evil" false None; OSet "../evil" true (Some (Some "", None)); OGet "../evil" 5%Z;
     OSet "../evil" false (Some (Some "", None)); OGet "../evil" 5%Z] in
  wf i = true /\
  o_res (model i) = [ROk; ROk; RHit "X" None; RHit "Y" (Some "D"); RMiss 2; RMiss 1;
                     RMiss 0; RNone; RErr 2; RHit "Y" (Some "D"); RErr 7; ROk; RErr 3; ROk; RErr 3] /\
  enc_json true "" None = "{""baseCRL"":""""}" /\ enc_json false "" None = "{""baseCRL"":null}" /\
  inj_on (tab_sha i) (urls (i_ops i)) /\ roundtrip_on enc_json (tab_dec i) (i_ops i) /\
  not_an_entry (tab_dec i) (tab_parse i) "{".
Proof.
  cbv zeta. split; [vm_compute; reflexivity|]. split; [vm_compute; reflexivity|].
  split; [vm_compute; reflexivity|]. split; [vm_compute; reflexivity|].
  split; [apply inj_b_on; vm_compute; reflexivity|].
  split; [apply roundtrip_b_on; vm_compute; reflexivity|].
  left; vm_compute; reflexivity.
Qed.

(* ======================================================================== *)
(* Added by the theorem audit (docs/audit/C15.md).                          *)
(*   touches o   o may change the file of its url: a Set with a base, or an  *)
(*               operation of the environment (OPut / ODel / OMkdir)         *)
(*   stores o    o may put something at the key: as above without ODel       *)
(*   idle_on u o o is on another url, or touches o = false (a Get, a Set of  *)
(*               a nil bundle, a Set of a bundle whose base is nil)          *)
(* ======================================================================== *)

(* one result per operation: [last _ RNone] never uses its default above / below *)
Theorem C15_results_length : forall sha enc dec parse ops,
  List.length (impl_results sha enc dec parse ops) = List.length ops.
Proof. exact results_length. Qed.
Print Assumptions C15_results_length.

(* ---- "last stored under that identical URL string" ---- *)
(* C15_get_after_set strengthened: between the last Set of u that reached the file
   and the Get, anything may happen on other urls, and on u itself every Get and
   every refused Set (nil bundle, nil base) *)
Theorem C15_get_after_last_set : forall sha enc dec parse pre mid u e b d t,
  let ops := (pre ++ OSet u e (Some (Some b, d)) :: mid)%list in
  inj_on sha (urls (ops ++ [OGet u t])) -> roundtrip_on enc dec (ops ++ [OGet u t]) ->
  (forall o, In o pre -> o <> OMkdir u) ->
  (forall o, In o mid -> idle_on u o) ->
  last (impl_results sha enc dec parse (ops ++ [OGet u t])) RNone = get_entry parse b (norm d) t.
Proof. exact get_after_last_set. Qed.
Print Assumptions C15_get_after_last_set.

(* the clause as worded.  Bytes that are the DER of a CRL as the parser reads it
   (its Raw is the bytes themselves: true of every RevocationList that came out of
   x509.ParseRevocationList), stored last under u, both parts not past NextUpdate:
   Get answers a bundle with exactly these bytes (an empty delta is no delta) *)
Theorem C15_exact_bytes_partial : forall sha enc dec parse pre mid u e b d t nb,
  let ops := (pre ++ OSet u e (Some (Some b, d)) :: mid)%list in
  inj_on sha (urls (ops ++ [OGet u t])) -> roundtrip_on enc dec (ops ++ [OGet u t]) ->
  (forall o, In o pre -> o <> OMkdir u) ->
  (forall o, In o mid -> idle_on u o) ->
  parse b = POk b (Some nb) -> (t <= nb)%Z ->
  (forall dd, norm d = Some dd -> exists nd, parse dd = POk dd (Some nd) /\ (t <= nd)%Z) ->
  last (impl_results sha enc dec parse (ops ++ [OGet u t])) RNone = RHit b (norm d).
Proof. exact exact_bytes_partial. Qed.
Print Assumptions C15_exact_bytes_partial.

(* without the hypothesis [parse b = POk b _] the literal clause is FALSE of the
   model and of the real code: the parser ignores bytes after the first DER element,
   so a hand-built RevocationList whose Raw has trailing bytes comes back without them
   (harness family "matrix", base W2; see docs/audit/C15.md, finding O1) *)
Theorem C15_exact_bytes_literal_refuted :
  exists i u b b' t,
    wf i = true /\ facts_cover i = true /\
    i_ops i = [OSet u false (Some (Some b, None)); OGet u t] /\
    o_res (model i) = [ROk; RHit b' None] /\ b' <> b.
Proof. exact exact_bytes_literal_refuted. Qed.
Print Assumptions C15_exact_bytes_literal_refuted.

(* "only": whatever the history (any length, environment included), a bundle
   answered by a final Get u comes from the LAST operation that touched u — a Set u
   of bytes b, d, or a file written by the environment that decodes to b, d — its
   parts are the Raw the parser reads from b and d, and neither NextUpdate has passed *)
Theorem C15_hit_only_last_store : forall sha enc dec parse ops u t b' d',
  inj_on sha (urls (ops ++ [OGet u t])) -> roundtrip_on enc dec (ops ++ [OGet u t]) ->
  last (impl_results sha enc dec parse (ops ++ [OGet u t])) RNone = RHit b' d' ->
  exists pre w mid b d,
    ops = (pre ++ w :: mid)%list /\ (forall o, In o mid -> idle_on u o) /\
    ((exists e d0, w = OSet u e (Some (Some b, d0)) /\ d = norm d0) \/
     (exists c, w = OPut u c /\ dec c = Some (b, d))) /\
    (exists nb, parse b = POk b' (Some nb) /\ (t <= nb)%Z) /\
    match d with
    | None => d' = None
    | Some dd => exists rd nd, d' = Some rd /\ parse dd = POk rd (Some nd) /\ (t <= nd)%Z
    end.
Proof. exact hit_only_last_store. Qed.
Print Assumptions C15_hit_only_last_store.

(* histories of store / read operations only (the property's quantifier): the origin is a Set of u *)
Theorem C15_hit_only_last_set : forall sha enc dec parse ops u t b' d',
  inj_on sha (urls (ops ++ [OGet u t])) -> roundtrip_on enc dec (ops ++ [OGet u t]) ->
  forallb is_api ops = true ->
  last (impl_results sha enc dec parse (ops ++ [OGet u t])) RNone = RHit b' d' ->
  exists pre e b d mid,
    ops = (pre ++ OSet u e (Some (Some b, d)) :: mid)%list /\ (forall o, In o mid -> idle_on u o) /\
    (exists nb, parse b = POk b' (Some nb) /\ (t <= nb)%Z) /\
    match norm d with
    | None => d' = None
    | Some dd => exists rd nd, d' = Some rd /\ parse dd = POk rd (Some nd) /\ (t <= nd)%Z
    end.
Proof. exact hit_only_last_set. Qed.
Print Assumptions C15_hit_only_last_set.

(* ---- "for URLs never stored, the result is a cache miss" ---- *)
(* C15_never_set_miss strengthened: earlier Gets, refused Sets and removals of u itself are allowed *)
Theorem C15_never_stored_miss : forall sha enc dec parse ops u t,
  inj_on sha (urls (ops ++ [OGet u t])) -> roundtrip_on enc dec (ops ++ [OGet u t]) ->
  (forall o, In o ops -> op_url o = u -> stores o = false) ->
  last (impl_results sha enc dec parse (ops ++ [OGet u t])) RNone = RMiss 0.
Proof. exact never_stored_miss. Qed.
Print Assumptions C15_never_stored_miss.

(* an entry removed from the directory and not stored again: cache miss *)
Theorem C15_deleted_miss : forall sha enc dec parse pre mid u t,
  let ops := (pre ++ ODel u :: mid)%list in
  inj_on sha (urls (ops ++ [OGet u t])) -> roundtrip_on enc dec (ops ++ [OGet u t]) ->
  (forall o, In o mid -> op_url o = u -> stores o = false) ->
  last (impl_results sha enc dec parse (ops ++ [OGet u t])) RNone = RMiss 0.
Proof. exact deleted_miss. Qed.
Print Assumptions C15_deleted_miss.

(* ---- Get on an ARBITRARY directory: no history, no hypothesis on sha / enc / dec ---- *)
(* a bundle iff the file at the hashed name is a regular file that decodes, both
   parts parse and carry a NextUpdate, and neither has passed; the bundle has the Raw of both *)
Theorem C15_get_hit_iff : forall sha dec parse (f : fs) u t b' d',
  get sha dec parse f u t = RHit b' d' <->
  exists c b d, alookup (file_name sha u) f = Some (Some c) /\ dec c = Some (b, d) /\
    (exists nb, parse b = POk b' (Some nb) /\ (t <= nb)%Z) /\
    match d with
    | None => d' = None
    | Some dd => exists rd nd, d' = Some rd /\ parse dd = POk rd (Some nd) /\ (t <= nd)%Z
    end.
Proof. exact get_hit_iff. Qed.
Print Assumptions C15_get_hit_iff.

(* a cache miss iff there is no file (0), or the file is a well-formed entry whose
   base has expired (1), or whose base is fresh and whose delta has expired (2) *)
Theorem C15_get_miss_iff : forall sha dec parse (f : fs) u t k,
  get sha dec parse f u t = RMiss k <->
  (alookup (file_name sha u) f = None /\ k = 0%N) \/
  exists c b d, alookup (file_name sha u) f = Some (Some c) /\ dec c = Some (b, d) /\
    exists rb nb, parse b = POk rb (Some nb) /\
      match d with
      | None => (t > nb)%Z /\ k = 1%N
      | Some dd => exists rd ond, parse dd = POk rd ond /\
          (((t > nb)%Z /\ k = 1%N) \/
           ((t <= nb)%Z /\ exists nd, ond = Some nd /\ (t > nd)%Z /\ k = 2%N))
      end.
Proof. exact get_miss_iff. Qed.
Print Assumptions C15_get_miss_iff.

(* ---- what does NOT change ---- *)
Theorem C15_get_changes_nothing : forall sha enc dec parse (f : fs) u t,
  step sha enc dec parse f (OGet u t) = (f, get sha dec parse f u t, []).
Proof. exact get_changes_nothing. Qed.
Print Assumptions C15_get_changes_nothing.

(* Set: no file of ANY other name changes (no hypothesis on sha); a Set that does
   not answer nil changes nothing at all; a Set that answers nil has left exactly the
   encoding of its bundle in the file of its url; the only destination it can hand
   to file.WriteFile is that file *)
Theorem C15_set_frame : forall sha enc (f : fs) u e bd,
  let f' := fst (fst (set sha enc f u e bd)) in
  let r := snd (fst (set sha enc f u e bd)) in
  let w := snd (set sha enc f u e bd) in
  (forall n, n <> file_name sha u -> alookup n f' = alookup n f) /\
  (r <> ROk -> f' = f) /\
  (r = ROk -> exists b d, bd = Some (Some b, d) /\ alookup (file_name sha u) f' = Some (Some (enc e b d))) /\
  (w = [] \/ w = [file_name sha u]).
Proof. exact set_frame. Qed.
Print Assumptions C15_set_frame.

(* "never share or overwrite": any sequence of operations on other urls, from ANY
   directory, leaves the file of u and every answer for u as they were *)
Theorem C15_isolated_files : forall sha enc dec parse ops (f : fs) u,
  (forall o, In o ops -> op_url o <> u /\ (sha (op_url o) = sha u -> op_url o = u)) ->
  alookup (file_name sha u) (snd (run_ops sha enc dec parse f ops)) = alookup (file_name sha u) f /\
  forall t, get sha dec parse (snd (run_ops sha enc dec parse f ops)) u t = get sha dec parse f u t.
Proof. exact isolated_files. Qed.
Print Assumptions C15_isolated_files.

(* on disk: after the last Set of u that reached the file, the file of u holds
   exactly the encoding of the bytes handed to that Set (no decoder involved) *)
Theorem C15_file_after_set : forall sha enc dec parse pre mid u e b d,
  let ops := (pre ++ OSet u e (Some (Some b, d)) :: mid)%list in
  inj_on sha (urls ops) ->
  (forall o, In o pre -> o <> OMkdir u) ->
  (forall o, In o mid -> idle_on u o) ->
  alookup (file_name sha u) (impl_files sha enc dec parse ops) = Some (Some (enc e b d)).
Proof. exact file_after_set. Qed.
Print Assumptions C15_file_after_set.

(* ---- the path: a direct child of the root, for EVERY url ---- *)
(* splitting root/<name> at its last '/' gives back the root and the name; the name
   is not "." or "..", not empty for a non-empty digest, 64 characters for SHA-256 *)
Theorem C15_in_root_child : forall sha u,
  dir_base (entry_path sha u) = (Some root, file_name sha u) /\
  file_name sha u <> "." /\ file_name sha u <> ".." /\
  (sha u <> "" -> file_name sha u <> "") /\
  (String.length (sha u) = 32 -> String.length (file_name sha u) = 64).
Proof. exact in_root_child. Qed.
Print Assumptions C15_in_root_child.

(* the temporary files of file.WriteFile (root/notation-<digits>) are never the file of a url *)
Theorem C15_temp_never_entry : forall sha u x, file_name sha u <> "notation-" ++ x.
Proof. exact temp_never_entry. Qed.
Print Assumptions C15_temp_never_entry.

(* ---- byte-faithful on disk: the text Set writes determines the bytes ---- *)
(* [enc_json] is the model of json.Marshal(fileCacheContent) (compared with the real
   file content by the harness in every case); a decoder of it exists *)
Theorem C15_enc_json_decodable : forall e b d, dec_canon (enc_json e b d) = Some (b, norm d).
Proof. exact dec_canon_enc. Qed.
Print Assumptions C15_enc_json_decodable.

Theorem C15_enc_json_injective : forall e b d e' b' d',
  enc_json e b d = enc_json e' b' d' -> b = b' /\ norm d = norm d'.
Proof. exact enc_json_injective. Qed.
Print Assumptions C15_enc_json_injective.

(* ---- the two hypotheses on histories can be met for ALL histories at once ---- *)
Theorem C15_hypotheses_satisfiable :
  (exists dec, forall ops, roundtrip_on enc_json dec ops) /\ (exists sha, forall us, inj_on sha us).
Proof. exact (conj roundtrip_satisfiable inj_satisfiable). Qed.
Print Assumptions C15_hypotheses_satisfiable.

(* ---- non-vacuity of the audit theorems: concrete histories meeting every hypothesis ---- *)
Definition ex_parse (x : string) : crlfact :=
  if String.eqb x "X" then POk "X" (Some 100%Z)
  else if String.eqb x "Y" then POk "Y" (Some 50%Z)
  else if String.eqb x "D" then POk "D" (Some 10%Z)
  else if String.eqb x "Z" then POk "Z" None
  else PErr.
Definition ex_id (u : string) : string := u.
Definition ex_pre : list op :=
  [OSet "u" false (Some (Some "X", None)); OGet "u" 5%Z; OSet "U" false (Some (Some "X", Some "D"))].
Definition ex_mid : list op :=
  [OGet "u" 7%Z; OSet "u" false None; OSet "u" false (Some (None, Some "D"));
   OSet "u " false (Some (Some "X", None)); ODel "U"].
Definition ex_ops : list op := (ex_pre ++ OSet "u" false (Some (Some "Y", Some "D")) :: ex_mid)%list.

(* overwrite, then Gets and refused Sets of the same url and traffic on look-alike
   urls: the hypotheses of C15_get_after_last_set / C15_exact_bytes_partial /
   C15_file_after_set hold, and the answers are the last stored bytes while fresh,
   a miss once the delta alone has expired *)
Example C15_example_last_set :
  (forall o, In o ex_pre -> o <> OMkdir "u") /\ (forall o, In o ex_mid -> idle_on "u" o) /\
  ex_parse "Y" = POk "Y" (Some 50%Z) /\
  last (impl_results ex_id enc_json dec_canon ex_parse (ex_ops ++ [OGet "u" 8%Z])) RNone = RHit "Y" (Some "D") /\
  last (impl_results ex_id enc_json dec_canon ex_parse (ex_ops ++ [OGet "u" 20%Z])) RNone = RMiss 2 /\
  last (impl_results ex_id enc_json dec_canon ex_parse (ex_ops ++ [OGet "u" 51%Z])) RNone = RMiss 1 /\
  alookup (file_name ex_id "u") (impl_files ex_id enc_json dec_canon ex_parse ex_ops)
    = Some (Some "{""baseCRL"":""WQ=="",""deltaCRL"":""RA==""}").
Proof.
  assert (forall o, In o ex_pre -> o <> OMkdir "u") as Hpre.
  { intros o H. cbn in H. intuition (subst; discriminate). }
  assert (forall o, In o ex_mid -> idle_on "u" o) as Hmid.
  { intros o H. cbn in H. unfold idle_on.
    repeat (destruct H as [<-|H]; [cbn; first [right; reflexivity | left; discriminate]|]). contradiction. }
  split; [exact Hpre|]. split; [exact Hmid|]. split; [reflexivity|].
  split.
  { apply (C15_exact_bytes_partial ex_id enc_json dec_canon ex_parse ex_pre ex_mid "u" false "Y" (Some "D") 8%Z 50%Z);
      auto using inj_id, roundtrip_canon; try reflexivity; try (vm_compute; discriminate).
    intros dd H. injection H as <-. exists 10%Z. split; [reflexivity|vm_compute; discriminate]. }
  split.
  { unfold ex_ops. rewrite (C15_get_after_last_set ex_id enc_json dec_canon ex_parse ex_pre ex_mid "u" false "Y" (Some "D") 20%Z);
      auto using inj_id, roundtrip_canon. }
  split.
  { unfold ex_ops. rewrite (C15_get_after_last_set ex_id enc_json dec_canon ex_parse ex_pre ex_mid "u" false "Y" (Some "D") 51%Z);
      auto using inj_id, roundtrip_canon. }
  unfold ex_ops. rewrite (C15_file_after_set ex_id enc_json dec_canon ex_parse ex_pre ex_mid "u" false "Y" (Some "D"));
    auto using inj_id.
Qed.

(* a url never stored although look-alikes were, and itself read, refused and removed before *)
Example C15_example_never_stored :
  let ops := [OSet "u " false (Some (Some "X", None)); OSet "U" false (Some (Some "Y", Some "D"));
              OGet "u" 1%Z; OSet "u" false None; ODel "u"; OSet "u" true (Some (None, None))] in
  (forall o, In o ops -> op_url o = "u" -> stores o = false) /\
  last (impl_results ex_id enc_json dec_canon ex_parse (ops ++ [OGet "u" 2%Z])) RNone = RMiss 0 /\
  last (impl_results ex_id enc_json dec_canon ex_parse (ops ++ [OGet "u " 2%Z])) RNone = RHit "X" None.
Proof.
  cbv zeta.
  match goal with |- ?A /\ _ => assert A as H end.
  { intros o H. cbn in H. repeat (destruct H as [<-|H]; [cbn; first [reflexivity | discriminate]|]). contradiction. }
  split; [exact H|]. split.
  - apply C15_never_stored_miss; auto using inj_id, roundtrip_canon.
  - vm_compute. reflexivity.
Qed.

(* a store / read history that ends in a bundle: the premises of C15_hit_only_last_set hold *)
Example C15_example_hit_only :
  forallb is_api ex_pre = true /\
  last (impl_results ex_id enc_json dec_canon ex_parse (ex_pre ++ [OGet "U" 9%Z])) RNone = RHit "X" (Some "D") /\
  exists pre e b d mid, ex_pre = (pre ++ OSet "U" e (Some (Some b, d)) :: mid)%list /\ b = "X" /\ d = Some "D".
Proof.
  split; [reflexivity|]. split; [vm_compute; reflexivity|].
  destruct (C15_hit_only_last_set ex_id enc_json dec_canon ex_parse ex_pre "U" 9%Z "X" (Some "D"))
    as (pre & e & b & d & mid & E & _ & _ & _); auto using inj_id, roundtrip_canon.
  exists [OSet "u" false (Some (Some "X", None)); OGet "u" 5%Z], false, "X", (Some "D"), []. auto.
Qed.

(* corrupted, removed, a zero NextUpdate: premises of C15_corrupt_history / C15_deleted_miss / C15_zero_error *)
Example C15_example_corrupt_deleted_zero :
  not_an_entry dec_canon ex_parse "{""baseCRL"":""WA==""" /\
  not_an_entry dec_canon ex_parse "{""baseCRL"":""QUJD""}" /\
  last (impl_results ex_id enc_json dec_canon ex_parse
          (ex_pre ++ [OPut "u" "{""baseCRL"":""WA=="""; OGet "U" 1%Z; OGet "u" 1%Z])) RNone = RErr 2 /\
  last (impl_results ex_id enc_json dec_canon ex_parse
          (ex_pre ++ [OPut "u" "{""baseCRL"":""QUJD""}"; OGet "u" 1%Z])) RNone = RErr 3 /\
  last (impl_results ex_id enc_json dec_canon ex_parse (ex_pre ++ [ODel "u"; OGet "U" 1%Z; OGet "u" 1%Z])) RNone = RMiss 0 /\
  last (impl_results ex_id enc_json dec_canon ex_parse
          (ex_pre ++ [OSet "u" false (Some (Some "X", Some "Z")); OGet "u" 1%Z])) RNone = RErr 6.
Proof.
  split; [left; vm_compute; reflexivity|].
  split; [right; exists "ABC", None; split; [vm_compute; reflexivity | left; reflexivity]|].
  repeat split; vm_compute; reflexivity.
Qed.
