(* C15 — The CRL cache returns only fresh, byte-faithful bundles for the exact URL.
   Statements only; every proof is [exact <lemma of C15_Proofs>].

   The cache is verifier/crl.FileCache (model: C15_Model.get / set / run_ops over a
   directory).  Functions of other packages are universally quantified:
     sha    crypto/sha256.Sum256            enc / dec   json.Marshal / json.Unmarshal of the entry
     parse  crypto/x509.ParseRevocationList (error | Raw, NextUpdate)
   A history is a list of operations of any length: Set, Get (with the clock of
   the call) and operations of the environment on the stored files (OPut =
   overwritten with arbitrary bytes, ODel = removed, OMkdir = a directory in
   the way).  Hypotheses on a history:
     inj_on sha (urls ops)      no SHA-256 collision among the urls of the history
     roundtrip_on enc dec ops   Unmarshal gives back what Marshal was given, on each Set. *)
From NV Require Import Base C15_Model C15_Proofs.
Open Scope string_scope.

(* ---- the cache refines the map url -> entry, for histories of any length ---- *)
Theorem C15_refines : forall sha enc dec parse ops,
  inj_on sha (urls ops) -> roundtrip_on enc dec ops ->
  impl_results sha enc dec parse ops = map_results dec parse ops.
Proof. exact refines. Qed.
Print Assumptions C15_refines.

(* ---- Get u after the last Set u: decided by the bytes of that Set alone ---- *)
Theorem C15_get_after_set : forall sha enc dec parse pre mid u e b d t,
  let ops := (pre ++ OSet u e (Some (Some b, d)) :: mid)%list in
  inj_on sha (urls (ops ++ [OGet u t])) -> roundtrip_on enc dec (ops ++ [OGet u t]) ->
  (forall o, In o pre -> o <> OMkdir u) ->
  (forall o, In o mid -> op_url o <> u) ->
  last (impl_results sha enc dec parse (ops ++ [OGet u t])) RNone = get_entry parse b (norm d) t.
Proof. exact get_after_set. Qed.
Print Assumptions C15_get_after_set.

(* a bundle is answered iff base and delta parse, carry a NextUpdate and neither
   has passed at the time of the call; it then has exactly the Raw bytes of both *)
Theorem C15_hit_iff_fresh : forall parse b d t b' d',
  get_entry parse b d t = RHit b' d' <->
  (exists nb, parse b = POk b' (Some nb) /\ (t <= nb)%Z) /\
  match d with
  | None => d' = None
  | Some dd => exists rd nd, d' = Some rd /\ parse dd = POk rd (Some nd) /\ (t <= nd)%Z
  end.
Proof. exact hit_iff. Qed.
Print Assumptions C15_hit_iff_fresh.

(* afterwards: one NextUpdate has passed => cache miss (base and delta independently) *)
Theorem C15_expired_miss : forall parse b d t rb nb,
  parse b = POk rb (Some nb) ->
  match d with
  | None => (t > nb)%Z
  | Some dd => exists rd nd, parse dd = POk rd (Some nd) /\ ((t > nb)%Z \/ (t > nd)%Z)
  end ->
  exists k, get_entry parse b d t = RMiss k.
Proof. exact expired_miss. Qed.
Print Assumptions C15_expired_miss.

(* a miss for a stored entry is answered only if a NextUpdate has passed *)
Theorem C15_miss_only_expired : forall parse b d t k,
  get_entry parse b d t = RMiss k ->
  (exists rb nb, parse b = POk rb (Some nb) /\ (t > nb)%Z) \/
  (exists dd rd nd, d = Some dd /\ parse dd = POk rd (Some nd) /\ (t > nd)%Z).
Proof. exact miss_only_expired. Qed.
Print Assumptions C15_miss_only_expired.

(* a zero NextUpdate is an error, not a bundle *)
Theorem C15_zero_error : forall parse b d t,
  (exists rb, parse b = POk rb None) \/
  (exists rb nb dd rd, parse b = POk rb (Some nb) /\ (t <= nb)%Z /\ d = Some dd /\ parse dd = POk rd None) ->
  (forall dd, d = Some dd -> parse dd <> PErr) ->
  exists k, get_entry parse b d t = RErr k /\ (k = 5 \/ k = 6)%N.
Proof. exact zero_error. Qed.
Print Assumptions C15_zero_error.

(* a url never stored: cache miss *)
Theorem C15_never_set_miss : forall sha enc dec parse ops u t,
  inj_on sha (urls (ops ++ [OGet u t])) -> roundtrip_on enc dec (ops ++ [OGet u t]) ->
  (forall o, In o ops -> op_url o <> u) ->
  last (impl_results sha enc dec parse (ops ++ [OGet u t])) RNone = RMiss 0.
Proof. exact get_never_set. Qed.
Print Assumptions C15_never_set_miss.

(* ---- distinct urls never share or overwrite an entry ---- *)
(* one step: Set u leaves the stored file and the answer of every other url unchanged *)
Theorem C15_isolated : forall sha enc dec parse (f : fs) u u' e bd t,
  u' <> u -> (sha u' = sha u -> u' = u) ->
  alookup (file_name sha u') (fst (fst (set sha enc f u e bd))) = alookup (file_name sha u') f /\
  get sha dec parse (fst (fst (set sha enc f u e bd))) u' t = get sha dec parse f u' t.
Proof. exact set_isolated. Qed.
Print Assumptions C15_isolated.

(* whole histories: the answer for u is the one of the history with every
   operation on another url (however similar the string) deleted *)
Theorem C15_isolated_history : forall sha enc dec parse ops u t,
  inj_on sha (urls (ops ++ [OGet u t])) -> roundtrip_on enc dec (ops ++ [OGet u t]) ->
  last (impl_results sha enc dec parse (ops ++ [OGet u t])) RNone =
  last (impl_results sha enc dec parse (filter (on_url u) ops ++ [OGet u t])) RNone.
Proof. exact isolated_history. Qed.
Print Assumptions C15_isolated_history.

(* ---- no url reaches outside the root: for EVERY url, no hypothesis on sha ---- *)
(* the name joined to the root is made of lower-case hex digits, two per digest byte
   (64 for SHA-256): no separator, no dot, no NUL, never empty for a non-empty digest *)
Theorem C15_in_root_name : forall sha u,
  all_chars is_hexdigit (file_name sha u) = true /\
  String.length (file_name sha u) = 2 * String.length (sha u).
Proof. exact file_name_shape. Qed.
Print Assumptions C15_in_root_name.

Theorem C15_in_root_no_byte : forall sha u c,
  is_hexdigit c = false -> contains_byte c (file_name sha u) = false.
Proof. exact file_name_no_byte. Qed.
Print Assumptions C15_in_root_no_byte.

(* every destination written, in every history, is root/<that name> of a url of the history *)
Theorem C15_in_root_writes : forall sha enc dec parse ops p,
  In p (map (join root) (impl_writes sha enc dec parse ops)) ->
  exists u, In u (urls ops) /\ p = join root (file_name sha u).
Proof. exact writes_in_root. Qed.
Print Assumptions C15_in_root_writes.

(* and Get depends on the directory through the file of that name only *)
Theorem C15_in_root_reads : forall sha dec parse (f f' : fs) u t,
  alookup (file_name sha u) f = alookup (file_name sha u) f' ->
  get sha dec parse f u t = get sha dec parse f' u t.
Proof. exact get_reads_only. Qed.
Print Assumptions C15_in_root_reads.

(* ---- a stored file that is not a well-formed entry: an error, never a bundle ---- *)
Theorem C15_corrupt : forall sha dec parse (f : fs) u t c,
  alookup (file_name sha u) f = Some (Some c) -> not_an_entry dec parse c ->
  exists k, get sha dec parse f u t = RErr k.
Proof. exact corrupt_error. Qed.
Print Assumptions C15_corrupt.

Theorem C15_corrupt_history : forall sha enc dec parse pre mid u c t,
  let ops := (pre ++ OPut u c :: mid)%list in
  inj_on sha (urls (ops ++ [OGet u t])) -> roundtrip_on enc dec (ops ++ [OGet u t]) ->
  (forall o, In o mid -> op_url o <> u) -> not_an_entry dec parse c ->
  exists k, last (impl_results sha enc dec parse (ops ++ [OGet u t])) RNone = RErr k.
Proof. exact corrupt_history. Qed.
Print Assumptions C15_corrupt_history.

(* Set of a nil bundle / nil base: an error, nothing written *)
Theorem C15_set_nil : forall sha enc (f : fs) u,
  (forall e, set sha enc f u e None = (f, RErr 7, [])) /\
  forall e d, set sha enc f u e (Some (None, d)) = (f, RErr 8, []).
Proof. exact set_nil_nothing. Qed.
Print Assumptions C15_set_nil.

(* ---- the oracle run on the implementation's observations is met by the model ---- *)
Theorem C15_model_meets_oracle : forall i, wf i = true -> spec_ok i (model i) = true.
Proof. exact model_spec_ok. Qed.
Print Assumptions C15_model_meets_oracle.

(* ---- non-vacuity: a concrete history over two near-identical urls ---- *)
Example C15_example :
  let h1 := "0123456789abcdef0123456789abcdef" in
  let h2 := "0123456789abcdef0123456789abcdeF" in
  let h3 := "x123456789abcdef0123456789abcdef" in
  let i := mk_input
    [("http://h/a", h1); ("http://h/A", h2); ("../evil", h3)]
    [(enc_json false "X" None, Some ("X", None)); (enc_json false "Y" (Some "D"), Some ("Y", Some "D")); ("{", None);
     (enc_json true "" None, Some ("", None)); (enc_json false "" None, Some ("", None))]
    [("X", POk "X" (Some 100%Z)); ("Y", POk "Y" (Some 50%Z)); ("D", POk "D" (Some 10%Z))]
    [OSet "http://h/a" false (Some (Some "X", None)); OSet "http://h/A" false (Some (Some "Y", Some "D"));
     OGet "http://h/a" 5%Z; OGet "http://h/A" 5%Z; OGet "http://h/A" 20%Z; OGet "http://h/a" 101%Z;
     OGet "../evil" 5%Z; OPut "http://h/a" "{"; OGet "http://h/a" 5%Z; OGet "http://h/A" 5%Z;
     OSet "../evil" false None; OSet "../evil" true (Some (Some "", None)); OGet "../evil" 5%Z;
     OSet "../evil" false (Some (Some "", None)); OGet "../evil" 5%Z] in
  wf i = true /\
  o_res (model i) = [ROk; ROk; RHit "X" None; RHit "Y" (Some "D"); RMiss 2; RMiss 1;
                     RMiss 0; RNone; RErr 2; RHit "Y" (Some "D"); RErr 7; ROk; RErr 3; ROk; RErr 3] /\
  enc_json true "" None = "{""baseCRL"":""""}" /\ enc_json false "" None = "{""baseCRL"":null}" /\
  inj_on (tab_sha i) (urls (i_ops i)) /\ roundtrip_on enc_json (tab_dec i) (i_ops i) /\
  not_an_entry (tab_dec i) (tab_parse i) "{".
Proof.
  cbv zeta. split; [vm_compute; reflexivity|]. split; [vm_compute; reflexivity|].
  split; [vm_compute; reflexivity|]. split; [vm_compute; reflexivity|].
  split; [apply inj_b_on; vm_compute; reflexivity|].
  split; [apply roundtrip_b_on; vm_compute; reflexivity|].
  left; vm_compute; reflexivity.
Qed.
