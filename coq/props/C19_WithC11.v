(* C19 composed with C11 — a signature made by notation.SignOCI is listed for the
   resolved artifact and fetches back as signed.
   Statement only; the proof is [exact C19_Compose.signed_then_listed], which uses
   C11_Proofs.pushed / C11_Proofs.signed (what SignOCI hands to PushSignature) and
   C19_Proofs.push_listed / isolation (what PushSignature stores, what ListSignatures and
   FetchSignatureBlob return).
   Reading: [M11.sign_oci false tbl st11 c = (st11', t)] is one SignOCI call of the C11
   model (any Resolve table, heap of map objects, options, signer and repository answers)
   that ended OK; [pc] is the PushSignature call its trace records. [adapt_push A E pc] is
   that call as an operation of the C19 ledger: strings become numbers through the
   injective adapter A (media types, digests, annotation strings, sha256 of the envelope),
   E supplies the C19 oracle inputs C11 does not have (how encoding/json reads the
   envelope and its length, digest and length of the packed manifest, the clock, whether
   the created annotation parses). The models share no state: "the repository answered
   OK" (C11's script) is tied to "the C19 push reported success" by hypothesis, on a
   manifest digest new to the store. ops1 / ops2 are ANY histories before and after. *)
From Coq Require Import Permutation.
From NV Require Import Base Generated C19_Model C19_Proofs C19_Compose.
From NV Require C11_Model.
Open Scope list_scope.
Open Scope N_scope.

Theorem C19_signed_then_listed : forall A E tbl st11 c st11' t,
  adapter_ok A ->
  M11.sign_oci false tbl st11 c = (st11', t) ->
  M11.wf_call (M11.s_heap st11) tbl c = true ->
  (M11.t_res t = M11.ROk \/ M11.t_res t = M11.RRefDel) ->
  exists d sig si tm pc,
    M11.lookup_tbl (M11.eff_ref c) tbl = Some d /\          (* d: the RESOLVED descriptor *)
    M11.ci_sign c = M11.SOk sig (Some si) /\ M11.si_time si = Some tm /\   (* sig: the signer's bytes *)
    M11.t_pushes t = [pc] /\
    M11.t_art t = Some (M11.deep (M11.s_heap st11) d) /\
    forall ops1 ops2 s1' bd md a,
      let p := adapt_push A E pc in
      forallb wf_op (ops1 ++ OpPush p :: ops2) = true ->
      push_sig (state_after ops1) p = (s1', RPush 0 bd md a) ->
      lookup_dg (state_after ops1) (pe_mdg E) = None ->
      pe_mdg E <> a_hash A sig -> pe_mdg E <> DG_EMPTY ->
      let st := state_after (ops1 ++ OpPush p :: ops2) in
      let subj := resolved A d in
      (* the manifest carries exactly the annotations SignOCI made: among them the
         thumbprints of the signing chain and the signing time *)
      a = adapt_ann A (M11.pc_ann pc) /\
      In (a_str A M11.k_thumb, a_str A (M11.json_strs (M11.si_chain si))) a /\
      In (a_str A M11.k_created, a_str A (M11.rfc3339 tm)) a /\
      (* after any later operations: listed for the resolved artifact ... *)
      (forall its lg, list_sigs st subj = (LOk its, lg) -> In (I md MT_NOTATION a) its) /\
      (* ... and for no other subject (C19 descriptors; C11 descriptors differing in a field) *)
      (forall q its lg, q <> subj -> list_sigs st q = (LOk its, lg) ->
                        ~ In (d_dg md) (map item_dg its)) /\
      (forall x : M11.ddesc,
          M11.dd_mt x <> M11.d_mt d \/ M11.dd_dg x <> M11.d_dg d \/ M11.dd_sz x <> M11.d_sz d ->
          adapt_desc A x <> subj) /\
      (* FetchSignatureBlob of it returns the signer's envelope (its digest; equal digests
         are equal bytes) under the requested media type, fetching manifest and blob only *)
      ((pe_msz E <= capM)%Z -> (c_sz (pe_bc E) <= capB)%Z ->
         fetch_sig st md =
         (FOk (a_hash A sig) (D (a_mt A (M11.ci_mt c)) (a_hash A sig) (c_sz (pe_bc E))),
          [pe_mdg E; a_hash A sig])) /\
      (forall bytes, a_hash A bytes = a_hash A sig -> bytes = sig).
Proof. exact signed_then_listed. Qed.
Print Assumptions C19_signed_then_listed.

(* the adapter hypotheses are satisfiable: tables for the named constants, an injective
   base-257 coding for every other string *)
Theorem C19_std_adapter_ok : adapter_ok std_adapter.
Proof. exact std_adapter_ok. Qed.
Print Assumptions C19_std_adapter_ok.

(* ---------- a concrete instance of every hypothesis ---------- *)
Definition ex_d : M11.desc := M11.mk_desc s_image "sha256:aa" 402 "" M11.ANil.
Definition ex_tbl : M11.table := [("sha256:aa"%string, ex_d)].
Definition ex_st11 : M11.state := M11.mk_state [] [].
Definition ex_c : M11.call_in :=
  M11.mk_call_in false false "sha256:aa" (Some "sha256:aa"%string) true M11.mt_jws 0 "" None None None
    (M11.SOk "SIGBYTES" (Some (M11.mk_sinfo ["ab12"%string] (Some 1700000000%Z)))) M11.PANone
    (M11.PushOK "sha256:mm").
Definition ex_t : M11.trace := snd (M11.sign_oci false ex_tbl ex_st11 ex_c).
Definition ex_pc : M11.push_call :=
  match M11.t_pushes ex_t with
  | pc :: _ => pc
  | [] => M11.mk_push_call "" "" (M11.mk_dd "" "" 0 "" M11.MNil []) M11.MNil []
  end.
Definition ex_env : push_env := mk_env (CO 8) 0 true 77 700.
Definition ex_p : push := adapt_push std_adapter ex_env ex_pc.
(* before: a foreign referrer of another type for the same artifact; after: a signature
   manifest of the size variant of the artifact *)
Definition ex_subj : desc := resolved std_adapter ex_d.
Definition ex_ops1 : list op :=
  [ OpRaw (D 1 30 600) (C 600 true true true (M (Some ex_subj) (D 12 1 2) [D 9 31 5] 13 [] [] [])) ].
Definition ex_ops2 : list op :=
  [ OpRaw (D 1 40 610) (C 610 true true true
      (M (Some (D (d_mt ex_subj) (d_dg ex_subj) 403)) (D 6 1 2) [ex_subj] 0 [] [] [])) ].
Definition ex_st : state := state_after (ex_ops1 ++ OpPush ex_p :: ex_ops2).

Example ex_c11_ok : M11.t_res ex_t = M11.ROk /\ M11.t_pushes ex_t = [ex_pc] /\
                    M11.wf_call (M11.s_heap ex_st11) ex_tbl ex_c = true.
Proof. vm_compute. repeat split; reflexivity. Qed.

Example ex_push_ok :
  forallb wf_op (ex_ops1 ++ OpPush ex_p :: ex_ops2) = true /\
  lookup_dg (state_after ex_ops1) (pe_mdg ex_env) = None /\
  match snd (push_sig (state_after ex_ops1) ex_p) with
  | RPush 0 _ md _ => md = D 1 77 700
  | _ => False
  end.
Proof. vm_compute. repeat split; reflexivity. Qed.

Example ex_listed_for_resolved :
  match fst (list_sigs ex_st ex_subj) with
  | LOk its => map i_d its = [D 1 77 700]
  | LErr _ => False
  end.
Proof. vm_compute. reflexivity. Qed.

Example ex_not_listed_for_size_variant :
  match fst (list_sigs ex_st (D (d_mt ex_subj) (d_dg ex_subj) 403)) with
  | LOk its => map i_d its = [D 1 40 610]
  | LErr _ => False
  end.
Proof. vm_compute. reflexivity. Qed.

Example ex_fetch_signers_bytes :
  fst (fetch_sig ex_st (D 1 77 700)) =
  FOk (a_hash std_adapter "SIGBYTES")
      (D (a_mt std_adapter M11.mt_jws) (a_hash std_adapter "SIGBYTES") 8).
Proof. vm_compute. reflexivity. Qed.
