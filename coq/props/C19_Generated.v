(* C19_Generated.v — the code's own functions (theories/C19_Gen.v: Gallina
   translations made by `vh-gen` from the Go sources of /repo and of its
   dependencies on every run, docs/GOLITE.md) against the C19 model, for ALL
   inputs. Proofs: theories/C19_GenProofs.v. Table: docs/audit/C19.md, "GoLite".

   The model speaks of interned strings (numbers): imt / idg / ik / iv are ANY
   interning functions of media types, digests, annotation keys and values that
   are injective and send the constants the model names to their numbers.
   Oracles (calls into the store, the clock, sha256) are universally quantified;
   where the model has a function for what an oracle does, the hypothesis says
   "the oracle answers like the model, at the state of the store its call finds"
   (push_agrees, cfg_agrees, pack_agrees). *)
From Coq Require Import List Bool String Ascii NArith ZArith.
From NV Require Import Base GoLib Generated C19_Model C19_Proofs C19_Audit C19_Gen C19_GenProofs.
Import ListNotations.
Local Open Scope string_scope.
Local Open Scope list_scope.

(* ---------- content.Equal (the subject test of signatureReferrers) ---------- *)
(* = the model's desc_eqb: size, digest and media type, nothing else *)
Theorem C19_gen_Equal_equiv : forall imt idg : string -> N,
  (forall a b, imt a = imt b -> a = b) -> (forall a b, idg a = idg b -> a = b) ->
  forall a b, gen_content_Equal a b = desc_eqb (abs_desc imt idg a) (abs_desc imt idg b).
Proof. exact gen_Equal_equiv. Qed.
Print Assumptions C19_gen_Equal_equiv.

(* sharing one or two of the three fields is not enough, whatever the other fields hold *)
Theorem C19_gen_Equal_fields : forall a b,
  gen_content_Equal a b = true <->
  Descriptor_Size a = Descriptor_Size b /\ Descriptor_Digest a = Descriptor_Digest b /\
  Descriptor_MediaType a = Descriptor_MediaType b.
Proof. exact gen_Equal_fields. Qed.
Print Assumptions C19_gen_Equal_fields.

(* descriptor.FromOCI, the key under which oci.Store's graph files a successor:
   two descriptors have one key iff content.Equal holds (the model's [refers]) *)
Theorem C19_gen_FromOCI_key : forall a b,
  gen_descriptor_FromOCI a = gen_descriptor_FromOCI b <-> gen_content_Equal a b = true.
Proof. exact gen_FromOCI_key. Qed.
Print Assumptions C19_gen_FromOCI_key.

Theorem C19_gen_Equal_refers : forall imt idg : string -> N,
  (forall a b, imt a = imt b -> a = b) -> (forall a b, idg a = idg b -> a = b) ->
  forall q ss, existsb (fun s => gen_content_Equal q s) ss
               = existsb (desc_eqb (abs_desc imt idg q)) (map (abs_desc imt idg) ss).
Proof. exact gen_Equal_refers. Qed.
Print Assumptions C19_gen_Equal_refers.

(* ---------- content.NewDescriptorFromBytes, oras.PushBytes ---------- *)
Theorem C19_gen_NewDescriptorFromBytes_spec : forall FromBytes mt b,
  gen_content_NewDescriptorFromBytes FromBytes mt b
  = mk_Descriptor (if String.eqb mt "" then "application/octet-stream" else mt)
                  (FromBytes b) (list_len b) [] [] [] PNil "".
Proof. exact gen_NewDescriptorFromBytes_spec. Qed.
Print Assumptions C19_gen_NewDescriptorFromBytes_spec.

(* = the model's blob_desc (the empty media type becomes application/octet-stream:
   the corner of C19_media_type_identical_refuted is the code's) *)
Theorem C19_gen_NewDescriptorFromBytes_equiv : forall imt idg : string -> N,
  (forall a b, imt a = imt b -> a = b) ->
  imt "" = MT_NONE -> imt "application/octet-stream" = MT_OCTET ->
  forall FromBytes mt b p,
  p_mt p = imt mt -> p_bdg p = idg (FromBytes b) -> c_sz (p_bc p) = list_len b ->
  abs_desc imt idg (gen_content_NewDescriptorFromBytes FromBytes mt b) = blob_desc p.
Proof. exact gen_NewDescriptorFromBytes_equiv. Qed.
Print Assumptions C19_gen_NewDescriptorFromBytes_equiv.

(* whatever Push answers - ErrAlreadyExists included - is the answer of PushBytes *)
Theorem C19_gen_PushBytes_spec :
  forall FromBytes (R : Type) (NewReader : list Z -> R) Push (P : Type) (pusher : P) mt b,
  gen_v2_PushBytes FromBytes R NewReader Push P pusher mt b
  = let d := gen_content_NewDescriptorFromBytes FromBytes mt b in
    match Push d with None => (d, None) | Some e => (zero_desc, Some e) end.
Proof. exact gen_PushBytes_spec. Qed.
Print Assumptions C19_gen_PushBytes_spec.

(* ---------- uploadSignatureManifest ---------- *)
(* the request: subject, exactly the one blob as layer, the caller's annotations,
   the config descriptor pushNotationManifestConfig returned; version 1.1, no
   artifact type; a failed config push is wrapped and nothing is packed *)
Theorem C19_gen_uploadSignatureManifest_spec :
  forall Pack (cfg : v1_Descriptor * option err) c subject blobDesc annotations,
  match snd cfg with
  | None => gen_registry_repositoryClient_uploadSignatureManifest Pack cfg c subject blobDesc annotations
            = Pack 2%Z "" (mk_PackManifestOptions (PNew subject) [blobDesc] annotations (PNew (fst cfg)) [])
  | Some e => exists f, gen_registry_repositoryClient_uploadSignatureManifest Pack cfg c subject blobDesc annotations
            = (zero_desc, Some (Err "fmt" f [e]))
  end.
Proof. exact gen_uploadSignatureManifest_spec. Qed.
Print Assumptions C19_gen_uploadSignatureManifest_spec.

(* that request is the manifest the model's push_sig stores (man_content) *)
Theorem C19_gen_upload_request_is_model : forall (imt idg ik iv : string -> N) subject blobDesc annotations cd,
  abs_desc imt idg cd = cfg_desc ->
  abs_req imt idg ik iv (mk_PackManifestOptions (PNew subject) [blobDesc] annotations (PNew cd) [])
  = PQ (Some (abs_desc imt idg subject)) [abs_desc imt idg blobDesc] (abs_ann ik iv annotations) (Some cfg_desc).
Proof. exact upload_request_is_model. Qed.
Print Assumptions C19_gen_upload_request_is_model.

(* ---------- maps.Copy, oras.ensureAnnotationCreated ---------- *)
Theorem C19_gen_Copy_get : forall dst src k,
  map_get String.eqb k (gen_maps_Copy_map_string_string_map_string_string_string_string dst src)
  = match map_get String.eqb k src with Some v => Some v | None => map_get String.eqb k dst end.
Proof. exact gen_Copy_get. Qed.
Print Assumptions C19_gen_Copy_get.

Theorem C19_gen_ensureAnnotationCreated_spec : forall Now Parse UTC Format a key,
  let g := gen_v2_ensureAnnotationCreated Now Parse UTC Format a key in
  match map_get String.eqb key a with
  | Some t => if is_none (snd (Parse RFC3339 t)) then g = (a, None) else exists e, g = ([], Some e)
  | None => snd g = None /\
            forall k, map_get String.eqb k (fst g)
                      = if String.eqb k key then Some (Format (UTC Now) RFC3339) else map_get String.eqb k a
  end.
Proof. exact gen_ensureAnnotationCreated_spec. Qed.
Print Assumptions C19_gen_ensureAnnotationCreated_spec.

(* = the model's ensure_created, up to lookups: nothing but the creation time is
   added, a supplied one is kept, an invalid one fails the push *)
Theorem C19_gen_ensureAnnotationCreated_equiv : forall ik iv : string -> N,
  (forall a b, ik a = ik b -> a = b) ->
  forall Now Parse UTC Format a key, ik key = K_CREATED ->
  let g := gen_v2_ensureAnnotationCreated Now Parse UTC Format a key in
  let valid := match map_get String.eqb key a with Some t => is_none (snd (Parse RFC3339 t)) | None => true end in
  match ensure_created (abs_ann ik iv a) (iv (Format (UTC Now) RFC3339)) valid with
  | None => snd g <> None
  | Some a' => snd g = None /\ forall k, ann_get (ik k) a' = option_map iv (map_get String.eqb k (fst g))
  end.
Proof. exact gen_ensureAnnotationCreated_equiv. Qed.
Print Assumptions C19_gen_ensureAnnotationCreated_equiv.

(* ---------- PushSignature = the model's push_sig ----------
   code_PushSignature: the two translated halves (PushBytes, uploadSignatureManifest)
   glued as registry/repository.go:149-157 glues them. *)
Theorem C19_gen_PushSignature_matches_model : forall imt idg ik iv : string -> N,
  (forall a b, imt a = imt b -> a = b) -> imt "" = MT_NONE -> imt "application/octet-stream" = MT_OCTET ->
  forall cls : option err -> N,
  (forall e, cls e = 0%N <-> e = None) ->
  (forall f e0, cls (Some (Err "fmt" f [e0])) = cls (Some e0)) ->
  forall FromBytes (R : Type) (NewReader : list Z -> R) Push (P : Type) Pack cfg st p
         (pusher : P) c mt blob subject annotations,
  push_of imt idg ik iv FromBytes p mt blob subject annotations ->
  push_agrees imt idg cls Push st p -> cfg_agrees imt idg cls cfg st p -> pack_agrees imt idg ik iv cls Pack st p ->
  let '(bd, md, e) := code_PushSignature FromBytes R NewReader Push P Pack cfg pusher c mt blob subject annotations in
  match snd (push_sig st p) with
  | RPush code bdm mdm am =>
      cls e = code /\
      (code = 0%N -> abs_desc imt idg bd = bdm /\ abs_desc imt idg md = mdm /\
                     abs_ann ik iv (Descriptor_Annotations md) = am)
  | _ => False
  end.
Proof. exact gen_PushSignature_matches_model. Qed.
Print Assumptions C19_gen_PushSignature_matches_model.

(* C19_push_succeeds_iff on the code *)
Corollary C19_gen_PushSignature_succeeds_iff : forall imt idg ik iv : string -> N,
  (forall a b, imt a = imt b -> a = b) -> imt "" = MT_NONE -> imt "application/octet-stream" = MT_OCTET ->
  forall cls : option err -> N,
  (forall e, cls e = 0%N <-> e = None) ->
  (forall f e0, cls (Some (Err "fmt" f [e0])) = cls (Some e0)) ->
  forall FromBytes (R : Type) (NewReader : list Z -> R) Push (P : Type) Pack cfg st p
         (pusher : P) c mt blob subject annotations,
  push_of imt idg ik iv FromBytes p mt blob subject annotations ->
  push_agrees imt idg cls Push st p -> cfg_agrees imt idg cls cfg st p -> pack_agrees imt idg ik iv cls Pack st p ->
  (snd (code_PushSignature FromBytes R NewReader Push P Pack cfg pusher c mt blob subject annotations) = None <->
   (lookup_dg st (p_bdg p) = None /\ successors (d_mt (blob_desc p)) (p_bc p) <> None /\
    ensure_created (p_ann p) (p_now p) (p_cvalid p) <> None)).
Proof. exact gen_PushSignature_succeeds_iff. Qed.
Print Assumptions C19_gen_PushSignature_succeeds_iff.

(* C19_push_outcome (success) on the code: what is reported is what was pushed *)
Corollary C19_gen_PushSignature_reports : forall imt idg ik iv : string -> N,
  (forall a b, imt a = imt b -> a = b) -> imt "" = MT_NONE -> imt "application/octet-stream" = MT_OCTET ->
  forall cls : option err -> N,
  (forall e, cls e = 0%N <-> e = None) ->
  (forall f e0, cls (Some (Err "fmt" f [e0])) = cls (Some e0)) ->
  forall FromBytes (R : Type) (NewReader : list Z -> R) Push (P : Type) Pack cfg st p
         (pusher : P) c mt blob subject annotations,
  push_of imt idg ik iv FromBytes p mt blob subject annotations ->
  push_agrees imt idg cls Push st p -> cfg_agrees imt idg cls cfg st p -> pack_agrees imt idg ik iv cls Pack st p ->
  let '(bd, md, e) := code_PushSignature FromBytes R NewReader Push P Pack cfg pusher c mt blob subject annotations in
  e = None ->
  abs_desc imt idg bd = blob_desc p /\ abs_desc imt idg md = man_desc p /\
  ensure_created (p_ann p) (p_now p) (p_cvalid p) = Some (abs_ann ik iv (Descriptor_Annotations md)).
Proof. exact gen_PushSignature_reports. Qed.
Print Assumptions C19_gen_PushSignature_reports.

(* C19_push_listed_roundtrip on what the code returned: after any further operations
   the signature is in every successful listing of its subject, with the descriptor and
   the annotations the code reported, and fetching it returns the pushed envelope *)
Corollary C19_gen_PushSignature_then_listed : forall imt idg ik iv : string -> N,
  (forall a b, imt a = imt b -> a = b) -> imt "" = MT_NONE -> imt "application/octet-stream" = MT_OCTET ->
  forall cls : option err -> N,
  (forall e, cls e = 0%N <-> e = None) ->
  (forall f e0, cls (Some (Err "fmt" f [e0])) = cls (Some e0)) ->
  forall FromBytes (R : Type) (NewReader : list Z -> R) Push (P : Type) Pack cfg ops1 p ops2
         (pusher : P) c mt blob subject annotations,
  let st := state_after ops1 in
  push_of imt idg ik iv FromBytes p mt blob subject annotations ->
  push_agrees imt idg cls Push st p -> cfg_agrees imt idg cls cfg st p -> pack_agrees imt idg ik iv cls Pack st p ->
  forallb wf_op (ops1 ++ OpPush p :: ops2) = true ->
  lookup_dg st (p_mdg p) = None -> p_mdg p <> p_bdg p -> p_mdg p <> DG_EMPTY ->
  let '(bd, md, e) := code_PushSignature FromBytes R NewReader Push P Pack cfg pusher c mt blob subject annotations in
  e = None ->
  let stF := state_after (ops1 ++ OpPush p :: ops2) in
  (forall its lg, list_sigs stF (abs_desc imt idg subject) = (LOk its, lg) ->
     In (I (abs_desc imt idg md) MT_NOTATION (abs_ann ik iv (Descriptor_Annotations md))) its) /\
  ((p_msz p <= capM)%Z -> (c_sz (p_bc p) <= capB)%Z ->
     fetch_sig stF (abs_desc imt idg md)
     = (FOk (idg (FromBytes blob)) (abs_desc imt idg bd), [d_dg (abs_desc imt idg md); idg (FromBytes blob)])).
Proof. exact gen_PushSignature_then_listed. Qed.
Print Assumptions C19_gen_PushSignature_then_listed.

(* the standing hypotheses of the theorems above (interning, error classes) can be met *)
Theorem C19_gen_hypotheses_satisfiable :
  (exists imt : string -> N, (forall a b, imt a = imt b -> a = b) /\ imt "" = MT_NONE /\
                             imt "application/octet-stream" = MT_OCTET) /\
  (exists ik : string -> N, (forall a b, ik a = ik b -> a = b) /\ ik "org.opencontainers.image.created" = K_CREATED) /\
  (exists cls : option err -> N, (forall e, cls e = 0%N <-> e = None) /\
                                 (forall f e0, cls (Some (Err "fmt" f [e0])) = cls (Some e0))).
Proof. exact hypotheses_satisfiable. Qed.
Print Assumptions C19_gen_hypotheses_satisfiable.
