(* C02 — The verification level alone decides which failed validations reject.
   Statements only; every proof is [exact <lemma of C02_Core / C02_Proofs / C02_Struct>].

   Objects (definitions in theories/):
     get_level name override        = SignatureVerification.GetVerificationLevel over the level
                                      tables regenerated from /repo (Generated.v); level_for is its
                                      typed view (the four overridable actions).
     verify_core lvl sc             = verifier.processSignature for a level and a scenario: what
                                      notation-core-go, the trust store, the revocation validator,
                                      the plugin manager and the plugin answered (universally
                                      quantified inputs). Its value is the observation: error class,
                                      reported results (type, action, failed), revocation validator
                                      consulted, plugin look-ups, verify-signature request.
     wf_sc sc                       = the plugin metadata lists each verification capability at
                                      most once (the only input contract).
   Quantifiers: every level (all 3^4 action records, hence the 24 reachable maps), every scenario.
   The theorems of the last part (audit round, proofs in theories/C02_Struct.v, by induction over the
   capability list) need no input contract at all. *)
From NV Require Import Base Regex Generated C02_Levels VerifyCore C02_Model C02_Core C02_Proofs C02_Struct C02_Versions.
From NV Require C20_Semver.
Open Scope string_scope.
Open Scope list_scope.

(* ------------------------------------------------------------------ *)
(* the configuration space: 24 enforcement maps                        *)
(* ------------------------------------------------------------------ *)

(* strict / permissive / audit with every legal override reach exactly the maps
   {enforce,log}^3 x {enforce,log,skip} (authenticity, authentic timestamp, expiry; revocation);
   there are 24 of them *)
Theorem C02_levels : forall l : level,
  (In l reachable_levels <-> In l all_24)
  /\ (In l all_24 <-> (l_auth l <> Skip /\ l_ts l <> Skip /\ l_exp l <> Skip))
  /\ NoDup all_24 /\ List.length all_24 = 24%nat.
Proof. exact levels_thm. Qed.
Print Assumptions C02_levels.

(* for an override of any length: whatever GetVerificationLevel accepts on a level other than skip
   is a named level with only legal entries (known type, known action, not integrity, skip only on
   revocation), integrity stays enforce and the map is one of the 24 — so every illegal override
   is an error; skip accepts no override *)
Theorem C02_levels_legal : forall name ov nm enf,
  get_level name ov = inr (nm, enf) ->
  (name = "skip" /\ ov = [])
  \/ (In name base_names /\ Forall legal_entry ov
      /\ lookup_default "integrity" enf = "enforce" /\ In (level_of enf) all_24).
Proof. exact levels_legal_thm. Qed.
Print Assumptions C02_levels_legal.

(* and every legal override of a named level is accepted *)
Theorem C02_levels_complete : forall name ov,
  In name base_names -> Forall legal_entry ov -> exists nm enf, get_level name ov = inr (nm, enf).
Proof. exact get_level_complete. Qed.
Print Assumptions C02_levels_complete.

(* ------------------------------------------------------------------ *)
(* the acceptance rule                                                 *)
(* ------------------------------------------------------------------ *)

(* verification fails exactly when integrity fails, or a validation whose action is enforce
   failed, or there is a plugin / attribute problem: the demanded plugin is unusable (malformed
   demand, no manager, not installed, metadata error, invalid or too low version, no verification
   capability), was executed and failed / omitted a verdict it was asked for / left a critical
   attribute unprocessed, or the signature demands no plugin and carries a critical extended attribute
   (integer-labelled ones included) *)
Theorem C02_exact : forall lvl sc, wf_sc sc = true ->
  (accepted (verify_core lvl sc) = false <->
   s_integrity_ok sc = false \/ enforced_failure lvl sc = true \/ plugin_or_attribute_problem lvl sc = true).
Proof. exact exact_thm_s. Qed.
Print Assumptions C02_exact.

(* "a validation whose action is enforce failed", spelled out *)
Theorem C02_enforced_failure : forall lvl sc,
  enforced_failure lvl sc = true <->
  exists t, t <> TIntegrity /\ act_of lvl t = Enforce /\ failed_fact sc t = true.
Proof. exact enforced_failure_iff. Qed.
Print Assumptions C02_enforced_failure.

(* the same rule read off the outcome: rejected iff some REPORTED result has action enforce and
   failed, or there is a plugin / attribute problem *)
Theorem C02_exact_reported : forall lvl sc, wf_sc sc = true ->
  (accepted (verify_core lvl sc) = false <->
   (exists r, In r (o_results (verify_core lvl sc)) /\ r_action r = Enforce /\ r_failed r = true)
   \/ plugin_or_attribute_problem lvl sc = true).
Proof. exact exact_reported. Qed.
Print Assumptions C02_exact_reported.

(* the full statement of the property ("a critical extended attribute that nothing processes must
   never be accepted") is FALSE of the code: under strict with revocation skipped, a usable plugin
   whose only capability is revocation is not executed, the critical attribute "foo" is processed
   by nothing, and the signature is accepted (KNOWN FINDING, footprint 1) *)
Theorem C02_full_refuted :
  exists lvl sc,
    level_for "strict" [("revocation", "skip")] = Some lvl
    /\ wf_sc sc = true /\ s_integrity_ok sc = true
    /\ other_crit sc = ["foo"]
    /\ o_exec (verify_core lvl sc) = None
    /\ accepted (verify_core lvl sc) = true
    /\ should_fail_full lvl sc = true.
Proof. exact full_refuted. Qed.
Print Assumptions C02_full_refuted.

(* outside that footprint (plugin demanded and usable, none of its capabilities asked, critical
   attribute present) the rule the property states holds exactly — non-critical attributes included *)
Theorem C02_exact_partial : forall lvl sc, wf_sc sc = true -> f12b lvl sc = false ->
  (accepted (verify_core lvl sc) = false <-> should_fail_full lvl sc = true).
Proof. exact exact_partial_s. Qed.
Print Assumptions C02_exact_partial.

(* outside the footprint, an accepted signature has no integer-labelled critical attribute and
   every critical extended attribute was processed by the plugin that was executed *)
Theorem C02_critical_processed_partial : forall lvl sc, wf_sc sc = true ->
  f12b lvl sc = false -> accepted (verify_core lvl sc) = true ->
  s_nonstring_crit sc = false
  /\ (other_crit sc <> [] ->
      exists processed ti rev cs attrs,
        s_presp sc = PResp processed ti rev
        /\ o_exec (verify_core lvl sc) = Some (cs, attrs)
        /\ forall k, In k (other_crit sc) -> In k processed).
Proof. exact critical_processed_partial_s. Qed.
Print Assumptions C02_critical_processed_partial.

(* the pre-fix code (before 6f898df: processPluginResponse demanded that the executed plugin also
   acknowledge NON-critical attributes) rejected an input for which the property lists no reason;
   the code as it is now accepts it *)
Theorem C02_noncritical_strictness_v0_refuted :
  exists lvl sc, wf_sc sc = true /\ f12b lvl sc = false /\ should_fail_full lvl sc = false /\ other_crit sc = []
                 /\ accepted (verify_core_v0 lvl sc) = false
                 /\ accepted (verify_core lvl sc) = true.
Proof. exact noncritical_strictness_v0_refuted. Qed.
Print Assumptions C02_noncritical_strictness_v0_refuted.

(* ------------------------------------------------------------------ *)
(* log reports, skip does nothing, capabilities replace                *)
(* ------------------------------------------------------------------ *)

(* an accepting run reports every performed validation with its outcome; in particular a failed
   validation whose action is log is in the results, marked failed *)
Theorem C02_log_reports : forall lvl sc, wf_sc sc = true -> accepted (verify_core lvl sc) = true ->
  o_results (verify_core lvl sc) = expected_results lvl sc
  /\ forall t, t <> TIntegrity -> act_of lvl t = Log -> failed_fact sc t = true ->
               In (mk_res t Log true) (o_results (verify_core lvl sc)).
Proof. exact log_reports_thm. Qed.
Print Assumptions C02_log_reports.

(* ... and does not fail the outcome: acceptance does not depend on the result of a validation
   whose action is not enforce *)
Theorem C02_log_does_not_fail : forall lvl sc, wf_sc sc = true ->
  (l_auth lvl <> Enforce -> forall n b,
     accepted (verify_core lvl (set_identity b (set_auth n sc))) = accepted (verify_core lvl sc))
  /\ (l_exp lvl <> Enforce -> forall b,
     accepted (verify_core lvl (set_expired b sc)) = accepted (verify_core lvl sc))
  /\ (l_ts lvl <> Enforce -> forall b,
     accepted (verify_core lvl (set_ts_ok b sc)) = accepted (verify_core lvl sc))
  /\ (l_rev lvl <> Enforce -> forall b,
     accepted (verify_core lvl (set_rev_ok b sc)) = accepted (verify_core lvl sc)).
Proof. exact log_does_not_fail_s. Qed.
Print Assumptions C02_log_does_not_fail.

(* every reported result carries the action the level assigns to its type; the types come in the
   fixed order integrity, authenticity, expiry, authenticTimestamp, revocation, each at most once *)
Theorem C02_actions : forall lvl sc, wf_sc sc = true ->
  Forall (fun r => r_action r = act_of lvl (r_type r)) (o_results (verify_core lvl sc))
  /\ exists k, map r_type (o_results (verify_core lvl sc)) = firstn k type_order.
Proof. exact actions_ok. Qed.
Print Assumptions C02_actions.

(* a skipped revocation validation is not performed at all: validator not consulted, capability not
   in the plugin request, no revocation result *)
Theorem C02_skip_not_performed : forall lvl sc, wf_sc sc = true -> l_rev lvl = Skip ->
  o_rev_called (verify_core lvl sc) = false
  /\ (forall cs attrs, o_exec (verify_core lvl sc) = Some (cs, attrs) -> ~ In CapRev cs)
  /\ (forall r, In r (o_results (verify_core lvl sc)) -> r_type r <> TRev).
Proof. exact skip_not_performed_s. Qed.
Print Assumptions C02_skip_not_performed.

(* a capability the usable plugin declares replaces the native check: the whole observation is
   independent of the native fact, the validator is not consulted, and the verdict that counts is
   the plugin's *)
Theorem C02_capability_replaces : forall lvl sc caps, usable_caps sc = Some caps ->
  (has_cap CapTI caps = true ->
     (forall b, verify_core lvl (set_identity b sc) = verify_core lvl sc)
     /\ identity_failed sc = match s_presp sc with PResp _ (Some false) _ => true | _ => false end)
  /\ (has_cap CapRev caps = true ->
     (forall b, verify_core lvl (set_rev_ok b sc) = verify_core lvl sc)
     /\ (wf_sc sc = true -> o_rev_called (verify_core lvl sc) = false)
     /\ revocation_failed sc = match s_presp sc with PResp _ _ (Some false) => true | _ => false end).
Proof. exact capability_replaces_s. Qed.
Print Assumptions C02_capability_replaces.

(* the plugin is asked for exactly its declared verification capabilities minus a skipped
   revocation, never for nothing, and is handed every non-plugin extended attribute *)
Theorem C02_plugin_request : forall lvl sc cs attrs, wf_sc sc = true ->
  o_exec (verify_core lvl sc) = Some (cs, attrs) ->
  cs = asked lvl sc /\ cs <> [] /\ attrs = other_keys sc.
Proof. exact plugin_request_s. Qed.
Print Assumptions C02_plugin_request.

(* ------------------------------------------------------------------ *)
(* monotonicity                                                        *)
(* ------------------------------------------------------------------ *)

(* relaxing actions pointwise (enforce <= log <= skip) can only turn a rejection into an acceptance *)
Theorem C02_monotone : forall l1 l2 sc, wf_sc sc = true -> level_le l1 l2 = true ->
  accepted (verify_core l1 sc) = true -> accepted (verify_core l2 sc) = true.
Proof. exact monotone_s. Qed.
Print Assumptions C02_monotone.

(* strict implies permissive implies audit, for the same override of any length, over the level
   tables of the source *)
Theorem C02_monotone_named : forall ov sc ls lp la, wf_sc sc = true ->
  level_for "strict" ov = Some ls -> level_for "permissive" ov = Some lp -> level_for "audit" ov = Some la ->
  (accepted (verify_core ls sc) = true -> accepted (verify_core lp sc) = true)
  /\ (accepted (verify_core lp sc) = true -> accepted (verify_core la sc) = true).
Proof. exact monotone_named_s. Qed.
Print Assumptions C02_monotone_named.

(* ------------------------------------------------------------------ *)
(* the oracle evaluated on the implementation's observations           *)
(* ------------------------------------------------------------------ *)

(* the model meets the boolean oracle on every well-formed input outside the footprint of the
   known finding (fp i = 1); inside it the oracle is violated, by the model as by the code *)
Theorem C02_model_meets_oracle_partial : forall i, wf i = true -> fp i = 0%N -> spec_ok i (model i) = true.
Proof. exact model_spec_ok_partial. Qed.
Print Assumptions C02_model_meets_oracle_partial.

Theorem C02_model_meets_oracle_refuted : exists i, wf i = true /\ fp i = 1%N /\ spec_ok i (model i) = false.
Proof. exact model_spec_ok_refuted. Qed.
Print Assumptions C02_model_meets_oracle_refuted.

(* ------------------------------------------------------------------ *)
(* non-vacuity                                                         *)
(* ------------------------------------------------------------------ *)

(* permissive with expiry overridden to enforce; expired signature, revoked certificate, plugin
   with both capabilities whose identity verdict is a failure: the hypotheses of the theorems are
   met and the run is rejected on the enforced expiry, the logged failures are not what rejects *)
Example C02_example_reject :
  let sc := mk_sc true (AStr "plug") (AStr "1.0.0") true [("foo", true)] false 0 true true true false
                  (PMPlugin true true [CapTI; CapOther; CapRev]) (PResp ["foo"] (Some true) (Some false)) in
  exists lvl, level_for "permissive" [("expiry", "enforce")] = Some lvl
    /\ wf_sc sc = true /\ usable_caps sc = Some [CapTI; CapRev]
    /\ verify_core lvl sc =
       mk_obs (EResult TExpiry)
              [mk_res TIntegrity Enforce false; mk_res TAuth Enforce false; mk_res TExpiry Enforce true]
              false ["plug"] None.
Proof. eexists. repeat split; vm_compute; reflexivity. Qed.

(* the same under audit: accepted, the plugin is executed for both capabilities, the failed expiry
   and the plugin's failed revocation verdict are reported with action log *)
Example C02_example_accept :
  let sc := mk_sc true (AStr "plug") (AStr "1.0.0") true [("foo", true)] false 0 true true true false
                  (PMPlugin true true [CapTI; CapOther; CapRev]) (PResp ["foo"] (Some true) (Some false)) in
  exists lvl, level_for "audit" [] = Some lvl
    /\ verify_core lvl sc =
       mk_obs ENone
              [mk_res TIntegrity Enforce false; mk_res TAuth Log false; mk_res TExpiry Log true;
               mk_res TTimestamp Log false; mk_res TRev Log true]
              false ["plug"] (Some ([CapTI; CapRev], ["foo"]))
    /\ f12b lvl sc = false /\ should_fail_full lvl sc = false.
Proof. eexists. repeat split; vm_compute; reflexivity. Qed.

(* ================================================================== *)
(* audit round: the same clauses for EVERY scenario (no contract),     *)
(* the reasons spelled out, what is performed, truthful outcomes       *)
(* ================================================================== *)

(* the acceptance rule holds for every scenario, duplicated capabilities included *)
Theorem C02_exact_all : forall lvl sc,
  accepted (verify_core lvl sc) = false <->
  s_integrity_ok sc = false \/ enforced_failure lvl sc = true \/ plugin_or_attribute_problem lvl sc = true.
Proof. exact exact_all_iff. Qed.
Print Assumptions C02_exact_all.

(* "plugin / attribute problem" is the disjunction of the four reasons below *)
Theorem C02_problem_parts : forall lvl sc,
  plugin_or_attribute_problem lvl sc = true <->
  s_nonstring_crit sc = true                                (* integer-labelled critical attribute *)
  \/ plugin_unusable sc = true
  \/ plugin_exec_problem lvl sc = true
  \/ negb (plugin_demanded sc) && nothing_processes lvl sc = true.
Proof. exact problem_parts. Qed.
Print Assumptions C02_problem_parts.

(* the demanded plugin is unusable: the demand or the demanded minimum version is malformed, the plugin
   is MISSING (no manager, not installed, no metadata), TOO OLD (version not SemVer or below the demanded
   minimum) or LACKS VERIFICATION CAPABILITIES *)
Theorem C02_plugin_unusable_spelled : forall sc,
  plugin_unusable sc = true <->
  plugin_demanded sc = true
  /\ (Demand_malformed sc \/ Minver_malformed sc \/ Plugin_missing sc \/ Plugin_too_old sc
      \/ Plugin_lacks_capabilities sc).
Proof. exact plugin_unusable_iff. Qed.
Print Assumptions C02_plugin_unusable_spelled.

(* the executed plugin fails, leaves a critical extended attribute unprocessed, or OMITS A VERDICT IT WAS
   ASKED FOR *)
Theorem C02_plugin_exec_problem_spelled : forall lvl sc,
  plugin_exec_problem lvl sc = true <->
  asked lvl sc <> []
  /\ (s_presp sc = PErr
      \/ exists p ti rev, s_presp sc = PResp p ti rev
           /\ ((exists k, In k (other_crit sc) /\ ~ In k p)
               \/ (In CapTI (asked lvl sc) /\ ti = None)
               \/ (In CapRev (asked lvl sc) /\ rev = None))).
Proof. exact plugin_exec_problem_iff. Qed.
Print Assumptions C02_plugin_exec_problem_spelled.

(* no plugin is demanded and there is a critical extended attribute (a stray critical minimum-version
   header counts): nothing can process it *)
Theorem C02_no_plugin_critical_spelled : forall lvl sc,
  negb (plugin_demanded sc) && nothing_processes lvl sc = true <->
  s_plugin_attr sc = AAbsent
  /\ (other_crit sc <> [] \/ (s_minver_attr sc <> AAbsent /\ s_minver_attr sc <> ANotCritical)).
Proof. exact no_plugin_critical_iff. Qed.
Print Assumptions C02_no_plugin_critical_spelled.

(* monotonicity for every scenario *)
Theorem C02_monotone_all : forall l1 l2 sc, level_le l1 l2 = true ->
  accepted (verify_core l1 sc) = true -> accepted (verify_core l2 sc) = true.
Proof. exact monotone_all. Qed.
Print Assumptions C02_monotone_all.

Theorem C02_monotone_named_all : forall ov sc ls lp la,
  level_for "strict" ov = Some ls -> level_for "permissive" ov = Some lp -> level_for "audit" ov = Some la ->
  (accepted (verify_core ls sc) = true -> accepted (verify_core lp sc) = true)
  /\ (accepted (verify_core lp sc) = true -> accepted (verify_core la sc) = true).
Proof. exact monotone_named_all. Qed.
Print Assumptions C02_monotone_named_all.

(* WHICH validations notation performs, as a function of level and scenario (not only "not when
   skipped"): authenticity after integrity and plugin discovery; expiry unless authenticity was an
   enforced failure; the timestamp unless expiry was; revocation — the validator is consulted — exactly
   when all of these passed, the level does not skip revocation and the plugin does not own it *)
Theorem C02_revocation_consulted_exact : forall lvl sc,
  o_rev_called (verify_core lvl sc) = performed lvl sc TRev.
Proof. exact rev_called_exact. Qed.
Print Assumptions C02_revocation_consulted_exact.

(* a performed validation is in the outcome; and nothing else is, apart from the revocation verdict of
   an executed plugin that was asked for it *)
Theorem C02_performed_reported : forall lvl sc t,
  (performed lvl sc t = true -> exists r, In r (o_results (verify_core lvl sc)) /\ r_type r = t)
  /\ ((exists r, In r (o_results (verify_core lvl sc)) /\ r_type r = t) ->
      performed lvl sc t = true
      \/ (t = TRev /\ plugin_run lvl sc = true /\ In CapRev (asked lvl sc))).
Proof. exact performed_reported. Qed.
Print Assumptions C02_performed_reported.

(* the plugin is executed exactly when discovery succeeded, no native validation was an enforced failure
   and some declared capability is left to ask after dropping a skipped revocation; it is then asked for
   exactly those capabilities and handed every non-plugin extended attribute *)
Theorem C02_plugin_executed_exact : forall lvl sc,
  o_exec (verify_core lvl sc) = if plugin_run lvl sc then Some (asked lvl sc, other_keys sc) else None.
Proof. exact exec_exact. Qed.
Print Assumptions C02_plugin_executed_exact.

(* every reported result — in rejected runs too — carries the action of the level and tells the truth:
   expiry, timestamp and revocation (native or the plugin's verdict, whoever owns it) exactly;
   authenticity is reported failed only if it failed and always when notation's own part failed *)
Theorem C02_results_truthful : forall lvl sc r, In r (o_results (verify_core lvl sc)) ->
  r_action r = act_of lvl (r_type r)
  /\ (r_type r = TIntegrity -> r_failed r = negb (s_integrity_ok sc))
  /\ (r_type r = TExpiry -> r_failed r = s_expired sc)
  /\ (r_type r = TTimestamp -> r_failed r = negb (s_ts_ok sc))
  /\ (r_type r = TRev -> r_failed r = revocation_failed sc)
  /\ (r_type r = TAuth -> (r_failed r = true -> authenticity_failed sc = true)
                          /\ (native_auth_failed sc = true -> r_failed r = true)).
Proof. exact results_truthful. Qed.
Print Assumptions C02_results_truthful.

(* a failed validation whose action is log is reported whenever it is performed — also when a LATER
   enforced failure rejects the signature *)
Theorem C02_log_reported_always : forall lvl sc t,
  t <> TIntegrity -> performed lvl sc t = true -> act_of lvl t = Log -> native_failed_fact sc t = true ->
  In (mk_res t Log true) (o_results (verify_core lvl sc)).
Proof. exact log_reported_always. Qed.
Print Assumptions C02_log_reported_always.

(* skipped revocation is not performed at all, for every scenario *)
Theorem C02_skip_not_performed_all : forall lvl sc, l_rev lvl = Skip ->
  o_rev_called (verify_core lvl sc) = false
  /\ (forall cs attrs, o_exec (verify_core lvl sc) = Some (cs, attrs) -> ~ In CapRev cs)
  /\ (forall r, In r (o_results (verify_core lvl sc)) -> r_type r <> TRev).
Proof. exact skip_all. Qed.
Print Assumptions C02_skip_not_performed_all.

(* a declared revocation capability replaces the native check: the validator is never consulted *)
Theorem C02_rev_capability_not_consulted : forall lvl sc,
  has_cap CapRev (caps_of sc) = true -> o_rev_called (verify_core lvl sc) = false.
Proof. exact rev_capability_not_consulted. Qed.
Print Assumptions C02_rev_capability_not_consulted.

(* the contract-free oracle evaluated by the harness on EVERY case: the model meets it outside the
   footprint of the known finding *)
Theorem C02_model_meets_oracle_all_partial : forall i, fp i = 0%N -> spec_all i (model i) = true.
Proof. exact model_spec_all_partial. Qed.
Print Assumptions C02_model_meets_oracle_all_partial.

(* ================================================================== *)
(* "too old", in SemVer terms (the version facts computed, not assumed) *)
(* ================================================================== *)

(* [versioned sc version caps]: the scenario sc with the demanded plugin installed, answering
   get-plugin-metadata with this version string and these capabilities; its three version facts are
   computed from the strings by the model of internal/semver.IsValid (the regular expression of the
   source) and x/mod/semver.Compare of property C20. [C20_Semver.prec_of] is SemVer 2.0.0 precedence. *)

(* a well-formed demand with minimum m and an installed plugin whose valid version precedes m: rejected as
   inconclusive right after integrity — whatever the level, the validations, the capabilities and the
   plugin's answer; nothing else is performed, the plugin is not executed *)
Theorem C02_too_old_rejects : forall lvl sc version caps n m,
  s_integrity_ok sc = true -> s_nonstring_crit sc = false ->
  s_plugin_attr sc = AStr n -> blank n = false ->
  s_minver_attr sc = AStr m -> blank m = false -> C20_Semver.sv_valid m = true ->
  C20_Semver.sv_valid version = true -> C20_Semver.prec_of version m = Lt ->
  verify_core lvl (versioned sc version caps)
  = mk_obs EInconclusive [mk_res TIntegrity Enforce false] false [n] None.
Proof. exact too_old_rejects. Qed.
Print Assumptions C02_too_old_rejects.

(* conversely a valid version that does not precede the demanded minimum (or no minimum demanded), with
   some verification capability, is usable: no plugin problem arises from discovery *)
Theorem C02_not_too_old_usable : forall sc version caps, demand_ok sc ->
  C20_Semver.sv_valid version = true ->
  (s_minver_attr sc = AAbsent
   \/ exists m, s_minver_attr sc = AStr m /\ C20_Semver.sv_valid m = true /\ C20_Semver.prec_of version m <> Lt) ->
  verification_caps caps <> [] ->
  usable_caps (versioned sc version caps) = Some (verification_caps caps)
  /\ plugin_unusable (versioned sc version caps) = false.
Proof. exact not_too_old_usable. Qed.
Print Assumptions C02_not_too_old_usable.

(* a version that is not SemVer is rejected like a too old one *)
Theorem C02_invalid_version_rejects : forall lvl sc version caps n,
  s_integrity_ok sc = true -> s_nonstring_crit sc = false ->
  s_plugin_attr sc = AStr n -> blank n = false ->
  (s_minver_attr sc = AAbsent
   \/ exists m, s_minver_attr sc = AStr m /\ blank m = false /\ C20_Semver.sv_valid m = true) ->
  C20_Semver.sv_valid version = false ->
  verify_core lvl (versioned sc version caps)
  = mk_obs EInconclusive [mk_res TIntegrity Enforce false] false [n] None.
Proof. exact invalid_version_rejects. Qed.
Print Assumptions C02_invalid_version_rejects.

(* non-vacuity: 1.2.0 against the minimum 1.10.0 is too old (numeric, not lexical, comparison), a release
   candidate precedes its release, build metadata is ignored; 1.10.0 against 1.2.0 is usable *)
Example C02_example_versions :
  let sc := mk_sc true (AStr "plug") (AStr "1.10.0") false [] false 0 true false true true PMNil PErr in
  let sc2 := mk_sc true (AStr "plug") (AStr "2.0.0") false [] false 0 true false true true PMNil PErr in
  let sc3 := mk_sc true (AStr "plug") (AStr "1.2.0") false [] false 0 true false true true PMNil
                   (PResp [] (Some true) None) in
  C20_Semver.sv_valid "1.10.0" = true /\ C20_Semver.sv_valid "1.2.0" = true
  /\ C20_Semver.prec_of "1.2.0" "1.10.0" = Lt /\ C20_Semver.prec_of "2.0.0-rc.1" "2.0.0" = Lt
  /\ o_err (verify_core (mk_level Log Log Log Log) (versioned sc "1.2.0" [CapTI])) = EInconclusive
  /\ o_err (verify_core (mk_level Log Log Log Log) (versioned sc2 "2.0.0-rc.1" [CapTI])) = EInconclusive
  /\ demand_ok sc3
  /\ accepted (verify_core (mk_level Enforce Enforce Enforce Enforce) (versioned sc3 "1.10.0" [CapTI])) = true
  /\ accepted (verify_core (mk_level Enforce Enforce Enforce Enforce) (versioned sc3 "1.2.0+build.5" [CapTI])) = true
  /\ o_err (verify_core (mk_level Log Log Log Log) (versioned sc3 "01.2.0" [CapTI])) = EInconclusive.
Proof.
  repeat split; try (vm_compute; reflexivity).
  exists "plug". split; [reflexivity|]. split; [reflexivity|]. right. exists "1.2.0". repeat split; vm_compute; reflexivity.
Qed.

(* ------------------------------------------------------------------ *)
(* non-vacuity of the audit-round theorems                             *)
(* ------------------------------------------------------------------ *)

(* each reason of the property text ALONE rejects: level audit (no validation can reject), everything
   valid; plugin not installed / too old / without verification capability / omitting the verdict asked
   for / leaving the critical attribute "foo" unprocessed; and the well-behaved plugin is accepted *)
Definition ex_plug (p : pm) (r : presp) : scenario :=
  mk_sc true (AStr "plug") (AStr "1.0.0") true [("foo", true)] false 0 true false true true p r.
Example C02_example_reasons :
  let audit := mk_level Log Log Log Log in
  let good := PResp ["foo"] (Some true) (Some true) in
  accepted (verify_core audit (ex_plug (PMPlugin true true [CapTI; CapRev]) good)) = true
  /\ o_err (verify_core audit (ex_plug PMNotInstalled good)) = EInconclusive
  /\ o_err (verify_core audit (ex_plug (PMPlugin true false [CapTI; CapRev]) good)) = EInconclusive
  /\ o_err (verify_core audit (ex_plug (PMPlugin true true [CapOther]) good)) = EInconclusive
  /\ o_err (verify_core audit (ex_plug (PMPlugin true true [CapTI; CapRev]) (PResp ["foo"] (Some true) None))) = EInconclusive
  /\ o_err (verify_core audit (ex_plug (PMPlugin true true [CapTI; CapRev]) (PResp [] (Some true) (Some true)))) = EOther
  /\ Plugin_missing (ex_plug PMNotInstalled good)
  /\ Plugin_too_old (ex_plug (PMPlugin true false [CapTI; CapRev]) good)
  /\ Plugin_lacks_capabilities (ex_plug (PMPlugin true true [CapOther]) good).
Proof.
  repeat split; try (vm_compute; reflexivity).
  - right. left. reflexivity.
  - exists true, false, [CapTI; CapRev]. split; [reflexivity | right; reflexivity].
  - exists true, true, [CapOther]. cbn. repeat split; intros [H|[]]; discriminate H.
Qed.

(* monotonicity is strict: the same expired signature of a revoked certificate is rejected under strict
   (on expiry), accepted under permissive and audit with both failures reported (action log), and
   rejected again (on revocation) when the override of permissive enforces revocation *)
Example C02_example_monotone_strict :
  let sc := mk_sc true AAbsent AAbsent false [] false 0 true true true false PMNil PErr in
  exists ls lp la lpe,
    level_for "strict" [] = Some ls /\ level_for "permissive" [] = Some lp /\ level_for "audit" [] = Some la
    /\ level_for "permissive" [("revocation", "enforce")] = Some lpe
    /\ o_err (verify_core ls sc) = EResult TExpiry
    /\ accepted (verify_core lp sc) = true
    /\ In (mk_res TExpiry Log true) (o_results (verify_core lp sc))
    /\ In (mk_res TRev Log true) (o_results (verify_core lp sc))
    /\ o_err (verify_core lpe sc) = EResult TRev
    /\ accepted (verify_core la sc) = true
    /\ level_le ls lp = true /\ level_le lp la = true /\ level_le lpe lp = true.
Proof. do 4 eexists. repeat split; vm_compute; auto 10. Qed.

(* a logged failure in a REJECTED run: permissive with revocation enforced; the expired signature of a
   revoked certificate is rejected on revocation, and the logged expiry failure is in the outcome *)
Example C02_example_log_in_rejected_run :
  let sc := mk_sc true AAbsent AAbsent false [] false 0 true true true false PMNil PErr in
  exists lvl, level_for "audit" [("revocation", "enforce")] = Some lvl
    /\ performed lvl sc TExpiry = true /\ act_of lvl TExpiry = Log /\ native_failed_fact sc TExpiry = true
    /\ verify_core lvl sc =
       mk_obs (EResult TRev)
              [mk_res TIntegrity Enforce false; mk_res TAuth Log false; mk_res TExpiry Log true;
               mk_res TTimestamp Log false; mk_res TRev Enforce true]
              true [] None.
Proof. eexists. repeat split; vm_compute; reflexivity. Qed.

(* skip: strict with revocation skipped, plugin with both capabilities: executed for trusted identity
   only, validator not consulted, no revocation result although the certificate is revoked *)
Example C02_example_skip :
  let sc := mk_sc true (AStr "plug") AAbsent false [] false 0 false false true false
                  (PMPlugin true true [CapRev; CapTI]) (PResp [] (Some true) (Some false)) in
  exists lvl, level_for "strict" [("revocation", "skip")] = Some lvl /\ l_rev lvl = Skip
    /\ verify_core lvl sc =
       mk_obs ENone
              [mk_res TIntegrity Enforce false; mk_res TAuth Enforce false; mk_res TExpiry Enforce false;
               mk_res TTimestamp Enforce false]
              false ["plug"] (Some ([CapTI], [])).
Proof. eexists. repeat split; vm_compute; reflexivity. Qed.

(* outside the contract wf_sc: the revocation capability declared twice; the plugin's verdict is examined
   (and reported) twice; the contract-free theorems apply, acceptance follows the level *)
Example C02_example_duplicates :
  let sc := mk_sc true (AStr "plug") AAbsent false [] false 0 true false true true
                  (PMPlugin true true [CapRev; CapRev]) (PResp [] None (Some false)) in
  wf_sc sc = false
  /\ accepted (verify_core (mk_level Enforce Enforce Enforce Log) sc) = true
  /\ o_results (verify_core (mk_level Enforce Enforce Enforce Log) sc) =
     [mk_res TIntegrity Enforce false; mk_res TAuth Enforce false; mk_res TExpiry Enforce false;
      mk_res TTimestamp Enforce false; mk_res TRev Log true; mk_res TRev Log true]
  /\ o_err (verify_core (mk_level Enforce Enforce Enforce Enforce) sc) = EResult TRev.
Proof. repeat split; vm_compute; reflexivity. Qed.
