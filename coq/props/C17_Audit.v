(* C17 — theorems added by the theorem audit (docs/audit/C17.md). Statements
   only; every proof is [exact <lemma of C17_Audit / C17_Proofs>].

   They close: the converse of the error clause (the plugin's own error is
   returned only when it printed it), the exhaustive list of results, the
   verdict on a metadata reply rule by rule, calls whose process never ran,
   the name check against the FILE name (holds for CLIPlugins made the way
   CLIManager makes them; refuted for the bare constructor), the wiring
   "io.Copy into LimitWriter(&bytes.Buffer, cap)" that turns the cap on both
   streams into an executor error for every chunking of the output, and the
   time bound at the configuration CLIPlugin really uses (PARTIAL: timed model
   of os/exec, as in C17_Property.v). *)
From NV Require Import Base Generated C17_Model C17_Proofs C17_Audit.

(* ---- the error clause, converse direction ---- *)

(* a proto.RequestError is returned only for a process that ran and failed,
   and it is the error this process printed: code, message and metadata are
   what encoding/json read from the captured stderr, and at least one is there *)
Theorem C17_request_error_only : forall i c m md,
  p_result (model_p i) = RReq c m md ->
  started i = true /\ exec_failed i = true /\ captured_stderr i <> 0%N
  /\ structured (i_stderr i) c m md.
Proof. exact request_error_only. Qed.
Print Assumptions C17_request_error_only.

(* every result of every call: refused file; failing call with exactly one of
   the three error kinds; otherwise success, wrong name, undecodable reply or
   the metadata rule 1..7 - nothing else (no untyped error) *)
Theorem C17_result_classes : forall i,
  let r := p_result (model_p i) in
  ((i_file i = FMissing \/ i_file i = FDir) /\ r = RNew)
  \/ ((i_file i = FExec \/ i_file i = FNoExec) /\ exec_failed i = true /\
      ((captured_stderr i = 0%N /\ r = RExec)
       \/ (captured_stderr i <> 0%N /\ exists c m md, structured (i_stderr i) c m md /\ r = RReq c m md)
       \/ (captured_stderr i <> 0%N /\ (forall c m md, ~ structured (i_stderr i) c m md) /\ r = RMalformed 0)))
  \/ (i_file i = FExec /\ exec_failed i = false /\
      (r = ROk \/ r = RName \/ r = RMalformed 8
       \/ exists k, (1 <= k <= 7)%N /\ i_cmd i = GetMetadata /\ r = RMalformed k)).
Proof. exact result_classes. Qed.
Print Assumptions C17_result_classes.

(* ---- replies ---- *)

(* the verdict on the reply of a process that finished cleanly, for each of the
   five commands *)
Theorem C17_reply_verdict : forall i,
  exec_failed i = false ->
  p_result (model_p i) =
  match i_stdout i with
  | SBad => RMalformed 8
  | SGood m =>
      match i_cmd i with
      | GetMetadata =>
          match validate m with
          | 0%N => if String.eqb (m_name m) (i_name i) then ROk else RName
          | k => RMalformed k
          end
      | _ => ROk
      end
  end.
Proof. exact run_verdict. Qed.
Print Assumptions C17_reply_verdict.

(* validate, rule by rule: which mandatory field is reported *)
Theorem C17_validate_rules : forall m,
  (m_name m = "" -> validate m = 1%N)
  /\ (m_name m <> "" -> m_desc m = "" -> validate m = 2%N)
  /\ (m_name m <> "" -> m_desc m <> "" -> m_ver m = "" -> validate m = 3%N)
  /\ (m_name m <> "" -> m_desc m <> "" -> m_ver m <> "" -> m_url m = "" -> validate m = 4%N)
  /\ (m_name m <> "" -> m_desc m <> "" -> m_ver m <> "" -> m_url m <> "" -> m_caps m = [] -> validate m = 5%N)
  /\ (m_name m <> "" -> m_desc m <> "" -> m_ver m <> "" -> m_url m <> "" -> m_caps m <> [] ->
      m_cvs m = [] -> validate m = 6%N)
  /\ (m_name m <> "" -> m_desc m <> "" -> m_ver m <> "" -> m_url m <> "" -> m_caps m <> [] ->
      m_cvs m <> [] -> ~ In contract_version (m_cvs m) -> validate m = 7%N)
  /\ (validate m <= 7)%N.
Proof. exact validate_rules. Qed.
Print Assumptions C17_validate_rules.

(* each mandatory field removed, or the contract version unsupported: refused,
   whatever the other fields say *)
Theorem C17_validate_rejects : forall m,
  m_name m = "" \/ m_desc m = "" \/ m_ver m = "" \/ m_url m = "" \/ m_caps m = [] \/ m_cvs m = []
  \/ ~ In contract_version (m_cvs m) ->
  validate m <> 0%N.
Proof. exact validate_rejects. Qed.
Print Assumptions C17_validate_rejects.

Theorem C17_validate_accepts_iff : forall m, validate m = 0%N <-> meta_complete m.
Proof. exact validate_ok_iff. Qed.
Print Assumptions C17_validate_accepts_iff.

(* ---- calls whose process never ran ---- *)

(* the file cannot be executed, or the context is already done: the typed
   executable-file error, no process, whatever the plugin would have printed *)
Theorem C17_not_started : forall i,
  (i_file i = FExec \/ i_file i = FNoExec) -> started i = false ->
  p_result (model_p i) = RExec /\ p_argv (model_p i) = None.
Proof. exact not_started. Qed.
Print Assumptions C17_not_started.

(* NewCLIPlugin refuses a missing file and a non-regular file: no call at all *)
Theorem C17_new_refused : forall i,
  (i_file i = FMissing \/ i_file i = FDir) -> model_p i = mk_pobs RNew true None.
Proof. exact new_refused. Qed.
Print Assumptions C17_new_refused.

(* a process that ran was given the command of the call, and the five commands
   are told apart by it *)
Theorem C17_argv_is_command : forall i a,
  p_argv (model_p i) = Some a -> a = cmd_arg (i_cmd i) /\ started i = true.
Proof. exact argv_is_command. Qed.
Print Assumptions C17_argv_is_command.

Theorem C17_commands_distinct : forall c c', cmd_arg c = cmd_arg c' -> c = c'.
Proof. exact cmd_arg_injective. Qed.
Print Assumptions C17_commands_distinct.

(* ---- "a name equal to the plugin's file name" ---- *)

(* the file name plays no part in the call *)
Theorem C17_file_name_not_consulted : forall i b, model_p (set_base i b) = model_p i.
Proof. exact frame_base. Qed.
Print Assumptions C17_file_name_not_consulted.

(* the request side plays no part either: the result, the moment the call has
   returned by, the input contract and the property oracle are the same whatever
   the size of the request, whether the plugin reads it, and whether a
   descendant keeps the inherited stdin open *)
Theorem C17_stdin_side_not_consulted : forall i large reads holds,
  model_p (set_stdin i large reads holds) = model_p i /\
  wf_p (set_stdin i large reads holds) = wf_p i /\
  forall o, spec_p (set_stdin i large reads holds) o = spec_p i o.
Proof. exact frame_stdin. Qed.
Print Assumptions C17_stdin_side_not_consulted.

(* for a CLIPlugin made the way CLIManager.Get and CLIManager.Install make it
   (path .../notation-<name>), accepted metadata names the file *)
Theorem C17_name_is_file_name : forall i,
  i_cmd i = GetMetadata -> i_base i = bin_name (i_name i) ->
  p_result (model_p i) = ROk ->
  exists m, i_stdout i = SGood m /\ bin_name (m_name m) = i_base i.
Proof. exact name_is_file_name. Qed.
Print Assumptions C17_name_is_file_name.

(* for the bare public constructor the clause is FALSE: NewCLIPlugin(ctx, "foo",
   ".../notation-bar") + a plugin that says "foo" succeeds (replayed on the real
   code: harness family file:name-mismatch) ... *)
Theorem C17_name_vs_file_refuted :
  exists i m, wf_p i = true /\ i_cmd i = GetMetadata /\ i_stdout i = SGood m
              /\ model_p i = mk_pobs ROk true (Some "get-plugin-metadata")
              /\ i_base i <> bin_name (m_name m).
Proof. exact name_vs_file_refuted. Qed.
Print Assumptions C17_name_vs_file_refuted.

(* ... and the plugin that truthfully names its file is refused *)
Theorem C17_name_of_file_refused_refuted :
  exists i m, i_cmd i = GetMetadata /\ i_stdout i = SGood m /\ i_base i = bin_name (m_name m)
              /\ meta_complete m /\ p_result (model_p i) = RName.
Proof. exact name_of_file_refused_refuted. Qed.
Print Assumptions C17_name_of_file_refused_refuted.

(* ---- bounded output: the wiring of execCommander.Output ---- *)

(* io.Copy from a pipe into LimitWriter(&bytes.Buffer, L), for EVERY way the
   output arrives in chunks: the buffer never holds more than the limit; it
   holds min(total, L); the copy fails exactly when the plugin printed more
   than the limit; the budget left is L minus what the buffer holds *)
Theorem C17_copy_cap : forall L chunks,
  all_pos chunks ->
  let r := model_c (mk_cinput L chunks) in
  (c_written r <= Z.max 0 L)%Z
  /\ c_written r = Z.min (zsum chunks) (Z.max 0 L)
  /\ (c_err r = CNil <-> (zsum chunks <= Z.max 0 L)%Z)
  /\ c_left r = (L - c_written r)%Z.
Proof. exact copy_cap. Qed.
Print Assumptions C17_copy_cap.

(* at the fixed cap of plugin.go, for either stream *)
Theorem C17_streams_within_cap : forall chunks,
  all_pos chunks ->
  let r := model_c (mk_cinput (Z.of_N cap) chunks) in
  (c_written r <= Z.of_N cap)%Z
  /\ ((zsum chunks <= Z.of_N cap)%Z -> c_written r = zsum chunks /\ c_err r = CNil)
  /\ ((Z.of_N cap < zsum chunks)%Z -> c_written r = Z.of_N cap /\ c_err r <> CNil).
Proof. exact streams_within_cap. Qed.
Print Assumptions C17_streams_within_cap.

(* a failed copy leaves no budget: nothing more can reach the buffer *)
Theorem C17_copy_failed_exhausted : forall L chunks,
  (0 <= L)%Z -> all_pos chunks ->
  c_err (model_c (mk_cinput L chunks)) <> CNil -> c_left (model_c (mk_cinput L chunks)) = 0%Z.
Proof. exact copy_failed_exhausted. Qed.
Print Assumptions C17_copy_failed_exhausted.

(* the executor error of the process model IS: not started, killed, non-zero
   exit, a failed copy of stdout, a failed copy of stderr, or WaitDelay expired
   - for every chunking of the two streams; and the stderr the host then looks
   at is what the copy let through *)
Theorem C17_exec_failed_wiring : forall i co ce,
  all_pos co -> all_pos ce ->
  zsum co = Z.of_N (i_stdout_len i) -> zsum ce = Z.of_N (i_stderr_len i) ->
  exec_failed i =
    (negb (started i) || proc_killed i || negb (i_exit i =? 0)%N
     || copy_fails (Z.of_N cap) co || copy_fails (Z.of_N cap) ce
     || io_expired (host_of i) (beh_of i))
  /\ (started i = true ->
      Z.of_N (captured_stderr i) = c_written (model_c (mk_cinput (Z.of_N cap) ce))).
Proof. exact exec_failed_wiring. Qed.
Print Assumptions C17_exec_failed_wiring.

(* ---- bounded time at CLIPlugin's configuration (PARTIAL: timed model) ---- *)

(* CommandContext + WaitDelay = pluginWaitDelay: whatever the process and its
   descendants do (b is arbitrary: never exiting, pipes never closed), a call
   whose context is done at tc is back by tc + kill latency + 5 s *)
Theorem C17_cli_bounded_partial : forall b tc,
  exists r, t_return (cli_host (Fin tc)) b = Fin r /\ (r <= tc + b_lat b + plugin_wait_delay)%N.
Proof. exact cli_bounded. Qed.
Print Assumptions C17_cli_bounded_partial.

Theorem C17_cli_bounded_exit_partial : forall b done te,
  b_exit b = Fin te ->
  exists r, t_return (cli_host done) b = Fin r /\ (r <= te + plugin_wait_delay)%N.
Proof. exact cli_bounded_exit. Qed.
Print Assumptions C17_cli_bounded_exit_partial.

(* the bound is attained *)
Theorem C17_cli_bound_tight_partial : forall tc,
  t_return (cli_host (Fin tc)) (mk_beh Never Never 0) = Fin (tc + plugin_wait_delay).
Proof. exact cli_bound_tight. Qed.
Print Assumptions C17_cli_bound_tight_partial.

(* the process model uses exactly that configuration, and every call of it is
   back 5 s after the process exited and 5 s after the context was done *)
Theorem C17_model_return_bound_partial : forall i,
  host_of i = cli_host (opt_time (i_deadline i))
  /\ exists r, t_return (host_of i) (beh_of i) = Fin r
               /\ (r <= i_sleep i + plugin_wait_delay)%N
               /\ (forall d, i_deadline i = Some d -> (r <= d + plugin_wait_delay)%N).
Proof. intros i. split; [exact (host_of_cli i) | exact (model_return_bound i)]. Qed.
Print Assumptions C17_model_return_bound_partial.

(* ---- non-vacuity ---- *)

(* what the property does not promise: without cancellation a plugin that
   never exits is waited for *)
Example C17_example_no_cancel_no_bound :
  t_return (cli_host Never) (mk_beh Never (Fin 0) 0) = Never.
Proof. reflexivity. Qed.

(* never exiting, pipes never closed, 30 ms to die: back at 1000 + 30 + 5000 at the latest *)
Example C17_example_bounded :
  t_return (cli_host (Fin 1000)) (mk_beh Never Never 30) = Fin 6000.
Proof. reflexivity. Qed.

Definition ex_in2 (cmd : cmd) (file : fkind) (exit : N) (deadline : option N) (out : sout) (elen : N) (e : serr) :=
  mk_pinput cmd "foo" "notation-foo" file exit 0 None deadline 100 out elen e 9000 false true false.

(* context already done, plugin "would" print an error: nothing ran *)
Example C17_example_not_started :
  started (ex_in2 DescribeKey FExec 0 (Some 0%N) (SGood witness_meta) 30 (EJson "ERROR" "x" None)) = false
  /\ model_p (ex_in2 DescribeKey FExec 0 (Some 0%N) (SGood witness_meta) 30 (EJson "ERROR" "x" None))
     = mk_pobs RExec true None.
Proof. split; reflexivity. Qed.

Example C17_example_noexec :
  model_p (ex_in2 GetMetadata FNoExec 0 None (SGood witness_meta) 30 (EJson "ERROR" "x" None))
  = mk_pobs RExec true None.
Proof. reflexivity. Qed.

(* the three error kinds, the metadata-only error, nil versus empty metadata *)
Example C17_example_error_kinds :
  p_result (model_p (ex_in2 VerifySignature FExec 3 None (SGood witness_meta) 0 ENotJson)) = RExec
  /\ p_result (model_p (ex_in2 VerifySignature FExec 3 None (SGood witness_meta) 9 ENotJson)) = RMalformed 0
  /\ p_result (model_p (ex_in2 VerifySignature FExec 3 None (SGood witness_meta) 2 (EJson "" "" None))) = RMalformed 0
  /\ p_result (model_p (ex_in2 VerifySignature FExec 3 None (SGood witness_meta) 20 (EJson "" "" (Some []))))
     = RReq "" "" (Some [])
  /\ p_result (model_p (ex_in2 VerifySignature FExec 3 None (SGood witness_meta) 20 (EJson "THROTTLED" "" None)))
     = RReq "THROTTLED" "" None.
Proof. repeat split; reflexivity. Qed.

(* each rule of validate has an input that triggers it *)
Example C17_example_rules :
  map validate
    [mk_meta "" "d" "v" "u" ["c"] ["1.0"]; mk_meta "n" "" "v" "u" ["c"] ["1.0"];
     mk_meta "n" "d" "" "u" ["c"] ["1.0"]; mk_meta "n" "d" "v" "" ["c"] ["1.0"];
     mk_meta "n" "d" "v" "u" [] ["1.0"]; mk_meta "n" "d" "v" "u" ["c"] [];
     mk_meta "n" "d" "v" "u" ["c"] ["2.0"; "1.0.0"]; mk_meta "n" "d" "v" "u" ["c"] ["2.0"; "1.0"]]
  = [1; 2; 3; 4; 5; 6; 7; 0]%N.
Proof. reflexivity. Qed.

(* cap 10, chunks 4 + 4 + 4: the third write is cut to 2 bytes (short write) *)
Example C17_example_copy :
  all_pos [4; 4; 4]%Z
  /\ model_c (mk_cinput 10 [4; 4; 4]%Z) = mk_cres 10 CShort 0 3
  /\ model_c (mk_cinput 10 [4; 6; 1; 5]%Z) = mk_cres 10 CLimit 0 3
  /\ model_c (mk_cinput 10 [4; 6]%Z) = mk_cres 10 CNil 0 2.
Proof. split; [repeat constructor|]. repeat split; reflexivity. Qed.

(* the hypothesis of the third clause of C17_cap is met: limit 10 used up by 4 + 6 *)
Example C17_example_cap_exhausted :
  let ws1 := [(4, scripted 100 false); (6, scripted 100 false)]%Z in
  accepted (lw_run 10 ws1) = 10%Z /\ lw_final 10 ws1 = 0%Z.
Proof. split; reflexivity. Qed.

(* chunkings exist for the wiring theorem: one chunk per stream *)
Example C17_example_wiring :
  let i := ex_in2 GetMetadata FExec 0 None (SGood witness_meta) 30 ENotJson in
  all_pos [100]%Z /\ all_pos [30]%Z /\ zsum [100]%Z = Z.of_N (i_stdout_len i) /\ zsum [30]%Z = Z.of_N (i_stderr_len i).
Proof. cbn. repeat split; repeat constructor. Qed.
