(* C16 — theorems added by the clause-by-clause audit (docs/audit/C16.md).
   Statements only; proofs are in theories/C16_Audit.v.
   Notation (C16_Model / C16_Path):
     pjoin [root; name]        filepath.Join(root, name), as dir.SysFS.SysPath computes it
     comps_of p                the non-empty components of p
     allowed root name         <clean root>/<name>
     withinb a p               p is a, or lies below a (lexically; both are clean paths)
     exec_op i                 outcome (error, effect log, final file system) of operation i_op i
     name_op i name            i_op i is Get / Uninstall / Verify with that name *)
From NV Require Import Base C16_Path C16_Model C16_Proofs C16_Audit.
Open Scope string_scope.

(* ---- "a name that would resolve anywhere else is rejected with an error and
        causes no process execution and no file-system change" ---- *)

(* stated on the path the manager would compute, not on the validation
   function: when <root>/<name> is NOT the direct child of the clean root whose
   last component is the name, the operation returns the invalid-name error (or,
   for the verifier, the blank-attribute error), performs no stat, exec,
   removal or write, and the file system is the one it started from *)
Theorem C16_resolving_elsewhere_rejected : forall i name,
  is_abs (i_root i) = true -> name_op i name ->
  comps_of (pjoin [i_root i; name]) <> (comps_of (clean (i_root i)) ++ [name])%list ->
  let r := exec_op i in
  (r_err r = EInvalid \/ r_err r = EEmpty) /\ r_log r = [] /\ r_fs r = world i.
Proof. exact elsewhere_rejected. Qed.
Print Assumptions C16_resolving_elsewhere_rejected.

(* every byte string as a name: refused with nothing done, or <root>/<name> is
   that direct child, every effect is on it or below it, and every other path
   of the file system is as it was *)
Theorem C16_every_name : forall i name,
  is_abs (i_root i) = true -> name_op i name ->
  let r := exec_op i in
  let a := allowed (i_root i) name in
  ((r_err r = EInvalid \/ r_err r = EEmpty) /\ r_log r = [] /\ r_fs r = world i)
  \/
  (comps_of (pjoin [i_root i; name]) = (comps_of (clean (i_root i)) ++ [name])%list
   /\ pjoin [i_root i; name] = a
   /\ r_err r <> EInvalid
   /\ Forall (fun e => withinb a (eff_path e) = true) (r_log r)
   /\ (forall q, withinb a q = false -> fs_lookup q (r_fs r) = fs_lookup q (world i))).
Proof. exact every_name. Qed.
Print Assumptions C16_every_name.

(* no other error hides an escape: whenever the outcome is not one of the two
   refusals, the name did resolve to the direct child *)
Theorem C16_accepted_name_is_child : forall i name,
  is_abs (i_root i) = true -> name_op i name ->
  r_err (exec_op i) <> EInvalid -> r_err (exec_op i) <> EEmpty ->
  comps_of (pjoin [i_root i; name]) = (comps_of (clean (i_root i)) ++ [name])%list.
Proof. exact accepted_name_is_child. Qed.
Print Assumptions C16_accepted_name_is_child.

(* ---- "only ever looks up, executes ... or deletes <root>/<name>": exactly ---- *)

(* Get + GetMetadata with an accepted name: one stat of
   <root>/<name>/notation-<name>, then (only if that is a regular file) one
   execution of that very file; the file system is never changed *)
Theorem C16_lookup_exact : forall w root name,
  is_abs root = true -> valid_name name = true ->
  let b := child_path (allowed root name) (bin_name name) in
  let r := get_meta w root name in
  r_fs r = w
  /\ match stat w b with
     | SOk (NFile _ _) =>
         r_err r = ENone /\ r_meta r = fst (run_meta w b name)
         /\ r_log r = [EStat b; EExec b (snd (run_meta w b name))]
     | SOk NDir => r_err r = EOther /\ r_meta r = MNone /\ r_log r = [EStat b]
     | SOtherErr => r_err r = EOther /\ r_meta r = MNone /\ r_log r = [EStat b]
     | SNotExist => r_err r = ENotExist /\ r_meta r = MNone /\ r_log r = [EStat b]
     end.
Proof. exact lookup_exact. Qed.
Print Assumptions C16_lookup_exact.

(* a process really runs only when that file carries its executable bit *)
Theorem C16_process_needs_executable_file : forall w p nm,
  snd (run_meta w p nm) = true -> exists m, fs_lookup p w = Some (NFile true m).
Proof. exact run_meta_ran. Qed.
Print Assumptions C16_process_needs_executable_file.

(* Uninstall with an accepted name: one stat of <root>/<name>; if it exists,
   RemoveAll of exactly that path; nothing is executed *)
Theorem C16_uninstall_exact : forall w root name,
  is_abs root = true -> valid_name name = true ->
  let a := allowed root name in
  uninstall w root name =
  match stat w a with
  | SOk _ => (ENone, fs_remove_all a w, [EStat a; ERemoveAll a])
  | SNotExist => (ENotExist, w, [EStat a])
  | SOtherErr => (EOther, w, [EStat a])
  end.
Proof. exact uninstall_exact. Qed.
Print Assumptions C16_uninstall_exact.

(* RemoveAll a: a and everything below it is gone, every other path is as it was *)
Theorem C16_remove_all_exact : forall a q w,
  fs_lookup q (fs_remove_all a w) = if withinb a q then None else fs_lookup q w.
Proof. exact lookup_remove_all. Qed.
Print Assumptions C16_remove_all_exact.

(* [withinb] compares strings. It means containment because every path of the
   effect log is a clean rooted path (no ".", ".." or empty component): then
   "q is a or below a" says that the components of q extend those of a *)
Theorem C16_effect_paths_clean : forall i name,
  is_abs (i_root i) = true -> name_op i name ->
  Forall (fun e => clean (eff_path e) = eff_path e /\ is_abs (eff_path e) = true)
         (r_log (exec_op i)).
Proof. exact name_op_paths_clean. Qed.
Print Assumptions C16_effect_paths_clean.

Theorem C16_allowed_paths_clean : forall root name,
  is_abs root = true -> valid_name name = true ->
  (clean (allowed root name) = allowed root name /\ is_abs (allowed root name) = true)
  /\ (clean (child_path (allowed root name) (bin_name name)) = child_path (allowed root name) (bin_name name)
      /\ is_abs (child_path (allowed root name) (bin_name name)) = true).
Proof. exact name_paths_clean. Qed.
Print Assumptions C16_allowed_paths_clean.

Theorem C16_within_is_component_extension : forall a q,
  withinb a q = true -> exists rest, comps_of q = (comps_of a ++ rest)%list.
Proof. exact withinb_comps. Qed.
Print Assumptions C16_within_is_component_extension.

(* ---- Install and a refused derived name ---- *)

(* raw_names w src = what follows "notation-" in the names of the regular files
   the source offers (the file itself, or the files directly in the directory),
   acceptable or not. The clause in full, for Install (code since /repo 30cc14e):
   when every such name is one the validation refuses, Install fails, the source
   is stat'ed (and read, if it is a directory) and nothing else happens: no
   process runs, no mode bit is set, the file system is the one it started from *)
Theorem C16_install_rejected_no_effect : forall w root src ow,
  (forall n, In n (raw_names w src) -> valid_name n = false) ->
  let r := install w root src ow in
  r_err r <> ENone /\ r_fs r = w
  /\ Forall (fun e => e = EStat src \/ e = EReadDir src) (r_log r).
Proof. exact install_refused_no_effect. Qed.
Print Assumptions C16_install_rejected_no_effect.

(* the same with the hypothesis on the path the manager would compute: every
   name the source offers would resolve somewhere else than the direct child *)
Theorem C16_install_resolving_elsewhere_no_effect : forall w root src ow,
  is_abs root = true ->
  (forall n, In n (raw_names w src) ->
     comps_of (pjoin [root; n]) <> (comps_of (clean root) ++ [n])%list) ->
  let r := install w root src ow in
  r_err r <> ENone /\ r_fs r = w
  /\ Forall (fun e => e = EStat src \/ e = EReadDir src) (r_log r).
Proof. exact install_elsewhere_no_effect. Qed.
Print Assumptions C16_install_resolving_elsewhere_no_effect.

(* every install source: it offers no acceptable name and nothing happens, or
   Install works with an acceptable name of the source (a direct child of the
   root) and every effect is on the source or on <root>/<name>; outside them the
   file system is unchanged except for created ancestor directories *)
Theorem C16_install_every_source : forall w root src ow,
  is_abs root = true -> src <> "/" ->
  let r := install w root src ow in
  (candidates w src = [] /\ r_err r <> ENone /\ r_fs r = w
   /\ Forall (fun e => e = EStat src \/ e = EReadDir src) (r_log r))
  \/
  (exists name,
     In name (candidates w src) /\ valid_name name = true
     /\ comps_of (pjoin [root; name]) = (comps_of (clean root) ++ [name])%list
     /\ r_err r <> EInvalid
     /\ Forall (fun e => withinb src (eff_path e) = true
                         \/ withinb (allowed root name) (eff_path e) = true) (r_log r)
     /\ (forall q, withinb src q = true \/ withinb (allowed root name) q = true
                   \/ fs_lookup q (r_fs r) = fs_lookup q w
                   \/ (fs_lookup q w = None /\ fs_lookup q (r_fs r) = Some NDir
                       /\ In q (prefixes (allowed root name))))).
Proof. exact install_total. Qed.
Print Assumptions C16_install_every_source.

(* the names Install works with are exactly the offered names that the
   validation accepts *)
Theorem C16_install_candidates_valid : forall w src n,
  In n (candidates w src) -> valid_name n = true /\ In n (raw_names w src).
Proof. exact (fun w src n H => conj (candidates_valid w src n H) (candidates_raw w src n H)). Qed.
Print Assumptions C16_install_candidates_valid.

(* EVERY operation (Get, Uninstall, Verify in any shape, Install, List): the
   invalid-name error means that nothing at all has happened; Install never
   returns it (it never reaches the manager's validation with a bad name) *)
Theorem C16_invalid_name_means_no_effect : forall i,
  wf i = true -> r_err (exec_op i) = EInvalid ->
  r_log (exec_op i) = [] /\ r_fs (exec_op i) = world i.
Proof. exact invalid_name_no_effect. Qed.
Print Assumptions C16_invalid_name_means_no_effect.

Theorem C16_install_never_invalid_name : forall w root src ow,
  is_abs root = true -> src <> "/" -> r_err (install w root src ow) <> EInvalid.
Proof. exact install_not_invalid. Qed.
Print Assumptions C16_install_never_invalid_name.

(* the code BEFORE /repo 30cc14e (install_v0: parsePluginName accepted every
   non-empty rest): the clause was false. The source file notation-.. was run ... *)
Theorem C16_install_rejected_without_execution_v0_refuted :
  exists w root src ow,
    is_abs root = true /\ src <> "/"
    /\ raw_names w src = [".."] /\ valid_name ".." = false
    /\ let r := install_v0 w root src ow in
       r_err r = EInvalid /\ In (EExec src true) (r_log r).
Proof. exact install_v0_exec_refuted. Qed.
Print Assumptions C16_install_rejected_without_execution_v0_refuted.

(* ... and in a directory source it was first made executable *)
Theorem C16_install_rejected_without_change_v0_refuted :
  exists w root src ow,
    is_abs root = true /\ src <> "/"
    /\ raw_names w src = [".."] /\ valid_name ".." = false
    /\ let r := install_v0 w root src ow in
       r_err r = EInvalid
       /\ fs_lookup "/s/notation-.." w = Some (NFile false (Some ("..", 1%N)))
       /\ fs_lookup "/s/notation-.." (r_fs r) = Some (NFile true (Some ("..", 1%N)))
       /\ In (EChmod "/s/notation-..") (r_log r)
       /\ In (EExec "/s/notation-.." true) (r_log r).
Proof. exact install_v0_chmod_refuted. Qed.
Print Assumptions C16_install_rejected_without_change_v0_refuted.

(* ---- "only ever": any sequence of operations on one plugin root ---- *)

(* run_seq w root ops runs the operations one after the other, each on the
   file system the previous one left, whatever names, sources and listings they
   carry. Every effect of the whole history is on a direct child <root>/<n> of
   the plugin root (n accepted by the validation) or below it, or on an install
   source the history names; every other path is finally as it was, except that
   missing ancestor directories of the root (and the root) may have been
   created by an Install *)
Theorem C16_history_contained : forall root ops w,
  is_abs root = true ->
  (forall src ow, In (OInstall src ow) ops -> src <> "/") ->
  let region q :=
    (exists n, valid_name n = true /\ withinb (allowed root n) q = true)
    \/ (exists src ow, In (OInstall src ow) ops /\ withinb src q = true) in
  Forall (fun e => region (eff_path e)) (snd (run_seq w root ops))
  /\ forall q,
       fs_lookup q (fst (run_seq w root ops)) = fs_lookup q w
       \/ region q
       \/ (fs_lookup q w = None /\ fs_lookup q (fst (run_seq w root ops)) = Some NDir
           /\ In q (prefixes (clean root))).
Proof. exact (fun root ops w => history_contained root ops w). Qed.
Print Assumptions C16_history_contained.

(* without Install: whatever names are looked up, removed or taken from
   signatures, in whatever order, nothing that is not a direct child of the
   root (or below one) is ever touched ... *)
Theorem C16_history_names_only : forall root ops w,
  is_abs root = true -> Forall (fun o => forall s ow, o <> OInstall s ow) ops ->
  Forall (fun e => exists n, valid_name n = true /\ withinb (allowed root n) (eff_path e) = true)
         (snd (run_seq w root ops))
  /\ forall q, (forall n, valid_name n = true -> withinb (allowed root n) q = false) ->
               fs_lookup q (fst (run_seq w root ops)) = fs_lookup q w.
Proof. exact history_names_only. Qed.
Print Assumptions C16_history_names_only.

(* ... in particular the plugin root itself survives every such history
   (before the validation, Uninstall "" removed it) *)
Theorem C16_history_root_kept : forall root ops w,
  is_abs root = true -> Forall (fun o => forall s ow, o <> OInstall s ow) ops ->
  fs_lookup (clean root) (fst (run_seq w root ops)) = fs_lookup (clean root) w.
Proof. exact history_root_kept. Qed.
Print Assumptions C16_history_root_kept.

(* ---- "including names taken from the signature being verified, before it has
        been authenticated" ---- *)

(* everything the verifier consults before it calls the manager: the attribute
   (absent / not critical / not a string / a string), the minimum-version
   attribute, whether it has a manager. The manager is called at most once,
   through Get, with the attribute's value *)
Theorem C16_signature_attribute_calls : forall a minv_bad has_pm,
  snd (verify_plan a minv_bad has_pm) = []
  \/ exists s, a = VStr s /\ all_space s = false /\ minv_bad = false /\ has_pm = true
               /\ verify_plan a minv_bad has_pm = (ENone, [CGet s]).
Proof. exact verify_plan_calls. Qed.
Print Assumptions C16_signature_attribute_calls.

(* whether the signing certificate is trusted plays no part: the lookup is the
   same for a signature that will turn out not to be authentic *)
Theorem C16_lookup_ignores_trust : forall w e root a minv_bad has_pm t1 t2,
  exec_op (mk_input w e root (OVerifyX a minv_bad has_pm t1))
  = exec_op (mk_input w e root (OVerifyX a minv_bad has_pm t2)).
Proof. exact verify_x_ignores_trust. Qed.
Print Assumptions C16_lookup_ignores_trust.

(* end-to-end verification, whatever the attribute carries and whether or not
   the signer is trusted: nothing is touched at all, or the value is a single
   component and everything stays in <root>/<value> *)
Theorem C16_verify_contained : forall i a minv_bad has_pm trusted,
  is_abs (i_root i) = true -> i_op i = OVerifyX a minv_bad has_pm trusted ->
  let r := exec_op i in
  (r_log r = [] /\ r_fs r = world i)
  \/ (exists s, a = VStr s /\ valid_name s = true
       /\ comps_of (pjoin [i_root i; s]) = (comps_of (clean (i_root i)) ++ [s])%list
       /\ r_err r <> EInvalid
       /\ Forall (fun e => withinb (allowed (i_root i) s) (eff_path e) = true) (r_log r)
       /\ (forall q, withinb (allowed (i_root i) s) q = false ->
                     fs_lookup q (r_fs r) = fs_lookup q (world i))).
Proof. exact verify_x_contained. Qed.
Print Assumptions C16_verify_contained.

(* ---- non-vacuity ---- *)
Definition ex_fs : fs :=
  [("/v", NDir); ("/v/victim", NDir); ("/v/victim/notation-..", NDir);
   ("/v/victim/notation-../victim", NFile true (Some ("../victim", 1%N)));
   ("/v/p", NDir); ("/v/p/good", NDir); ("/v/p/good/notation-good", NFile true (Some ("good", 5%N)))].

(* "../victim" under /v/p resolves to /v/victim, where a directory exists and an
   executable sits at the place the lookup would run: refused, nothing happens;
   the same through an untrusted signature *)
Example C16_example_elsewhere :
  let i := mk_input ex_fs [] "/v/p" (OUninstall "../victim") in
  let j := mk_input ex_fs [] "/v/p" (OVerifyX (VStr "../victim") false true false) in
  name_op i "../victim"
  /\ pjoin ["/v/p"; "../victim"] = "/v/victim"
  /\ comps_of (pjoin ["/v/p"; "../victim"]) <> (comps_of (clean "/v/p") ++ ["../victim"])%list
  /\ stat ex_fs "/v/victim" = SOk NDir
  /\ exec_op i = mk_out EInvalid MNone ex_fs [] []
  /\ exec_op j = mk_out EInvalid MNone ex_fs [] [].
Proof. vm_compute. repeat split; auto; discriminate. Qed.

(* a history on one root (spelled /v//p/): refused names between accepted ones;
   the final file system lacks /v/p/good and nothing else *)
Example C16_example_history :
  run_seq ex_fs "/v//p/"
    [OGet "../victim"; OVerify "good"; OUninstall "good"; OGet "good"; OUninstall "../victim";
     OVerifyX (VStr "..") false true false; OUninstall ""]
  = ([("/v", NDir); ("/v/victim", NDir); ("/v/victim/notation-..", NDir);
      ("/v/victim/notation-../victim", NFile true (Some ("../victim", 1%N))); ("/v/p", NDir)],
     [EStat "/v/p/good/notation-good"; EExec "/v/p/good/notation-good" true;
      EStat "/v/p/good"; ERemoveAll "/v/p/good"; EStat "/v/p/good/notation-good"]).
Proof. vm_compute. reflexivity. Qed.

(* a successful Install from a directory into a root that does not exist yet:
   the second alternative of C16_install_contained, with created ancestors *)
Definition inst_fs : fs :=
  [("/s", NDir); ("/s/notation-fresh", NFile true (Some ("fresh", 7%N))); ("/s/lib.so", NFile false None);
   ("/s/sub", NDir); ("/s/sub/notation-sub", NFile true (Some ("sub", 1%N))); ("/v", NDir)].

Example C16_example_install :
  let i := mk_input inst_fs [] "/v/p/r" (OInstall "/s" false) in
  wf i = true /\ candidates inst_fs "/s" = ["fresh"] /\ valid_name "fresh" = true
  /\ model i =
     mk_obs ENone MNone ["/s/notation-fresh"] []
       [("/v/p/r/fresh/notation-fresh", NFile true (Some ("fresh", 7%N)));
        ("/v/p/r/fresh/lib.so", NFile false None);
        ("/v/p/r/fresh", NDir); ("/v/p/r", NDir); ("/v/p", NDir)] [].
Proof. vm_compute. repeat split; auto. Qed.

(* the two sources of the v0 witnesses on the code as it is now: the hypothesis
   of C16_install_rejected_no_effect holds, one stat (and one readdir), nothing else *)
Example C16_example_install_refused :
  raw_names witness_fs "/s/notation-.." = [".."] /\ candidates witness_fs "/s/notation-.." = []
  /\ raw_names witness_fs_noexec "/s" = [".."] /\ candidates witness_fs_noexec "/s" = []
  /\ valid_name ".." = false
  /\ install witness_fs "/p/r" "/s/notation-.." true
       = mk_out EOther MNone witness_fs [EStat "/s/notation-.."] []
  /\ install witness_fs_noexec "/p/r" "/s" false
       = mk_out EOther MNone witness_fs_noexec [EStat "/s"; EReadDir "/s"] [].
Proof. vm_compute. repeat split; auto. Qed.

(* listing: directories only; links (to directories, to files, dangling),
   files and other entries are left out, order kept *)
Example C16_example_list :
  list_plugins true [("a", KDir); ("l", KLinkDir); ("f", KFile); ("d", KLinkDangling);
                     ("o", KOther); ("z", KDir); ("m", KLinkFile)] = ["a"; "z"]
  /\ list_plugins false [("a", KDir)] = [].
Proof. vm_compute. split; reflexivity. Qed.

(* white space as strings.TrimSpace sees it (bytes of the UTF-8 encoding) *)
Example C16_example_blank :
  all_space "" = true /\ all_space (B [32; 9; 10; 11; 12; 13]%N) = true
  /\ all_space (B [194; 160]%N) = true /\ all_space (B [194; 133; 32]%N) = true
  /\ all_space (B [225; 154; 128]%N) = true /\ all_space (B [226; 128; 128]%N) = true
  /\ all_space (B [226; 128; 138]%N) = true /\ all_space (B [226; 128; 168; 226; 128; 169]%N) = true
  /\ all_space (B [226; 128; 175]%N) = true /\ all_space (B [226; 129; 159]%N) = true
  /\ all_space (B [227; 128; 128; 32]%N) = true
  /\ all_space (B [226; 128; 139]%N) = false
  /\ all_space (B [225; 160; 142]%N) = false
  /\ all_space (B [239; 187; 191]%N) = false
  /\ all_space (B [194]%N) = false /\ all_space (B [194; 32]%N) = false
  /\ all_space (B [160]%N) = false /\ all_space (B [32; 46; 46]%N) = false.
Proof. exact all_space_examples. Qed.
