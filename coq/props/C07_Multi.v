(* C07, several signatures on one artifact — "what the library signs, it
   verifies" when the library signed the SAME artifact k times (notation.SignOCI,
   same or different signers, each call with its own user metadata and expiry)
   and notation.Verify then walks the listed signatures.
   Statements only; every proof is [exact <lemma of C07_MultiProofs>].
   [mwf mi]: every call is a well-formed single-signature input ([wf] of
   C07_Property), the listing names existing calls, each at most once (in ANY
   order), MaxSignatureAttempts > 0.
   [satisfies mi s]: signer of call [s] trusted, its signature not expired when
   Verify runs, the reference resolves to the same content, the demanded
   metadata is among annotations + user metadata of that call. *)
From NV Require Import Base C07_Model C07_Multi C07_MultiProofs.
From Coq Require Import Permutation.
Open Scope string_scope.
Open Scope list_scope.

(* the signature of the k-th call is listed within the attempt limit and no
   signature listed BEFORE it satisfies the request (they may fail for any
   reason of their own: other metadata, expired, untrusted signer - same
   certificate chain or not): every SignOCI call succeeded, Verify succeeds,
   returns the resolved descriptor, the outcome is that of call k - its
   annotations + user metadata are read back -, exactly the signatures up to
   and including k were downloaded and tried, no other *)
Theorem C07_multi_roundtrip : forall mi pre k post s,
  mwf mi = true ->
  firstn (Z.to_nat (mi_max mi)) (mi_order mi) = pre ++ k :: post ->
  (forall j, In j pre -> step_sat mi j = false) ->
  nth_error (mi_steps mi) (N.to_nat k) = Some s -> satisfies mi s = true ->
  let o := mmodel mi in
  mo_signs o = map (fun _ => 0%N) (mi_steps mi) /\
  mo_code o = 0%N /\ mo_winner o = Some k /\ mo_ret o = Some (mi_vdesc mi) /\
  mo_meta o = Some (d_anns (mi_desc mi) ++ ms_meta s) /\
  mo_fetched o = pre ++ [k] /\ mo_tried o = codes_of mi pre ++ [(k, 0%N)].
Proof. exact multi_roundtrip. Qed.
Print Assumptions C07_multi_roundtrip.

(* position-independent: SOME listed signature within the limit satisfies the
   request -> Verify succeeds, and what is read back is the metadata of a
   signature that satisfies it *)
Theorem C07_multi_some_satisfies : forall mi k,
  mwf mi = true -> In k (firstn (Z.to_nat (mi_max mi)) (mi_order mi)) -> step_sat mi k = true ->
  let o := mmodel mi in
  mo_code o = 0%N /\ mo_ret o = Some (mi_vdesc mi) /\
  exists k' s', mo_winner o = Some k' /\ nth_error (mi_steps mi) (N.to_nat k') = Some s' /\
                satisfies mi s' = true /\ mo_meta o = Some (d_anns (mi_desc mi) ++ ms_meta s').
Proof. exact multi_some_satisfies. Qed.
Print Assumptions C07_multi_some_satisfies.

(* what must not happen: when no listed signature within the limit satisfies
   the request, Verify fails, names no outcome, returns no descriptor and no
   metadata (and it looked at every one of them) *)
Theorem C07_multi_none : forall mi,
  mwf mi = true ->
  (forall j, In j (firstn (Z.to_nat (mi_max mi)) (mi_order mi)) -> step_sat mi j = false) ->
  let o := mmodel mi in
  mo_code o <> 0%N /\ mo_winner o = None /\ mo_ret o = None /\ mo_meta o = None /\
  mo_fetched o = firstn (Z.to_nat (mi_max mi)) (mi_order mi).
Proof. exact multi_none. Qed.
Print Assumptions C07_multi_none.

Theorem C07_multi_iff : forall mi, mwf mi = true ->
  (mo_code (mmodel mi) = 0%N <->
   exists k, In k (firstn (Z.to_nat (mi_max mi)) (mi_order mi)) /\ step_sat mi k = true).
Proof. exact multi_iff. Qed.
Print Assumptions C07_multi_iff.

(* the order in which the repository lists the signatures does not decide
   whether the artifact verifies (all of them within the attempt limit) *)
Theorem C07_multi_order_irrelevant : forall mi o,
  mwf mi = true -> Permutation (mi_order mi) o ->
  (Z.of_nat (List.length (mi_order mi)) <= mi_max mi)%Z ->
  (mo_code (mmodel mi) = 0%N <-> mo_code (mmodel (set_order mi o)) = 0%N).
Proof. exact multi_order_irrelevant. Qed.
Print Assumptions C07_multi_order_irrelevant.

(* with ONE signature (not expired) this model is the model of C07_Property *)
Theorem C07_multi_single : forall mi s,
  mwf mi = true -> mi_steps mi = [s] -> mi_order mi = [0%N] -> step_expired mi s = false ->
  let o := mmodel mi in let o1 := model (step_input mi s) in
  (mo_code o = 0%N <-> o_verify o1 = 0%N) /\ mo_ret o = o_ret o1 /\ mo_meta o = o_meta o1 /\
  mo_signs o = [o_sign o1].
Proof. exact multi_single. Qed.
Print Assumptions C07_multi_single.

(* the boolean oracle the harness evaluates on the implementation's observations *)
Theorem C07_multi_model_meets_oracle : forall mi, mwf mi = true -> mspec_ok mi (mmodel mi) = true.
Proof. exact mmodel_spec_ok. Qed.
Print Assumptions C07_multi_model_meets_oracle.

(* non-vacuity: the same signer (EC-256, JWS) signs one artifact twice; the
   signature listed first fails for a reason of its own (stage=dev where
   stage=prod is demanded: class 3; expired: class 6), the second is the outcome *)
Example C07_example_multi_meta :
  mwf mex_meta = true /\
  mmodel mex_meta = mk_mobs [0%N; 0%N] 0 [0%N; 1%N] [(0%N, 3%N); (1%N, 0%N)] (Some 1%N) (Some mex_desc) (Some [("stage", "prod")]).
Proof. exact example_multi_meta. Qed.

Example C07_example_multi_expiry :
  mwf mex_expiry = true /\
  mmodel mex_expiry = mk_mobs [0%N; 0%N] 0 [0%N; 1%N] [(0%N, 6%N); (1%N, 0%N)] (Some 1%N) (Some mex_desc) (Some [("stage", "prod")]).
Proof. exact example_multi_expiry. Qed.

(* the attempt limit is part of the contract: below the position of the
   satisfying signature Verify stops with "limit exceeded" *)
Example C07_example_multi_limit :
  let mi := mk_minput mex_desc mex_consts [mex_step "dev" 0; mex_step "prod" 0] [0%N; 1%N] mex_desc [("stage", "prod")]
                      1700000005000000000 1 in
  mwf mi = true /\ mo_code (mmodel mi) = 11%N /\ mo_fetched (mmodel mi) = [0%N].
Proof. exact example_multi_limit. Qed.

(* ---------- one signature (OCI or blob), verified at a given time ---------- *)

(* the clock is an input: BEFORE the expiry written into the envelope (signing
   time in seconds + requested duration; never, for duration 0) the timed model
   is the model of C07_Property — all its theorems hold at any such time *)
Theorem C07_before_expiry : forall vnow i,
  wf i = true -> input_expired vnow i = false -> model_at vnow i = model i.
Proof. exact model_at_before. Qed.
Print Assumptions C07_before_expiry.

(* ... and FROM the expiry on the signature is still produced but does not
   verify; nothing is returned; the refusal is "expired" unless the request is
   refused earlier (signer not trusted, invalid content media type) *)
Theorem C07_after_expiry : forall vnow i,
  wf i = true -> input_expired vnow i = true ->
  let o := model_at vnow i in
  o_sign o = 0%N /\ o_verify o <> 0%N /\ o_ret o = None /\ o_meta o = None /\
  (i_trusted i = true ->
   match i_vtarget i with TOCI _ => True | TBlob _ vmt vok => vmt = "" \/ vok = true end ->
   o_verify o = 6%N).
Proof. exact model_at_after. Qed.
Print Assumptions C07_after_expiry.

Theorem C07_timed_model_meets_oracle : forall vnow i, wf i = true -> tspec_ok vnow i (model_at vnow i) = true.
Proof. exact tspec_model_at. Qed.
Print Assumptions C07_timed_model_meets_oracle.

Example C07_example_expired_blob :
  wf tex_blob = true /\ input_expired 1700000005000000000 tex_blob = true /\
  o_sign (model_at 1700000005000000000 tex_blob) = 0%N /\ o_verify (model_at 1700000005000000000 tex_blob) = 6%N /\
  o_vhash (model_at 1700000005000000000 tex_blob) = None /\
  input_expired 1700000000999999999 tex_blob = false /\ o_verify (model_at 1700000000999999999 tex_blob) = 0%N.
Proof. exact example_expired_blob. Qed.
