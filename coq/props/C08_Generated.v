(* C08_Generated.v — the code's own selection functions, as translated by GoLite
   (theories/C08_Gen.v, regenerated from /repo by `vh-gen` on every run, docs/GOLITE.md),
   against the hand-written C08 model (C08_Model.v), and the theorems of C08_Property.v
   transported onto them. Statements only; proofs are in theories/C08_GenProofs.v.

   Every theorem quantifies over ALL inputs of the generated function: documents of any
   length, any strings, override maps as arbitrary association lists.
   Reading:
     stmt_of_oci / stmt_of_blob  a generated statement record as the model's [stmt], field by field
     oci_stmts d / blob_stmts d  the statements of a generated document, in order
     stmt_same a b               equal field by field, the override maps equal AS MAPS (by look-up;
                                 = C08_Model.stmt_eqb, the comparison of the correspondence harness)
     sel_rel abs r m             the (pointer, error) pair r is the model result m: for [RSel s] a NEW
                                 object (PNew) whose value is s and no error; for [RErr n] a nil pointer
                                 and an error of class n (ecode = the harness' errCode table applied to
                                 the error's format string)
     hands_out_oci r s           r = (PNew c, nil) with c the same value as statement s
     refuses r n                 r = (nil, error of class n)
   Oracle: trustpolicy.validatePolicyCore (C09 owns it) is a parameter [vpc] of the two Validate
   methods; the theorems that mention it hold for EVERY function [vpc] - no hypothesis.
   Outside GoLite: aliasing. A generated function works on values; "the copy shares no slice or
   map with the document" cannot be expressed here and stays with the heap model
   (C08_private_copy, C08_private_copy_frame). What is proved here is the value-level part:
   what is handed out is an object created by the call holding the value of the document's
   statement (C08_gen_clone_value, C08_gen_handed_out_is_new_copy). *)
From Coq Require Import Permutation.
From NV Require Import Base Regex Generated GoLib C08_Model C08_Proofs C08_Gen C08_GenProofs.
Import ListNotations.
Open Scope string_scope.
Open Scope list_scope.

(* ---------- library functions as used by the code = the model's own functions ---------- *)

(* artifactReference[:strings.LastIndex(artifactReference, "@")] is [last_at] *)
Theorem C08_gen_LastIndex_slice_last_at : forall ref,
  str_last_index "@" ref
  = match last_at ref with Some p => Z.of_nat (String.length p) | None => (-1)%Z end
  /\ forall p, last_at ref = Some p -> str_slice ref 0 (Z.of_nat (String.length p)) = Some p.
Proof. intros ref. split; [exact (last_index_at ref)|exact (slice_last_at ref)]. Qed.
Print Assumptions C08_gen_LastIndex_slice_last_at.

(* strings.TrimSpace(n) == "" is [blank n] (Unicode white space in UTF-8, any byte string) *)
Theorem C08_gen_TrimSpace_blank : forall n, String.eqb (str_trim_space n) "" = blank n.
Proof. exact trim_space_blank. Qed.
Print Assumptions C08_gen_TrimSpace_blank.

(* the relation between statements used below is the harness' comparison *)
Theorem C08_gen_stmt_same_is_stmt_eqb : forall a b, stmt_same a b <-> stmt_eqb a b = true.
Proof. exact stmt_same_eqb. Qed.
Print Assumptions C08_gen_stmt_same_is_stmt_eqb.

(* ---------- each translated function against the model ---------- *)

Theorem C08_gen_Contains_equiv : forall l v, gen_slices_Contains_string l v = mem_str v l.
Proof. exact gen_Contains. Qed.
Print Assumptions C08_gen_Contains_equiv.

(* validateRegistryScopeFormat(sc) == nil iff scope_ok sc; its errors are of class 2. The two
   regular expressions compiled in the function body are those of Generated.v *)
Theorem C08_gen_validateRegistryScopeFormat_equiv : forall sc,
  match gen_trustpolicy_validateRegistryScopeFormat sc with
  | None => scope_ok sc = true
  | Some e => scope_ok sc = false /\ ecode e = 2%N
  end.
Proof. exact gen_scope_format. Qed.
Print Assumptions C08_gen_validateRegistryScopeFormat_equiv.

(* getArtifactPathFromReference never panics; no '@': error 1; else the text before the LAST
   '@' if it is a valid scope, error 2 otherwise *)
Theorem C08_gen_getArtifactPathFromReference_equiv : forall ref,
  exists r, gen_trustpolicy_getArtifactPathFromReference ref = Some r /\
    match last_at ref with
    | None => fst r = "" /\ exists e, snd r = Some e /\ ecode e = 1%N
    | Some p => if scope_ok p then r = (p, None)
                else fst r = "" /\ exists e, snd r = Some e /\ ecode e = 2%N
    end.
Proof. exact gen_artifact_path. Qed.
Print Assumptions C08_gen_getArtifactPathFromReference_equiv.

(* the three clone methods return the same value (override: the same map) in a new object *)
Theorem C08_gen_clone_value :
  (forall sv, sv_same (sv_of (gen_trustpolicy_SignatureVerification_clone sv)) (sv_of sv))
  /\ (forall t, exists c, gen_trustpolicy_OCITrustPolicy_clone t = PNew c
                          /\ stmt_same (stmt_of_oci c) (stmt_of_oci t))
  /\ (forall t, exists c, gen_trustpolicy_BlobTrustPolicy_clone t = PNew c
                          /\ stmt_same (stmt_of_blob c) (stmt_of_blob t)).
Proof. split; [exact gen_sv_clone|split; [exact gen_oci_clone|exact gen_blob_clone]]. Qed.
Print Assumptions C08_gen_clone_value.

(* OCIDocument.GetApplicableTrustPolicy = v_select .. (QOci ref): never panics *)
Theorem C08_gen_OCI_GetApplicableTrustPolicy_equiv : forall d ref,
  exists r, gen_trustpolicy_OCIDocument_GetApplicableTrustPolicy d ref = Some r
            /\ sel_rel stmt_of_oci r (v_select (oci_stmts d) (QOci ref)).
Proof. exact gen_oci_select. Qed.
Print Assumptions C08_gen_OCI_GetApplicableTrustPolicy_equiv.

(* BlobDocument.GetApplicableTrustPolicy = v_select .. (QName n) *)
Theorem C08_gen_Blob_GetApplicableTrustPolicy_equiv : forall d n,
  sel_rel stmt_of_blob (gen_trustpolicy_BlobDocument_GetApplicableTrustPolicy d n)
          (v_select (blob_stmts d) (QName n)).
Proof. exact gen_blob_select_name. Qed.
Print Assumptions C08_gen_Blob_GetApplicableTrustPolicy_equiv.

(* BlobDocument.GetGlobalTrustPolicy = v_select .. QGlobal *)
Theorem C08_gen_Blob_GetGlobalTrustPolicy_equiv : forall d,
  sel_rel stmt_of_blob (gen_trustpolicy_BlobDocument_GetGlobalTrustPolicy d)
          (v_select (blob_stmts d) QGlobal).
Proof. exact gen_blob_select_global. Qed.
Print Assumptions C08_gen_Blob_GetGlobalTrustPolicy_equiv.

(* ---------- validation: where the validity facts of the property come from ---------- *)

(* validateRegistryScopes returns nil exactly when every statement lists at least one scope,
   a wildcard only alone, every other scope passes the format test, and no scope occurs
   twice in the whole document *)
Theorem C08_gen_validateRegistryScopes_equiv : forall d,
  is_none (gen_trustpolicy_validateRegistryScopes d) = scopes_valid (OCIDocument_TrustPolicies d).
Proof. exact gen_validate_scopes. Qed.
Print Assumptions C08_gen_validateRegistryScopes_equiv.

Theorem C08_gen_validateRegistryScopes_facts : forall d,
  gen_trustpolicy_validateRegistryScopes d = None ->
  scopes_unique (oci_stmts d) = true
  /\ wildcard_alone (oci_stmts d) = true
  /\ forall s sc, In s (OCIDocument_TrustPolicies d) -> In sc (OCITrustPolicy_RegistryScopes s) ->
       sc <> wildcard -> scope_ok sc = true.
Proof. exact gen_validate_scopes_facts. Qed.
Print Assumptions C08_gen_validateRegistryScopes_facts.

(* a document accepted by the code's OCIDocument.Validate / BlobDocument.Validate is non-nil and
   [valid_doc] (the input contract [wf] of C08_Property.v) - for EVERY validatePolicyCore *)
Theorem C08_gen_OCIDocument_Validate_valid : forall vpc p,
  gen_trustpolicy_OCIDocument_Validate vpc p = None ->
  exists d, ptr_val p = Some d /\ valid_doc (oci_stmts d) = true
            /\ gen_trustpolicy_validateRegistryScopes d = None.
Proof. exact gen_oci_validate_valid. Qed.
Print Assumptions C08_gen_OCIDocument_Validate_valid.

Theorem C08_gen_BlobDocument_Validate_valid : forall vpc p,
  gen_trustpolicy_BlobDocument_Validate vpc p = None ->
  exists d, ptr_val p = Some d /\ valid_doc (blob_stmts d) = true.
Proof. exact gen_blob_validate_valid. Qed.
Print Assumptions C08_gen_BlobDocument_Validate_valid.

(* ---------- the property on the functions as translated ---------- *)

(* C08_selects: valid document, reference registry/repository@digest: the unique statement
   listing exactly that path; failing that the unique wildcard statement; failing that error 3 *)
Theorem C08_gen_selects : forall d p dg,
  valid_doc (oci_stmts d) = true -> contains_byte "@" dg = false -> scope_ok p = true ->
  exists r, gen_trustpolicy_OCIDocument_GetApplicableTrustPolicy d (p ++ "@" ++ dg) = Some r /\
    let ps := OCIDocument_TrustPolicies d in
    (forall s, In s ps -> In p (OCITrustPolicy_RegistryScopes s) ->
       hands_out_oci r s /\ forall s', In s' ps -> In p (OCITrustPolicy_RegistryScopes s') -> s' = s)
    /\ ((forall s, In s ps -> ~ In p (OCITrustPolicy_RegistryScopes s)) ->
        (forall w, In w ps -> In wildcard (OCITrustPolicy_RegistryScopes w) ->
           hands_out_oci r w /\ OCITrustPolicy_RegistryScopes w = [wildcard]
           /\ forall w', In w' ps -> In wildcard (OCITrustPolicy_RegistryScopes w') -> w' = w)
        /\ ((forall s, In s ps -> ~ In wildcard (OCITrustPolicy_RegistryScopes s)) -> refuses r 3%N)).
Proof. exact gen_selects. Qed.
Print Assumptions C08_gen_selects.

(* end to end on the code: the document was accepted by the translated Validate (any
   validatePolicyCore). Every listed scope other than "*" selects its own statement; an
   unlisted valid path gets the wildcard statement or error 3; an invalid path error 2 *)
Theorem C08_gen_selects_validated : forall vpc q d p dg,
  gen_trustpolicy_OCIDocument_Validate vpc q = None -> ptr_val q = Some d ->
  contains_byte "@" dg = false ->
  exists r, gen_trustpolicy_OCIDocument_GetApplicableTrustPolicy d (p ++ "@" ++ dg) = Some r /\
    let ps := OCIDocument_TrustPolicies d in
    (forall s, In s ps -> In p (OCITrustPolicy_RegistryScopes s) -> p <> wildcard ->
       hands_out_oci r s /\ forall s', In s' ps -> In p (OCITrustPolicy_RegistryScopes s') -> s' = s)
    /\ (scope_ok p = true -> (forall s, In s ps -> ~ In p (OCITrustPolicy_RegistryScopes s)) ->
        (forall w, In w ps -> In wildcard (OCITrustPolicy_RegistryScopes w) -> hands_out_oci r w)
        /\ ((forall s, In s ps -> ~ In wildcard (OCITrustPolicy_RegistryScopes s)) -> refuses r 3%N))
    /\ (scope_ok p = false -> refuses r 2%N).
Proof. exact gen_selects_validated. Qed.
Print Assumptions C08_gen_selects_validated.

(* C08_exact, for EVERY document: no match by prefix, substring, case folding or tag - a
   statement is handed out only if its scopes contain the path itself (string equality), or
   the wildcard while every statement listing the path is a wildcard statement *)
Theorem C08_gen_exact : forall d ref q,
  gen_trustpolicy_OCIDocument_GetApplicableTrustPolicy d ref = Some (q, None) ->
  exists c s path, q = PNew c /\ In s (OCIDocument_TrustPolicies d)
    /\ stmt_same (stmt_of_oci c) (stmt_of_oci s)
    /\ last_at ref = Some path /\ scope_ok path = true
    /\ (In path (OCITrustPolicy_RegistryScopes s)
        \/ (In wildcard (OCITrustPolicy_RegistryScopes s)
            /\ forall s', In s' (OCIDocument_TrustPolicies d) ->
                 In wildcard (OCITrustPolicy_RegistryScopes s') \/ ~ In path (OCITrustPolicy_RegistryScopes s'))).
Proof. exact gen_exact. Qed.
Print Assumptions C08_gen_exact.

(* C08_malformed_refused: whatever the document lists, wildcard included *)
Theorem C08_gen_malformed_refused : forall d ref,
  exists r, gen_trustpolicy_OCIDocument_GetApplicableTrustPolicy d ref = Some r /\
    (contains_byte "@" ref = false -> refuses r 1%N)
    /\ (forall p dg : string, ref = (p ++ "@" ++ dg)%string -> contains_byte "@" dg = false ->
          scope_ok p = false -> refuses r 2%N).
Proof. exact gen_malformed_refused. Qed.
Print Assumptions C08_gen_malformed_refused.

(* C08_order: a valid document and any permutation of its statements get the same answer *)
Theorem C08_gen_order : forall d d' ref,
  valid_doc (oci_stmts d) = true ->
  Permutation (OCIDocument_TrustPolicies d) (OCIDocument_TrustPolicies d') ->
  exists m r r',
    gen_trustpolicy_OCIDocument_GetApplicableTrustPolicy d ref = Some r
    /\ gen_trustpolicy_OCIDocument_GetApplicableTrustPolicy d' ref = Some r'
    /\ sel_rel stmt_of_oci r m /\ sel_rel stmt_of_oci r' m.
Proof. exact gen_order. Qed.
Print Assumptions C08_gen_order.

Theorem C08_gen_order_blob : forall d d',
  valid_doc (blob_stmts d) = true ->
  Permutation (BlobDocument_TrustPolicies d) (BlobDocument_TrustPolicies d') ->
  (forall n, exists m,
     sel_rel stmt_of_blob (gen_trustpolicy_BlobDocument_GetApplicableTrustPolicy d n) m
     /\ sel_rel stmt_of_blob (gen_trustpolicy_BlobDocument_GetApplicableTrustPolicy d' n) m)
  /\ exists m,
     sel_rel stmt_of_blob (gen_trustpolicy_BlobDocument_GetGlobalTrustPolicy d) m
     /\ sel_rel stmt_of_blob (gen_trustpolicy_BlobDocument_GetGlobalTrustPolicy d') m.
Proof. exact gen_order_blob. Qed.
Print Assumptions C08_gen_order_blob.

(* C08_blob_name / C08_blob_blank_or_exact / C08_blob_global *)
Theorem C08_gen_blob_name : forall d n,
  valid_doc (blob_stmts d) = true -> blank n = false ->
  let r := gen_trustpolicy_BlobDocument_GetApplicableTrustPolicy d n in
  let ps := BlobDocument_TrustPolicies d in
  (forall s, In s ps -> BlobTrustPolicy_Name s = n ->
     hands_out_blob r s /\ forall s', In s' ps -> BlobTrustPolicy_Name s' = n -> s' = s)
  /\ ((forall s, In s ps -> BlobTrustPolicy_Name s <> n) -> refuses r 5%N).
Proof. exact gen_blob_name. Qed.
Print Assumptions C08_gen_blob_name.

Theorem C08_gen_blob_blank_or_exact : forall d n,
  let r := gen_trustpolicy_BlobDocument_GetApplicableTrustPolicy d n in
  (blank n = true -> refuses r 4%N)
  /\ (forall q, r = (q, None) ->
        exists c s, q = PNew c /\ In s (BlobDocument_TrustPolicies d)
          /\ stmt_same (stmt_of_blob c) (stmt_of_blob s)
          /\ BlobTrustPolicy_Name s = n /\ blank n = false).
Proof. exact gen_blob_blank_or_exact. Qed.
Print Assumptions C08_gen_blob_blank_or_exact.

Theorem C08_gen_blob_global : forall d,
  valid_doc (blob_stmts d) = true ->
  let r := gen_trustpolicy_BlobDocument_GetGlobalTrustPolicy d in
  let ps := BlobDocument_TrustPolicies d in
  (forall s, In s ps -> BlobTrustPolicy_GlobalPolicy s = true ->
     hands_out_blob r s /\ forall s', In s' ps -> BlobTrustPolicy_GlobalPolicy s' = true -> s' = s)
  /\ ((forall s, In s ps -> BlobTrustPolicy_GlobalPolicy s = false) -> refuses r 6%N).
Proof. exact gen_blob_global. Qed.
Print Assumptions C08_gen_blob_global.

(* end to end for blobs: accepted by the translated Validate (any validatePolicyCore). Every
   statement whose name is not blank answers its own name, the flagged statement is the global
   one - and the finding of docs/audit/C08.md section 4 on the code as translated: a statement
   with a white-space name (which Validate accepts) is refused for its own name *)
Theorem C08_gen_blob_validated : forall vpc q d,
  gen_trustpolicy_BlobDocument_Validate vpc q = None -> ptr_val q = Some d ->
  let ps := BlobDocument_TrustPolicies d in
  (forall s, In s ps -> blank (BlobTrustPolicy_Name s) = false ->
     hands_out_blob (gen_trustpolicy_BlobDocument_GetApplicableTrustPolicy d (BlobTrustPolicy_Name s)) s)
  /\ (forall s, In s ps -> blank (BlobTrustPolicy_Name s) = true ->
     refuses (gen_trustpolicy_BlobDocument_GetApplicableTrustPolicy d (BlobTrustPolicy_Name s)) 4%N)
  /\ (forall s, In s ps -> BlobTrustPolicy_GlobalPolicy s = true ->
     hands_out_blob (gen_trustpolicy_BlobDocument_GetGlobalTrustPolicy d) s).
Proof. exact gen_blob_validated. Qed.
Print Assumptions C08_gen_blob_validated.

(* private copy, the value-level part: what any of the three selections hands out is an object
   made by that call whose value is that of a statement of the document *)
Theorem C08_gen_handed_out_is_new_copy :
  (forall d ref q, gen_trustpolicy_OCIDocument_GetApplicableTrustPolicy d ref = Some (q, None) ->
     exists c s, q = PNew c /\ In s (OCIDocument_TrustPolicies d) /\ stmt_same (stmt_of_oci c) (stmt_of_oci s))
  /\ (forall d n q, gen_trustpolicy_BlobDocument_GetApplicableTrustPolicy d n = (q, None) ->
     exists c s, q = PNew c /\ In s (BlobDocument_TrustPolicies d) /\ stmt_same (stmt_of_blob c) (stmt_of_blob s))
  /\ (forall d q, gen_trustpolicy_BlobDocument_GetGlobalTrustPolicy d = (q, None) ->
     exists c s, q = PNew c /\ In s (BlobDocument_TrustPolicies d) /\ stmt_same (stmt_of_blob c) (stmt_of_blob s)).
Proof. exact gen_handed_out_is_new_copy. Qed.
Print Assumptions C08_gen_handed_out_is_new_copy.

(* ---------- non-vacuity: the generated functions run on a concrete document ---------- *)
Definition gx_sv := mk_SignatureVerification "strict" [("revocation", "log")] "".
Definition gx_doc : trustpolicy_OCIDocument :=
  mk_OCIDocument "1.0"
    [ mk_OCITrustPolicy "ab" gx_sv ["ca:k0"] ["*"] ["reg.io/a/b"; "reg.io:80/a/b"];
      mk_OCITrustPolicy "abc" gx_sv ["ca:k1"] ["*"] ["reg.io/a/b/c"];
      mk_OCITrustPolicy "any" gx_sv ["ca:k2"] ["*"] ["*"] ].
Definition gx_blob : trustpolicy_BlobDocument :=
  mk_BlobDocument "1.0"
    [ mk_BlobTrustPolicy " " gx_sv ["ca:k0"] ["*"] false;
      mk_BlobTrustPolicy "g" gx_sv ["ca:k1"] ["*"] true ].

Example C08_gen_example :
  let name r := match r with Some (PNew c, None) => OCITrustPolicy_Name c | _ => "-" end in
  let code r := match r with Some (PNil, Some e) => ecode e | _ => 0%N end in
  let sel ref := gen_trustpolicy_OCIDocument_GetApplicableTrustPolicy gx_doc ref in
  gen_trustpolicy_OCIDocument_Validate (fun _ _ _ _ => None) (PNew gx_doc) = None
  /\ valid_doc (oci_stmts gx_doc) = true
  /\ name (sel "reg.io/a/b@sha256:00") = "ab" /\ name (sel "reg.io/a/b/c@sha256:00") = "abc"
  /\ name (sel "reg.io/a@sha256:00") = "any" /\ name (sel "reg.io/a/bc@sha256:00") = "any"
  /\ name (sel "REG.io/a/b@sha256:00") = "any"
  /\ code (sel "reg.io/a/B@sha256:00") = 2%N /\ code (sel "reg.io/a/b:v1@sha256:00") = 2%N
  /\ code (sel "reg.io/a/b:v1") = 1%N /\ code (sel "reg.io/a/b/c@x@sha256:00") = 2%N
  /\ code (gen_trustpolicy_OCIDocument_GetApplicableTrustPolicy
             (mk_OCIDocument "1.0" (firstn 2 (OCIDocument_TrustPolicies gx_doc))) "reg.io/a@sha256:00") = 3%N
  /\ gen_trustpolicy_BlobDocument_Validate (fun _ _ _ _ => None) (PNew gx_blob) = None
  /\ (exists e, gen_trustpolicy_BlobDocument_GetApplicableTrustPolicy gx_blob " " = (PNil, Some e) /\ ecode e = 4%N)
  /\ (exists c, gen_trustpolicy_BlobDocument_GetApplicableTrustPolicy gx_blob "g" = (PNew c, None)
                /\ BlobTrustPolicy_Name c = "g")
  /\ (exists e, gen_trustpolicy_BlobDocument_GetApplicableTrustPolicy gx_blob "G" = (PNil, Some e) /\ ecode e = 5%N)
  /\ (exists c, gen_trustpolicy_BlobDocument_GetGlobalTrustPolicy gx_blob = (PNew c, None)
                /\ BlobTrustPolicy_Name c = "g").
Proof.
  vm_compute. repeat split; try reflexivity; eexists; split; reflexivity.
Qed.
