(* C14 — A CRL cache entry is only ever absent or complete.
   Statements only; every proof is [exact <lemma of C14_Proofs>].

   The theorems are about the small-step semantics of C14_Model (Part 1): a
   directory shared by ANY number of writers (program of file.WriteFile as called
   by FileCache.Set: create a temporary name with O_EXCL, write in arbitrary
   chunks, close, rename over the key, clean-up on failure) and readers (program
   of os.ReadFile in FileCache.Get: open the key once, read the opened inode in
   arbitrary chunks to EOF).  A trace is ANY list of events: every interleaving,
   and a writer may stop after any of its events (a crash at any point, also the
   explicit event ECrash).  [exec sha init tr = Some s] says that tr is a
   possible run and s the state it reaches.  [forallb safe tr = true] says that
   every writer follows the program of the code (no in-place writer).
   [sha] is any function (crypto/sha256); key u = hex (sha u).
   Kernel semantics of rename(2)/open inodes/O_EXCL are the meaning of the
   events: assumed, not proved (partial). *)
From NV Require Import Base Generated C14_Model C14_Proofs.
Open Scope string_scope.

(* In every reachable state, at every instant, every directory entry is a
   temporary name or a key that holds the COMPLETE content of a writer that was
   started for a URL with that key and has renamed; no run ever changes that inode again. *)
Theorem C14_inv : forall sha tr s, forallb safe tr = true -> exec sha init tr = Some s ->
  forall name i, getS name (s_dir s) = Some i ->
    is_temp name = true \/
    exists wr t, getN i (s_w s) = Some wr /\ key sha (w_url wr) = name /\
      getN i (s_ino s) = Some (w_content wr) /\
      In (ECreate i (w_url wr) (w_content wr) t) tr /\ In (ERename i) tr /\
      (forall tr' s', forallb safe tr' = true -> exec sha s tr' = Some s' ->
         getN i (s_ino s') = Some (w_content wr)).
Proof. exact inv_thm. Qed.
Print Assumptions C14_inv.

(* Every completed read, under any interleaving and any crashes, returns a miss
   or exactly the complete content that some writer stored (created and renamed)
   for a URL with the key of the URL read: never truncated, never mixed. *)
Theorem C14_read : forall sha tr s, forallb safe tr = true -> exec sha init tr = Some s ->
  forall r rr res, getN r (s_r s) = Some rr -> r_st rr = RDone res ->
    In (EOpen r (r_url rr)) tr /\
    (res = Miss \/
     exists w wr t, getN w (s_w s) = Some wr /\ res = Hit (w_content wr) /\
       key sha (w_url wr) = key sha (r_url rr) /\
       In (ECreate w (w_url wr) (w_content wr) t) tr /\ In (ERename w) tr).
Proof. exact read_thm. Qed.
Print Assumptions C14_read.

(* ... hence never undecodable: if writers store encodings of bundles, a hit decodes
   to the bundle such a writer stored (decode o encode = Some is the round trip of
   encoding/json + crypto/x509, a hypothesis) *)
Theorem C14_read_decodes : forall sha (bundle : Type) (encode : bundle -> data) (decode : data -> option bundle),
  (forall b, decode (encode b) = Some b) ->
  forall tr s, forallb safe tr = true -> exec sha init tr = Some s ->
  (forall w u c t, In (ECreate w u c t) tr -> exists b, c = encode b) ->
  forall r rr c, getN r (s_r s) = Some rr -> r_st rr = RDone (Hit c) ->
  exists b w u t, decode c = Some b /\ In (ECreate w u (encode b) t) tr /\ In (ERename w) tr /\
                  key sha u = key sha (r_url rr).
Proof. exact read_decodes. Qed.
Print Assumptions C14_read_decodes.

(* A read that starts (open) after the rename of a writer for that key does not
   miss and yields the content of that writer or of one that renamed later. *)
Theorem C14_fresh : forall sha tr1 tr2 tr3 w r u s,
  forallb safe (tr1 ++ ERename w :: tr2 ++ EOpen r u :: tr3) = true ->
  exec sha init (tr1 ++ ERename w :: tr2 ++ EOpen r u :: tr3) = Some s ->
  forall wr, getN w (s_w s) = Some wr -> key sha (w_url wr) = key sha u ->
  forall rr res, getN r (s_r s) = Some rr -> r_st rr = RDone res ->
  exists w' wr', getN w' (s_w s) = Some wr' /\ w_pc wr' = PDone /\ res = Hit (w_content wr') /\
                 key sha (w_url wr') = key sha u /\ (w' = w \/ In (ERename w') tr2).
Proof. exact fresh_thm. Qed.
Print Assumptions C14_fresh.

(* A temporary name (pattern of internal/file, from Generated.v) is never a key
   name and never key-shaped ... *)
Theorem C14_temp : forall sha t u, is_temp t = true -> t <> key sha u /\ keyshape t = false.
Proof. exact temp_thm. Qed.
Print Assumptions C14_temp.

(* ... and the inode a reader holds is always that of a writer that has renamed:
   a temporary file, in progress or left over by a crash, is never read as an entry. *)
Theorem C14_temp_never_read : forall sha tr s, forallb safe tr = true -> exec sha init tr = Some s ->
  forall r rr i, getN r (s_r s) = Some rr -> r_ino rr = Some i ->
  exists wr, getN i (s_w s) = Some wr /\ w_pc wr = PDone /\ In (ERename i) tr /\
             getN i (s_ino s) = Some (w_content wr).
Proof. exact reader_inode_thm. Qed.
Print Assumptions C14_temp_never_read.

(* The statements depend on the rename design: with the variant program "truncate
   the key and write in place" a read returns a mixed entry, a read returns a
   truncated entry, and a kill leaves an incomplete entry under the key. *)
Theorem C14_refuted_inplace :
  bad_read tr_inplace_mixed /\ bad_read tr_inplace_trunc /\
  exists s i d, exec sha0 init tr_inplace_trunc = Some s /\ getS (key sha0 "u") (s_dir s) = Some i /\
    getN i (s_ino s) = Some d /\ forall w wr, getN w (s_w s) = Some wr -> d <> w_content wr.
Proof. exact (conj inplace_mixed (conj inplace_trunc inplace_key_incomplete)). Qed.
Print Assumptions C14_refuted_inplace.

(* ... and on the reader opening once and reading the inode it opened: with the variant
   reader "take the length from a separate earlier look-up of the key, then open the key
   and read exactly that many bytes", a rename between the two makes a read return a
   truncated entry although every writer follows the rename program. *)
Theorem C14_refuted_stat_then_read :
  forallb (fun ve => match ve with VE e => safe e | _ => true end) tr_stat_then_read = true /\
  exists vs rr c, vexec sha0 (init, []) tr_stat_then_read = Some vs /\
    getN 0%N (s_r (fst vs)) = Some rr /\ r_st rr = RDone (Hit c) /\
    forall w wr, getN w (s_w (fst vs)) = Some wr -> c <> w_content wr.
Proof. exact stat_then_read_truncated. Qed.
Print Assumptions C14_refuted_stat_then_read.

(* The case model of the correspondence check (hook-granularity schedules expanded
   into traces of the semantics above) meets the boolean oracle that is evaluated on
   what the implementation did: reads are misses or complete bundles of a writer of
   that key, the API-level freshness monitor accepts, the listing holds only
   complete keys and names that cannot be keys. *)
Theorem C14_model_meets_oracle : forall i, wf i = true -> spec_ok i (model i) = true.
Proof. exact model_spec_ok. Qed.
Print Assumptions C14_model_meets_oracle.

(* non-vacuity: two writers of the same URL, a crash, and a reader that opens
   after the first rename and reads in two chunks while the second writer renames *)
Example C14_example_trace :
  let tr1 := [ECreate 0 "u" cA tmp1; EWrite 0 3; EWrite 0 1; EClose 0;
              ECreate 1 "u" cB (tmp_prefix ++ "22" ++ tmp_suffix); EWrite 1 2] in
  let tr2 := [ECreate 2 "u" cB (tmp_prefix ++ "333" ++ tmp_suffix); EWrite 2 6; EClose 2; ERename 2; ECrash 1] in
  let tr3 := [ERead 7 4; ECreate 3 "u" cA (tmp_prefix ++ "4" ++ tmp_suffix); EWrite 3 4; EClose 3; ERename 3; ERead 7 9; EEof 7] in
  let tr := (tr1 ++ ERename 0 :: tr2 ++ EOpen 7 "u" :: tr3)%list in
  forallb safe tr = true /\
  option_map (fun s => (option_map r_st (getN 7%N (s_r s)), List.length (s_dir s))) (exec sha0 init tr)
  = Some (Some (RDone (Hit cB)), 2%nat).
Proof. split; vm_compute; reflexivity. Qed.

Example C14_example_case :
  let i := mk_input false [("u", [171%N; 205%N])] [(0%N, ("u", "b1")); (1%N, ("u", "b22"))]
             [(0%N, tmp_prefix ++ "17" ++ tmp_suffix); (1%N, tmp_prefix ++ "4" ++ tmp_suffix)]
             [SW 0; SR 0 "u"; SW 0; SW 1; SW 0; SW 0; SR 1 "u"; SW 1; SW 1; SW 1; SR 2 "u"] in
  wf i = true /\
  model i = mk_obs [1; 2; 1; 3; 4; 2; 3; 4]%N [(0%N, "u", OMiss); (1%N, "u", OHit "b1"); (2%N, "u", OHit "b22")]
                   [("abcd", "b22")].
Proof. split; vm_compute; reflexivity. Qed.
