(* C14 — A CRL cache entry is only ever absent or complete.
   Statements only; every proof is [exact <lemma of C14_Proofs>].

   The theorems are about the small-step semantics of C14_Model (Part 1): a
   directory shared by ANY number of writers (program of file.WriteFile as called
   by FileCache.Set: create a temporary name with O_EXCL, write in arbitrary
   chunks, close, rename over the key, clean-up on failure) and readers (program
   of os.ReadFile in FileCache.Get: open the key once, read the opened inode in
   arbitrary chunks to EOF).  A trace is ANY list of events: every interleaving,
   and a writer may stop after any of its events (a crash at any point, also the
   explicit event ECrash).  [exec sha init tr = Some s] says that tr is a
   possible run and s the state it reaches.  [forallb safe tr = true] says that
   every writer follows the program of the code (no in-place writer).
   [sha] is any function (crypto/sha256); key u = hex (sha u).
   Kernel semantics of rename(2)/open inodes/O_EXCL are the meaning of the
   events: assumed, not proved (partial).

   Further down: the same for exactly the URL read under an injective hash
   (C14_read_url, C14_isolated), reads in progress and progress of every actor
   (C14_read_in_progress, C14_writer_can_finish, C14_can_start, C14_set_then_get),
   and the oracle of the free-running cases against ALL runs of the semantics
   decorated with API-level events (C14_free_runs_meet_oracle, C14_all_runs_meet_oracle;
   definitions: C14_Model Part 3).  Clause-by-clause audit: docs/audit/C14.md. *)
From NV Require Import Base Generated C14_Model C14_Proofs C14_Audit C14_Free.
Open Scope string_scope.

(* In every reachable state, at every instant, every directory entry is a
   temporary name or a key that holds the COMPLETE content of a writer that was
   started for a URL with that key and has renamed; no run ever changes that inode again. *)
Theorem C14_inv : forall sha tr s, forallb safe tr = true -> exec sha init tr = Some s ->
  forall name i, getS name (s_dir s) = Some i ->
    is_temp name = true \/
    exists wr t, getN i (s_w s) = Some wr /\ key sha (w_url wr) = name /\
      getN i (s_ino s) = Some (w_content wr) /\
      In (ECreate i (w_url wr) (w_content wr) t) tr /\ In (ERename i) tr /\
      (forall tr' s', forallb safe tr' = true -> exec sha s tr' = Some s' ->
         getN i (s_ino s') = Some (w_content wr)).
Proof. exact inv_thm. Qed.
Print Assumptions C14_inv.

(* Every completed read, under any interleaving and any crashes, returns a miss
   or exactly the complete content that some writer stored (created and renamed)
   for a URL with the key of the URL read: never truncated, never mixed. *)
Theorem C14_read : forall sha tr s, forallb safe tr = true -> exec sha init tr = Some s ->
  forall r rr res, getN r (s_r s) = Some rr -> r_st rr = RDone res ->
    In (EOpen r (r_url rr)) tr /\
    (res = Miss \/
     exists w wr t, getN w (s_w s) = Some wr /\ res = Hit (w_content wr) /\
       key sha (w_url wr) = key sha (r_url rr) /\
       In (ECreate w (w_url wr) (w_content wr) t) tr /\ In (ERename w) tr).
Proof. exact read_thm. Qed.
Print Assumptions C14_read.

(* ... hence never undecodable: if writers store encodings of bundles, a hit decodes
   to the bundle such a writer stored (decode o encode = Some is the round trip of
   encoding/json + crypto/x509, a hypothesis) *)
Theorem C14_read_decodes : forall sha (bundle : Type) (encode : bundle -> data) (decode : data -> option bundle),
  (forall b, decode (encode b) = Some b) ->
  forall tr s, forallb safe tr = true -> exec sha init tr = Some s ->
  (forall w u c t, In (ECreate w u c t) tr -> exists b, c = encode b) ->
  forall r rr c, getN r (s_r s) = Some rr -> r_st rr = RDone (Hit c) ->
  exists b w u t, decode c = Some b /\ In (ECreate w u (encode b) t) tr /\ In (ERename w) tr /\
                  key sha u = key sha (r_url rr).
Proof. exact read_decodes. Qed.
Print Assumptions C14_read_decodes.

(* A read that starts (open) after the rename of a writer for that key does not
   miss and yields the content of that writer or of one that renamed later. *)
Theorem C14_fresh : forall sha tr1 tr2 tr3 w r u s,
  forallb safe (tr1 ++ ERename w :: tr2 ++ EOpen r u :: tr3) = true ->
  exec sha init (tr1 ++ ERename w :: tr2 ++ EOpen r u :: tr3) = Some s ->
  forall wr, getN w (s_w s) = Some wr -> key sha (w_url wr) = key sha u ->
  forall rr res, getN r (s_r s) = Some rr -> r_st rr = RDone res ->
  exists w' wr', getN w' (s_w s) = Some wr' /\ w_pc wr' = PDone /\ res = Hit (w_content wr') /\
                 key sha (w_url wr') = key sha u /\ (w' = w \/ In (ERename w') tr2).
Proof. exact fresh_thm. Qed.
Print Assumptions C14_fresh.

(* A temporary name (pattern of internal/file, from Generated.v) is never a key
   name and never key-shaped ... *)
Theorem C14_temp : forall sha t u, is_temp t = true -> t <> key sha u /\ keyshape t = false.
Proof. exact temp_thm. Qed.
Print Assumptions C14_temp.

(* ... and the inode a reader holds is always that of a writer that has renamed:
   a temporary file, in progress or left over by a crash, is never read as an entry. *)
Theorem C14_temp_never_read : forall sha tr s, forallb safe tr = true -> exec sha init tr = Some s ->
  forall r rr i, getN r (s_r s) = Some rr -> r_ino rr = Some i ->
  exists wr, getN i (s_w s) = Some wr /\ w_pc wr = PDone /\ In (ERename i) tr /\
             getN i (s_ino s) = Some (w_content wr).
Proof. exact reader_inode_thm. Qed.
Print Assumptions C14_temp_never_read.

(* The statements depend on the rename design: with the variant program "truncate
   the key and write in place" a read returns a mixed entry, a read returns a
   truncated entry, and a kill leaves an incomplete entry under the key. *)
Theorem C14_refuted_inplace :
  bad_read tr_inplace_mixed /\ bad_read tr_inplace_trunc /\
  exists s i d, exec sha0 init tr_inplace_trunc = Some s /\ getS (key sha0 "u") (s_dir s) = Some i /\
    getN i (s_ino s) = Some d /\ forall w wr, getN w (s_w s) = Some wr -> d <> w_content wr.
Proof. exact (conj inplace_mixed (conj inplace_trunc inplace_key_incomplete)). Qed.
Print Assumptions C14_refuted_inplace.

(* ... and on the reader opening once and reading the inode it opened: with the variant
   reader "take the length from a separate earlier look-up of the key, then open the key
   and read exactly that many bytes", a rename between the two makes a read return a
   truncated entry although every writer follows the rename program. *)
Theorem C14_refuted_stat_then_read :
  forallb (fun ve => match ve with VE e => safe e | _ => true end) tr_stat_then_read = true /\
  exists vs rr c, vexec sha0 (init, []) tr_stat_then_read = Some vs /\
    getN 0%N (s_r (fst vs)) = Some rr /\ r_st rr = RDone (Hit c) /\
    forall w wr, getN w (s_w (fst vs)) = Some wr -> c <> w_content wr.
Proof. exact stat_then_read_truncated. Qed.
Print Assumptions C14_refuted_stat_then_read.

(* The case model of the correspondence check (hook-granularity schedules expanded
   into traces of the semantics above) meets the boolean oracle that is evaluated on
   what the implementation did: reads are misses or complete bundles of a writer of
   that key, the API-level freshness monitor accepts, the listing holds only
   complete keys and names that cannot be keys. *)
Theorem C14_model_meets_oracle : forall i, wf i = true -> spec_ok i (model i) = true.
Proof. exact model_spec_ok. Qed.
Print Assumptions C14_model_meets_oracle.

(* ---- "for that URL": under an injective byte-valued hash (the assumption on crypto/sha256;
   hex is injective, proved) a hit is the complete content that a writer created and renamed
   for EXACTLY the URL read ... *)
Theorem C14_read_url : forall sha,
  (forall u, bytes (sha u)) -> (forall u v, sha u = sha v -> u = v) ->
  forall tr s, forallb safe tr = true -> exec sha init tr = Some s ->
  forall r rr c, getN r (s_r s) = Some rr -> r_st rr = RDone (Hit c) ->
  exists w t, In (ECreate w (r_url rr) c t) tr /\ In (ERename w) tr /\
    exists wr, getN w (s_w s) = Some wr /\ w_url wr = r_url rr /\ w_content wr = c.
Proof. exact read_url_thm. Qed.
Print Assumptions C14_read_url.

(* ... and a URL for which no writer was ever started reads as a miss, whatever was stored
   for other URLs *)
Theorem C14_isolated : forall sha,
  (forall u, bytes (sha u)) -> (forall u v, sha u = sha v -> u = v) ->
  forall tr s, forallb safe tr = true -> exec sha init tr = Some s ->
  forall r rr, getN r (s_r s) = Some rr ->
  (forall w c t, ~ In (ECreate w (r_url rr) c t) tr) ->
  forall res, r_st rr = RDone res -> res = Miss.
Proof. exact isolation_thm. Qed.
Print Assumptions C14_isolated.

(* ---- "at every instant", reads in progress: a reader that has opened an entry holds a prefix
   of the COMPLETE content of the writer whose rename put that inode under the key; whatever
   anybody does afterwards (any continuation tr'), if the read completes it returns exactly
   that content; and it can complete at once (it is never blocked) *)
Theorem C14_read_in_progress : forall sha tr s, forallb safe tr = true -> exec sha init tr = Some s ->
  forall r rr i buf, getN r (s_r s) = Some rr -> r_ino rr = Some i -> r_st rr = RReading buf ->
  exists wr, getN i (s_w s) = Some wr /\ w_pc wr = PDone /\ In (ERename i) tr /\
    key sha (w_url wr) = key sha (r_url rr) /\
    buf = firstn (List.length buf) (w_content wr) /\
    (forall tr' s' rr' res, forallb safe tr' = true -> exec sha s tr' = Some s' ->
       getN r (s_r s') = Some rr' -> r_st rr' = RDone res -> res = Hit (w_content wr)) /\
    (exists s' rr', exec sha s [ERead r (List.length (w_content wr)); EEof r] = Some s' /\
       getN r (s_r s') = Some rr' /\ r_st rr' = RDone (Hit (w_content wr))).
Proof. exact read_in_progress_thm. Qed.
Print Assumptions C14_read_in_progress.

(* ---- nobody is ever blocked, so the safety statements are about runs that exist: at every
   instant a writer that was neither killed nor failed can run to its end whatever the others
   did, and then its key denotes its own inode with its complete content and its temporary
   name is gone ... *)
Theorem C14_writer_can_finish : forall sha tr s, forallb safe tr = true -> exec sha init tr = Some s ->
  forall w wr, getN w (s_w s) = Some wr -> (w_pc wr = POpen \/ w_pc wr = PClosed) ->
  exists s', exec sha s (rest_of w wr) = Some s' /\
    getS (key sha (w_url wr)) (s_dir s') = Some w /\ getN w (s_ino s') = Some (w_content wr) /\
    getS (w_tmp wr) (s_dir s') = None.
Proof. exact writer_can_finish_thm. Qed.
Print Assumptions C14_writer_can_finish.

(* ... a new writer (unused id, unused temporary name) and a new reader can always start ... *)
Theorem C14_can_start : forall sha s w u c t r,
  getN w (s_w s) = None -> getN w (s_ino s) = None -> getS t (s_dir s) = None -> is_temp t = true ->
  getN r (s_r s) = None ->
  (exists s', step sha s (ECreate w u c t) = Some s') /\ (exists s', step sha s (EOpen r u) = Some s').
Proof. exact can_start_thm. Qed.
Print Assumptions C14_can_start.

(* ... and the functional reading: in ANY state, a complete Set of content c for URL u followed
   by a complete Get of u returns exactly c *)
Theorem C14_set_then_get : forall sha s w u c t r,
  getN w (s_w s) = None -> getN w (s_ino s) = None -> getS t (s_dir s) = None -> is_temp t = true ->
  getN r (s_r s) = None ->
  exists s' rr, exec sha s [ECreate w u c t; EWrite w (List.length c); EClose w; ERename w;
                            EOpen r u; ERead r (List.length c); EEof r] = Some s' /\
    getN r (s_r s') = Some rr /\ r_st rr = RDone (Hit c).
Proof. exact set_then_get_thm. Qed.
Print Assumptions C14_set_then_get.

(* ---- free-running goroutines and processes.  The cases of the storm / random-kill families
   have no schedule-determined outcome; what the implementation did is judged by [spec_ok] on
   the API-level history recorded from a global clock.  That oracle accepts EVERY history the
   semantics can produce: take any run of Part 1 by the writers of a case, decorated with API
   events placed anywhere the calls allow ([xguard]: a Set is seen to start before its temporary
   file exists and to return after its rename / its failure, a Get is seen to begin before it
   opens and to end after it completed; killed writers never return); then the completed reads
   and the directory of the final state pass [spec_ok] for that history.  Hence a verdict
   "violation" on a free-running case is behaviour outside the semantics. *)
Theorem C14_free_runs_meet_oracle : forall i, tmps_ok i = true ->
  forall xs s M, xexec i init mon0 xs = Some (s, M) ->
  spec_ok (free_input i xs) (free_obs s) = true.
Proof. exact free_runs_meet_oracle. Qed.
Print Assumptions C14_free_runs_meet_oracle.

(* every run of Part 1 by writers of the case has such a decoration (the least one), so this
   holds for all of them: what any run leaves behind passes the oracle *)
Theorem C14_all_runs_meet_oracle : forall i, tmps_ok i = true ->
  forall tr s, exec (sha_of (i_sha i)) init tr = Some s ->
  forallb safe tr = true -> forallb (declared_b i) tr = true ->
  run_of (decorate tr) = tr /\ spec_ok (free_input i (decorate tr)) (free_obs s) = true.
Proof. exact (fun i Tm tr s H S D => conj (run_of_decorate tr) (all_runs_meet_oracle i Tm tr s H S D)). Qed.
Print Assumptions C14_all_runs_meet_oracle.

(* non-vacuity: two writers of the same URL, a crash, and a reader that opens
   after the first rename and reads in two chunks while the second writer renames *)
Example C14_example_trace :
  let tr1 := [ECreate 0 "u" cA tmp1; EWrite 0 3; EWrite 0 1; EClose 0;
              ECreate 1 "u" cB (tmp_prefix ++ "22" ++ tmp_suffix); EWrite 1 2] in
  let tr2 := [ECreate 2 "u" cB (tmp_prefix ++ "333" ++ tmp_suffix); EWrite 2 6; EClose 2; ERename 2; ECrash 1] in
  let tr3 := [ERead 7 4; ECreate 3 "u" cA (tmp_prefix ++ "4" ++ tmp_suffix); EWrite 3 4; EClose 3; ERename 3; ERead 7 9; EEof 7] in
  let tr := (tr1 ++ ERename 0 :: tr2 ++ EOpen 7 "u" :: tr3)%list in
  forallb safe tr = true /\
  option_map (fun s => (option_map r_st (getN 7%N (s_r s)), List.length (s_dir s))) (exec sha0 init tr)
  = Some (Some (RDone (Hit cB)), 2%nat).
Proof. split; vm_compute; reflexivity. Qed.

Example C14_example_case :
  let i := mk_input false [("u", [171%N; 205%N])] [(0%N, ("u", "b1")); (1%N, ("u", "b22"))]
             [(0%N, tmp_prefix ++ "17" ++ tmp_suffix); (1%N, tmp_prefix ++ "4" ++ tmp_suffix)]
             [SW 0; SR 0 "u"; SW 0; SW 1; SW 0; SW 0; SR 1 "u"; SW 1; SW 1; SW 1; SR 2 "u"] in
  wf i = true /\
  model i = mk_obs [1; 2; 1; 3; 4; 2; 3; 4]%N [(0%N, "u", OMiss); (1%N, "u", OHit "b1"); (2%N, "u", OHit "b22")]
                   [("abcd", "b22")].
Proof. split; vm_compute; reflexivity. Qed.

(* the hypotheses of C14_read_url / C14_isolated are satisfiable: the bytes of the URL itself *)
Example C14_example_injective_hash :
  (forall u, bytes (sha_bytes u)) /\ (forall u v, sha_bytes u = sha_bytes v -> u = v).
Proof. exact (conj sha_bytes_bytes sha_bytes_inj). Qed.

(* the hypotheses of C14_read_decodes are satisfiable *)
Example C14_example_codec : forall b : data, (fun c => Some c) ((fun b => b) b) = Some b.
Proof. reflexivity. Qed.

(* temporary names of the real pattern exist, keys of 32-byte hashes are key-shaped *)
Example C14_example_names :
  is_temp "notation-3535206514" = true /\ is_temp "notation-" = false /\ is_temp "notation-12a" = false /\
  is_temp "eb6321dd66d0410def7298da221ab352bd5f6fffc0dc91c9a92518ee67c4ffad" = false /\
  keyshape (hex (repeat 171%N 32)) = true /\ keyshape "notation-3535206514" = false.
Proof. vm_compute. repeat split. Qed.

(* the hypotheses of C14_fresh hold of the trace of C14_example_trace (writer 0 renames, then
   reader 7 opens "u"), and its conclusion is met by writer 2, which renamed in between *)
Example C14_example_fresh :
  let tr1 := [ECreate 0 "u" cA tmp1; EWrite 0 3; EWrite 0 1; EClose 0;
              ECreate 1 "u" cB (tmp_prefix ++ "22" ++ tmp_suffix); EWrite 1 2] in
  let tr2 := [ECreate 2 "u" cB (tmp_prefix ++ "333" ++ tmp_suffix); EWrite 2 6; EClose 2; ERename 2; ECrash 1] in
  let tr3 := [ERead 7 4; ECreate 3 "u" cA (tmp_prefix ++ "4" ++ tmp_suffix); EWrite 3 4; EClose 3; ERename 3; ERead 7 9; EEof 7] in
  exists s wr rr wr', exec sha0 init (tr1 ++ ERename 0 :: tr2 ++ EOpen 7 "u" :: tr3)%list = Some s /\
    getN 0%N (s_w s) = Some wr /\ key sha0 (w_url wr) = key sha0 "u" /\
    getN 2%N (s_w s) = Some wr' /\
    getN 7%N (s_r s) = Some rr /\ r_st rr = RDone (Hit (w_content wr')) /\ In (ERename 2) tr2.
Proof.
  cbv zeta. eexists. eexists. eexists. eexists.
  split; [vm_compute; reflexivity|]. split; [vm_compute; reflexivity|]. split; [reflexivity|].
  split; [vm_compute; reflexivity|]. split; [vm_compute; reflexivity|]. split; [vm_compute; reflexivity|].
  vm_compute. tauto.
Qed.

(* a read in progress and a writer in progress (hypotheses of C14_read_in_progress and
   C14_writer_can_finish) *)
Example C14_example_in_progress :
  let tr := [ECreate 0 "u" cA tmp1; EWrite 0 4; EClose 0; ERename 0; EOpen 5 "u"; ERead 5 1;
             ECreate 1 "u" cB (tmp_prefix ++ "22" ++ tmp_suffix); EWrite 1 2] in
  forallb safe tr = true /\
  exists s rr wr, exec sha0 init tr = Some s /\
    getN 5%N (s_r s) = Some rr /\ r_ino rr = Some 0%N /\ r_st rr = RReading (firstn 1 cA) /\
    getN 1%N (s_w s) = Some wr /\ w_pc wr = POpen.
Proof.
  cbv zeta. split; [reflexivity|]. eexists. eexists. eexists.
  split; [vm_compute; reflexivity|]. split; [vm_compute; reflexivity|]. repeat split.
Qed.

(* fault injection (SF): the rename of writer 1 is made to fail after writer 0 stored b1; Set
   returns an error (point 5), the temporary file is removed, the entry of writer 0 is
   undisturbed, a later Set works (32-byte hashes: the key is key-shaped) *)
Example C14_example_fault_case :
  let i := mk_input false [("u", repeat 171%N 32)] [(0%N, ("u", "b1")); (1%N, ("u", "b22")); (2%N, ("u", "b333"))]
             [(0%N, tmp_prefix ++ "17" ++ tmp_suffix); (1%N, tmp_prefix ++ "4" ++ tmp_suffix); (2%N, tmp_prefix ++ "9" ++ tmp_suffix)]
             [SW 0; SW 0; SW 0; SW 0; SW 1; SW 1; SW 1; SF 1; SR 0 "u"; SW 1; SW 2; SW 2; SW 2; SW 2; SR 1 "u"] in
  wf i = true /\
  model i = mk_obs [1; 2; 3; 4; 1; 2; 3; 5; 0; 1; 2; 3; 4]%N [(0%N, "u", OHit "b1"); (1%N, "u", OHit "b333")]
                   [(hex (repeat 171%N 32), "b333")].
Proof. split; vm_compute; reflexivity. Qed.

(* a decorated run (C14_Free.ex_history: overlapping writers, a late-finishing reader, returns
   recorded out of order, a killed writer, a failed writer, a writer that makes older ones
   stale) is a run, and what it leaves behind is what the theorem speaks about *)
Example C14_example_free_history :
  tmps_ok ex_input = true /\
  option_map (fun sm => free_obs (fst sm)) (xexec ex_input init mon0 ex_history)
  = Some (mk_obs [] [(6%N, "u", OHit "EE"); (9%N, "u", OHit "AAAA"); (7%N, "v", OMiss); (8%N, "u", OHit "BBBBBB")]
                 [(ex_ku, "EE"); ("notation-33", "C")]) /\
  api_of ex_history = [AStart 0; ABeg 9 "u"; AStart 1; ARet 1 true; ARet 0 true; ABeg 8 "u"; AEnd 8; AStart 2;
                       AStart 3; ARet 3 false; ABeg 7 "v"; AEnd 7; AEnd 9; AStart 4; ARet 4 true; ABeg 6 "u"; AEnd 6] /\
  ex_verdict (OHit "EE") (OHit "AAAA") [(ex_ku, "EE"); ("notation-33", "C")] = true.
Proof. repeat split; vm_compute; reflexivity. Qed.

(* the oracle is not trivially true: for the same history it REJECTS a stale bundle (A or B
   after E's Set returned), a truncated one, the bundle of another URL, a miss after a returned
   Set, an error, an unknown bundle, a bundle from the future (reader 9 ended before writer 4
   started), and a key whose file is partial / empty / unknown / another URL's bundle *)
Example C14_example_oracle_rejects :
  map (fun x => ex_verdict x (OHit "AAAA") [(ex_ku, "EE")])
      [OHit "AAAA"; OHit "BBBBBB"; OHit "E"; OHit "DDD"; OMiss; OErr; OCorrupt]
  = [false; false; false; false; false; false; false] /\
  ex_verdict (OHit "EE") (OHit "EE") [(ex_ku, "EE")] = false /\
  map (fun t => ex_verdict (OHit "EE") (OHit "AAAA") [(ex_ku, t)]) ["<"; ""; "?"; "DDD"; "EE"]
  = [false; false; false; false; true].
Proof. repeat split; vm_compute; reflexivity. Qed.
