(* C02 (composition) — end-to-end corollaries: processSignature (C02's model) on native facts
   COMPUTED by the sibling models of C03 (trust stores / authenticity), C04 (trusted identities),
   C05 (revocation) and C06 (expiry / authentic timestamp), combined with their theorems.
   Statements only; every proof is [exact <lemma of theories/C02_Compose.v>].

   full_input          one input for all models: level, scheme, integrity, chain of certificates
                       (identity number, subject, validity window), the applicable statement's
                       trust stores and identities, trust store content, validator answer, clock /
                       signing time / expiry, timestamp option and facts, plugin situation.
   scenario_of i       the VerifyCore scenario whose native facts are the sub-models' results.
   verify_full i       = process_signature (f_level i) (scenario_of i).
   Anchored / Identity_matches / Not_expired / Timestamp_ok / Unrevoked
                       the declarative statements the sub-properties prove of a passing validation.
   contracts i         the validator answers one result per certificate (C05) and every trust
                       store value has a separator (C06's wf). *)
From NV Require Import Base Regex Generated C02_Levels VerifyCore C02_Model C02_Core C02_Proofs C02_Compose.
From NV Require C03_Model C04_DN C04_Model C05_Model C06_Model.
Open Scope string_scope.

(* level strict, no verification plugin demanded: an accepted signature is intact, some chain
   certificate is in a listed store of the scheme's type (C03), the wildcard or an x509.subject
   identity lies within the leaf subject (C04), it has not expired and the authentic-timestamp
   condition of its scheme holds (C06), every certificate is OK / non-revokable (C05), and it
   carries no critical extended attribute *)
Theorem C02_full_accept_strict : forall i,
  f_level i = strict_level -> f_plugin_attr i = AAbsent -> wf_sc (scenario_of i) = true -> contracts i ->
  accepted (verify_full i) = true ->
  f_integrity_ok i = true /\ Anchored i /\ Identity_matches i /\ Not_expired i /\ Timestamp_ok i /\ Unrevoked i
  /\ f_nonstring_crit i = false /\ other_crit (scenario_of i) = [].
Proof. exact full_accept_strict. Qed.
Print Assumptions C02_full_accept_strict.

(* conversely any one of them missing rejects under strict *)
Theorem C02_full_reject_strict : forall i,
  f_level i = strict_level -> f_plugin_attr i = AAbsent -> wf_sc (scenario_of i) = true -> contracts i ->
  (~ Anchored i \/ ~ Identity_matches i \/ ~ Not_expired i \/ ~ Timestamp_ok i \/ ~ Unrevoked i) ->
  accepted (verify_full i) = false.
Proof. exact full_reject_strict. Qed.
Print Assumptions C02_full_reject_strict.

(* strict_level / audit_level are what GetVerificationLevel gives for "strict" / "audit" *)
Theorem C02_full_levels : level_for "strict" [] = Some strict_level /\ level_for "audit" [] = Some audit_level.
Proof. exact (conj strict_is_strict audit_is_audit). Qed.
Print Assumptions C02_full_levels.

(* level audit, intact signature without plugin and without critical attributes: ALWAYS accepted,
   and the outcome lists every validation with action log and the failure the sub-model computed *)
Theorem C02_full_log_reports : forall i,
  f_level i = audit_level -> f_plugin_attr i = AAbsent -> wf_sc (scenario_of i) = true ->
  f_integrity_ok i = true -> f_nonstring_crit i = false -> f_minver_attr i = AAbsent ->
  other_crit (scenario_of i) = [] ->
  accepted (verify_full i) = true /\ o_results (verify_full i) = full_expected_audit i.
Proof. exact full_log_reports. Qed.
Print Assumptions C02_full_log_reports.

(* ... so the same failures that reject under strict are reported, marked failed, and do not reject *)
Theorem C02_full_log_failures_reported : forall i,
  f_level i = audit_level -> f_plugin_attr i = AAbsent -> wf_sc (scenario_of i) = true ->
  f_integrity_ok i = true -> f_nonstring_crit i = false -> f_minver_attr i = AAbsent ->
  other_crit (scenario_of i) = [] -> contracts i ->
  accepted (verify_full i) = true
  /\ (~ Anchored i \/ ~ Identity_matches i -> In (mk_res TAuth Log true) (o_results (verify_full i)))
  /\ (~ Not_expired i -> In (mk_res TExpiry Log true) (o_results (verify_full i)))
  /\ (~ Timestamp_ok i -> In (mk_res TTimestamp Log true) (o_results (verify_full i)))
  /\ (~ Unrevoked i -> In (mk_res TRev Log true) (o_results (verify_full i))).
Proof. exact full_log_failures_reported. Qed.
Print Assumptions C02_full_log_failures_reported.

(* non-vacuity: a two-certificate chain whose root (7) is in the listed ca store, pinned by an
   x509.subject identity that is a subset of the leaf subject, valid now, unrevoked: accepted under
   strict with all five results passing; with the root only in a store of the wrong type, the
   intermediate's subject pinned instead of the leaf's, an expiry in the past and a revoked leaf it
   is accepted under audit with four failed results and rejected under strict *)
Definition ex_chain : list fcert :=
  [mk_fcert 5 "CN=leaf,O=Verif,ST=WA,C=US" (-1000) 1000; mk_fcert 7 "CN=root,O=Verif,ST=WA,C=US" (-5000) 5000].
Definition ex_tok : C06_Model.token :=
  C06_Model.mk_token false false false false 0 0 false false 0 C06_Model.VErr.
Definition ex_good (l : level) : full_input :=
  mk_full l false true ex_chain ["ca:s"] ["x509.subject: C=US, ST=WA, O=Verif"]
          [(("ca", "s"), C03_Model.Certs [7%N])] (C05_Model.VRes [C05_Model.ROK; C05_Model.RNonRevokable])
          0 (-10) None C06_Model.OptUnset [] ex_tok AAbsent AAbsent false [] false PMNil PErr.
Definition ex_bad (l : level) : full_input :=
  mk_full l false true ex_chain ["signingAuthority:s"; "ca:empty"] ["x509.subject: CN=root, C=US, ST=WA, O=Verif"]
          [(("signingAuthority", "s"), C03_Model.Certs [7%N]); (("ca", "empty"), C03_Model.Certs [9%N])]
          (C05_Model.VRes [C05_Model.RRevoked; C05_Model.ROK])
          2000 (-10) (Some 100%Z) C06_Model.OptUnset [] ex_tok AAbsent AAbsent false [] false PMNil PErr.

Example C02_full_example :
  verify_full (ex_good strict_level)
  = mk_obs ENone [mk_res TIntegrity Enforce false; mk_res TAuth Enforce false; mk_res TExpiry Enforce false;
                  mk_res TTimestamp Enforce false; mk_res TRev Enforce false] true [] None
  /\ verify_full (ex_bad audit_level)
  = mk_obs ENone [mk_res TIntegrity Enforce false; mk_res TAuth Log true; mk_res TExpiry Log true;
                  mk_res TTimestamp Log true; mk_res TRev Log true] true [] None
  /\ accepted (verify_full (ex_bad strict_level)) = false.
Proof. repeat split; vm_compute; reflexivity. Qed.
