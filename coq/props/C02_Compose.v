(* C02 (composition) — end-to-end corollaries: processSignature (C02's model) on native facts
   COMPUTED by the sibling models of C03 (trust stores / authenticity), C04 (trusted identities),
   C05 (revocation) and C06 (expiry / authentic timestamp), combined with their theorems.
   Statements only; every proof is [exact <lemma of theories/C02_Compose.v>].

   full_input          one input for all models: level, scheme, integrity, chain of certificates
                       (identity number, subject, validity window), the applicable statement's
                       trust stores and identities, trust store content, validator answer, clock /
                       signing time / expiry, timestamp option and facts, plugin situation.
   scenario_of i       the VerifyCore scenario whose native facts are the sub-models' results.
   verify_full i       = process_signature (f_level i) (scenario_of i).
   Anchored / Identity_matches / Not_expired / Timestamp_ok / Unrevoked
                       the declarative statements the sub-properties prove of a passing validation.
   contracts i         every trust store value has a separator (C06's wf). That the validator
                       answers one result per certificate is NOT assumed any more: since fix d78db00
                       the code checks it (checkRevocationResults, mirrored in C05's model), and
                       [Unrevoked] says so. *)
From NV Require Import Base Regex Generated C02_Levels VerifyCore C02_Model C02_Core C02_Proofs C02_Compose.
From NV Require C03_Model C04_DN C04_Model C05_Model C06_Model.
Open Scope string_scope.

(* level strict, no verification plugin demanded: an accepted signature is intact, some chain
   certificate is in a listed store of the scheme's type (C03), the wildcard or an x509.subject
   identity lies within the leaf subject (C04), it has not expired and the authentic-timestamp
   condition of its scheme holds (C06), every certificate is OK / non-revokable (C05), and it
   carries no critical extended attribute *)
Theorem C02_full_accept_strict : forall i,
  f_level i = strict_level -> f_plugin_attr i = AAbsent -> wf_sc (scenario_of i) = true -> contracts i ->
  accepted (verify_full i) = true ->
  f_integrity_ok i = true /\ Anchored i /\ Identity_matches i /\ Not_expired i /\ Timestamp_ok i /\ Unrevoked i
  /\ f_nonstring_crit i = false /\ other_crit (scenario_of i) = [].
Proof. exact full_accept_strict. Qed.
Print Assumptions C02_full_accept_strict.

(* conversely any one of them missing rejects under strict *)
Theorem C02_full_reject_strict : forall i,
  f_level i = strict_level -> f_plugin_attr i = AAbsent -> wf_sc (scenario_of i) = true -> contracts i ->
  (~ Anchored i \/ ~ Identity_matches i \/ ~ Not_expired i \/ ~ Timestamp_ok i \/ ~ Unrevoked i) ->
  accepted (verify_full i) = false.
Proof. exact full_reject_strict. Qed.
Print Assumptions C02_full_reject_strict.

(* the native revocation fact handed to processSignature, for every validator answer: the validation
   passes iff the validator answered with exactly one result per certificate, each OK or non-revokable
   (a validator error, a result too few or too many, a revoked or unknown certificate all fail it) *)
Theorem C02_full_revocation_fact : forall i,
  s_rev_ok (scenario_of i) = true <-> Unrevoked i.
Proof. exact rev_passes_iff. Qed.
Print Assumptions C02_full_revocation_fact.

(* EVERY enforcement map (the 24 reachable ones included), no plugin demanded: the signature is accepted
   exactly when it is intact, every validation the map ENFORCES holds in the declarative sense of its own
   property (C04 identities, C06 expiry / authentic timestamp, C05 revocation: iff; C03 authenticity: the
   class computed by C03's model, which implies the anchoring), and there is no critical extended attribute.
   Validations whose action is log or skip do not occur in the condition at all.
     Enforced_ok i := (l_auth = Enforce -> auth_class i = APass /\ Identity_matches i) /\ (l_exp = Enforce -> Not_expired i)
                      /\ (l_ts = Enforce -> Timestamp_ok i) /\ (l_rev = Enforce -> Unrevoked i)
     No_critical i := no integer-labelled critical attribute, no critical string-keyed one, no critical
                      minimum-version header *)
Theorem C02_full_accept_iff : forall i, f_plugin_attr i = AAbsent -> contracts i ->
  (accepted (verify_full i) = true <-> f_integrity_ok i = true /\ Enforced_ok i /\ No_critical i).
Proof. exact full_accept_iff. Qed.
Print Assumptions C02_full_accept_iff.

Theorem C02_full_auth_class_anchored : forall i, auth_class i = C03_Model.APass -> Anchored i.
Proof. exact auth_class_pass_anchored. Qed.
Print Assumptions C02_full_auth_class_anchored.

(* hence, whatever the map: an enforced validation that does not hold rejects *)
Theorem C02_full_reject_any_level : forall i, f_plugin_attr i = AAbsent -> contracts i ->
  (l_auth (f_level i) = Enforce /\ (~ Anchored i \/ ~ Identity_matches i))
  \/ (l_exp (f_level i) = Enforce /\ ~ Not_expired i)
  \/ (l_ts (f_level i) = Enforce /\ ~ Timestamp_ok i)
  \/ (l_rev (f_level i) = Enforce /\ ~ Unrevoked i) ->
  accepted (verify_full i) = false.
Proof. exact full_reject_any_level. Qed.
Print Assumptions C02_full_reject_any_level.

(* strict_level / audit_level are what GetVerificationLevel gives for "strict" / "audit" *)
Theorem C02_full_levels : level_for "strict" [] = Some strict_level /\ level_for "audit" [] = Some audit_level.
Proof. exact (conj strict_is_strict audit_is_audit). Qed.
Print Assumptions C02_full_levels.

(* level audit, intact signature without plugin and without critical attributes: ALWAYS accepted,
   and the outcome lists every validation with action log and the failure the sub-model computed *)
Theorem C02_full_log_reports : forall i,
  f_level i = audit_level -> f_plugin_attr i = AAbsent -> wf_sc (scenario_of i) = true ->
  f_integrity_ok i = true -> f_nonstring_crit i = false -> f_minver_attr i = AAbsent ->
  other_crit (scenario_of i) = [] ->
  accepted (verify_full i) = true /\ o_results (verify_full i) = full_expected_audit i.
Proof. exact full_log_reports. Qed.
Print Assumptions C02_full_log_reports.

(* ... so the same failures that reject under strict are reported, marked failed, and do not reject *)
Theorem C02_full_log_failures_reported : forall i,
  f_level i = audit_level -> f_plugin_attr i = AAbsent -> wf_sc (scenario_of i) = true ->
  f_integrity_ok i = true -> f_nonstring_crit i = false -> f_minver_attr i = AAbsent ->
  other_crit (scenario_of i) = [] -> contracts i ->
  accepted (verify_full i) = true
  /\ (~ Anchored i \/ ~ Identity_matches i -> In (mk_res TAuth Log true) (o_results (verify_full i)))
  /\ (~ Not_expired i -> In (mk_res TExpiry Log true) (o_results (verify_full i)))
  /\ (~ Timestamp_ok i -> In (mk_res TTimestamp Log true) (o_results (verify_full i)))
  /\ (~ Unrevoked i -> In (mk_res TRev Log true) (o_results (verify_full i))).
Proof. exact full_log_failures_reported. Qed.
Print Assumptions C02_full_log_failures_reported.

(* non-vacuity: a two-certificate chain whose root (7) is in the listed ca store, pinned by an
   x509.subject identity that is a subset of the leaf subject, valid now, unrevoked: accepted under
   strict with all five results passing; with the root only in a store of the wrong type, the
   intermediate's subject pinned instead of the leaf's, an expiry in the past and a revoked leaf it
   is accepted under audit with four failed results and rejected under strict *)
Definition ex_chain : list fcert :=
  [mk_fcert 5 "CN=leaf,O=Verif,ST=WA,C=US" (-1000) 1000; mk_fcert 7 "CN=root,O=Verif,ST=WA,C=US" (-5000) 5000].
Definition ex_tok : C06_Model.token :=
  C06_Model.mk_token false false false false 0 0 false false 0 C06_Model.VErr.
Definition ex_good (l : level) : full_input :=
  mk_full l false true ex_chain ["ca:s"] ["x509.subject: C=US, ST=WA, O=Verif"]
          [(("ca", "s"), C03_Model.Certs [7%N])] (C05_Model.VRes [C05_Model.ROK; C05_Model.RNonRevokable])
          0 (-10) None C06_Model.OptUnset [] ex_tok AAbsent AAbsent false [] false PMNil PErr.
Definition ex_bad (l : level) : full_input :=
  mk_full l false true ex_chain ["signingAuthority:s"; "ca:empty"] ["x509.subject: CN=root, C=US, ST=WA, O=Verif"]
          [(("signingAuthority", "s"), C03_Model.Certs [7%N]); (("ca", "empty"), C03_Model.Certs [9%N])]
          (C05_Model.VRes [C05_Model.RRevoked; C05_Model.ROK])
          2000 (-10) (Some 100%Z) C06_Model.OptUnset [] ex_tok AAbsent AAbsent false [] false PMNil PErr.

(* the good input, but the validator reports two results for... one certificate too many / too few *)
Definition ex_short (l : level) : full_input :=
  mk_full l false true ex_chain ["ca:s"] ["x509.subject: C=US, ST=WA, O=Verif"]
          [(("ca", "s"), C03_Model.Certs [7%N])] (C05_Model.VRes [C05_Model.ROK])
          0 (-10) None C06_Model.OptUnset [] ex_tok AAbsent AAbsent false [] false PMNil PErr.

Example C02_full_example_validator_answer_incomplete :
  o_err (verify_full (ex_short strict_level)) = EResult TRev
  /\ verify_full (ex_short audit_level)
  = mk_obs ENone [mk_res TIntegrity Enforce false; mk_res TAuth Log false; mk_res TExpiry Log false;
                  mk_res TTimestamp Log false; mk_res TRev Log true] true [] None.
Proof. repeat split; vm_compute; reflexivity. Qed.

(* a customised map: permissive with expiry enforced. The bad input (unanchored, foreign identity, expired,
   revoked) under a map that enforces only expiry and revocation... *)
Example C02_full_example_custom_level :
  let lvl := mk_level Log Log Enforce Log in
  level_for "audit" [("expiry", "enforce")] = Some lvl
  /\ contracts (ex_bad lvl) /\ f_plugin_attr (ex_bad lvl) = AAbsent
  /\ o_err (verify_full (ex_bad lvl)) = EResult TExpiry
  /\ accepted (verify_full (ex_good lvl)) = true
  /\ Enforced_ok (ex_good lvl).
Proof.
  cbv zeta. split; [vm_compute; reflexivity|]. split; [vm_compute; reflexivity|]. split; [reflexivity|].
  split; [vm_compute; reflexivity|]. split; [vm_compute; reflexivity|].
  unfold Enforced_ok. cbn [f_level ex_good l_auth l_exp l_ts l_rev].
  split; [discriminate|]. split; [intros _; left; reflexivity|]. split; discriminate.
Qed.

Example C02_full_example :
  verify_full (ex_good strict_level)
  = mk_obs ENone [mk_res TIntegrity Enforce false; mk_res TAuth Enforce false; mk_res TExpiry Enforce false;
                  mk_res TTimestamp Enforce false; mk_res TRev Enforce false] true [] None
  /\ verify_full (ex_bad audit_level)
  = mk_obs ENone [mk_res TIntegrity Enforce false; mk_res TAuth Log true; mk_res TExpiry Log true;
                  mk_res TTimestamp Log true; mk_res TRev Log true] true [] None
  /\ accepted (verify_full (ex_bad strict_level)) = false.
Proof. repeat split; vm_compute; reflexivity. Qed.
