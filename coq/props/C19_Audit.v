(* C19 — theorems added by the audit (docs/audit/C19.md). Statements only; every
   proof is [exact <lemma of C19_Audit>] (or of C19_Proofs).
   Reading, as in C19_Property.v: [ops] is ANY history (any length, any number
   of subjects) of PushSignature calls (OpPush), direct pushes of arbitrary
   contents through oras (OpRaw: foreign referrers, hostile manifests),
   listings and fetches on an initially empty OCI layout; [state_after ops] is
   the store after it; wf = no length is negative. Digests, media types and
   annotation strings are numbers standing injectively for byte strings.
   "ops = ops1 ++ o :: ops2" reads: o is an operation of the history, performed
   on the store [state_after ops1]. *)
From Coq Require Import Permutation.
From NV Require Import Base Generated C19_Model C19_Proofs C19_Audit.
Open Scope list_scope.
Open Scope N_scope.

(* ---------- "yields exactly the signature manifests pushed for that artifact" ----------
   [pushed_for ops q it]: a PushSignature of the history, for subject q, reported
   success with manifest descriptor and annotations [it].
   [put_directly_for]: a content pushed through oras that is itself a signature
   manifest of q (media type image / legacy manifest, parses, subject equal to q
   on media type, digest and size, artifact type notation) and was accepted.
   [envelope_is_manifest_for]: degenerate, an ENVELOPE given to PushSignature
   under a manifest media type that reads as a signature manifest of q.
   [pushes_fresh ops]: for every PushSignature that reported success, no content
   with the digest of its manifest was in the store before (and that digest is
   not the envelope's nor that of "{}") — what sha256 gives unless the identical
   manifest bytes were stored beforehand (see C19_pushed_but_not_listed_refuted). *)
Theorem C19_listing_is_the_pushes : forall ops q its lg,
  forallb wf_op ops = true -> pushes_fresh ops ->
  list_sigs (state_after ops) q = (LOk its, lg) ->
  NoDup (map item_dg its) /\
  forall it, In it its <->
    (pushed_for ops q it \/ put_directly_for ops q it \/ envelope_is_manifest_for ops q it).
Proof. exact listing_is_the_pushes. Qed.
Print Assumptions C19_listing_is_the_pushes.

(* the clause as worded: when everything else put into the layout is foreign
   to q (no direct push is a signature manifest of q) and envelopes carry an
   envelope media type, the listing of q is exactly — each once — the
   manifests of the successful PushSignature calls for q, with the annotations
   those calls reported *)
Theorem C19_listing_is_the_pushes_clean : forall ops q its lg,
  forallb wf_op ops = true -> pushes_fresh ops ->
  (forall d c, In (OpRaw d c) ops -> ~ sig_manifest_of q (mk_entry d c)) ->
  (forall p, In (OpPush p) ops -> is_graph_mt (d_mt (blob_desc p)) = false) ->
  list_sigs (state_after ops) q = (LOk its, lg) ->
  NoDup (map item_dg its) /\ forall it, In it its <-> pushed_for ops q it.
Proof. exact listing_is_the_pushes_clean. Qed.
Print Assumptions C19_listing_is_the_pushes_clean.

(* [pushes_fresh] is decidable along the history *)
Theorem C19_pushes_fresh_decidable : forall ops, freshb [] ops = true -> pushes_fresh ops.
Proof. exact freshb_sound. Qed.
Print Assumptions C19_pushes_fresh_decidable.

(* REFUTED without [pushes_fresh]: "a signature whose push reported success is
   listed for its artifact". Witness: the bytes of the manifest the push is going
   to make are stored beforehand under application/octet-stream; the push
   reports success (PackManifest ignores ErrAlreadyExists), nothing is indexed,
   the listing of the subject is empty — while FetchSignatureBlob of the
   reported manifest descriptor still returns the envelope. Replayed on the real
   code: harness family scripted:squat (docs/audit/C19.md, section 4). The part
   that holds is C19_push_listed_roundtrip (C19_Property.v), which has the
   freshness hypotheses. *)
Theorem C19_pushed_but_not_listed_refuted : exists s',
  forallb wf_op (squat_ops1 ++ [OpPush squat_p]) = true /\
  push_sig (state_after squat_ops1) squat_p
    = (s', RPush 0 (blob_desc squat_p) (man_desc squat_p) [(1,3); (5,6)]) /\
  list_sigs (state_after (squat_ops1 ++ [OpPush squat_p])) (p_subj squat_p) = (LOk [], []) /\
  fst (fetch_sig (state_after (squat_ops1 ++ [OpPush squat_p])) (man_desc squat_p))
    = FOk 20 (blob_desc squat_p).
Proof. exact pushed_but_not_listed. Qed.
Print Assumptions C19_pushed_but_not_listed_refuted.

(* the positive clause under the hypothesis that excludes EXACTLY the squat states.
   [no_squat st p]: the digest of the manifest the push is going to make is
   neither the envelope's nor that of "{}" (sha256), and any content the store
   already holds under it is this very manifest stored as an image manifest
   (e.g. the identical manifest copied first by someone else: harmless).
   Then, after ANY later operations, the manifest is in every successful listing
   of its subject with the annotations reported, and fetches back. It subsumes
   the listing / fetch conjuncts of C19_push_listed_roundtrip (fresh digest). *)
Theorem C19_pushed_then_listed : forall ops1 p ops2 st1' bd md a,
  forallb wf_op (ops1 ++ OpPush p :: ops2) = true ->
  push_sig (state_after ops1) p = (st1', RPush 0 bd md a) ->
  no_squat (state_after ops1) p ->
  let st := state_after (ops1 ++ OpPush p :: ops2) in
  (forall its lg, list_sigs st (p_subj p) = (LOk its, lg) -> In (I md MT_NOTATION a) its) /\
  ((p_msz p <= capM)%Z -> (c_sz (p_bc p) <= capB)%Z ->
     fetch_sig st md = (FOk (p_bdg p) bd, [p_mdg p; p_bdg p])).
Proof. exact pushed_then_listed. Qed.
Print Assumptions C19_pushed_then_listed.

Theorem C19_fresh_is_no_squat : forall ops, pushes_fresh ops -> no_squat_history ops.
Proof. exact fresh_no_squat_history. Qed.
Print Assumptions C19_fresh_is_no_squat.

(* the hypothesis is necessary: when the store already holds a content under the
   manifest's digest with a media type other than the image manifest type, the
   manifest descriptor the push reported is in NO later listing of ANY subject *)
Theorem C19_squatted_never_listed : forall ops1 p ops2 st1' bd md a e,
  forallb wf_op (ops1 ++ OpPush p :: ops2) = true ->
  push_sig (state_after ops1) p = (st1', RPush 0 bd md a) ->
  lookup_dg (state_after ops1) (p_mdg p) = Some e -> d_mt (e_d e) <> MT_IMAGE ->
  forall q its lg, list_sigs (state_after (ops1 ++ OpPush p :: ops2)) q = (LOk its, lg) ->
    forall it, In it its -> i_d it <> md.
Proof. exact squatted_never_listed. Qed.
Print Assumptions C19_squatted_never_listed.

(* the oracle on the squat history followed by a listing: [spec_ok] (full
   strength) is false, [spec_ok_known] (the squatted push owes nothing) is true,
   the case evaluates to code 2 (oracle violation, model = implementation) with
   FOOTPRINT 1 = the known finding of KNOWN_FINDINGS.txt *)
Theorem C19_model_meets_oracle_refuted :
  wf squat_input = true /\ spec_ok squat_input (model squat_input) = false /\
  spec_ok_known squat_input (model squat_input) = true /\
  run [mk_case 7 squat_input (model squat_input)] = [(7, 2, 1)].
Proof. exact model_violates_oracle_when_squatted. Qed.
Print Assumptions C19_model_meets_oracle_refuted.

(* footprint 1 is ONLY that: a successful push missing from the listing of its
   subject although nothing was stored under its manifest digest before is an
   ordinary violation (footprint 0; here also a mismatch with the model: code 3) *)
Theorem C19_other_unlisted_is_not_known : run [unlisted_case] = [(8, 3, 0)].
Proof. exact other_unlisted_is_not_known. Qed.
Print Assumptions C19_other_unlisted_is_not_known.

(* ---------- "after any sequence of signature pushes": what a push does ---------- *)
(* the complete outcome of PushSignature on ANY store: success reports the
   descriptors of what was pushed and the caller's annotations plus the creation
   time; the only failures are: envelope already stored (store unchanged), an
   envelope given under a manifest / index media type that does not parse as
   one, a supplied creation time that is not RFC 3339 *)
Theorem C19_push_outcome : forall st p s' e bd md a, push_sig st p = (s', RPush e bd md a) ->
  (e = 0 /\ bd = blob_desc p /\ md = man_desc p /\
   ensure_created (p_ann p) (p_now p) (p_cvalid p) = Some a /\ lookup_dg st (p_bdg p) = None) \/
  (e = 1 /\ lookup_dg st (p_bdg p) <> None /\ s' = st) \/
  (e = 3 /\ lookup_dg st (p_bdg p) = None /\ is_graph_mt (d_mt (blob_desc p)) = true /\
   successors (d_mt (blob_desc p)) (p_bc p) = None) \/
  (e = 4 /\ lookup_dg st (p_bdg p) = None /\ has_key K_CREATED (p_ann p) = true /\ p_cvalid p = false).
Proof. exact push_outcome. Qed.
Print Assumptions C19_push_outcome.

Theorem C19_push_succeeds_iff : forall st p,
  (exists s' bd md a, push_sig st p = (s', RPush 0 bd md a)) <->
  (lookup_dg st (p_bdg p) = None /\ successors (d_mt (blob_desc p)) (p_bc p) <> None /\
   ensure_created (p_ann p) (p_now p) (p_cvalid p) <> None).
Proof. exact push_succeeds_iff. Qed.
Print Assumptions C19_push_succeeds_iff.

(* nothing is ever removed or rewritten: an operation only puts contents in
   front of the store; a listing or a fetch leaves it as it is *)
Theorem C19_store_only_grows : forall ops o, forallb wf_op (ops ++ [o]) = true ->
  exists l, state_after (ops ++ [o]) = l ++ state_after ops /\
    match o with OpList _ | OpFetch _ => l = [] | _ => True end.
Proof. exact store_only_grows. Qed.
Print Assumptions C19_store_only_grows.

(* what a subject once listed it lists after any further operations
   (unless the listing is then refused) *)
Theorem C19_listed_stays_listed : forall ops ops' q its lg its' lg' it,
  forallb wf_op (ops ++ ops') = true ->
  list_sigs (state_after ops) q = (LOk its, lg) ->
  list_sigs (state_after (ops ++ ops')) q = (LOk its', lg') ->
  In it its -> In it its'.
Proof. exact listed_stays_listed. Qed.
Print Assumptions C19_listed_stays_listed.

(* "stay with their artifact", as a frame statement: a PushSignature changes the
   listing of no artifact other than its subject (q is not the subject, nor the
   envelope or the config it stores): same items, same refusal *)
Theorem C19_push_frame : forall ops p q, forallb wf_op (ops ++ [OpPush p]) = true ->
  q <> p_subj p -> q <> cfg_desc -> q <> blob_desc p ->
  is_graph_mt (d_mt (blob_desc p)) = false ->
  fst (list_sigs (state_after (ops ++ [OpPush p])) q) = fst (list_sigs (state_after ops) q).
Proof. exact push_frame. Qed.
Print Assumptions C19_push_frame.

(* the same for a direct push (a foreign referrer, a hostile manifest): a
   content that does not name q among its successors (subject, config, layers /
   blobs / manifests) changes nothing about q *)
Theorem C19_raw_frame : forall ops d c q, forallb wf_op (ops ++ [OpRaw d c]) = true ->
  refers q (mk_entry d c) = false ->
  fst (list_sigs (state_after (ops ++ [OpRaw d c])) q) = fst (list_sigs (state_after ops) q).
Proof. exact raw_frame. Qed.
Print Assumptions C19_raw_frame.

(* ---------- "identical envelope bytes and media type", at the level of contents ----------
   after a successful push (fresh manifest digest) and ANY later operations, the
   content stored under the returned blob descriptor IS the envelope that was
   pushed (not only: has its digest), with its length; the media type is the
   one given unless that was empty; the content stored under the manifest
   descriptor is the manifest of subject, config, this one blob and the
   annotations reported *)
Theorem C19_roundtrip_content : forall ops1 p ops2 st1' bd md a,
  forallb wf_op (ops1 ++ OpPush p :: ops2) = true ->
  push_sig (state_after ops1) p = (st1', RPush 0 bd md a) ->
  lookup_dg (state_after ops1) (p_mdg p) = None -> p_mdg p <> p_bdg p -> p_mdg p <> DG_EMPTY ->
  let st := state_after (ops1 ++ OpPush p :: ops2) in
  fetch_all st bd = Some (p_bc p) /\
  d_dg bd = p_bdg p /\ d_sz bd = c_sz (p_bc p) /\
  d_mt bd = (if p_mt p =? MT_NONE then MT_OCTET else p_mt p) /\
  (p_mt p <> MT_NONE -> d_mt bd = p_mt p) /\
  fetch_all st md = Some (man_content (p_msz p) (p_subj p) bd a) /\
  ensure_created (p_ann p) (p_now p) (p_cvalid p) = Some a.
Proof. exact roundtrip_content. Qed.
Print Assumptions C19_roundtrip_content.

(* REFUTED for the empty media type: PushSignature("", ..) stores and returns
   the envelope under application/octet-stream (oras.PushBytes); the part that
   holds is the fifth conjunct of C19_roundtrip_content *)
Theorem C19_media_type_identical_refuted : exists p s' bd md a,
  push_sig [] p = (s', RPush 0 bd md a) /\ d_mt bd <> p_mt p /\
  fst (fetch_sig s' md) = FOk (p_bdg p) bd.
Proof. exact media_type_not_identical. Qed.
Print Assumptions C19_media_type_identical_refuted.

(* ---------- "refused before its content is used", on ANY store ---------- *)
(* unconditionally: every content a listing fetches is a referrer of manifest
   type whose declared size is within the manifest cap *)
Theorem C19_list_never_fetches_oversize : forall st q g, In g (snd (list_sigs st q)) ->
  exists m, In m (predecessors st q) /\ g = d_dg m /\ is_sigmt (d_mt m) = true /\ (d_sz m <= capM)%Z.
Proof. exact list_never_fetches_oversize. Qed.
Print Assumptions C19_list_never_fetches_oversize.

(* why a listing fails, class by class: a referrer above the cap; a referrer
   within the cap that cannot be fetched (missing, or stored with another
   length); one that does not parse *)
Theorem C19_list_error_classes : forall st q e, fst (list_sigs st q) = LErr e ->
  exists n, In n (predecessors st q) /\ is_sigmt (d_mt n) = true /\
    ((e = 1 /\ (capM < d_sz n)%Z) \/
     (e = 2 /\ (d_sz n <= capM)%Z /\ fetch_all st n = None) \/
     (e = 3 /\ (d_sz n <= capM)%Z /\ exists c, fetch_all st n = Some c /\ parsed (d_mt n) c = false)).
Proof. exact list_error_classes. Qed.
Print Assumptions C19_list_error_classes.

(* the complete case analysis of a refused fetch, with what had been fetched
   by then: nothing (media type, manifest cap), the manifest only (unknown,
   not JSON, blob count other than one, blob cap), manifest and blob (blob
   unknown or of another length) *)
Theorem C19_fetch_error_classes : forall st d e lg, fetch_sig st d = (FErr e, lg) ->
  (e = 1 /\ is_sigmt (d_mt d) = false /\ lg = []) \/
  (e = 2 /\ is_sigmt (d_mt d) = true /\ (capM < d_sz d)%Z /\ lg = []) \/
  (is_sigmt (d_mt d) = true /\ (d_sz d <= capM)%Z /\
   ((e = 3 /\ fetch_all st d = None /\ lg = [d_dg d]) \/
    exists c, fetch_all st d = Some c /\
      ((e = 4 /\ parsed (d_mt d) c = false /\ lg = [d_dg d]) \/
       (parsed (d_mt d) c = true /\
        ((e = 5 /\ List.length (blobs_of (d_mt d) c) <> 1%nat /\ lg = [d_dg d]) \/
         exists b, blobs_of (d_mt d) c = [b] /\
           ((e = 6 /\ (capB < d_sz b)%Z /\ lg = [d_dg d]) \/
            (e = 3 /\ (d_sz b <= capB)%Z /\ fetch_all st b = None /\ lg = [d_dg d; d_dg b]))))))).
Proof. exact fetch_error_classes. Qed.
Print Assumptions C19_fetch_error_classes.

(* a successful fetch parsed a manifest whose REAL length is within the
   manifest cap and returned a blob whose REAL length is within the blob cap *)
Theorem C19_fetch_ok_real_sizes : forall st d blob bd lg, fetch_sig st d = (FOk blob bd, lg) ->
  exists c cb, fetch_all st d = Some c /\ (0 <= c_sz c <= capM)%Z /\
               fetch_all st bd = Some cb /\ (0 <= c_sz cb <= capB)%Z.
Proof. exact fetch_ok_real_sizes. Qed.
Print Assumptions C19_fetch_ok_real_sizes.

(* ---------- the observations compared with the real code are these steps ----------
   the k-th observation of [model] (what the harness compares with the k-th
   result of the real Repository) is the step of the k-th operation on the
   store after the first k operations — the store every theorem speaks of *)
Theorem C19_observation_at : forall ops1 o ops2,
  nth_error (model (mk_input (ops1 ++ o :: ops2))) (List.length ops1)
  = Some (snd (step (state_after ops1) o)) /\
  List.length (model (mk_input (ops1 ++ o :: ops2))) = List.length (ops1 ++ o :: ops2).
Proof. exact observation_at. Qed.
Print Assumptions C19_observation_at.

(* ---------- non-vacuity: concrete instances of the hypotheses ----------
   [ex_ops] (C19_Property.v, repeated here): subject S, its size variant S';
   two signatures of S, one of S', a foreign referrer of S of another type, a
   notation manifest of S' whose layer is S, a hostile notation manifest of S
   with two layers. *)
Definition S : desc := D 1 10 400.
Definition S' : desc := D 1 10 401.
Definition p1 : push := P 8 20 (CO 500) S [(5,6)] 2 true 21 700.
Definition p2 : push := P 9 22 (CB 300) S' [] 2 true 23 650.
Definition p3 : push := P 8 24 (CO 510) S [(1,9)] 2 true 25 710.
Definition r1 : op := OpRaw (D 1 30 600) (C 600 true true true (M (Some S) (D 12 1 2) [D 8 20 500] 13 [] [] [(7,8)])).
Definition r2 : op := OpRaw (D 1 31 610) (C 610 true true true (M (Some S') (D 6 1 2) [S] 0 [] [] [])).
Definition r3 : op := OpRaw (D 1 32 620) (C 620 true true true (M (Some S) (D 6 1 2) [D 8 20 500; D 9 22 300] 0 [] [] [])).
Definition ex_ops : list op := [ OpPush p1; OpPush p2; r1; r2; r3; OpPush p3 ].

(* the history is well-formed and its pushes are fresh *)
Example ex_fresh : forallb wf_op ex_ops = true /\ freshb [] ex_ops = true.
Proof. split; vm_compute; reflexivity. Qed.

(* C19_listing_is_the_pushes: the listing of S succeeds and has three items *)
Example ex_listing_S : list_sigs (state_after ex_ops) S =
  (LOk [ I (D 1 25 710) 6 [(1,9)]; I (D 1 32 620) 6 []; I (D 1 21 700) 6 [(1,2); (5,6)] ], [25; 32; 31; 30; 21]).
Proof. vm_compute. reflexivity. Qed.

(* ... one of each kind: pushed for S (p1 and p3) and put directly (r3) *)
Example ex_pushed_for : pushed_for ex_ops S (I (D 1 21 700) 6 [(1,2); (5,6)]).
Proof.
  exists [], p1, [OpPush p2; r1; r2; r3; OpPush p3]. eexists. exists [(1,2); (5,6)].
  split; [reflexivity|]. split; [vm_compute; reflexivity|]. split; reflexivity.
Qed.

Example ex_put_directly_for : put_directly_for ex_ops S (I (D 1 32 620) 6 []).
Proof.
  exists [OpPush p1; OpPush p2; r1; r2], (D 1 32 620),
         (C 620 true true true (M (Some S) (D 6 1 2) [D 8 20 500; D 9 22 300] 0 [] [] [])), [OpPush p3].
  split; [reflexivity|]. split; [vm_compute; reflexivity|]. split; [|reflexivity].
  unfold sig_manifest_of. cbn. repeat split; auto. discriminate.
Qed.

(* the degenerate kind exists too: an "envelope" pushed under the image
   manifest media type that reads as a notation manifest of S *)
Example ex_envelope_is_manifest :
  let p := P 1 40 (C 900 true true true (M (Some S) (D 6 1 2) [D 8 41 5] 0 [] [] [])) S' [] 2 true 42 800 in
  envelope_is_manifest_for [OpPush p] S (I (D 1 40 900) 6 []) /\
  fst (list_sigs (state_after [OpPush p]) S) = LOk [I (D 1 40 900) 6 []].
Proof.
  cbv zeta. split; [|vm_compute; reflexivity].
  eexists [], _, []. split; [reflexivity|]. split; [reflexivity|]. split; [|reflexivity].
  unfold sig_manifest_of. cbn. repeat split; auto. discriminate.
Qed.

(* C19_listing_is_the_pushes_clean: for the subject S' ... no: r2 IS a signature
   manifest of S'. For a third subject T signed once among the foreign referrers
   of S and S' the two side conditions hold *)
Definition T : desc := D 1 11 777.
Definition pT : push := P 8 50 (CO 123) T [] 2 true 51 640.
Example ex_clean_hyps :
  let ops := ex_ops ++ [OpPush pT] in
  forallb wf_op ops = true /\ freshb [] ops = true /\
  forallb (fun o => match o with
                    | OpRaw d c => negb (sig_entry_for T (mk_entry d c))
                    | OpPush p => negb (is_graph_mt (d_mt (blob_desc p)))
                    | _ => true end) ops = true /\
  list_sigs (state_after ops) T = (LOk [I (D 1 51 640) 6 [(1,2)]], [51]).
Proof. cbv zeta. repeat split; vm_compute; reflexivity. Qed.

(* C19_pushed_then_listed, the branch of [no_squat] that is not "fresh": the
   identical manifest was stored first, as an image manifest; the push reports
   success and the manifest is listed (once) and fetches back *)
Example ex_no_squat_present :
  let a := [(1,3); (5,6)] in
  let ops1 := [OpRaw (D MT_IMAGE 21 700) (man_content 700 (D 1 10 400) (D 8 20 500) a)] in
  no_squat (state_after ops1) squat_p /\
  lookup_dg (state_after ops1) (p_mdg squat_p) <> None /\
  snd (push_sig (state_after ops1) squat_p) = RPush 0 (D 8 20 500) (D 1 21 700) a /\
  fst (list_sigs (state_after (ops1 ++ [OpPush squat_p])) (D 1 10 400)) = LOk [I (D 1 21 700) 6 a].
Proof.
  cbv zeta. split; [|repeat split; try (vm_compute; reflexivity); vm_compute; discriminate].
  split; [vm_compute; discriminate|]. split; [vm_compute; discriminate|].
  intros e a0 L EC. vm_compute in L, EC. inversion L; inversion EC; subst. split; reflexivity.
Qed.

(* C19_squatted_never_listed: its hypotheses hold in the squat history *)
Example ex_squatted_hyps :
  exists e, lookup_dg (state_after squat_ops1) (p_mdg squat_p) = Some e /\ d_mt (e_d e) = MT_OCTET /\
            d_mt (e_d e) <> MT_IMAGE.
Proof. eexists. split; [vm_compute; reflexivity|]. split; [reflexivity|vm_compute; discriminate]. Qed.

(* C19_isolation (C19_Property.v): each disjunct of its hypothesis is met by a
   content of the store after ex_ops, while the listing of S succeeds *)
Example ex_isolation_hyps :
  let st := state_after ex_ops in
  (* no subject: the envelope of p1 *)
  (exists e, In e st /\ e_d e = D 8 20 500 /\ m_subject (c_m (e_c e)) = None) /\
  (* subject differing from S in ONE field (the size), reaching S through a layer *)
  (exists e, In e st /\ e_d e = D 1 31 610 /\ m_subject (c_m (e_c e)) = Some S' /\
             d_dg S' = d_dg S /\ d_mt S' = d_mt S /\ d_sz S' <> d_sz S /\ In S (m_layers (c_m (e_c e)))) /\
  (* another artifact type, same subject *)
  (exists e, In e st /\ e_d e = D 1 30 600 /\ m_subject (c_m (e_c e)) = Some S /\
             atype_of (d_mt (e_d e)) (e_c e) <> MT_NOTATION) /\
  (* another media type: the config blob *)
  (exists e, In e st /\ e_d e = cfg_desc /\ d_mt (e_d e) <> MT_IMAGE /\ d_mt (e_d e) <> MT_ARTIFACT).
Proof.
  cbv zeta.
  assert (W : forall k (P : entry -> Prop), (k < List.length (state_after ex_ops))%nat ->
                P (nth k (state_after ex_ops) cfg_entry) -> exists e, In e (state_after ex_ops) /\ P e).
  { intros k P Hk HP. eexists. split; [apply nth_In; exact Hk|exact HP]. }
  split; [|split; [|split]].
  - apply (W 9%nat); [vm_compute; repeat constructor|]. vm_compute. auto.
  - apply (W 3%nat); [vm_compute; repeat constructor|]. vm_compute. repeat split; auto; discriminate.
  - apply (W 4%nat); [vm_compute; repeat constructor|]. vm_compute. repeat split; auto; discriminate.
  - apply (W 8%nat); [vm_compute; repeat constructor|]. vm_compute. repeat split; auto; discriminate.
Qed.

(* C19_refused_list / C19_list_error_classes: a referrer of S above the cap *)
Definition big : op := OpRaw (D 1 40 4194305) (C 4194305 true true true (M (Some S) (D 6 1 2) [D 8 20 500] 0 [] [] [])).
Example ex_refused_list_hyps :
  let st := state_after (ex_ops ++ [big]) in
  In (D 1 40 4194305) (predecessors st S) /\ is_sigmt 1 = true /\ (capM < 4194305)%Z /\
  list_sigs st S = (LErr 1, []).
Proof. cbv zeta. repeat split; vm_compute; auto. Qed.

(* ... and it does not disturb S' (C19_push_frame is about pushes; this is the raw counterpart by computation) *)
Example ex_refusal_is_per_subject :
  fst (list_sigs (state_after (ex_ops ++ [big])) S') = LOk [ I (D 1 31 610) 6 []; I (D 1 23 650) 6 [(1,2)] ].
Proof. vm_compute. reflexivity. Qed.

(* C19_refused_fetch (C19_Property.v) / C19_fetch_error_classes: no layer, two
   layers, a declared blob size above the cap, a declared manifest size above
   the cap, another media type, a blob that is not there *)
Definition h0 : op := OpRaw (D 1 60 300) (C 300 true true true (M (Some S) (D 6 1 2) [] 0 [] [] [])).
Definition hB : op := OpRaw (D 1 61 310) (C 310 true true true (M (Some S) (D 6 1 2) [D 8 20 33554433] 0 [] [] [])).
Definition hM : op := OpRaw (D 1 62 320) (C 320 true true true (M (Some S) (D 6 1 2) [D 8 99 5] 0 [] [] [])).
Example ex_refused_fetches :
  let st := state_after (ex_ops ++ [h0; hB; hM]) in
  fetch_sig st (D 1 60 300) = (FErr 5, [60]) /\
  fetch_sig st (D 1 32 620) = (FErr 5, [32]) /\
  fetch_sig st (D 1 61 310) = (FErr 6, [61]) /\
  fetch_sig st (D 1 21 4194305) = (FErr 2, []) /\
  fetch_sig st (D 3 21 700) = (FErr 1, []) /\
  fetch_sig st (D 1 62 320) = (FErr 3, [62; 99]) /\
  fetch_sig st (D 1 21 701) = (FErr 3, [21]) /\
  fetch_sig st (D 1 20 500) = (FErr 5, [20]) /\
  (* all four hostile manifests ARE listed for S: the refusal happens at the fetch *)
  (exists its lg, list_sigs st S = (LOk its, lg) /\ List.length its = 6%nat).
Proof. cbv zeta. repeat split; try (vm_compute; reflexivity). eexists. eexists. split; vm_compute; reflexivity. Qed.

(* C19_push_frame: pushing p3 (for S) leaves the listing of S' as it was *)
Example ex_push_frame_hyps :
  let ops := [OpPush p1; OpPush p2; r1; r2; r3] in
  forallb wf_op (ops ++ [OpPush p3]) = true /\ S' <> p_subj p3 /\ S' <> cfg_desc /\ S' <> blob_desc p3 /\
  is_graph_mt (d_mt (blob_desc p3)) = false /\
  fst (list_sigs (state_after ops) S') = LOk [ I (D 1 31 610) 6 []; I (D 1 23 650) 6 [(1,2)] ].
Proof. cbv zeta. repeat split; try discriminate; vm_compute; reflexivity. Qed.

(* C19_raw_frame: the oversized referrer of S does not name S' *)
Example ex_raw_frame_hyps :
  match big with
  | OpRaw d c => forallb wf_op (ex_ops ++ [big]) = true /\ refers S' (mk_entry d c) = false /\
                 refers S (mk_entry d c) = true
  | _ => False
  end.
Proof. vm_compute. auto. Qed.

(* C19_listed_stays_listed / C19_roundtrip_content: p1 after five more operations *)
Example ex_roundtrip_content :
  let st := state_after ex_ops in
  fetch_all st (D 8 20 500) = Some (CO 500) /\
  fetch_sig st (D 1 21 700) = (FOk 20 (D 8 20 500), [21; 20]).
Proof. cbv zeta. split; vm_compute; reflexivity. Qed.

(* C19_push_outcome: each failure class occurs *)
Example ex_push_failures :
  let st := state_after ex_ops in
  snd (push_sig st p1) = RPush 1 d0 d0 [] /\                                          (* same envelope again *)
  snd (push_sig st (P 1 70 (CB 50) S [] 2 true 71 600)) = RPush 3 d0 d0 [] /\         (* COSE bytes under the image manifest type *)
  snd (push_sig st (P 8 72 (CO 50) S [(1,9)] 2 false 73 600)) = RPush 4 d0 d0 [] /\   (* created = "yesterday" *)
  snd (push_sig st (P 8 74 (CO 50) S [(1,9)] 2 true 75 600)) = RPush 0 (D 8 74 50) (D 1 75 600) [(1,9)].
Proof. cbv zeta. repeat split; vm_compute; reflexivity. Qed.
