(* C05_Generated.v — equivalence of the GoLite translation of
   verifier.revocationFinalResult (theories/C05_Gen.v, regenerated from /repo
   by `vh-gen` on every run, docs/GOLITE.md) with the C05 model
   (C05_Model.final_result).

   The generated function is partial (None = run-time panic of the Go code):
   it indexes certChain with the indexes of certResults and dereferences the
   result pointers. Theorem C05_gen_revocationFinalResult_spec characterises
   it on ALL inputs by an index-wise fold; C05_gen_revocationFinalResult_equiv
   shows that on inputs within the validator contract (one non-nil result per
   certificate, non-nil server results) it returns exactly what the model's
   final_result returns. Certificates are opaque; Subject.String() is an
   oracle [subj]. *)
From Coq Require Import List Bool String Ascii NArith ZArith Lia.
From NV Require Import Base GoLib C05_Model C05_Gen.
Import ListNotations.
Local Open Scope string_scope.
Local Open Scope list_scope.

Section Cert.
Variable C : Type.
Variable subj : C -> string.

Notation gen := (gen_verifier_revocationFinalResult C subj).
Notation loop1 := (gen_verifier_revocationFinalResult_loop1 C subj).

(* result.Result as the model's rres *)
Definition rres_of (z : Z) : rres :=
  if (z =? 1)%Z then ROK else if (z =? 2)%Z then RNonRevokable
  else if (z =? 0)%Z then RUnknown else if (z =? 3)%Z then RRevoked else ROther.

(* the state of the Go loop *)
Definition gstate := (Z * Z * string * bool * string)%type.

Definition gupd (st : gstate) (r : result_CertRevocationResult) (c : C) : gstate :=
  let '(fin, nok, prob, rf, rs) := st in
  let z := CertRevocationResult_Result r in
  if (z =? 1)%Z || (z =? 2)%Z then (fin, (nok + 1)%Z, prob, rf, rs)
  else if (z =? 3)%Z then (z, nok, subj c, true, subj c)
  else (z, nok, subj c, rf, rs).

Definition nonnil_servers (r : result_CertRevocationResult) : bool :=
  forallb (fun p => is_some (ptr_val p)) (CertRevocationResult_ServerResults r).

(* one iteration, for index i: None = the Go code panics *)
Definition gstep (results : list (ptr result_CertRevocationResult)) (chain : list C)
           (st : gstate) (i : Z) : option gstate :=
  match list_get chain i, list_get results i with
  | Some c, Some p =>
      match ptr_val p with
      | Some r => if nonnil_servers r then Some (gupd st r c) else None
      | None => None
      end
  | _, _ => None
  end.

Fixpoint gfold results chain (idxs : list Z) (st : gstate) : option gstate :=
  match idxs with
  | [] => Some st
  | i :: rest => match gstep results chain st i with
                 | Some st' => gfold results chain rest st'
                 | None => None
                 end
  end.

Definition gfinish (n : Z) (st : gstate) : Z * string :=
  let '(fin, nok, prob, rf, rs) := st in
  let '(f, p) := if rf then (3%Z, rs) else (fin, prob) in
  if (nok =? n)%Z then (1%Z, p) else (f, p).

(* the inner loop over the server results only logs: it panics on a nil entry *)
Lemma servers_loop K r l :
  gen_verifier_revocationFinalResult_loop2 K r l
  = if forallb (fun p => is_some (ptr_val p)) l then K tt else None.
Proof.
  induction l as [|p l IH]; [reflexivity|].
  cbn [gen_verifier_revocationFinalResult_loop2 forallb].
  destruct (ptr_val p) as [sv|]; cbn [is_some andb]; [|reflexivity].
  destruct (negb (is_none (ServerResult_Error sv))); [|exact IH].
  destruct ((CertRevocationResult_RevocationMethod r =? 3)%Z && (ServerResult_RevocationMethod sv =? 1)%Z); exact IH.
Qed.

Lemma loop1_gfold results chain : forall idxs fin nok prob rf rs,
  loop1 results chain idxs fin nok prob rf rs
  = match gfold results chain idxs (fin, nok, prob, rf, rs) with
    | Some st => Some (gfinish (list_len results) st)
    | None => None
    end.
Proof.
  induction idxs as [|i rest IH]; intros fin nok prob rf rs.
  - cbn [gen_verifier_revocationFinalResult_loop1 gfold gfinish].
    destruct rf; destruct (nok =? list_len results)%Z; reflexivity.
  - cbn [gen_verifier_revocationFinalResult_loop1 gfold]. unfold gstep.
    destruct (list_get chain i) as [c|]; [|reflexivity].
    destruct (list_get results i) as [p|]; [|reflexivity].
    destruct (ptr_val p) as [r|]; [|reflexivity].
    rewrite servers_loop. unfold nonnil_servers.
    destruct (forallb (fun p0 => is_some (ptr_val p0)) (CertRevocationResult_ServerResults r)); [|reflexivity].
    unfold gupd.
    destruct ((CertRevocationResult_Result r =? 1)%Z || (CertRevocationResult_Result r =? 2)%Z); [apply IH|].
    destruct (CertRevocationResult_Result r =? 3)%Z; apply IH.
Qed.

Theorem C05_gen_revocationFinalResult_spec :
  forall results chain,
    gen results chain
    = match gfold results chain (zrange_down (list_len results - 1) 0) (0%Z, 0%Z, "", false, "") with
      | Some st => Some (gfinish (list_len results) st)
      | None => None
      end.
Proof. intros results chain. unfold gen_verifier_revocationFinalResult. apply loop1_gfold. Qed.

(* ---------- against the model, within the validator contract ---------- *)

(* the model's view of a state *)
Definition acc_of (st : gstate) (a : acc) : Prop :=
  let '(fin, nok, prob, rf, rs) := st in
  rres_of fin = a_final a /\ nok = Z.of_nat (a_numOK a) /\ prob = a_prob a /\ rf = a_revFound a /\ rs = a_revSubj a.

Lemma rres_is_ok z : C05_Model.is_ok (rres_of z) = ((z =? 1)%Z || (z =? 2)%Z).
Proof. unfold rres_of. destruct (z =? 1)%Z; [reflexivity|]. destruct (z =? 2)%Z; [reflexivity|].
       destruct (z =? 0)%Z; [reflexivity|]. destruct (z =? 3)%Z; reflexivity. Qed.

Lemma rres_is_revoked z : ((z =? 1)%Z || (z =? 2)%Z) = false -> is_revoked (rres_of z) = (z =? 3)%Z.
Proof.
  unfold rres_of. intros H. apply orb_false_iff in H. destruct H as [H1 H2]. rewrite H1, H2.
  destruct (z =? 0)%Z eqn:E0; [apply Z.eqb_eq in E0; subst z; reflexivity|].
  destruct (z =? 3)%Z; reflexivity.
Qed.

Lemma gupd_step st a r c :
  acc_of st a -> acc_of (gupd st r c) (step a (rres_of (CertRevocationResult_Result r), subj c)).
Proof.
  destruct st as [[[[fin nok] prob] rf] rs]. destruct a as [af an ap arf ars].
  unfold acc_of, gupd, step. cbn [a_final a_numOK a_prob a_revFound a_revSubj].
  intros [H1 [H2 [H3 [H4 H5]]]]. subst.
  rewrite rres_is_ok.
  destruct ((CertRevocationResult_Result r =? 1)%Z || (CertRevocationResult_Result r =? 2)%Z) eqn:Eok.
  - cbn. repeat split; try assumption; try reflexivity. lia.
  - rewrite (rres_is_revoked _ Eok).
    destruct (CertRevocationResult_Result r =? 3)%Z; cbn; repeat split; reflexivity.
Qed.

(* the inputs within the contract: elements paired index-wise *)
Definition in_contract (results : list (ptr result_CertRevocationResult)) (chain : list C) : Prop :=
  List.length results = List.length chain
  /\ Forall (fun p => exists r, ptr_val p = Some r /\ nonnil_servers r = true) results.

Definition model_results (results : list (ptr result_CertRevocationResult)) : list rres :=
  map (fun p => match ptr_val p with
                | Some r => rres_of (CertRevocationResult_Result r)
                | None => ROther
                end) results.

(* folding over indexes = folding over the paired elements *)
Lemma gfold_elems results chain : forall (ps : list (ptr result_CertRevocationResult)) (cs : list C) idxs st a,
  List.length ps = List.length cs ->
  Forall (fun p => exists r, ptr_val p = Some r /\ nonnil_servers r = true) ps ->
  Forall2 (fun i pc => list_get results i = Some (fst pc) /\ list_get chain i = Some (snd pc)) idxs (combine ps cs) ->
  acc_of st a ->
  exists st', gfold results chain idxs st = Some st'
              /\ acc_of st' (fold_left step (combine (model_results ps) (map subj cs)) a).
Proof.
  induction ps as [|p ps IH]; intros cs idxs st a Hl Hf H2 Ha.
  - cbn in H2. inversion H2; subst. exists st. split; [reflexivity|exact Ha].
  - destruct cs as [|c cs]; [discriminate Hl|]. cbn [combine] in H2.
    inversion H2 as [|i pc idxs' rest [Hr Hc] H2']; subst. cbn [fst snd] in Hr, Hc.
    inversion Hf as [|? ? [r [Hp Hn]] Hf']; subst.
    cbn [gfold]. unfold gstep. rewrite Hc, Hr, Hp, Hn.
    cbn [model_results map combine fold_left]. rewrite Hp.
    apply (IH cs idxs' (gupd st r c) _); [cbn in Hl; lia|exact Hf'|exact H2'|apply gupd_step; exact Ha].
Qed.

Lemma forall2_rev {A B} (R : A -> B -> Prop) l1 l2 : Forall2 R l1 l2 -> Forall2 R (rev l1) (rev l2).
Proof.
  induction 1; [constructor|]. cbn. apply Forall2_app; [assumption|]. constructor; [assumption|constructor].
Qed.

Lemma index_pairs (ps : list (ptr result_CertRevocationResult)) (cs : list C) :
  List.length ps = List.length cs ->
  forall results chain off, 
    (forall k, (k < List.length ps)%nat -> nth_error results (off + k) = nth_error ps k /\ nth_error chain (off + k) = nth_error cs k) ->
    Forall2 (fun i pc => list_get results i = Some (fst pc) /\ list_get chain i = Some (snd pc))
            (map Z.of_nat (seq off (List.length ps))) (combine ps cs).
Proof.
  revert cs. induction ps as [|p ps IH]; intros cs Hl results chain off H; [constructor|].
  destruct cs as [|c cs]; [discriminate Hl|]. cbn [List.length seq map combine].
  constructor.
  - cbn [fst snd]. rewrite !list_get_nth. destruct (H 0%nat) as [H1 H2]; [cbn; lia|].
    rewrite Nat.add_0_r in H1, H2. rewrite H1, H2. split; reflexivity.
  - apply IH; [cbn in Hl; lia|]. intros k Hk. destruct (H (S k)) as [H1 H2]; [cbn; lia|].
    replace (S off + k)%nat with (off + S k)%nat by lia. exact (conj H1 H2).
Qed.

Theorem C05_gen_revocationFinalResult_equiv :
  forall results chain, in_contract results chain ->
    exists z s, gen results chain = Some (z, s)
                /\ (rres_of z, s) = final_result (model_results results) (map subj chain).
Proof.
  intros results chain [Hl Hf]. rewrite C05_gen_revocationFinalResult_spec.
  unfold list_len. rewrite zrange_down_zero.
  set (n := List.length results).
  assert (H2 : Forall2 (fun i pc => list_get results i = Some (fst pc) /\ list_get chain i = Some (snd pc))
                       (rev (map Z.of_nat (seq 0 n))) (rev (combine results chain))).
  { apply forall2_rev. apply index_pairs; [exact Hl|]. intros k _. split; reflexivity. }
  (* the reversed pairs are again a combine of two lists of equal length *)
  assert (Hrev : rev (combine results chain) = combine (rev results) (rev chain)).
  { clear -Hl. revert chain Hl. induction results as [|p ps IH]; intros [|c cs] Hl; try discriminate; [reflexivity|].
    cbn [combine rev]. rewrite IH by (cbn in Hl; lia).
    assert (L : List.length (rev ps) = List.length (rev cs)) by (rewrite !rev_length; cbn in Hl; lia).
    clear -L. revert L. generalize (rev ps) (rev cs). induction l as [|x l IH]; intros [|y l0] L; try discriminate; [reflexivity|].
    cbn. rewrite IH by (cbn in L; lia). reflexivity. }
  rewrite Hrev in H2.
  destruct (gfold_elems results chain (rev results) (rev chain) (rev (map Z.of_nat (seq 0 n))) (0%Z, 0%Z, "", false, "") acc0) as [st' [Hg Ha]].
  - rewrite !rev_length. exact Hl.
  - apply Forall_rev. exact Hf.
  - exact H2.
  - cbn. repeat split; reflexivity.
  - rewrite Hg. destruct st' as [[[[fin nok] prob] rf] rs].
    unfold final_result.
    assert (Hm : combine (model_results (rev results)) (map subj (rev chain))
                 = rev (combine (model_results results) (map subj chain))).
    { unfold model_results. rewrite !map_rev.
      clear -Hl. set (f := fun p => match ptr_val p with Some r => rres_of (CertRevocationResult_Result r) | None => ROther end).
      assert (L : List.length (map f results) = List.length (map subj chain)) by (rewrite !map_length; exact Hl).
      revert L. generalize (map f results) (map subj chain). clear.
      induction l as [|x l IH]; intros [|y l0] L; try discriminate; [reflexivity|].
      cbn [combine rev]. rewrite <- IH by (cbn in L; lia).
      assert (L' : List.length (rev l) = List.length (rev l0)) by (rewrite !rev_length; cbn in L; lia).
      revert L'. generalize (rev l) (rev l0). clear. induction l as [|a l IH]; intros [|b l0] L; try discriminate; [reflexivity|].
      cbn. rewrite IH by (cbn in L; lia). reflexivity. }
    rewrite Hm in Ha.
    set (a := fold_left step (rev (combine (model_results results) (map subj chain))) acc0) in *.
    destruct Ha as [H1 [H3 [H4 [H5 H6]]]].
    unfold gfinish. fold n.
    assert (Hn : (nok =? Z.of_nat n)%Z = Nat.eqb (a_numOK a) (List.length (model_results results))).
    { unfold model_results. rewrite map_length. fold n. subst nok.
      destruct (Nat.eqb_spec (a_numOK a) n) as [->|N]; [apply Z.eqb_refl|apply Z.eqb_neq; lia]. }
    rewrite Hn. subst rf rs prob.
    destruct (a_revFound a); destruct (Nat.eqb (a_numOK a) (List.length (model_results results)));
      eexists; eexists; (split; [reflexivity|]); try reflexivity; rewrite <- H1; reflexivity.
Qed.

End Cert.

Print Assumptions C05_gen_revocationFinalResult_spec.
Print Assumptions C05_gen_revocationFinalResult_equiv.
