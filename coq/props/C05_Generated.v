(* C05_Generated.v — the code's own functions against the C05 model.

   theories/C05_Gen.v is re-translated from the Go sources of /repo by `vh-gen`
   (GoLite, docs/GOLITE.md) on every run; the theorems below are about those
   generated definitions, for ALL their inputs. Proofs: theories/C05_GenProofs.v.

   Translated: verifier.checkRevocationResults, verifier.revocationFinalResult.
   Certificates are opaque ([C]); Subject.String() is an oracle [subj] (any function).
   and the entry function ( *verifier).verifyRevocation (validators = nilable function fields,
   AuthenticSigningTime = oracle). [gen_aggregate] composes the two callees the way lines 625-646
   of verifyRevocation do (check -> inconclusive; switch on the verdict); the theorems at the end
   tie the generated verifyRevocation itself to it and to the model.

   Reading a Go answer as the model's input: [abstracts x results chain] says that
   x_results x is the slice entry by entry (nil -> None, Result 1/2/0/3/other ->
   ROK/RNonRevokable/RUnknown/RRevoked/ROther, methods and server results as annotations,
   a nil *ServerResult -> None) and x_chain x the subjects of the chain.
   None as a result = the Go code panics.
   /repo fix a146158 (finding F3 of docs/audit/C05.md, found by the first version of this file):
   the aggregate is now total and equals the model on EVERY answer. *)
From Coq Require Import List Bool String Ascii NArith ZArith.
From NV Require Import Base GoLib C05_Model C05_Gen C05_GenProofs.
Import ListNotations.
Local Open Scope string_scope.

(* ---------- checkRevocationResults = the model's [complete] ---------- *)

Theorem C05_gen_checkRevocationResults_equiv :
  forall (C : Type) (subj : C -> string) x results chain, abstracts C subj x results chain ->
    is_none (gen_verifier_checkRevocationResults C results chain) = complete x.
Proof. exact gen_check_complete. Qed.
Print Assumptions C05_gen_checkRevocationResults_equiv.

(* the same on the code's values: no error iff one non-nil entry per certificate *)
Theorem C05_gen_checkRevocationResults_spec :
  forall (C : Type) (results : list (ptr result_CertRevocationResult)) (chain : list C),
    is_none (gen_verifier_checkRevocationResults C results chain)
    = Nat.eqb (List.length results) (List.length chain) && forallb (fun p => is_some (ptr_val p)) results.
Proof. exact gen_check_spec. Qed.
Print Assumptions C05_gen_checkRevocationResults_spec.

(* ---------- revocationFinalResult ---------- *)

(* all inputs, including those on which the Go code panics (None) *)
Theorem C05_gen_revocationFinalResult_spec :
  forall (C : Type) (subj : C -> string) results chain,
    gen_verifier_revocationFinalResult C subj results chain
    = match gfold C subj results chain (zrange_down (list_len results - 1) 0) (0%Z, 0%Z, "", false, "") with
      | Some st => Some (gfinish (list_len results) st)
      | None => None
      end.
Proof. exact gen_final_spec. Qed.
Print Assumptions C05_gen_revocationFinalResult_spec.

(* within the validator contract (one non-nil result per certificate - what checkRevocationResults
   lets through): exactly the model's final_result *)
Theorem C05_gen_revocationFinalResult_equiv :
  forall (C : Type) (subj : C -> string) results chain, in_contract C results chain ->
    exists z s, gen_verifier_revocationFinalResult C subj results chain = Some (z, s)
                /\ (rres_of z, s) = final_result (model_results results) (map subj chain).
Proof. exact gen_final_equiv. Qed.
Print Assumptions C05_gen_revocationFinalResult_equiv.

(* not more results than certificates: it panics exactly when an entry is nil, and otherwise
   returns the model's verdict (server results, nil or not, play no role) *)
Theorem C05_gen_revocationFinalResult_total :
  forall (C : Type) (subj : C -> string) results chain, List.length results <= List.length chain ->
    match gen_verifier_revocationFinalResult C subj results chain with
    | Some (z, s) => forallb entry_good results = true
                     /\ (rres_of z, s) = final_result (model_results results) (map subj chain)
    | None => forallb entry_good results = false
    end.
Proof. exact gen_final_total. Qed.
Print Assumptions C05_gen_revocationFinalResult_total.

(* everything that is partial in the function, on ALL inputs: more results than certificates
   (certChain[i] out of range) or a nil entry (certResult.RevocationMethod) - nothing else *)
Theorem C05_gen_revocationFinalResult_panic_iff :
  forall (C : Type) (subj : C -> string) results chain,
    gen_verifier_revocationFinalResult C subj results chain = None <->
    List.length chain < List.length results \/ exists p, In p results /\ ptr_val p = None.
Proof. exact gen_final_panic_iff. Qed.
Print Assumptions C05_gen_revocationFinalResult_panic_iff.

(* ---------- the two together = the model's aggregation, on EVERY validator answer ---------- *)

(* no contract hypothesis, no exception: both partial cases above are what the check excludes *)
Theorem C05_gen_aggregate_total :
  forall (C : Type) (subj : C -> string) x results chain, abstracts C subj x results chain ->
    gen_aggregate C subj results chain = Some (model_aggregate x).
Proof. exact gen_aggregate_total. Qed.
Print Assumptions C05_gen_aggregate_total.

(* the revocation entry xmodel computes is what the code's two functions compute, whatever the
   answer (short, long, nil entries, nil server results, any values), action, validator, time -
   whenever notation owns the check (no plugin with the revocation capability: C05_full_owner_meaning) *)
Theorem C05_gen_aggregate_equiv :
  forall (C : Type) (subj : C -> string) x results chain, abstracts C subj x results chain ->
    owner x = OwnerNotation -> x_action x <> Skip -> x_val x <> 4%N -> x_err x = false ->
    xo_result (xmodel x) = gen_aggregate C subj results chain.
Proof. exact gen_aggregate_xmodel. Qed.
Print Assumptions C05_gen_aggregate_equiv.

(* [model_aggregate] is the place in xmodel where the same decision is made *)
Theorem C05_gen_model_aggregate_place : forall x, owner x = OwnerNotation ->
  x_action x <> Skip -> x_val x <> 4%N -> x_err x = false ->
  xo_result (xmodel x) = Some (model_aggregate x).
Proof. exact xmodel_aggregate_o. Qed.
Print Assumptions C05_gen_model_aggregate_place.

(* ---------- the property's clauses transported onto the code's values ---------- *)

(* C05_never_panics *)
Theorem C05_gen_never_panics :
  forall (C : Type) (subj : C -> string) results chain, gen_aggregate C subj results chain <> None.
Proof. exact gen_never_panics. Qed.
Print Assumptions C05_gen_never_panics.

(* C05_full_pass_iff: passes iff exactly one result per certificate, each non-nil, OK or non-revokable *)
Theorem C05_gen_pass_iff :
  forall (C : Type) (subj : C -> string) results chain,
    gen_aggregate C subj results chain = Some Pass <->
    List.length results = List.length chain /\
    Forall (fun p => exists r, ptr_val p = Some r /\
                               (CertRevocationResult_Result r = 1%Z \/ CertRevocationResult_Result r = 2%Z)) results.
Proof. exact gen_pass_iff. Qed.
Print Assumptions C05_gen_pass_iff.

(* C05_full_pass_only_if, the clause as worded: passes only if EVERY certificate of the chain has a
   result and it is OK (1) or non-revokable (2) *)
Theorem C05_gen_pass_only_if :
  forall (C : Type) (subj : C -> string) results chain,
    gen_aggregate C subj results chain = Some Pass ->
    forall k c, nth_error chain k = Some c ->
      exists p r, nth_error results k = Some p /\ ptr_val p = Some r /\
                  (CertRevocationResult_Result r = 1%Z \/ CertRevocationResult_Result r = 2%Z).
Proof. exact gen_pass_only_if. Qed.
Print Assumptions C05_gen_pass_only_if.

(* C05_full_incomplete_answer: fewer, more, or a nil entry -> inconclusive (no pass, no panic) *)
Theorem C05_gen_incomplete_answer :
  forall (C : Type) (subj : C -> string) results (chain : list C),
    (List.length results <> List.length chain \/ exists p, In p results /\ ptr_val p = None) ->
    gen_aggregate C subj results chain = Some Inconclusive.
Proof. exact gen_incomplete. Qed.
Print Assumptions C05_gen_incomplete_answer.

(* C05_full_revoked: a revoked result (3) in a complete answer -> revoked, naming the LEAF-MOST revoked
   certificate, whatever the others report *)
Theorem C05_gen_revoked :
  forall (C : Type) (subj : C -> string) results chain, in_contract C results chain ->
    forall k p r c, nth_error results k = Some p -> ptr_val p = Some r -> CertRevocationResult_Result r = 3%Z ->
      (forall j p' r', (j < k)%nat -> nth_error results j = Some p' -> ptr_val p' = Some r' ->
                       CertRevocationResult_Result r' <> 3%Z) ->
      nth_error chain k = Some c ->
      gen_aggregate C subj results chain = Some (Revoked (subj c)).
Proof. exact gen_revoked. Qed.
Print Assumptions C05_gen_revoked.

(* C05_full_unknown: no revoked result but one that is neither OK nor non-revokable (unknown or any
   other integer) -> unknown, naming the leaf-most such certificate *)
Theorem C05_gen_unknown :
  forall (C : Type) (subj : C -> string) results chain, in_contract C results chain ->
    (forall p r, In p results -> ptr_val p = Some r -> CertRevocationResult_Result r <> 3%Z) ->
    forall k p r c, nth_error results k = Some p -> ptr_val p = Some r ->
      ~ (CertRevocationResult_Result r = 1%Z \/ CertRevocationResult_Result r = 2%Z) ->
      (forall j p' r', (j < k)%nat -> nth_error results j = Some p' -> ptr_val p' = Some r' ->
                       CertRevocationResult_Result r' = 1%Z \/ CertRevocationResult_Result r' = 2%Z) ->
      nth_error chain k = Some c ->
      gen_aggregate C subj results chain = Some (Unknown (subj c)).
Proof. exact gen_unknown. Qed.
Print Assumptions C05_gen_unknown.

(* ---------- ( *verifier).verifyRevocation: the entry function of the step ---------- *)
(* [ast] = SignerInfo.AuthenticSigningTime (oracle), [subj] = Subject.String() (oracle): both quantified
   without hypothesis - the theorems hold for a [subj] that returns "" for some certificate (empty
   subject DN) or the same string for two certificates. [rev_answer v env] = what the validator that
   the function selects (context-aware one first, else the deprecated client; None: both nil) answers
   when asked with the COMPLETE chain and the time [rev_time env]; [xin a v env] = the model's input
   read off the verifier's fields, the envelope and that answer. The function panics (None) only on a
   nil outcome / EnvelopeContent / VerificationLevel. *)

(* its result, in terms of the two translated callees *)
Theorem C05_gen_verifyRevocation_spec :
  forall (C : Type) (subj : C -> string) ast v outcome o env lvl,
    ptr_val outcome = Some o ->
    ptr_val (VerificationOutcome_EnvelopeContent C o) = Some env ->
    ptr_val (VerificationOutcome_VerificationLevel C o) = Some lvl ->
    gen_verifier_verifier_verifyRevocation C subj ast v outcome
    = Some (PNew (mk_ValidationResult "revocation" (enf lvl) (step_err C subj ast v env))).
Proof. exact gen_verifyRevocation_spec. Qed.
Print Assumptions C05_gen_verifyRevocation_spec.

(* = the model: the class of the Error it returns is xmodel's revocation result (no validator, error,
   incomplete answer -> "unable to check"; revoked; unknown; nil = Pass) *)
Theorem C05_gen_verifyRevocation_equiv :
  forall (C : Type) (subj : C -> string) ast a v outcome o env lvl, a <> Skip ->
    ptr_val outcome = Some o ->
    ptr_val (VerificationOutcome_EnvelopeContent C o) = Some env ->
    ptr_val (VerificationOutcome_VerificationLevel C o) = Some lvl ->
    exists r c, gen_verifier_verifier_verifyRevocation C subj ast v outcome = Some (PNew r)
                /\ ValidationResult_Type r = "revocation" /\ ValidationResult_Action r = enf lvl
                /\ xo_result (xmodel (xin C subj ast a v env)) = Some c
                /\ class_rel (ValidationResult_Error r) c.
Proof. exact gen_verifyRevocation_equiv. Qed.
Print Assumptions C05_gen_verifyRevocation_equiv.

(* C05_full_pass_iff transported onto the entry function: its Error is nil iff the model passes, iff
   the selected validator answered without error with exactly one non-nil result per certificate of
   the chain, each OK (1) or non-revokable (2) - for ALL subject oracles: the decision never rests
   on the subject text *)
Theorem C05_gen_verifyRevocation_pass_iff :
  forall (C : Type) (subj : C -> string) ast a v outcome o env lvl, a <> Skip ->
    ptr_val outcome = Some o ->
    ptr_val (VerificationOutcome_EnvelopeContent C o) = Some env ->
    ptr_val (VerificationOutcome_VerificationLevel C o) = Some lvl ->
    exists r, gen_verifier_verifier_verifyRevocation C subj ast v outcome = Some (PNew r) /\
      (ValidationResult_Error r = None <-> xo_result (xmodel (xin C subj ast a v env)) = Some Pass) /\
      (ValidationResult_Error r = None <->
         exists results, rev_answer C ast v env = Some (results, None) /\
           List.length results = List.length (chain_of C env) /\
           Forall (fun p => exists cr, ptr_val p = Some cr /\
                      (CertRevocationResult_Result cr = 1%Z \/ CertRevocationResult_Result cr = 2%Z)) results).
Proof. exact gen_verifyRevocation_pass_iff. Qed.
Print Assumptions C05_gen_verifyRevocation_pass_iff.

(* ---------- the body before fix a146158 (finding F3) ---------- *)
(* [loop2_v0] is the inner loop as translated at ccdc027 (a copy in C05_GenProofs.v, not regenerated):
   a nil *ServerResult made it - hence Verify - panic; today's generated loop has no effect at all *)
Theorem C05_gen_v0_nil_server_panicked :
  forall (k : unit -> option (Z * string)) r l,
    gen_verifier_revocationFinalResult_loop2 k r l = k tt /\
    loop2_v0 _ k r l = (if forallb (fun p => is_some (ptr_val p)) l then k tt else None) /\
    (In PNil l -> loop2_v0 _ k r l = None).
Proof. exact fix_a146158. Qed.
Print Assumptions C05_gen_v0_nil_server_panicked.

(* non-vacuity: the answer that panicked before a146158 (one certificate, result OK, one nil server
   result) passes; and one input per verdict class *)
Example C05_gen_example_nil_server : forall (C : Type) (subj : C -> string) (c : C),
  gen_aggregate C subj [PNew (mk_CertRevocationResult 1 [PNil] 0)] [c] = Some Pass
  /\ gen_aggregate C subj [PNew (mk_CertRevocationResult 1 [] 0)] [c] = Some Pass
  /\ gen_aggregate C subj [PNew (mk_CertRevocationResult 0 [PNil] 0); PNew (mk_CertRevocationResult 3 [] 0)] [c; c]
     = Some (Revoked (subj c))
  /\ gen_aggregate C subj [PNew (mk_CertRevocationResult 1 [] 0); PNil] [c; c] = Some Inconclusive
  /\ gen_aggregate C subj [] [c] = Some Inconclusive.
Proof. intros C subj c. repeat split; reflexivity. Qed.
