(* C08 — the "valid document" hypothesis of the C08 theorems (C08_Model.valid_doc:
   scope values unique across statements, unique names, at most one global
   statement, the wildcard scope alone in its statement), which C08 only checks on
   generated documents, is PROVED here from acceptance by the C09 model of
   OCIDocument.Validate / BlobDocument.Validate. [to_c08_oci] / [to_c08_blob]
   translate a C09 document field by field (C09_Compose.v).
   Statements only; every proof is [exact <lemma of C09_Compose>]. *)
From NV Require Import Base C09_Model C09_Compose.
From NV Require C08_Model.
Open Scope string_scope.

Theorem C08_validity_from_C09 : forall d,
  validate_oci d = EOk -> C08_Model.valid_doc (to_c08_oci d) = true.
Proof. exact c08_valid_from_oci. Qed.
Print Assumptions C08_validity_from_C09.

Theorem C08_validity_from_C09_blob : forall d,
  validate_blob d = EOk -> C08_Model.valid_doc (to_c08_blob d) = true.
Proof. exact c08_valid_from_blob. Qed.
Print Assumptions C08_validity_from_C09_blob.

(* non-vacuity: a concrete three-statement document is accepted, and its translation
   is what C08 works on *)
Definition ex3 : doc :=
  mk_doc "1.0"
    [ mk_stmt "images" (mk_sv "strict" [("revocation", "skip")] "afterCertExpiry")
        ["ca:acme"; "signingAuthority:acme"] ["x509.subject:C=US, ST=WA, O=acme"]
        ["registry.acme-rockets.io/net"; "localhost:5000/a"] false;
      mk_stmt "unsigned" (mk_sv "skip" [] "") [] [] ["registry.acme-rockets.io/unsigned"] false;
      mk_stmt "rest" (mk_sv "audit" [] "") ["ca:a"; "tsa:t"] ["*"] ["*"] false ].

Example C08_from_C09_example :
  validate_oci ex3 = EOk
  /\ C08_Model.valid_doc (to_c08_oci ex3) = true
  /\ map C08_Model.s_name (to_c08_oci ex3) = ["images"; "unsigned"; "rest"]
  /\ map C08_Model.s_scopes (to_c08_oci ex3) =
       [["registry.acme-rockets.io/net"; "localhost:5000/a"]; ["registry.acme-rockets.io/unsigned"]; ["*"]].
Proof. repeat split; vm_compute; reflexivity. Qed.
