(* C08 — the "valid document" hypothesis of the C08 theorems (C08_Model.valid_doc:
   scope values unique across statements, unique names, at most one global
   statement, the wildcard scope alone in its statement), which C08 only checks on
   generated documents, is PROVED here from acceptance by the C09 model of
   OCIDocument.Validate / BlobDocument.Validate. [to_c08_oci] / [to_c08_blob]
   translate a C09 document field by field (C09_Compose.v).
   Statements only; every proof is [exact <lemma of C09_Compose>]. *)
From NV Require Import Base C09_Model C09_Compose C08_AuditC09.
From NV Require C08_Model.
Open Scope string_scope.

Theorem C08_validity_from_C09 : forall d,
  validate_oci d = EOk -> C08_Model.valid_doc (to_c08_oci d) = true.
Proof. exact c08_valid_from_oci. Qed.
Print Assumptions C08_validity_from_C09.

Theorem C08_validity_from_C09_blob : forall d,
  validate_blob d = EOk -> C08_Model.valid_doc (to_c08_blob d) = true.
Proof. exact c08_valid_from_blob. Qed.
Print Assumptions C08_validity_from_C09_blob.

(* non-vacuity: a concrete three-statement document is accepted, and its translation
   is what C08 works on *)
Definition ex3 : doc :=
  mk_doc "1.0"
    [ mk_stmt "images" (mk_sv "strict" [("revocation", "skip")] "afterCertExpiry")
        ["ca:acme"; "signingAuthority:acme"] ["x509.subject:C=US, ST=WA, O=acme"]
        ["registry.acme-rockets.io/net"; "localhost:5000/a"] false;
      mk_stmt "unsigned" (mk_sv "skip" [] "") [] [] ["registry.acme-rockets.io/unsigned"] false;
      mk_stmt "rest" (mk_sv "audit" [] "") ["ca:a"; "tsa:t"] ["*"] ["*"] false ].

Example C08_from_C09_example :
  validate_oci ex3 = EOk
  /\ C08_Model.valid_doc (to_c08_oci ex3) = true
  /\ map C08_Model.s_name (to_c08_oci ex3) = ["images"; "unsigned"; "rest"]
  /\ map C08_Model.s_scopes (to_c08_oci ex3) =
       [["registry.acme-rockets.io/net"; "localhost:5000/a"]; ["registry.acme-rockets.io/unsigned"]; ["*"]].
Proof. repeat split; vm_compute; reflexivity. Qed.

(* ---- added by the theorem audit (docs/audit/C08.md): C08 end to end over documents accepted
   by the C09 model of Validate - no valid_doc / scope_ok hypothesis is left ---- *)

(* every non-wildcard scope a validated OCI document lists selects its own statement *)
Theorem C08_listed_scope_selects_from_C09 : forall d i s p dg,
  validate_oci d = EOk -> C08_Model.i_doc i = to_c08_oci d ->
  In s (to_c08_oci d) -> In p (C08_Model.s_scopes s) -> p <> wildcard ->
  contains_byte "@" dg = false -> C08_Model.i_q1 i = C08_Model.QOci (p ++ "@" ++ dg) ->
  C08_Model.o_r1 (C08_Model.model i) = C08_Model.RSel s.
Proof. exact c09_listed_scope_selects. Qed.
Print Assumptions C08_listed_scope_selects_from_C09.

(* an unlisted registry/repository gets the wildcard statement, or is refused *)
Theorem C08_unlisted_scope_from_C09 : forall d i p dg,
  validate_oci d = EOk -> C08_Model.i_doc i = to_c08_oci d ->
  C08_Model.scope_ok p = true -> contains_byte "@" dg = false ->
  C08_Model.i_q1 i = C08_Model.QOci (p ++ "@" ++ dg) ->
  (forall s, In s (to_c08_oci d) -> ~ In p (C08_Model.s_scopes s)) ->
  (forall w, In w (to_c08_oci d) -> In wildcard (C08_Model.s_scopes w) ->
     C08_Model.o_r1 (C08_Model.model i) = C08_Model.RSel w)
  /\ ((forall s, In s (to_c08_oci d) -> ~ In wildcard (C08_Model.s_scopes s)) ->
      C08_Model.o_r1 (C08_Model.model i) = C08_Model.RErr 3).
Proof. exact c09_unlisted_scope. Qed.
Print Assumptions C08_unlisted_scope_from_C09.

(* every statement of a validated blob document whose name is not blank is the answer to
   its own name; the global statement is the answer when no name is given *)
Theorem C08_named_selects_from_C09 : forall d i s,
  validate_blob d = EOk -> C08_Model.i_doc i = to_c08_blob d ->
  In s (to_c08_blob d) -> C08_Model.blank (C08_Model.s_name s) = false ->
  C08_Model.i_q1 i = C08_Model.QName (C08_Model.s_name s) ->
  C08_Model.o_r1 (C08_Model.model i) = C08_Model.RSel s.
Proof. exact c09_named_selects. Qed.
Print Assumptions C08_named_selects_from_C09.

Theorem C08_global_selects_from_C09 : forall d i s,
  validate_blob d = EOk -> C08_Model.i_doc i = to_c08_blob d ->
  In s (to_c08_blob d) -> C08_Model.s_global s = true ->
  C08_Model.i_q1 i = C08_Model.QGlobal ->
  C08_Model.o_r1 (C08_Model.model i) = C08_Model.RSel s.
Proof. exact c09_global_selects. Qed.
Print Assumptions C08_global_selects_from_C09.

(* the exception is real: Validate accepts a blob document with a statement named " ", and
   that statement is refused for its own name (error 4, "policy name cannot be empty") *)
Theorem C08_blank_named_statement_refuted :
  exists d s, validate_blob d = EOk /\ In s (to_c08_blob d) /\
    forall i, C08_Model.i_doc i = to_c08_blob d ->
              C08_Model.i_q1 i = C08_Model.QName (C08_Model.s_name s) ->
              C08_Model.o_r1 (C08_Model.model i) = C08_Model.RErr 4.
Proof. exact c09_blank_named_unselectable. Qed.
Print Assumptions C08_blank_named_statement_refuted.

(* non-vacuity of the two positive theorems on the example document *)
Example C08_from_C09_selects_example :
  let i := C08_Model.mk_input (to_c08_oci ex3) true (C08_Model.QOci "localhost:5000/a@sha256:00") []
             C08_Model.QGlobal false false in
  C08_Model.o_r1 (C08_Model.model i) = C08_Model.RSel (nth 0 (to_c08_oci ex3) C08_Model.dummy_stmt)
  /\ In "localhost:5000/a" (C08_Model.s_scopes (nth 0 (to_c08_oci ex3) C08_Model.dummy_stmt)).
Proof. split; [vm_compute; reflexivity | right; left; reflexivity]. Qed.
