(* C15_Generated.v — the GoLite translation of verifier/crl.checkExpiry
   (theories/C15_Gen.v, regenerated from /repo by `vh-gen` on every run,
   docs/GOLITE.md) against the C15 model (C15_Model.check_expiry, the freshness
   decision inside get_entry), for ALL inputs.

   time.Now() is an oracle: the instant [now] (first argument of the generated
   function after the Section is closed). A time.Time is its Unix time in
   nanoseconds (Z); the zero Time is GoLib.time_zero. The model writes a
   NextUpdate as [option Z] (None = the zero Time): [nu_of] is the abstraction.
   An error is read the way the correspondence harness (and every caller of the
   cache, through errors.Is) reads it: does it wrap the sentinel
   corecrl.ErrCacheMiss or not; message texts play no role.

   Second part: FileCache.fileName, Set and Get (section "fileName, Set, Get"
   below) against file_name, set and get of the model, the dependencies
   (sha256, hex, json, x509, os.ReadFile, filepath.Join, file.WriteFile) being
   universally quantified oracles with the hypothesis "answers like the model
   of it". The nil / empty distinction of content.DeltaCRL (crl.go:104) is kept
   by the translation (NilableFields): see [dopt]. *)
From Coq Require Import List Bool String Ascii NArith ZArith Lia.
From NV Require Import Base GoLib C15_Model C15_Proofs C15_Audit C15_Gen.
Import ListNotations.
Local Open Scope string_scope.
Local Open Scope list_scope.

(* ---------- abstractions ---------- *)

(* time.Time -> the model's NextUpdate *)
Definition nu_of (z : Z) : option Z := if time_is_zero z then None else Some z.

(* errors.Is(e, corecrl.ErrCacheMiss), exactly as the translator reads it in the
   generated code (GoLib.err_is on the generated constant crl_ErrCacheMiss: the
   sentinel itself or an error wrapping it with %w, at any depth) *)
Definition wraps_miss (e : err) : bool := err_is (Some e) crl_ErrCacheMiss.

(* what Get makes of the answer of checkExpiry: nil -> go on; the sentinel -> a
   cache miss (code kexp); any other error -> an error (code kzero) *)
Definition res_of_expiry (kzero kexp : N) (e : option err) : option res :=
  match e with
  | None => None
  | Some x => if wraps_miss x then Some (RMiss kexp) else Some (RErr kzero)
  end.

(* fmt.Errorf("..: %w", e) keeps the class (Get wraps what checkExpiry returned) *)
Lemma wraps_miss_wrap f e : wraps_miss (Err "fmt" f [e]) = wraps_miss e.
Proof.
  unfold wraps_miss, crl_ErrCacheMiss. cbn [err_is err_has_typ].
  rewrite orb_false_r. reflexivity.
Qed.

(* ---------- the sentinel ---------- *)
(* it is not nil, errors.Is recognises it in itself, and it is not confused with
   fs.ErrNotExist (the other sentinel Get looks for), in either direction *)
Theorem C15_gen_ErrCacheMiss_pinned :
  (exists s, crl_ErrCacheMiss = Some s /\ wraps_miss s = true) /\
  err_is crl_ErrCacheMiss fs_ErrNotExist = false /\
  err_is fs_ErrNotExist crl_ErrCacheMiss = false.
Proof. split; [eexists; split; reflexivity|]. split; reflexivity. Qed.
Print Assumptions C15_gen_ErrCacheMiss_pinned.

(* ---------- checkExpiry = check_expiry ---------- *)
Ltac open_checkExpiry :=
  unfold gen_crl_checkExpiry, nu_of, time_is_zero, time_after, time_before, time_equal; cbv zeta.

Theorem C15_gen_checkExpiry_equiv :
  forall now nextUpdate kzero kexp,
    res_of_expiry kzero kexp (gen_crl_checkExpiry now nextUpdate)
    = check_expiry now (nu_of nextUpdate) kzero kexp.
Proof.
  intros now nu kz ke. open_checkExpiry. unfold check_expiry.
  destruct (nu =? time_zero)%Z; [reflexivity|].
  destruct (now >? nu)%Z; reflexivity.
Qed.
Print Assumptions C15_gen_checkExpiry_equiv.

(* reading res_of_expiry backwards (the two codes differ) *)
Lemma res_nil kz ke g : res_of_expiry kz ke g = None <-> g = None.
Proof.
  destruct g as [e|]; cbn [res_of_expiry]; [|tauto].
  destruct (wraps_miss e); split; discriminate.
Qed.

Lemma res_miss kz ke g :
  res_of_expiry kz ke g = Some (RMiss ke) <-> exists e, g = Some e /\ wraps_miss e = true.
Proof.
  destruct g as [e|]; cbn [res_of_expiry].
  - destruct (wraps_miss e) eqn:W; split.
    + intros _. exists e. split; [reflexivity|exact W].
    + reflexivity.
    + discriminate.
    + intros (e' & H & W'). injection H as <-. congruence.
  - split; [discriminate|]. intros (e & H & _). discriminate H.
Qed.

Lemma res_err kz ke g :
  res_of_expiry kz ke g = Some (RErr kz) <-> exists e, g = Some e /\ wraps_miss e = false.
Proof.
  destruct g as [e|]; cbn [res_of_expiry].
  - destruct (wraps_miss e) eqn:W; split.
    + discriminate.
    + intros (e' & H & W'). injection H as <-. congruence.
    + intros _. exists e. split; [reflexivity|exact W].
    + reflexivity.
  - split; [discriminate|]. intros (e & H & _). discriminate H.
Qed.

(* direct characterisation: nil iff NextUpdate is set and has not passed (the
   instant NextUpdate itself is still fresh: time.After is strict); the sentinel
   iff it is set and has passed; another error iff it is the zero Time *)
Theorem C15_gen_checkExpiry_spec :
  forall now nextUpdate,
    (gen_crl_checkExpiry now nextUpdate = None
       <-> nextUpdate <> time_zero /\ (now <= nextUpdate)%Z) /\
    ((exists e, gen_crl_checkExpiry now nextUpdate = Some e /\ wraps_miss e = true)
       <-> nextUpdate <> time_zero /\ (now > nextUpdate)%Z) /\
    ((exists e, gen_crl_checkExpiry now nextUpdate = Some e /\ wraps_miss e = false)
       <-> nextUpdate = time_zero).
Proof.
  intros now nu.
  rewrite <- (res_nil 5 1), <- (res_miss 5 1), <- (res_err 5 1), !C15_gen_checkExpiry_equiv.
  unfold check_expiry, nu_of, time_is_zero.
  destruct (Z.eqb_spec nu time_zero) as [Hz|Hz].
  - repeat split; intros; intuition (try discriminate; try congruence).
  - destruct (now >? nu)%Z eqn:G; [apply gtb_true_gt in G|apply gtb_false_le in G];
      (repeat split; intros; intuition (try discriminate; try lia; try congruence)).
Qed.
Print Assumptions C15_gen_checkExpiry_spec.

(* ---------- the place in the model where the decision is made ---------- *)

(* x509.ParseRevocationList as the code sees it: Raw and NextUpdate (a time.Time) *)
Definition lift_parse (parseZ : string -> option (string * Z)) (x : string) : crlfact :=
  match parseZ x with
  | None => PErr
  | Some (raw, z) => POk raw (nu_of z)
  end.

(* get_entry with the two freshness decisions taken by the CODE's checkExpiry
   (base first, then delta), classified as Get's callers classify them *)
Definition get_entry_code (now : Z) (parseZ : string -> option (string * Z))
           (b : string) (d : option string) : res :=
  match parseZ b with
  | None => RErr 3
  | Some (rb, zb) =>
      match d with
      | None =>
          match res_of_expiry 5 1 (gen_crl_checkExpiry now zb) with
          | Some r => r
          | None => RHit rb None
          end
      | Some dd =>
          match parseZ dd with
          | None => RErr 4
          | Some (rd, zd) =>
              match res_of_expiry 5 1 (gen_crl_checkExpiry now zb) with
              | Some r => r
              | None =>
                  match res_of_expiry 6 2 (gen_crl_checkExpiry now zd) with
                  | Some r => r
                  | None => RHit rb (Some rd)
                  end
              end
          end
      end
  end.

Theorem C15_gen_get_entry_decisions :
  forall now parseZ b d,
    get_entry (lift_parse parseZ) b d now = get_entry_code now parseZ b d.
Proof.
  intros now parseZ b d. unfold get_entry, get_entry_code, lift_parse.
  destruct (parseZ b) as [[rb zb]|]; [|reflexivity].
  destruct d as [dd|].
  - destruct (parseZ dd) as [[rd zd]|]; [|reflexivity].
    rewrite !C15_gen_checkExpiry_equiv. reflexivity.
  - rewrite !C15_gen_checkExpiry_equiv. reflexivity.
Qed.
Print Assumptions C15_gen_get_entry_decisions.

(* ---------- the property theorems on the code's checkExpiry ---------- *)

Lemma fresh_iff now z :
  gen_crl_checkExpiry now z = None <-> exists n, nu_of z = Some n /\ (now <= n)%Z.
Proof.
  rewrite (proj1 (C15_gen_checkExpiry_spec now z)). unfold nu_of, time_is_zero.
  destruct (Z.eqb_spec z time_zero) as [Hz|Hz].
  - split; [tauto|]. intros (n & H & _). discriminate H.
  - split.
    + intros [_ H]. exists z. split; [reflexivity|exact H].
    + intros (n & H & Hn). injection H as <-. split; assumption.
Qed.

(* C15_hit_iff_fresh: a bundle is answered iff both parts parse and the code's
   checkExpiry returns nil for the NextUpdate of each; it carries the Raw of both *)
Theorem C15_gen_hit_iff_checkExpiry_nil :
  forall now parseZ b d b' d',
    get_entry (lift_parse parseZ) b d now = RHit b' d' <->
    (exists zb, parseZ b = Some (b', zb) /\ gen_crl_checkExpiry now zb = None) /\
    match d with
    | None => d' = None
    | Some dd => exists rd zd, d' = Some rd /\ parseZ dd = Some (rd, zd)
                               /\ gen_crl_checkExpiry now zd = None
    end.
Proof.
  intros now parseZ b d b' d'. rewrite hit_iff. unfold lift_parse. split.
  - intros [(nb & Hb & Hle) Hd]. split.
    + destruct (parseZ b) as [[rb zb]|]; [|discriminate Hb].
      injection Hb as -> Hn. exists zb. split; [reflexivity|].
      apply fresh_iff. exists nb. split; assumption.
    + destruct d as [dd|]; [|exact Hd].
      destruct Hd as (rd & nd & -> & Hp & Hle').
      destruct (parseZ dd) as [[rd' zd]|]; [|discriminate Hp].
      injection Hp as -> Hn. exists rd, zd. repeat split.
      apply fresh_iff. exists nd. split; assumption.
  - intros [(zb & Hb & Hf) Hd]. split.
    + apply fresh_iff in Hf as (n & Hn & Hle). exists n. rewrite Hb, Hn. split; [reflexivity|exact Hle].
    + destruct d as [dd|]; [|exact Hd].
      destruct Hd as (rd & zd & -> & Hp & Hf').
      apply fresh_iff in Hf' as (n & Hn & Hle). exists rd, n. rewrite Hp, Hn. repeat split. exact Hle.
Qed.
Print Assumptions C15_gen_hit_iff_checkExpiry_nil.

(* take hypotheses apart: disjunctions, conjunctions, witnesses *)
Ltac unpack :=
  repeat match goal with
         | H : _ \/ _ |- _ => destruct H as [H|H]
         | H : _ /\ _ |- _ => let H1 := fresh H in destruct H as [H H1]
         | H : exists _, _ |- _ => let x := fresh "x" in destruct H as [x H]
         end.

(* C15_expired_miss / C15_miss_only_expired: for an entry whose parts parse, a
   cache miss is answered iff the code's checkExpiry returns the sentinel for the
   base (code 1), or nil for the base and the sentinel for the delta (code 2) *)
Theorem C15_gen_miss_iff_checkExpiry_sentinel :
  forall now parseZ b d rb zb k,
    parseZ b = Some (rb, zb) ->
    (forall dd, d = Some dd -> parseZ dd <> None) ->
    (get_entry (lift_parse parseZ) b d now = RMiss k <->
     ((exists e, gen_crl_checkExpiry now zb = Some e /\ wraps_miss e = true) /\ k = 1%N) \/
     (gen_crl_checkExpiry now zb = None /\
      exists dd rd zd e, d = Some dd /\ parseZ dd = Some (rd, zd) /\
        gen_crl_checkExpiry now zd = Some e /\ wraps_miss e = true /\ k = 2%N)).
Proof.
  intros now parseZ b d rb zb k Hb Hd.
  rewrite C15_gen_get_entry_decisions. unfold get_entry_code. rewrite Hb.
  destruct d as [dd|].
  - destruct (parseZ dd) as [[rd zd]|] eqn:Hp; [|exfalso; exact (Hd dd eq_refl Hp)].
    destruct (gen_crl_checkExpiry now zb) as [eb|] eqn:Gb; cbn [res_of_expiry].
    + destruct (wraps_miss eb) eqn:Wb; split; intros H; unpack; try congruence.
      left. split; [exists eb; split; [reflexivity|exact Wb]|congruence].
    + destruct (gen_crl_checkExpiry now zd) as [ed|] eqn:Gd; cbn [res_of_expiry].
      * destruct (wraps_miss ed) eqn:Wd; split; intros H; unpack; try congruence.
        right. split; [reflexivity|]. exists dd, rd, zd, ed. repeat split; congruence.
      * split; intros H; unpack; congruence.
  - destruct (gen_crl_checkExpiry now zb) as [eb|] eqn:Gb; cbn [res_of_expiry].
    + destruct (wraps_miss eb) eqn:Wb; split; intros H; unpack; try congruence.
      left. split; [exists eb; split; [reflexivity|exact Wb]|congruence].
    + split; intros H; unpack; congruence.
Qed.
Print Assumptions C15_gen_miss_iff_checkExpiry_sentinel.

(* C15_zero_error on the code: a zero NextUpdate makes checkExpiry answer an
   error that is NOT the sentinel, whatever the clock says *)
Theorem C15_gen_zero_is_error :
  forall now, exists e, gen_crl_checkExpiry now time_zero = Some e /\ wraps_miss e = false.
Proof. intros now. apply (proj2 (proj2 (C15_gen_checkExpiry_spec now time_zero))). reflexivity. Qed.
Print Assumptions C15_gen_zero_is_error.

(* ================================================================== *)
(* fileName, Set, Get                                                  *)
(* ================================================================== *)

(* a byte slice as the model's byte string; the Raw of a parsed list *)
Definition rawstr (r : x509_RevocationList) : string := str_of_bytes (onil (RevocationList_Raw r)).

(* content.DeltaCRL as the model's optional delta. The field is translated with
   its nil-ness (row NilableFields of the target table): None = a nil slice (no
   "deltaCRL" member, or null), Some [] = the empty non-nil slice that
   "deltaCRL":"" decodes to. `content.DeltaCRL != nil` (crl.go:104) is
   therefore exactly the model's `d = Some _`: an empty delta is handed to the
   parser, as in the real code. (RevocationList.Raw is nilable too: Set copies
   bundle.DeltaCRL.Raw, nil or not, into the content.) *)
Definition dopt (D : option (list Z)) : option string := option_map str_of_bytes D.

(* sha256.Sum256 seen by the model *)
Definition sha_of (sum : list Z -> list Z) (u : string) : string := str_of_bytes (sum (bytes_of_str u)).

(* encoding/hex is concrete in the model *)
Definition hex_agrees (hexenc : list Z -> string) : Prop := forall l, hexenc l = hex (str_of_bytes l).

(* ---------- fileName ---------- *)
Theorem C15_gen_fileName_equiv :
  forall sum hexenc, hex_agrees hexenc ->
  forall c url, gen_crl_FileCache_fileName sum hexenc c url = file_name (sha_of sum) url.
Proof. intros sum hexenc Hhex c url. unfold gen_crl_FileCache_fileName. cbv zeta. apply Hhex. Qed.
Print Assumptions C15_gen_fileName_equiv.

(* C15_in_root_name on the code: whatever the url, the name is made of hex
   digits only, two per digest byte *)
Theorem C15_gen_fileName_in_root :
  forall sum hexenc, hex_agrees hexenc ->
  forall c url,
    all_chars is_hexdigit (gen_crl_FileCache_fileName sum hexenc c url) = true /\
    String.length (gen_crl_FileCache_fileName sum hexenc c url) = 2 * String.length (sha_of sum url).
Proof.
  intros sum hexenc Hhex c url. rewrite (C15_gen_fileName_equiv sum hexenc Hhex).
  apply file_name_shape.
Qed.
Print Assumptions C15_gen_fileName_in_root.

(* ---------- Set ---------- *)

(* the bundle handed to Set, as the model's argument *)
Definition abs_bundle (p : ptr crl_Bundle) : option (option string * option string) :=
  match ptr_val p with
  | None => None
  | Some bv => Some (option_map rawstr (ptr_val (Bundle_BaseCRL bv)),
                     option_map rawstr (ptr_val (Bundle_DeltaCRL bv)))
  end.

(* the error of Set as the harness reads it (by message; here: format string) *)
Definition set_class (e : option err) : res :=
  match e with
  | None => ROk
  | Some (Err _ f _) =>
      if String.eqb f "failed to store crl bundle in file cache: bundle cannot be nil" then RErr 7
      else if String.eqb f "failed to store crl bundle in file cache: bundle BaseCRL cannot be nil" then RErr 8
      else RErr 9
  end.

(* what Set does, on the generated types: the two refusals come first and
   involve no dependency; then exactly one fileCacheContent {Raw of the base, Raw
   of the delta or nothing} is marshalled, and the bytes are handed to
   file.WriteFile with the root as directory and Join(root, fileName(url)) as
   destination; both failures are wrapped in the same message *)
Definition set_code (sum : list Z -> list Z) (hexenc : list Z -> string)
           (joinf : list string -> string) (write : string -> string -> list Z -> option err)
           (marshal : crl_fileCacheContent -> list Z * option err)
           (c : crl_FileCache) (url : string) (bundle : ptr crl_Bundle) : option err :=
  match ptr_val bundle with
  | None => Some (Err "errors" "failed to store crl bundle in file cache: bundle cannot be nil" [])
  | Some bv =>
      match ptr_val (Bundle_BaseCRL bv) with
      | None => Some (Err "errors" "failed to store crl bundle in file cache: bundle BaseCRL cannot be nil" [])
      | Some b =>
          let content := mk_fileCacheContent (onil (RevocationList_Raw b))
                           (match ptr_val (Bundle_DeltaCRL bv) with
                            | Some d => RevocationList_Raw d
                            | None => None
                            end) in
          match snd (marshal content) with
          | Some e => Some (Err "fmt" "failed to store crl bundle in file cache: %w" [e])
          | None =>
              match write (FileCache_root c)
                          (joinf [FileCache_root c; gen_crl_FileCache_fileName sum hexenc c url])
                          (fst (marshal content)) with
              | Some e => Some (Err "fmt" "failed to store crl bundle in file cache: %w" [e])
              | None => None
              end
          end
      end
  end.

(* for ALL oracle behaviours: Set never panics and is set_code *)
Theorem C15_gen_Set_spec :
  forall sum hexenc joinf write marshal c url bundle,
    gen_crl_FileCache_Set sum hexenc joinf write marshal c url bundle
    = Some (set_code sum hexenc joinf write marshal c url bundle).
Proof.
  intros sum hexenc joinf write marshal c url bundle.
  unfold gen_crl_FileCache_Set, set_code. cbv zeta.
  destruct (ptr_val bundle) as [bv|]; [|reflexivity].
  rewrite ptr_is_nil_val.
  destruct (ptr_val (Bundle_BaseCRL bv)) as [b|]; cbn [is_none]; [|reflexivity].
  rewrite ptr_is_nil_val.
  destruct (ptr_val (Bundle_DeltaCRL bv)) as [d|]; cbn [is_none negb];
    unfold set_fileCacheContent_DeltaCRL; cbn [fileCacheContent_BaseCRL fileCacheContent_DeltaCRL].
  - destruct (marshal (mk_fileCacheContent (onil (RevocationList_Raw b)) (RevocationList_Raw d))) as [bytes [e|]];
      cbn [is_none negb olist fst snd]; [reflexivity|].
    destruct (write _ _ bytes) as [e|]; reflexivity.
  - destruct (marshal (mk_fileCacheContent (onil (RevocationList_Raw b)) None)) as [bytes [e|]];
      cbn [is_none negb olist fst snd]; [reflexivity|].
    destruct (write _ _ bytes) as [e|]; reflexivity.
Qed.
Print Assumptions C15_gen_Set_spec.

(* C15_set_nil on the code: a nil bundle / a bundle without base is refused with
   its own error whatever the dependencies would answer (they are not consulted) *)
Theorem C15_gen_Set_refuses_nil :
  forall sum hexenc joinf write marshal c url bundle,
    (abs_bundle bundle = None ->
       exists e, gen_crl_FileCache_Set sum hexenc joinf write marshal c url bundle = Some (Some e)
                 /\ set_class (Some e) = RErr 7
                 /\ forall sum' hexenc' joinf' write' marshal',
                      gen_crl_FileCache_Set sum' hexenc' joinf' write' marshal' c url bundle = Some (Some e)) /\
    (forall d, abs_bundle bundle = Some (None, d) ->
       exists e, gen_crl_FileCache_Set sum hexenc joinf write marshal c url bundle = Some (Some e)
                 /\ set_class (Some e) = RErr 8
                 /\ forall sum' hexenc' joinf' write' marshal',
                      gen_crl_FileCache_Set sum' hexenc' joinf' write' marshal' c url bundle = Some (Some e)).
Proof.
  intros sum hexenc joinf write marshal c url bundle. unfold abs_bundle. split.
  - intros H. destruct (ptr_val bundle) as [bv|] eqn:Hb; [discriminate H|].
    eexists. split; [|split].
    + rewrite C15_gen_Set_spec. unfold set_code. rewrite Hb. reflexivity.
    + reflexivity.
    + intros. rewrite C15_gen_Set_spec. unfold set_code. rewrite Hb. reflexivity.
  - intros d H. destruct (ptr_val bundle) as [bv|] eqn:Hb; [|discriminate H].
    destruct (ptr_val (Bundle_BaseCRL bv)) as [b|] eqn:Hbase; [discriminate H|].
    eexists. split; [|split].
    + rewrite C15_gen_Set_spec. unfold set_code. rewrite Hb, Hbase. reflexivity.
    + reflexivity.
    + intros. rewrite C15_gen_Set_spec. unfold set_code. rewrite Hb, Hbase. reflexivity.
Qed.
Print Assumptions C15_gen_Set_refuses_nil.

(* file.WriteFile on the destination of this url, against the model's directory:
   it fails exactly when a directory sits at the name (rename(2) onto a directory) *)
Definition write_agrees (write : string -> string -> list Z -> option err)
           (rootc path : string) (f : fs) (n : string) : Prop :=
  forall bytes,
    match alookup n f with
    | Some None => write rootc path bytes <> None
    | _ => write rootc path bytes = None
    end.

(* the answer of Set = the answer of the model's set, for every directory f,
   every encoder of the model and every flag e (the answer depends on neither) *)
Theorem C15_gen_Set_equiv :
  forall sum hexenc joinf write marshal c url bundle (f : fs) enc e,
    hex_agrees hexenc ->
    (forall ct, snd (marshal ct) = None) ->
    write_agrees write (FileCache_root c)
                 (joinf [FileCache_root c; file_name (sha_of sum) url]) f (file_name (sha_of sum) url) ->
    exists r, gen_crl_FileCache_Set sum hexenc joinf write marshal c url bundle = Some r /\
              set_class r = snd (fst (set (sha_of sum) enc f url e (abs_bundle bundle))).
Proof.
  intros sum hexenc joinf write marshal c url bundle f enc e Hhex Hmar Hw.
  eexists. split; [apply C15_gen_Set_spec|].
  unfold set_code, abs_bundle, set.
  destruct (ptr_val bundle) as [bv|]; [|reflexivity].
  destruct (ptr_val (Bundle_BaseCRL bv)) as [b|]; cbn [option_map]; [|reflexivity].
  rewrite Hmar, (C15_gen_fileName_equiv sum hexenc Hhex).
  match goal with |- context [write _ _ ?bs] => specialize (Hw bs) end.
  destruct (alookup (file_name (sha_of sum) url) f) as [[ct|]|].
  - rewrite Hw. reflexivity.
  - destruct (write _ _ _) as [e'|]; [reflexivity|contradiction Hw; reflexivity].
  - rewrite Hw. reflexivity.
Qed.
Print Assumptions C15_gen_Set_equiv.

(* ---------- Get ---------- *)

(* the error of Get as the harness reads it: errors.Is(err, ErrCacheMiss) first,
   then the message (here: the format string) *)
Definition get_class (e : err) : res :=
  let f := err_fmt e in
  if wraps_miss e then
    RMiss (if String.eqb f "check BaseCRL expiry failed: %w" then 1
           else if String.eqb f "check DeltaCRL expiry failed: %w" then 2 else 0)
  else
    RErr (if String.eqb f "failed to get crl bundle from file cache with key %q: %w" then 1
          else if String.eqb f "failed to decode file retrieved from file cache: %w" then 2
          else if String.eqb f "failed to parse base CRL of file retrieved from file cache: %w" then 3
          else if String.eqb f "failed to parse delta CRL of file retrieved from file cache: %w" then 4
          else if String.eqb f "check BaseCRL expiry failed: %w" then 5
          else if String.eqb f "check DeltaCRL expiry failed: %w" then 6 else 99).

(* what Get returned, as the model's result: a bundle is the Raw of its parts
   (RNone: a run-time panic, or a nil error without a usable bundle) *)
Definition get_res (r : option (ptr crl_Bundle * option err)) : res :=
  match r with
  | None => RNone
  | Some (_, Some e) => get_class e
  | Some (p, None) =>
      match ptr_val p with
      | Some bv =>
          match ptr_val (Bundle_BaseCRL bv) with
          | Some b => RHit (rawstr b) (option_map rawstr (ptr_val (Bundle_DeltaCRL bv)))
          | None => RNone
          end
      | None => RNone
      end
  end.

(* os.ReadFile of the entry path against the model's directory: no such name ->
   an error that errors.Is fs.ErrNotExist; a directory -> another error; a
   regular file -> its content. No dependency ever answers the cache's own
   sentinel (last conjunct; same in the two hypotheses below). *)
Definition read_agrees (readfile : string -> list Z * option err) (path : string)
           (f : fs) (n : string) : Prop :=
  match alookup n f with
  | None => exists e, snd (readfile path) = Some e /\ err_is (Some e) fs_ErrNotExist = true
  | Some None => exists e, snd (readfile path) = Some e /\ err_is (Some e) fs_ErrNotExist = false
                           /\ wraps_miss e = false
  | Some (Some ct) => snd (readfile path) = None /\ str_of_bytes (fst (readfile path)) = ct
  end.

(* json.Unmarshal into a zero fileCacheContent against the model's decoder *)
Definition unmarshal_agrees
           (unmarshal : list Z -> crl_fileCacheContent -> crl_fileCacheContent * option err)
           (dec : string -> option (string * option string)) : Prop :=
  forall bs,
    let r := unmarshal bs (mk_fileCacheContent [] None) in
    match dec (str_of_bytes bs) with
    | None => exists e, snd r = Some e /\ wraps_miss e = false
    | Some (b, d) => snd r = None /\ str_of_bytes (fileCacheContent_BaseCRL (fst r)) = b
                     /\ dopt (fileCacheContent_DeltaCRL (fst r)) = d
    end.

(* x509.ParseRevocationList against the model's parser: an error, or a non-nil
   list with that Raw and that NextUpdate *)
Definition parse_agrees (parseRL : list Z -> ptr x509_RevocationList * option err)
           (parse : string -> crlfact) : Prop :=
  forall L,
    match parse (str_of_bytes L) with
    | PErr => exists e, snd (parseRL L) = Some e /\ wraps_miss e = false
    | POk raw nu => snd (parseRL L) = None /\
                    exists r, ptr_val (fst (parseRL L)) = Some r /\ rawstr r = raw
                              /\ nu_of (RevocationList_NextUpdate r) = nu
    end.

(* the class of a wrapped dependency error that does not carry the sentinel *)
Lemma class_wrap_err f e : wraps_miss e = false ->
  get_class (Err "fmt" f [e]) = get_class (Err "fmt" f []).
Proof.
  intros H. unfold get_class. rewrite wraps_miss_wrap, H. reflexivity.
Qed.

(* checkExpiry's answer wrapped by Get, read by get_class = the model's reading *)
Ltac expiry_class x :=
  cbn [get_res res_of_expiry]; unfold get_class; rewrite wraps_miss_wrap; cbn [err_fmt];
  destruct (wraps_miss x); reflexivity.

Theorem C15_gen_Get_equiv :
  forall now parseRL sum hexenc readfile joinf unmarshal c url (f : fs) dec parse,
    hex_agrees hexenc ->
    read_agrees readfile (joinf [FileCache_root c; file_name (sha_of sum) url]) f
                (file_name (sha_of sum) url) ->
    unmarshal_agrees unmarshal dec ->
    parse_agrees parseRL parse ->
    get_res (gen_crl_FileCache_Get now parseRL sum hexenc readfile joinf unmarshal c url)
    = get (sha_of sum) dec parse f url now.
Proof.
  intros now parseRL sum hexenc readfile joinf unmarshal c url f dec parse Hhex Hread Hdec Hparse.
  unfold gen_crl_FileCache_Get, get. rewrite (C15_gen_fileName_equiv sum hexenc Hhex).
  unfold read_agrees in Hread.
  destruct (readfile _) as [bs re].
  cbn [fst snd] in Hread.
  destruct (alookup (file_name (sha_of sum) url) f) as [[ct|]|].
  2: { (* a directory *)
    destruct Hread as (e & -> & Hne & Hnm). cbn [is_none negb olist]. rewrite Hne.
    cbn [get_res]. rewrite (class_wrap_err _ e Hnm). reflexivity. }
  2: { (* no file *)
    destruct Hread as (e & -> & His). cbn [is_none negb]. rewrite His. reflexivity. }
  destruct Hread as [-> Hct]. cbn [is_none negb]. cbv beta zeta.
  specialize (Hdec bs). cbv zeta in Hdec. rewrite Hct in Hdec.
  destruct (unmarshal bs _) as [content ue]. cbn [fst snd] in Hdec.
  destruct (dec ct) as [[b d]|].
  2: { destruct Hdec as (e & -> & Hnm). cbn [is_none negb olist get_res].
       rewrite (class_wrap_err _ e Hnm). reflexivity. }
  destruct Hdec as (-> & Hb & Hd). cbn [is_none negb].
  unfold get_entry.
  pose proof (Hparse (fileCacheContent_BaseCRL content)) as Hpb. rewrite Hb in Hpb.
  destruct (parseRL (fileCacheContent_BaseCRL content)) as [pb eb]. cbn [fst snd] in Hpb.
  destruct (parse b) as [|rawb nub].
  { destruct Hpb as (e & -> & Hnm). cbn [is_none negb olist get_res].
    rewrite (class_wrap_err _ e Hnm). reflexivity. }
  destruct Hpb as (-> & rb & Hrb & Hrawb & Hnub). cbn [is_none negb].
  unfold set_Bundle_BaseCRL, set_Bundle_DeltaCRL. cbn [Bundle_BaseCRL Bundle_DeltaCRL].
  unfold dopt in Hd.
  destruct (fileCacheContent_DeltaCRL content) as [D|] eqn:HD; cbn [option_map] in Hd.
  2: { (* no delta *)
    subst d. cbn [is_none negb ptr_is_nil]. rewrite Hrb.
    rewrite <- Hnub, <- (C15_gen_checkExpiry_equiv now _ 5 1).
    destruct (gen_crl_checkExpiry now (RevocationList_NextUpdate rb)) as [x|]; cbn [is_none negb olist].
    + expiry_class x.
    + cbn [get_res res_of_expiry ptr_val Bundle_BaseCRL Bundle_DeltaCRL option_map]. rewrite Hrb, Hrawb. reflexivity. }
  (* a delta, possibly of length 0 *)
  subst d. cbn [is_none negb onil].
  pose proof (Hparse D) as Hpd.
  destruct (parseRL D) as [pd ed]. cbn [fst snd] in Hpd.
  destruct (parse (str_of_bytes D)) as [|rawd nud].
  { destruct Hpd as (e & -> & Hnm). cbn [is_none negb olist get_res].
    rewrite (class_wrap_err _ e Hnm). reflexivity. }
  destruct Hpd as (-> & rd & Hrd & Hrawd & Hnud). cbn [is_none negb]. rewrite Hrb.
  rewrite <- Hnub, <- (C15_gen_checkExpiry_equiv now _ 5 1).
  destruct (gen_crl_checkExpiry now (RevocationList_NextUpdate rb)) as [x|]; cbn [is_none negb olist].
  - expiry_class x.
  - cbn [res_of_expiry]. rewrite ptr_is_nil_val, Hrd. cbn [is_none negb].
    rewrite <- Hnud, <- (C15_gen_checkExpiry_equiv now _ 6 2).
    destruct (gen_crl_checkExpiry now (RevocationList_NextUpdate rd)) as [y|]; cbn [is_none negb olist].
    + expiry_class y.
    + cbn [get_res res_of_expiry ptr_val Bundle_BaseCRL Bundle_DeltaCRL option_map].
      rewrite Hrb, Hrd. cbn [option_map]. rewrite Hrawb, Hrawd. reflexivity.
Qed.
Print Assumptions C15_gen_Get_equiv.

(* ---------- the property theorems on the code's Get ---------- *)
Section GetTransport.
  Variables (now : Z) (parseRL : list Z -> ptr x509_RevocationList * option err)
            (sum : list Z -> list Z) (hexenc : list Z -> string)
            (readfile : string -> list Z * option err) (joinf : list string -> string)
            (unmarshal : list Z -> crl_fileCacheContent -> crl_fileCacheContent * option err)
            (c : crl_FileCache) (url : string)
            (f : fs) (dec : string -> option (string * option string)) (parse : string -> crlfact).
  Hypothesis Hhex : hex_agrees hexenc.
  Hypothesis Hread : read_agrees readfile (joinf [FileCache_root c; file_name (sha_of sum) url]) f
                                 (file_name (sha_of sum) url).
  Hypothesis Hdec : unmarshal_agrees unmarshal dec.
  Hypothesis Hparse : parse_agrees parseRL parse.

  Notation answer := (get_res (gen_crl_FileCache_Get now parseRL sum hexenc readfile joinf unmarshal c url)).

  (* C15_get_hit_iff: a bundle, with exactly the Raw of the parsed parts, iff the
     file at the hashed name decodes, both parts parse and neither has expired *)
  Theorem C15_gen_Get_hit_iff : forall b' d',
    answer = RHit b' d' <->
    exists ct b d, alookup (file_name (sha_of sum) url) f = Some (Some ct) /\ dec ct = Some (b, d) /\
      (exists nb, parse b = POk b' (Some nb) /\ (now <= nb)%Z) /\
      match d with
      | None => d' = None
      | Some dd => exists rd nd, d' = Some rd /\ parse dd = POk rd (Some nd) /\ (now <= nd)%Z
      end.
  Proof.
    intros b' d'. rewrite (C15_gen_Get_equiv _ _ _ _ _ _ _ _ _ _ _ _ Hhex Hread Hdec Hparse).
    apply get_hit_iff.
  Qed.

  (* C15_get_miss_iff: ErrCacheMiss iff no file (0), base expired (1), base fresh and delta expired (2) *)
  Theorem C15_gen_Get_miss_iff : forall k,
    answer = RMiss k <->
    (alookup (file_name (sha_of sum) url) f = None /\ k = 0%N) \/
    exists ct b d, alookup (file_name (sha_of sum) url) f = Some (Some ct) /\ dec ct = Some (b, d) /\
      exists rb nb, parse b = POk rb (Some nb) /\
        match d with
        | None => (now > nb)%Z /\ k = 1%N
        | Some dd => exists rd ond, parse dd = POk rd ond /\
            (((now > nb)%Z /\ k = 1%N) \/
             ((now <= nb)%Z /\ exists nd, ond = Some nd /\ (now > nd)%Z /\ k = 2%N))
        end.
  Proof.
    intros k. rewrite (C15_gen_Get_equiv _ _ _ _ _ _ _ _ _ _ _ _ Hhex Hread Hdec Hparse).
    apply get_miss_iff.
  Qed.

  (* C15_corrupt: a stored file that is not a well-formed entry -> an error, never a bundle or a miss *)
  Theorem C15_gen_Get_corrupt : forall ct,
    alookup (file_name (sha_of sum) url) f = Some (Some ct) -> not_an_entry dec parse ct ->
    exists k, answer = RErr k.
  Proof.
    intros ct Hf Hn. rewrite (C15_gen_Get_equiv _ _ _ _ _ _ _ _ _ _ _ _ Hhex Hread Hdec Hparse).
    exact (corrupt_error (sha_of sum) dec parse f url now ct Hf Hn).
  Qed.
End GetTransport.
Print Assumptions C15_gen_Get_hit_iff.
Print Assumptions C15_gen_Get_miss_iff.
Print Assumptions C15_gen_Get_corrupt.
