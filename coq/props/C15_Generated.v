(* C15_Generated.v — the GoLite translation of verifier/crl.checkExpiry
   (theories/C15_Gen.v, regenerated from /repo by `vh-gen` on every run,
   docs/GOLITE.md) against the C15 model (C15_Model.check_expiry, the freshness
   decision inside get_entry), for ALL inputs.

   time.Now() is an oracle: the instant [now] (first argument of the generated
   function after the Section is closed). A time.Time is its Unix time in
   nanoseconds (Z); the zero Time is GoLib.time_zero. The model writes a
   NextUpdate as [option Z] (None = the zero Time): [nu_of] is the abstraction.
   An error is read the way the correspondence harness (and every caller of the
   cache, through errors.Is) reads it: does it wrap the sentinel
   corecrl.ErrCacheMiss or not; message texts play no role.

   The rest of crl.go (FileCache.Get, Set, fileName) is outside the translator
   today: see docs/audit/C15.md, section "GoLite". *)
From Coq Require Import List Bool String Ascii NArith ZArith Lia.
From NV Require Import Base GoLib C15_Model C15_Proofs C15_Gen.
Import ListNotations.
Local Open Scope string_scope.
Local Open Scope list_scope.

(* ---------- abstractions ---------- *)

(* time.Time -> the model's NextUpdate *)
Definition nu_of (z : Z) : option Z := if time_is_zero z then None else Some z.

(* errors.Is(e, corecrl.ErrCacheMiss): e is the sentinel or wraps it (%w), at any depth *)
Definition is_sentinel (e : err) : bool :=
  match crl_ErrCacheMiss with
  | Some s => String.eqb (err_typ e) (err_typ s) && String.eqb (err_fmt e) (err_fmt s)
              && match err_wrapped e with [] => true | _ => false end
  | None => false
  end.

Fixpoint wraps_miss (e : err) : bool :=
  match e with
  | Err t f w =>
      is_sentinel (Err t f w)
      || (fix any (l : list err) : bool :=
            match l with [] => false | x :: r => wraps_miss x || any r end) w
  end.

(* what Get makes of the answer of checkExpiry: nil -> go on; the sentinel -> a
   cache miss (code kexp); any other error -> an error (code kzero) *)
Definition res_of_expiry (kzero kexp : N) (e : option err) : option res :=
  match e with
  | None => None
  | Some x => if wraps_miss x then Some (RMiss kexp) else Some (RErr kzero)
  end.

(* fmt.Errorf("..: %w", e) keeps the class (Get wraps what checkExpiry returned) *)
Lemma wraps_miss_wrap f e : f <> "cache miss" -> wraps_miss (Err "fmt" f [e]) = wraps_miss e.
Proof.
  intros Hf. cbn [wraps_miss]. unfold is_sentinel, crl_ErrCacheMiss.
  cbn [err_typ err_fmt err_wrapped]. rewrite orb_false_r.
  replace (String.eqb "fmt" "errors") with false by reflexivity. reflexivity.
Qed.

(* ---------- the sentinel ---------- *)
Theorem C15_gen_ErrCacheMiss_pinned :
  crl_ErrCacheMiss = Some (Err "errors" "cache miss" []) /\
  (forall e, crl_ErrCacheMiss = Some e -> wraps_miss e = true).
Proof. split; [reflexivity|]. intros e H. injection H as <-. reflexivity. Qed.
Print Assumptions C15_gen_ErrCacheMiss_pinned.

(* ---------- checkExpiry = check_expiry ---------- *)
Ltac open_checkExpiry :=
  unfold gen_crl_checkExpiry, nu_of, time_is_zero, time_after, time_before, time_equal; cbv zeta.

Theorem C15_gen_checkExpiry_equiv :
  forall now nextUpdate kzero kexp,
    res_of_expiry kzero kexp (gen_crl_checkExpiry now nextUpdate)
    = check_expiry now (nu_of nextUpdate) kzero kexp.
Proof.
  intros now nu kz ke. open_checkExpiry. unfold check_expiry.
  destruct (nu =? time_zero)%Z; [reflexivity|].
  destruct (now >? nu)%Z; reflexivity.
Qed.
Print Assumptions C15_gen_checkExpiry_equiv.

(* reading res_of_expiry backwards (the two codes differ) *)
Lemma res_nil kz ke g : res_of_expiry kz ke g = None <-> g = None.
Proof.
  destruct g as [e|]; cbn [res_of_expiry]; [|tauto].
  destruct (wraps_miss e); split; discriminate.
Qed.

Lemma res_miss kz ke g :
  res_of_expiry kz ke g = Some (RMiss ke) <-> exists e, g = Some e /\ wraps_miss e = true.
Proof.
  destruct g as [e|]; cbn [res_of_expiry].
  - destruct (wraps_miss e) eqn:W; split.
    + intros _. exists e. split; [reflexivity|exact W].
    + reflexivity.
    + discriminate.
    + intros (e' & H & W'). injection H as <-. congruence.
  - split; [discriminate|]. intros (e & H & _). discriminate H.
Qed.

Lemma res_err kz ke g :
  res_of_expiry kz ke g = Some (RErr kz) <-> exists e, g = Some e /\ wraps_miss e = false.
Proof.
  destruct g as [e|]; cbn [res_of_expiry].
  - destruct (wraps_miss e) eqn:W; split.
    + discriminate.
    + intros (e' & H & W'). injection H as <-. congruence.
    + intros _. exists e. split; [reflexivity|exact W].
    + reflexivity.
  - split; [discriminate|]. intros (e & H & _). discriminate H.
Qed.

(* direct characterisation: nil iff NextUpdate is set and has not passed (the
   instant NextUpdate itself is still fresh: time.After is strict); the sentinel
   iff it is set and has passed; another error iff it is the zero Time *)
Theorem C15_gen_checkExpiry_spec :
  forall now nextUpdate,
    (gen_crl_checkExpiry now nextUpdate = None
       <-> nextUpdate <> time_zero /\ (now <= nextUpdate)%Z) /\
    ((exists e, gen_crl_checkExpiry now nextUpdate = Some e /\ wraps_miss e = true)
       <-> nextUpdate <> time_zero /\ (now > nextUpdate)%Z) /\
    ((exists e, gen_crl_checkExpiry now nextUpdate = Some e /\ wraps_miss e = false)
       <-> nextUpdate = time_zero).
Proof.
  intros now nu.
  rewrite <- (res_nil 5 1), <- (res_miss 5 1), <- (res_err 5 1), !C15_gen_checkExpiry_equiv.
  unfold check_expiry, nu_of, time_is_zero.
  destruct (Z.eqb_spec nu time_zero) as [Hz|Hz].
  - repeat split; intros; intuition (try discriminate; try congruence).
  - destruct (now >? nu)%Z eqn:G; [apply gtb_true_gt in G|apply gtb_false_le in G];
      (repeat split; intros; intuition (try discriminate; try lia; try congruence)).
Qed.
Print Assumptions C15_gen_checkExpiry_spec.

(* ---------- the place in the model where the decision is made ---------- *)

(* x509.ParseRevocationList as the code sees it: Raw and NextUpdate (a time.Time) *)
Definition lift_parse (parseZ : string -> option (string * Z)) (x : string) : crlfact :=
  match parseZ x with
  | None => PErr
  | Some (raw, z) => POk raw (nu_of z)
  end.

(* get_entry with the two freshness decisions taken by the CODE's checkExpiry
   (base first, then delta), classified as Get's callers classify them *)
Definition get_entry_code (now : Z) (parseZ : string -> option (string * Z))
           (b : string) (d : option string) : res :=
  match parseZ b with
  | None => RErr 3
  | Some (rb, zb) =>
      match d with
      | None =>
          match res_of_expiry 5 1 (gen_crl_checkExpiry now zb) with
          | Some r => r
          | None => RHit rb None
          end
      | Some dd =>
          match parseZ dd with
          | None => RErr 4
          | Some (rd, zd) =>
              match res_of_expiry 5 1 (gen_crl_checkExpiry now zb) with
              | Some r => r
              | None =>
                  match res_of_expiry 6 2 (gen_crl_checkExpiry now zd) with
                  | Some r => r
                  | None => RHit rb (Some rd)
                  end
              end
          end
      end
  end.

Theorem C15_gen_get_entry_decisions :
  forall now parseZ b d,
    get_entry (lift_parse parseZ) b d now = get_entry_code now parseZ b d.
Proof.
  intros now parseZ b d. unfold get_entry, get_entry_code, lift_parse.
  destruct (parseZ b) as [[rb zb]|]; [|reflexivity].
  destruct d as [dd|].
  - destruct (parseZ dd) as [[rd zd]|]; [|reflexivity].
    rewrite !C15_gen_checkExpiry_equiv. reflexivity.
  - rewrite !C15_gen_checkExpiry_equiv. reflexivity.
Qed.
Print Assumptions C15_gen_get_entry_decisions.

(* ---------- the property theorems on the code's checkExpiry ---------- *)

Lemma fresh_iff now z :
  gen_crl_checkExpiry now z = None <-> exists n, nu_of z = Some n /\ (now <= n)%Z.
Proof.
  rewrite (proj1 (C15_gen_checkExpiry_spec now z)). unfold nu_of, time_is_zero.
  destruct (Z.eqb_spec z time_zero) as [Hz|Hz].
  - split; [tauto|]. intros (n & H & _). discriminate H.
  - split.
    + intros [_ H]. exists z. split; [reflexivity|exact H].
    + intros (n & H & Hn). injection H as <-. split; assumption.
Qed.

(* C15_hit_iff_fresh: a bundle is answered iff both parts parse and the code's
   checkExpiry returns nil for the NextUpdate of each; it carries the Raw of both *)
Theorem C15_gen_hit_iff_checkExpiry_nil :
  forall now parseZ b d b' d',
    get_entry (lift_parse parseZ) b d now = RHit b' d' <->
    (exists zb, parseZ b = Some (b', zb) /\ gen_crl_checkExpiry now zb = None) /\
    match d with
    | None => d' = None
    | Some dd => exists rd zd, d' = Some rd /\ parseZ dd = Some (rd, zd)
                               /\ gen_crl_checkExpiry now zd = None
    end.
Proof.
  intros now parseZ b d b' d'. rewrite hit_iff. unfold lift_parse. split.
  - intros [(nb & Hb & Hle) Hd]. split.
    + destruct (parseZ b) as [[rb zb]|]; [|discriminate Hb].
      injection Hb as -> Hn. exists zb. split; [reflexivity|].
      apply fresh_iff. exists nb. split; assumption.
    + destruct d as [dd|]; [|exact Hd].
      destruct Hd as (rd & nd & -> & Hp & Hle').
      destruct (parseZ dd) as [[rd' zd]|]; [|discriminate Hp].
      injection Hp as -> Hn. exists rd, zd. repeat split.
      apply fresh_iff. exists nd. split; assumption.
  - intros [(zb & Hb & Hf) Hd]. split.
    + apply fresh_iff in Hf as (n & Hn & Hle). exists n. rewrite Hb, Hn. split; [reflexivity|exact Hle].
    + destruct d as [dd|]; [|exact Hd].
      destruct Hd as (rd & zd & -> & Hp & Hf').
      apply fresh_iff in Hf' as (n & Hn & Hle). exists rd, n. rewrite Hp, Hn. repeat split. exact Hle.
Qed.
Print Assumptions C15_gen_hit_iff_checkExpiry_nil.

(* take hypotheses apart: disjunctions, conjunctions, witnesses *)
Ltac unpack :=
  repeat match goal with
         | H : _ \/ _ |- _ => destruct H as [H|H]
         | H : _ /\ _ |- _ => let H1 := fresh H in destruct H as [H H1]
         | H : exists _, _ |- _ => let x := fresh "x" in destruct H as [x H]
         end.

(* C15_expired_miss / C15_miss_only_expired: for an entry whose parts parse, a
   cache miss is answered iff the code's checkExpiry returns the sentinel for the
   base (code 1), or nil for the base and the sentinel for the delta (code 2) *)
Theorem C15_gen_miss_iff_checkExpiry_sentinel :
  forall now parseZ b d rb zb k,
    parseZ b = Some (rb, zb) ->
    (forall dd, d = Some dd -> parseZ dd <> None) ->
    (get_entry (lift_parse parseZ) b d now = RMiss k <->
     ((exists e, gen_crl_checkExpiry now zb = Some e /\ wraps_miss e = true) /\ k = 1%N) \/
     (gen_crl_checkExpiry now zb = None /\
      exists dd rd zd e, d = Some dd /\ parseZ dd = Some (rd, zd) /\
        gen_crl_checkExpiry now zd = Some e /\ wraps_miss e = true /\ k = 2%N)).
Proof.
  intros now parseZ b d rb zb k Hb Hd.
  rewrite C15_gen_get_entry_decisions. unfold get_entry_code. rewrite Hb.
  destruct d as [dd|].
  - destruct (parseZ dd) as [[rd zd]|] eqn:Hp; [|exfalso; exact (Hd dd eq_refl Hp)].
    destruct (gen_crl_checkExpiry now zb) as [eb|] eqn:Gb; cbn [res_of_expiry].
    + destruct (wraps_miss eb) eqn:Wb; split; intros H; unpack; try congruence.
      left. split; [exists eb; split; [reflexivity|exact Wb]|congruence].
    + destruct (gen_crl_checkExpiry now zd) as [ed|] eqn:Gd; cbn [res_of_expiry].
      * destruct (wraps_miss ed) eqn:Wd; split; intros H; unpack; try congruence.
        right. split; [reflexivity|]. exists dd, rd, zd, ed. repeat split; congruence.
      * split; intros H; unpack; congruence.
  - destruct (gen_crl_checkExpiry now zb) as [eb|] eqn:Gb; cbn [res_of_expiry].
    + destruct (wraps_miss eb) eqn:Wb; split; intros H; unpack; try congruence.
      left. split; [exists eb; split; [reflexivity|exact Wb]|congruence].
    + split; intros H; unpack; congruence.
Qed.
Print Assumptions C15_gen_miss_iff_checkExpiry_sentinel.

(* C15_zero_error on the code: a zero NextUpdate makes checkExpiry answer an
   error that is NOT the sentinel, whatever the clock says *)
Theorem C15_gen_zero_is_error :
  forall now, exists e, gen_crl_checkExpiry now time_zero = Some e /\ wraps_miss e = false.
Proof. intros now. apply (proj2 (proj2 (C15_gen_checkExpiry_spec now time_zero))). reflexivity. Qed.
Print Assumptions C15_gen_zero_is_error.
