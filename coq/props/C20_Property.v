(* C20 — Plugin installation follows the version rules and never half-replaces a plugin.
   Statements only; every proof is [exact <lemma of C20_Proofs / C20_SemverProofs>].

   Vocabulary (all defined in C20_Model.v / C20_Semver.v):
     install tbl st src ow = (st', r)   the model of CLIManager.Install on plugin root [st]
                                        (name -> files), source [src], overwrite flag [ow];
                                        r = (existing, new, error) as returned;
     tbl                                what each file content answers to get-plugin-metadata;
     tbl_of rt                          the table obtained from what each content PRINTS (rt) by the model
                                        of plugin.validate ([validate]); the harness gives rt;
     candidate tbl src = Some (n, v)    declarative reading of a usable source: its plugin
                                        executable (the file itself / the only executable file
                                        named notation-{n} among the regular top-level files /
                                        the only file so named when none is executable) answers
                                        with valid metadata of name n and version v, and n is a
                                        valid directory name;  None: unusable source, invalid or
                                        misnamed metadata;
     existing tbl st n = Some a         the root holds n/notation-n, which answers a;
     spec_files src                     the regular top-level files of the source;
     higher v ev                        v, ev valid SemVer 2.0.0 and precedence(ev) < precedence(v),
                                        [prec_lt] being SemVer section 11 clause by clause.
   States are arbitrary (not only reachable ones), so every statement holds after histories of
   any length; C20_history_refused_frame states the history form explicitly. *)
From NV Require Import Base C20_Semver C20_Model C20_Proofs C20_Audit.
From NV Require C20_SemverProofs.
Open Scope string_scope.

(* ---------- the replacement rule ---------- *)

(* a working plugin of the same name is replaced iff overwrite is set or the new version is
   strictly higher; otherwise the refusal is: invalid version -> version error, equal
   precedence -> equal-version error, lower -> downgrade error *)
Theorem C20_replace_rule : forall tbl st src ow n v en ev st' r,
  source_ok src = true -> install tbl st src ow = (st', r) ->
  candidate tbl src = Some (n, v) -> existing tbl st n = Some (AOk en ev) ->
  (r_err r = None <-> (ow = true \/ higher v ev)) /\
  (r_err r = None -> r_existing r = Some (en, ev) /\ r_new r = Some (n, v)) /\
  (ow = false ->
     (sv_valid v && sv_valid ev = false -> r_err r = Some EVersion) /\
     (forall a b, sv_valid v = true -> sv_valid ev = true ->
        decode (bytes v) = Some a -> decode (bytes ev) = Some b ->
        (a = b -> r_err r = Some EEqual) /\ (prec_lt a b -> r_err r = Some EDowngrade))).
Proof. exact c20_replace_rule. Qed.
Print Assumptions C20_replace_rule.

(* an installed plugin of that name that does not answer properly is replaced only on overwrite *)
Theorem C20_replace_broken : forall tbl st src ow n v a st' r,
  source_ok src = true -> install tbl st src ow = (st', r) ->
  candidate tbl src = Some (n, v) -> existing tbl st n = Some a ->
  (forall en ev, a <> AOk en ev) ->
  (r_err r = None <-> ow = true) /\ (r_err r = None -> r_existing r = None /\ r_new r = Some (n, v)).
Proof. exact c20_replace_broken. Qed.
Print Assumptions C20_replace_broken.

(* no plugin of that name: a usable source is installed *)
Theorem C20_install_fresh : forall tbl st src ow n v st' r,
  source_ok src = true -> install tbl st src ow = (st', r) ->
  candidate tbl src = Some (n, v) -> existing tbl st n = None ->
  r = mk_ires None (Some (n, v)) None /\ st' = installed_state st n src.
Proof. exact c20_install_fresh. Qed.
Print Assumptions C20_install_fresh.

(* ---------- a refused installation changes nothing ---------- *)

(* whatever the reason of the refusal (no hypothesis on the source at all) *)
Theorem C20_refused_frame : forall tbl st src ow st' r,
  install tbl st src ow = (st', r) -> r_err r <> None ->
  st' = st /\ r_new r = None /\ r_existing r = None /\ view_of tbl st' = view_of tbl st.
Proof. exact refused_frame. Qed.
Print Assumptions C20_refused_frame.

(* unusable source, invalid or misnamed metadata: refused (hence nothing changes) *)
Theorem C20_refused_unusable : forall tbl st src ow st' r,
  source_ok src = true -> install tbl st src ow = (st', r) ->
  candidate tbl src = None -> r_err r <> None /\ st' = st.
Proof. exact c20_refused_unusable. Qed.
Print Assumptions C20_refused_unusable.

(* histories of any length: as long as every operation is refused, the root is as it was *)
Theorem C20_history_refused_frame : forall tbl ops st,
  all_refused tbl st ops -> final_state tbl st ops = st.
Proof. exact history_refused_frame. Qed.
Print Assumptions C20_history_refused_frame.

(* ---------- after a successful installation ---------- *)

Theorem C20_installed : forall tbl st src ow st' r,
  source_ok src = true -> install tbl st src ow = (st', r) -> r_err r = None ->
  exists n v,
    candidate tbl src = Some (n, v) /\ r_new r = Some (n, v) /\
    afind n st' = Some (map mask (spec_files src)) /\     (* exactly the source's files, modes & 0755 *)
    (forall k, k <> n -> afind k st' = afind k st) /\     (* every other plugin directory untouched *)
    aremove n st' = aremove n st /\
    existing tbl st' n = Some (AOk n v) /\                (* Get + GetMetadata answer the new metadata *)
    In n (v_list (view_of tbl st')) /\                    (* List names it *)
    uninstall st' n = (aremove n st, None) /\             (* Uninstall removes exactly that directory *)
    afind n (aremove n st) = None.
Proof. exact c20_installed. Qed.
Print Assumptions C20_installed.

(* the files copied from a directory are its regular top-level files, name by name and content
   by content; only the single non-executable candidate gains the owner-execute bit *)
Theorem C20_installed_files : forall base es,
  Forall2 (fun g f => f_name g = f_name f /\ f_cid g = f_cid f /\
                      (f_mode g = f_mode f \/ (is_cand f = true /\ f_mode g = N.lor (f_mode f) 64)))
          (spec_files (SDir base es)) (top_files es).
Proof. exact spec_files_dir. Qed.
Print Assumptions C20_installed_files.

(* ---------- the same plugin from the executable or from the directory holding it ---------- *)

(* same_plugin: same (existing, new, error); on success same name and metadata, same answer of
   the installed plugin, all other plugin directories alike *)
Theorem C20_source_independent : forall tbl st ow base es f,
  source_ok (SDir base es) = true -> In f (top_files es) ->
  is_cand f = true -> is_exec f = true ->
  (forall g, In g (top_files es) -> is_cand g = true -> is_exec g = true -> g = f) ->
  same_plugin tbl st ow (SDir base es) (SFile f).
Proof. exact c20_source_independent_exec. Qed.
Print Assumptions C20_source_independent.

(* ... and when the only file named notation-{name} is not executable *)
Theorem C20_source_independent_nonexec : forall tbl st ow base es c,
  source_ok (SDir base es) = true -> cands (top_files es) = [c] -> is_exec c = false ->
  same_plugin tbl st ow (SDir base es) (SFile (set_exec c)).
Proof. exact c20_source_independent_nonexec. Qed.
Print Assumptions C20_source_independent_nonexec.

(* in general: the result depends on the source only through the executable it designates *)
Theorem C20_source_independent_gen : forall tbl st ow src1 src2 e,
  source_ok src1 = true -> source_ok src2 = true ->
  spec_exe src1 = Some e -> spec_exe src2 = Some e -> is_cand e = true ->
  same_plugin tbl st ow src1 src2.
Proof. exact c20_source_independent_gen. Qed.
Print Assumptions C20_source_independent_gen.

(* ---------- the candidate rule of a source directory ---------- *)

Theorem C20_candidates : forall base es,
  let top := top_files es in
  (forall e1 e2 r, execs top = e1 :: e2 :: r -> locate (SDir base es) = LErr ESrcTwoExec) /\
  (execs top = [] -> List.length (cands top) <> 1%nat -> locate (SDir base es) = LErr ESrcNoExec) /\
  (forall e, execs top = [e] -> exists n, pname_of (f_name e) = Some n /\ locate (SDir base es) = LOk e n top) /\
  (forall c, execs top = [] -> cands top = [c] ->
     exists n, pname_of (f_name c) = Some n /\
               locate (SDir base es) = LOk (set_exec c) n (chmod_exec (f_name c) top)).
Proof. exact candidates_rule. Qed.
Print Assumptions C20_candidates.

Theorem C20_candidates_refused : forall tbl st base es ow,
  let top := top_files es in
  ((exists e1 e2 r, execs top = e1 :: e2 :: r) \/ (execs top = [] /\ List.length (cands top) <> 1%nat)) ->
  exists e, install tbl st (SDir base es) ow = (st, mk_ires None None (Some e)) /\
            (e = ESrcTwoExec \/ e = ESrcNoExec).
Proof. exact candidates_refused. Qed.
Print Assumptions C20_candidates_refused.

(* ---------- version comparison = SemVer 2.0.0 precedence ---------- *)

(* golang.org/x/mod/semver.Compare on "v"+version (mirrored statement by statement) agrees with
   the declarative precedence on every pair the regular expression of /repo accepts *)
Theorem C20_semver_compare : forall v w,
  sv_valid v = true -> sv_valid w = true -> xcompare (bytes v) (bytes w) = prec_of v w.
Proof. exact C20_SemverProofs.compare_is_precedence. Qed.
Print Assumptions C20_semver_compare.

Theorem C20_semver_compare_plugin_version : forall v w,
  compare_plugin_version v w = if sv_valid v && sv_valid w then Some (prec_of v w) else None.
Proof. exact C20_SemverProofs.compare_plugin_version_spec. Qed.
Print Assumptions C20_semver_compare_plugin_version.

(* a valid version parses (x/mod/semver) and decodes (abstract syntax) *)
Theorem C20_semver_valid_parses : forall s,
  sv_valid s = true -> (exists p, xparse (bytes s) = Some p) /\ (exists v, decode (bytes s) = Some v).
Proof. intros s H. split; [exact (C20_SemverProofs.valid_parses s H)|exact (C20_SemverProofs.valid_decodes s H)]. Qed.
Print Assumptions C20_semver_valid_parses.

(* prec_cmp decides the SemVer section 11 relation, which is a strict total order *)
Theorem C20_semver_order : forall a b,
  (prec_cmp a b = Lt <-> prec_lt a b) /\ (prec_cmp a b = Gt <-> prec_lt b a) /\ (prec_cmp a b = Eq <-> a = b).
Proof.
  intros a b. exact (conj (C20_SemverProofs.prec_cmp_lt_iff a b)
                    (conj (C20_SemverProofs.prec_cmp_gt_iff a b) (C20_SemverProofs.prec_cmp_eq_iff a b))).
Qed.
Print Assumptions C20_semver_order.

Theorem C20_semver_strict_total :
  (forall a, ~ prec_lt a a) /\ (forall a b c, prec_lt a b -> prec_lt b c -> prec_lt a c) /\
  (forall a b, prec_lt a b \/ a = b \/ prec_lt b a).
Proof.
  exact (conj C20_SemverProofs.prec_lt_irrefl (conj C20_SemverProofs.prec_lt_trans C20_SemverProofs.prec_lt_total)).
Qed.
Print Assumptions C20_semver_strict_total.

(* build metadata never matters *)
Theorem C20_semver_build_ignored : forall v v' w,
  before 43%N (bytes v) = before 43%N (bytes v') ->
  prec_of v v' = Eq /\ prec_of v w = prec_of v' w /\ prec_of w v = prec_of w v'.
Proof.
  intros v v' w H. split; [exact (C20_SemverProofs.prec_of_ignores_build v v' H)|exact (C20_SemverProofs.prec_of_build_irrelevant v v' w H)].
Qed.
Print Assumptions C20_semver_build_ignored.

(* "strictly higher" as the oracle computes it is the declarative relation *)
Theorem C20_semver_higher : forall v ev, sv_higher v ev = true <-> higher v ev.
Proof. exact c20_sv_higher_iff. Qed.
Print Assumptions C20_semver_higher.

(* ---------- the oracle evaluated on the implementation's observations ---------- *)
(* wf: the input contract (well-formed root and sources); for histories that name the place of their sources
   also at_ok: along the history no directory source is an installed plugin directory holding a non-executable candidate *)
Theorem C20_model_meets_oracle : forall i, wf i = true -> spec_ok i (model i) = true.
Proof. exact c20_model_spec_ok. Qed.
Print Assumptions C20_model_meets_oracle.

(* ====================================================================== *)
(* Theorems added by the audit (docs/audit/C20.md)                         *)
(* ====================================================================== *)

(* ---------- histories of any length: the declarative machine ---------- *)

(* spec_step tbl T (OInstall src ow)  = the root with the directory of the new plugin replaced by
                                        the files of the source when [verdict] is positive, T otherwise;
   spec_step tbl T (OUninstall n)     = T without the directory n (T itself for an invalid name);
   spec_final                         = spec_step folded over the history.
   The operational model of a history (Install / Uninstall mirrored statement by statement)
   ends, whatever the length of the history and the initial root, in the state of that machine. *)
Theorem C20_history_spec : forall tbl ops st,
  forallb op_ok ops = true -> final_state tbl st ops = spec_final tbl st ops.
Proof. exact history_refines_spec. Qed.
Print Assumptions C20_history_spec.

(* the verdict, clause by clause: usable source with valid, rightly named metadata, AND
   (no plugin of that name | a working one and (overwrite or strictly higher) | a broken one and overwrite) *)
Theorem C20_verdict_iff : forall tbl T src ow,
  verdict tbl T src ow <> None <->
  exists n v, candidate tbl src = Some (n, v) /\
    (existing tbl T n = None
     \/ (exists en ev, existing tbl T n = Some (AOk en ev) /\ (ow = true \/ higher v ev))
     \/ (exists a, existing tbl T n = Some a /\ (forall en ev, a <> AOk en ev) /\ ow = true)).
Proof. exact verdict_iff. Qed.
Print Assumptions C20_verdict_iff.

(* what a positive verdict does to the root: exactly the files of the source under the name,
   every other directory as it was *)
Theorem C20_spec_step_install : forall tbl T src ow n v ex,
  verdict tbl T src ow = Some (n, v, ex) ->
  afind n (spec_step tbl T (OInstall src ow)) = Some (map mask (spec_files src)) /\
  (forall k, k <> n -> afind k (spec_step tbl T (OInstall src ow)) = afind k T).
Proof. exact spec_step_install. Qed.
Print Assumptions C20_spec_step_install.

(* a refused operation (install or uninstall) at ANY place of a history of any length leaves the
   root, List and the answers of all plugins as they were before it *)
Theorem C20_history_step_frame : forall tbl ops1 o st,
  step_refused (snd (mstep tbl (final_state tbl st ops1) o)) ->
  final_state tbl st (ops1 ++ [o]) = final_state tbl st ops1 /\
  view_of tbl (final_state tbl st (ops1 ++ [o])) = view_of tbl (final_state tbl st ops1).
Proof. exact history_step_frame. Qed.
Print Assumptions C20_history_step_frame.

(* ---------- listed, fetched and uninstalled by its name ---------- *)

(* after a successful installation Get(n) finds the executable the source designates (modes & 0755),
   it answers the new metadata, List names n; Uninstall(n) succeeds, leaves the root as it was
   without n, and then n is neither fetched nor listed *)
Theorem C20_installed_get : forall tbl st src ow st' r,
  source_ok src = true -> install tbl st src ow = (st', r) -> r_err r = None ->
  exists n v e,
    candidate tbl src = Some (n, v) /\ spec_exe src = Some e /\ f_name e = bin_name n /\
    get_plugin st' n = GFound (mask e) /\
    ask tbl n (mask e) = AOk n v /\
    In n (map fst st') /\
    (let st'' := fst (uninstall st' n) in
     snd (uninstall st' n) = None /\ st'' = aremove n st /\
     get_plugin st'' n = GNone /\ ~ In n (map fst st'') /\ existing tbl st'' n = None).
Proof. exact installed_get. Qed.
Print Assumptions C20_installed_get.

(* the installed executable is the same file (name, content, permission bits) whether the source
   is the executable or any directory designating it *)
Theorem C20_source_independent_binary : forall tbl st ow src1 src2 e,
  source_ok src1 = true -> source_ok src2 = true ->
  spec_exe src1 = Some e -> spec_exe src2 = Some e -> is_cand e = true ->
  r_err (snd (install tbl st src1 ow)) = None ->
  exists n v,
    r_new (snd (install tbl st src1 ow)) = Some (n, v) /\
    r_new (snd (install tbl st src2 ow)) = Some (n, v) /\
    get_plugin (fst (install tbl st src1 ow)) n = GFound (mask e) /\
    get_plugin (fst (install tbl st src2 ow)) n = GFound (mask e).
Proof. exact source_independent_binary. Qed.
Print Assumptions C20_source_independent_binary.

(* ---------- invalid versions ---------- *)

(* the regular expression of /repo accepts exactly the strings of the SemVer 2.0.0 grammar:
   three numeric fields without leading zeros, an optional '-' pre-release of '.'-separated
   non-empty identifiers over [0-9A-Za-z-] (numeric ones without leading zeros), an optional '+'
   build of '.'-separated non-empty identifiers *)
Theorem C20_semver_valid_iff : forall s,
  sv_valid s = true <-> exists p, C20_SemverProofs.wf p /\ bytes s = C20_SemverProofs.render p.
Proof. exact C20_SemverProofs.sv_valid_iff. Qed.
Print Assumptions C20_semver_valid_iff.

(* an invalid version on either side, without overwrite: version error, nothing returned, root untouched *)
Theorem C20_invalid_version_refused : forall tbl st src n v en ev st' r,
  source_ok src = true -> install tbl st src false = (st', r) ->
  candidate tbl src = Some (n, v) -> existing tbl st n = Some (AOk en ev) ->
  sv_valid v = false \/ sv_valid ev = false ->
  r_err r = Some EVersion /\ st' = st /\ r_new r = None /\ r_existing r = None.
Proof. exact invalid_version_refused. Qed.
Print Assumptions C20_invalid_version_refused.

(* the near-miss strings "1.1" "1" "2.0" "v1.0.0" "1.0.0.0" "01.0.0" "1.0.0-" "1.0.0+" "1.0" " 1.0.0"
   "1.0.0 " "1.0.0-01" "1.0.0-a..b" (and "") are not versions, and the model runs them, as the new
   and as the installed version of three- to five-step histories, to: refused, root untouched,
   the next proper upgrade judged against the untouched plugin *)
Example C20_nearmiss :
  forallb (fun s => negb (sv_valid s)) ("" :: nearmiss) = true /\
  forallb nearmiss_new_ok nearmiss = true /\ forallb nearmiss_installed_ok nearmiss = true.
Proof. exact nearmiss_model. Qed.

(* ---------- invalid or misnamed metadata: plugin.validate is part of the model ---------- *)

Theorem C20_validate_spec : forall m,
  validate m = true <->
  rm_name m <> "" /\ rm_desc m <> "" /\ rm_ver m <> "" /\ rm_url m <> "" /\
  rm_caps m <> [] /\ In contract_version (rm_contracts m).
Proof. exact validate_spec. Qed.
Print Assumptions C20_validate_spec.

(* a usable source, read on what its executable prints (rt: content -> printed metadata) *)
Theorem C20_candidate_raw_iff : forall rt src n v, source_ok src = true ->
  (candidate (tbl_of rt) src = Some (n, v) <->
   exists e m, spec_exe src = Some e /\ pname_of (f_name e) = Some n /\ valid_name n = true /\
               rtbl_get (f_cid e) rt = RJson m /\ validate m = true /\ rm_name m = n /\ rm_ver m = v).
Proof. exact candidate_raw_iff. Qed.
Print Assumptions C20_candidate_raw_iff.

Theorem C20_metadata_refused : forall rt st src ow e n st' r,
  source_ok src = true -> spec_exe src = Some e -> pname_of (f_name e) = Some n ->
  install (tbl_of rt) st src ow = (st', r) ->
  (forall m, rtbl_get (f_cid e) rt = RJson m -> validate m = false \/ rm_name m <> n) ->
  st' = st /\ r_new r = None /\ r_existing r = None /\
  r_err r = Some (match rtbl_get (f_cid e) rt with
                  | RJson m => if validate m then EMisnamed else EMetaInvalid
                  | _ => EMetaInvalid
                  end).
Proof. exact metadata_refused. Qed.
Print Assumptions C20_metadata_refused.

(* ---------- the place of the source (after 6dc7abe) ---------- *)
(* Every theorem above speaks of [install], Install for a source OUTSIDE the plugin root (and not a
   link into it). install_at tbl st p ow is Install for a source at place p:
     POut src                outside the root:                           install_at = install (C20_at_out);
     PInDir k / PInFile k f  the directory <root>/k (also through a symbolic link given with a trailing
                             separator) / the file <root>/k/f: what it holds is read from the root;
     PLinkDir                a symbolic link to a directory without trailing separator (never usable);
     PLinkFile l k f         a symbolic link named l, outside the root, to <root>/k/f.
   What remains assumed is not_installed_dir_with_nonexec_candidate st p: p is not a directory of the root
   whose only file named notation-{name} is not executable. For a directory source with such a candidate
   Install sets the user-executable bit and tries to install it (documented, logged as a warning); applied to
   a source that is an installed plugin directory this changes the root before anything is checked
   (C20_at_frame_chmod_refuted). Links are resolved before the same-directory test (ccdc027). *)
Theorem C20_at_out : forall tbl st src ow, install_at tbl st (POut src) ow = install tbl st src ow.
Proof. exact at_out. Qed.
Print Assumptions C20_at_out.

(* a refused or failed installation leaves root, List and all answers as they were, wherever the source lies *)
Theorem C20_at_frame : forall tbl st p ow st' r, not_installed_dir_with_nonexec_candidate st p = true ->
  install_at tbl st p ow = (st', r) -> r_err r <> None ->
  st' = st /\ r_new r = None /\ r_existing r = None /\ view_of tbl st' = view_of tbl st.
Proof. exact at_frame. Qed.
Print Assumptions C20_at_frame.

(* ... at any place of a history of any length *)
Theorem C20_at_history_step_frame : forall tbl ops1 p ow st,
  let T := final_state_at tbl st ops1 in
  not_installed_dir_with_nonexec_candidate T p = true -> r_err (snd (install_at tbl T p ow)) <> None ->
  final_state_at tbl st (ops1 ++ [AInstall p ow]) = T.
Proof. exact at_history_step_frame. Qed.
Print Assumptions C20_at_history_step_frame.

(* a source inside the root is installed exactly as an outside copy of it would be (so every theorem about
   [install] applies), or it is refused because it is the installed plugin itself, and nothing changes *)
Theorem C20_at_as_outside : forall tbl st p ow, not_installed_dir_with_nonexec_candidate st p = true ->
  install_at tbl st p ow = install tbl st (rs_src (resolve st p)) ow \/
  (install_at tbl st p ow = (st, mk_ires None None (Some ESelf)) /\
   exists n, rs_home (resolve st p) = Some n /\
             r_err (snd (install tbl st (rs_src (resolve st p)) ow)) = None).
Proof. exact at_as_outside. Qed.
Print Assumptions C20_at_as_outside.

(* no hypothesis: a successful installation never has its source in the directory it replaced *)
Theorem C20_at_success_outside : forall tbl st p ow st' r n v,
  install_at tbl st p ow = (st', r) -> r_err r = None -> r_new r = Some (n, v) ->
  rs_target (resolve st p) <> Some n /\ rs_home (resolve st p) <> Some n.
Proof. exact at_success_outside. Qed.
Print Assumptions C20_at_success_outside.

(* the own directory / the own executable of a working plugin, with overwrite: refused, untouched *)
Theorem C20_at_self_refused : forall tbl st p k exe copy v,
  not_installed_dir_with_nonexec_candidate st p = true -> source_ok (rs_src (resolve st p)) = true ->
  rs_home (resolve st p) = Some k -> locate (rs_src (resolve st p)) = LOk exe k copy ->
  tbl_get (f_cid exe) tbl = MOk k v ->
  install_at tbl st p true = (st, mk_ires None None (Some ESelf)).
Proof. exact at_self_refused. Qed.
Print Assumptions C20_at_self_refused.

(* the code before 6dc7abe: own directory / own executable with overwrite -> error and the plugin is gone *)
Example C20_at_self_v0_refuted :
  install_at_v0 self_tbl self_st (PInDir "foo") true = ([], mk_ires None None (Some ECopy)) /\
  install_at_v0 self_tbl self_st (PInFile "foo" "notation-foo") true = ([], mk_ires None None (Some ECopy)) /\
  install_at self_tbl self_st (PInDir "foo") true = (self_st, mk_ires None None (Some ESelf)) /\
  install_at self_tbl self_st (PInFile "foo" "notation-foo") true = (self_st, mk_ires None None (Some ESelf)) /\
  install_at self_tbl self_st (PInDir "foo") false = (self_st, mk_ires None None (Some EEqual)).
Proof. exact self_v0_refuted. Qed.

(* the hypothesis of C20_at_frame cannot be dropped. This is the documented chmod of a directory source whose
   only candidate is not executable, applied to a source that happens to be an installed plugin directory:
   every installation from it is refused (equal version / installed plugin itself), but the file has gained the
   user-executable bit and the plugin, broken before, now answers. Not treated as a defect of /repo. *)
Example C20_at_frame_chmod_refuted :
  let st := [("foo", [F "lib.so" 420 7; F "notation-foo" 420 1])] in
  not_installed_dir_with_nonexec_candidate st (PInDir "foo") = false /\
  (forall ow, exists e, install_at self_tbl st (PInDir "foo") ow
                        = ([("foo", [F "lib.so" 420 7; F "notation-foo" 484 1])], mk_ires None None (Some e))) /\
  existing self_tbl st "foo" = Some AFail /\
  existing self_tbl [("foo", [F "lib.so" 420 7; F "notation-foo" 484 1])] "foo" = Some (AOk "foo" "1.0.0").
Proof. exact at_frame_chmod_refuted. Qed.

(* the code between 6dc7abe and ccdc027: a link elsewhere to the installed executable, with overwrite -> copy
   error and the plugin gone; now: refused as the installed plugin itself (equal version without overwrite);
   a link named for ANOTHER plugin (notation-baz) to it: the name comes from the link, the metadata says foo -> misnamed *)
Example C20_at_linkfile_v1_refuted :
  install_at_v1 self_tbl self_st (PLinkFile "notation-foo" "foo" "notation-foo") true
    = ([], mk_ires None None (Some ECopy)) /\
  install_at self_tbl self_st (PLinkFile "notation-foo" "foo" "notation-foo") true
    = (self_st, mk_ires None None (Some ESelf)) /\
  install_at self_tbl self_st (PLinkFile "notation-foo" "foo" "notation-foo") false
    = (self_st, mk_ires None None (Some EEqual)) /\
  install_at self_tbl self_st (PLinkFile "notation-baz" "foo" "notation-foo") true
    = (self_st, mk_ires None None (Some EMisnamed)).
Proof. exact linkfile_v1_refuted. Qed.

(* installing foo from the directory of ANOTHER plugin that holds an executable named notation-foo (or from
   that file): as from any directory; the other plugin's directory stays; non-vacuity of wf for such histories *)
Example C20_at_other_plugin_witness :
  let st := [("baz", [F "data" 420 7; F "notation-foo" 493 2]); ("foo", [F "lib.so" 420 7; F "notation-foo" 493 1])] in
  install_at self_tbl st (PInDir "baz") false
    = ([("baz", [F "data" 420 7; F "notation-foo" 493 2]); ("foo", [F "data" 420 7; F "notation-foo" 493 2])],
       mk_ires (Some ("foo", "1.0.0")) (Some ("foo", "2.0.0")) None) /\
  install_at self_tbl st (PInFile "baz" "notation-foo") false
    = ([("baz", [F "data" 420 7; F "notation-foo" 493 2]); ("foo", [F "notation-foo" 493 2])],
       mk_ires (Some ("foo", "1.0.0")) (Some ("foo", "2.0.0")) None) /\
  install_at self_tbl st PLinkDir true = (st, mk_ires None None (Some ESrcNoExec)) /\
  wf (IHistAt self_tbl st [AInstall (PInDir "baz") false; AInstall (PInDir "foo") true;
                           AInstall (PInFile "foo" "notation-foo") false; AInstall PLinkDir true]) = true.
Proof. exact at_other_plugin_witness. Qed.

(* ---------- the reasons of a refusal are the ones the property lists ---------- *)
Theorem C20_refusal_reasons : forall tbl st src ow st' r e,
  source_ok src = true -> install tbl st src ow = (st', r) -> r_err r = Some e ->
  candidate tbl src = None \/
  (ow = false /\ exists n v a, candidate tbl src = Some (n, v) /\ existing tbl st n = Some a /\
     match a with
     | AOk en ev => ~ higher v ev /\ is_version_err e = true
     | _ => True
     end).
Proof. exact refusal_reasons. Qed.
Print Assumptions C20_refusal_reasons.

(* ====================================================================== *)
(* Non-vacuity: the hypotheses of the theorems above are met by concrete,  *)
(* non-trivial roots, sources and histories                                *)
(* ====================================================================== *)
Definition ex_tbl : table :=
  [(1%N, MOk "foo" "1.0.0"); (2%N, MOk "foo" "1.1.0"); (3%N, MOk "foo" "1.0.0+b"); (4%N, MOk "foo" "0.9.0");
   (5%N, MOk "foo" "1.1"); (6%N, MMalformed); (7%N, MFail); (8%N, MOk "bar" "1.0.0")].
Definition ex_st : state := [("bar", [F "notation-bar" 493 8]); ("foo", [F "notation-foo" 493 1; F "old.so" 420 7])].
Definition ex_broken : state := [("foo", [F "notation-foo" 493 6])].
Definition ex_src (c : N) : source := SFile (F "notation-foo" 493 c).
Definition ex_dir (mode c : N) : source :=
  SDir "pkg" [EF (F "LICENSE" 420 7); ED "docs" [F "notation-sub" 493 8]; EF (F "notation-foo" mode c); EF (F "zz.txt" 438 7)].

(* C20_replace_rule / C20_invalid_version_refused: a working plugin 1.0.0 meets a higher, an equal
   (build metadata only), a lower and an invalid version; and overwrite *)
Example C20_replace_rule_witness :
  existing ex_tbl ex_st "foo" = Some (AOk "foo" "1.0.0") /\
  (source_ok (ex_src 2) = true /\ candidate ex_tbl (ex_src 2) = Some ("foo", "1.1.0") /\
   higher "1.1.0" "1.0.0" /\ r_err (snd (install ex_tbl ex_st (ex_src 2) false)) = None) /\
  (candidate ex_tbl (ex_src 3) = Some ("foo", "1.0.0+b") /\
   r_err (snd (install ex_tbl ex_st (ex_src 3) false)) = Some EEqual) /\
  (candidate ex_tbl (ex_src 4) = Some ("foo", "0.9.0") /\
   r_err (snd (install ex_tbl ex_st (ex_src 4) false)) = Some EDowngrade) /\
  (candidate ex_tbl (ex_src 5) = Some ("foo", "1.1") /\ sv_valid "1.1" = false /\
   install ex_tbl ex_st (ex_src 5) false = (ex_st, mk_ires None None (Some EVersion))) /\
  r_err (snd (install ex_tbl ex_st (ex_src 4) true)) = None.
Proof.
  split; [vm_compute; reflexivity|]. split.
  { split; [vm_compute; reflexivity|]. split; [vm_compute; reflexivity|]. split; [|vm_compute; reflexivity].
    apply c20_sv_higher_iff. vm_compute. reflexivity. }
  vm_compute. repeat split; reflexivity.
Qed.

(* C20_replace_broken: the installed plugin answers malformed metadata *)
Example C20_replace_broken_witness :
  candidate ex_tbl (ex_src 1) = Some ("foo", "1.0.0") /\ existing ex_tbl ex_broken "foo" = Some AInvalid /\
  r_err (snd (install ex_tbl ex_broken (ex_src 1) false)) = Some EExistMeta /\
  r_err (snd (install ex_tbl ex_broken (ex_src 1) true)) = None.
Proof. vm_compute. repeat split; reflexivity. Qed.

(* C20_install_fresh / C20_installed / C20_installed_get / C20_installed_files: a directory source with a
   non-executable candidate, extra files before and after it and a sub-directory, on a root holding another plugin *)
Example C20_installed_witness :
  let st := [("bar", [F "notation-bar" 493 8])] in
  source_ok (ex_dir 420 2) = true /\ candidate ex_tbl (ex_dir 420 2) = Some ("foo", "1.1.0") /\
  existing ex_tbl st "foo" = None /\
  install ex_tbl st (ex_dir 420 2) false
    = ([("bar", [F "notation-bar" 493 8]);
        ("foo", [F "LICENSE" 420 7; F "notation-foo" 484 2; F "zz.txt" 420 7])],
       mk_ires None (Some ("foo", "1.1.0")) None).
Proof. vm_compute. repeat split; reflexivity. Qed.

(* C20_refused_unusable / C20_metadata_refused / C20_refusal_reasons: unusable sources and metadata *)
Example C20_refused_unusable_witness :
  forallb (fun src => source_ok src && is_none (candidate ex_tbl src)
                      && state_eqb (fst (install ex_tbl ex_st src true)) ex_st
                      && negb (is_none (r_err (snd (install ex_tbl ex_st src true)))))
    [SNone; SMissing; SSpecial "notation-foo"; SFile (F "notation-foo" 420 1); SFile (F "foo" 493 1);
     SFile (F "notation-.." 493 1); ex_src 6; ex_src 7; ex_src 8;
     SDir "pkg" [EF (F "notation-bar" 493 8); EF (F "notation-foo" 493 1)];
     SDir "pkg" [EF (F "notation-bar" 420 8); EF (F "notation-foo" 420 1)];
     SDir "pkg" [EF (F "LICENSE" 420 7); ED "bin" [F "notation-foo" 493 1]]] = true.
Proof. vm_compute. reflexivity. Qed.

Example C20_metadata_refused_witness :
  let rt := [(1%N, RJson (RM "foo" "d" "" "u" ["1.0"] ["c"]));        (* empty version *)
             (2%N, RJson (RM "foo" "d" "1.0.0" "u" ["2.0"] ["c"]));   (* contract version 1.0 not supported *)
             (3%N, RJson (RM "bar" "d" "1.0.0" "u" ["1.0"] ["c"]));   (* valid, but another name *)
             (4%N, RNotJson)] in
  map (fun c => r_err (snd (install (tbl_of rt) ex_st (ex_src c) true))) [1%N; 2%N; 3%N; 4%N; 5%N]
    = [Some EMetaInvalid; Some EMetaInvalid; Some EMisnamed; Some EMetaInvalid; Some EMetaInvalid] /\
  validate (RM "foo" "d" "1.0.0" "u" ["0.9"; "1.0"] ["c"]) = true.
Proof. vm_compute. split; reflexivity. Qed.

(* C20_history_refused_frame / C20_history_step_frame / C20_history_spec: a history on ex_st whose operations
   are all refused (downgrade, equal, invalid version, unknown plugin, invalid name, empty path), and a
   mixed one whose refused third step leaves what the first two built *)
Example C20_history_witness :
  let refused_ops := [OInstall (ex_src 4) false; OInstall (ex_src 3) false; OInstall (ex_src 5) false;
                      OUninstall "baz"; OUninstall ".."; OInstall SNone true] in
  let ops := [OUninstall "foo"; OInstall (ex_dir 493 2) false; OInstall (ex_src 1) false; OInstall (ex_src 1) true] in
  all_refused ex_tbl ex_st refused_ops /\ forallb op_ok refused_ops = true /\
  forallb op_ok ops = true /\
  step_refused (snd (mstep ex_tbl (final_state ex_tbl ex_st (firstn 2 ops)) (OInstall (ex_src 1) false))) /\
  final_state ex_tbl ex_st (firstn 3 ops)
    = [("bar", [F "notation-bar" 493 8]); ("foo", [F "LICENSE" 420 7; F "notation-foo" 493 2; F "zz.txt" 420 7])] /\
  spec_final ex_tbl ex_st ops = [("bar", [F "notation-bar" 493 8]); ("foo", [F "notation-foo" 493 1])].
Proof.
  split; [|vm_compute; repeat split; try reflexivity; discriminate].
  vm_compute. repeat split; discriminate.
Qed.

(* C20_source_independent*: the executable alone, and two directories holding it with other files,
   give the same plugin and the same installed executable *)
Example C20_source_independent_witness :
  let es := [EF (F "LICENSE" 420 7); ED "docs" [F "notation-sub" 493 8]; EF (F "notation-aaa" 420 8);
             EF (F "notation-foo" 493 2); EF (F "zz.txt" 438 7)] in
  let f := F "notation-foo" 493 2 in
  (source_ok (SDir "pkg" es) = true /\ In f (top_files es) /\ is_cand f = true /\ is_exec f = true /\
   (forall g, In g (top_files es) -> is_cand g = true -> is_exec g = true -> g = f)) /\
  spec_exe (SDir "pkg" es) = Some f /\ spec_exe (SFile f) = Some f /\
  r_err (snd (install ex_tbl ex_st (SDir "pkg" es) false)) = None /\
  (let c := F "notation-foo" 420 2 in
   let es' := [EF (F "LICENSE" 420 7); EF c; EF (F "zz.txt" 438 7)] in
   source_ok (SDir "pkg" es') = true /\ cands (top_files es') = [c] /\ is_exec c = false /\
   spec_exe (SDir "pkg" es') = Some (set_exec c) /\
   r_err (snd (install ex_tbl ex_st (SDir "pkg" es') false)) = None).
Proof.
  cbv zeta. split.
  { split; [vm_compute; reflexivity|]. split; [vm_compute; tauto|]. split; [vm_compute; reflexivity|].
    split; [vm_compute; reflexivity|].
    intros g Hin Hc Hx. cbn [top_files In] in Hin.
    destruct Hin as [<-|[<-|[<-|[<-|[]]]]]; try reflexivity; vm_compute in Hc, Hx; discriminate. }
  vm_compute. repeat split; reflexivity.
Qed.

(* C20_candidates / C20_candidates_refused: every clause has inputs *)
Example C20_candidates_witness :
  (exists e1 e2 r, execs (top_files [EF (F "notation-bar" 493 8); EF (F "notation-foo" 493 1)]) = e1 :: e2 :: r) /\
  (execs (top_files [EF (F "notation-bar" 420 8); EF (F "notation-foo" 420 1)]) = [] /\
   List.length (cands (top_files [EF (F "notation-bar" 420 8); EF (F "notation-foo" 420 1)])) <> 1%nat) /\
  (execs (top_files [EF (F "LICENSE" 493 7); EF (F "notation-." 493 1)]) = [] /\
   List.length (cands (top_files [EF (F "LICENSE" 493 7); EF (F "notation-." 493 1)])) <> 1%nat) /\
  (exists e, execs (top_files [EF (F "notation-bar" 420 8); EF (F "notation-foo" 493 1)]) = [e]) /\
  (exists c, execs (top_files [EF (F "notation-foo" 420 1); EF (F "zz" 493 7)]) = [] /\
             cands (top_files [EF (F "notation-foo" 420 1); EF (F "zz" 493 7)]) = [c]).
Proof.
  split; [do 3 eexists; vm_compute; reflexivity|].
  split; [split; [vm_compute; reflexivity|vm_compute; discriminate]|].
  split; [split; [vm_compute; reflexivity|vm_compute; discriminate]|].
  split; eexists; vm_compute; [reflexivity|split; reflexivity].
Qed.

(* C20_semver_*: valid versions (with pre-release and build metadata), equal up to build metadata *)
Example C20_semver_witness :
  Forall (fun s => sv_valid s = true)
    ["0.0.0"; "1.0.0-alpha"; "1.0.0-alpha.1"; "1.0.0-0.3.7"; "1.0.0-x.7.z.92"; "1.0.0-x-y-z.--"; "1.0.0+20130313144700";
     "1.0.0-beta+exp.sha.5114f85"; "1.0.0+21AF26D3----117B344092BD"; "10.20.30"; "1.0.0-rc.1+build.1"] /\
  before 43%N (bytes "1.0.0-rc.1+build.1") = before 43%N (bytes "1.0.0-rc.1+exp.sha.5114f85") /\
  compare_plugin_version "1.0.0-beta.11" "1.0.0-beta.2" = Some Gt /\
  compare_plugin_version "1.0.0-rc.1" "1.0.0" = Some Lt /\
  compare_plugin_version "1.0.0+a" "1.0.0+b" = Some Eq /\
  compare_plugin_version "1.0" "1.0.0" = None.
Proof. split; [apply Forall_forall; apply forallb_forall; vm_compute; reflexivity|vm_compute; repeat split; reflexivity]. Qed.

(* ---------- the code before the fix commits did not have the property ---------- *)
(* 3438892 (F7): the candidate name was erased by a later non-matching file *)
Example C20_F7_refuted :
  let es := [EF (F "notation-foo" 420 1); EF (F "zz-notes.txt" 420 2)] in
  parse_dir es = LOk (F "notation-foo" 484 1) "foo" [F "notation-foo" 484 1; F "zz-notes.txt" 420 2] /\
  parse_dir_v0 es = LOk (F "notation-foo" 484 1) "" [F "notation-foo" 484 1; F "zz-notes.txt" 420 2].
Proof. exact F7_candidate_name_refuted. Qed.
(* 6476a8b: files of sub-directories were copied flat *)
Example C20_subdir_copy_refuted :
  let es := [ED "docs" [F "index.md" 420 2]; EF (F "notation-foo" 493 1)] in
  parse_dir es = LOk (F "notation-foo" 493 1) "foo" [F "notation-foo" 493 1] /\
  parse_dir_copyall es = LOk (F "notation-foo" 493 1) "foo" [F "index.md" 420 2; F "notation-foo" 493 1].
Proof. exact subdir_copy_refuted. Qed.
(* 9291f82: the walk entered a sub-directory named like the source directory *)
Example C20_selfdir_refuted :
  let es := [EF (F "notation-foo" 420 1); ED "pkg" [F "notation-foo2" 493 3]] in
  parse_dir es = LOk (F "notation-foo" 484 1) "foo" [F "notation-foo" 484 1] /\
  parse_dir_selfdir "pkg" es = LOk (F "notation-foo2" 493 3) "foo2" [F "notation-foo" 420 1].
Proof. exact selfdir_refuted. Qed.

(* ---------- non-vacuity: a concrete history ---------- *)
Example C20_example_history :
  let tbl := [(1%N, MOk "foo" "1.0.0-beta.2"); (2%N, MOk "foo" "1.0.0-beta.11"); (3%N, MFail);
              (4%N, MOk "foo" "1.0.0-beta.11+build.7")] in
  let up := SDir "pkg" [EF (F "LICENSE" 420 3); ED "docs" [F "x" 420 3]; EF (F "notation-foo" 420 2); EF (F "zlib.so" 511 3)] in
  let ops := [OInstall (SFile (F "notation-foo" 493 1)) false;      (* fresh *)
              OInstall up false;                                    (* beta.2 -> beta.11: higher *)
              OInstall (SFile (F "notation-foo" 493 1)) false;      (* beta.11 -> beta.2: downgrade *)
              OInstall (SFile (F "notation-foo" 493 4)) false;      (* build metadata only: equal *)
              OInstall (SFile (F "notation-foo" 493 1)) true] in    (* overwrite *)
  wf (IHist tbl [] ops) = true /\
  map (fun s => match s_res s with RInstall r => r_err r | _ => None end) (run_ops tbl [] ops)
    = [None; None; Some EDowngrade; Some EEqual; None] /\
  final_state tbl [] (firstn 4 ops)
    = [("foo", [F "LICENSE" 420 3; F "notation-foo" 484 2; F "zlib.so" 493 3])] /\
  final_state tbl [] ops = [("foo", [F "notation-foo" 493 1])].
Proof. vm_compute. repeat split; reflexivity. Qed.

Example C20_example_higher : higher "1.0.0-beta.11" "1.0.0-beta.2" /\ ~ higher "1.0.0+b" "1.0.0+a".
Proof.
  split.
  - apply c20_sv_higher_iff. vm_compute. reflexivity.
  - intros H. apply c20_sv_higher_iff in H. vm_compute in H. discriminate.
Qed.
