(* C13 and the caller's context (first parameter of GetCertificates).
   Statements only; every proof is [exact <lemma of C13_Special>] or a computation.
   The property: "... in every other situation ... it fails as a whole rather than
   returning a partial set". A context.Context is the one input of GetCertificates that is
   not in the tree: the code of today ignores it. Whatever an implementation does with it,
   the property allows exactly one effect: a context that is done may make the call FAIL AS A
   WHOLE; a successful call still returns exactly the certificates of the named store.
   [ctx_res_allowed i c r]: r is a result the model allows for input i when the context
   reports done from its c-th poll on (None: never): the context-free result [load i], or -
   only when the context can be done - a failure. The harness family `ctx` calls the real
   GetCertificates with scripted contexts (cases [GC], judged by [cagree] and [cspec_ok]). *)
From NV Require Import Base Regex Generated C13_Model C13_Proofs C13_Special.
Open Scope string_scope.
Open Scope list_scope.

(* all or nothing, whatever the context does: a result with certificates is the loadable
   store's exact list; a failure means the context could be done, or the store is not loadable *)
Theorem C13_ctx_all_or_nothing : forall i c r,
  ctx_res_allowed i c r ->
  match r with
  | Loaded l => loadable (i_root i) (i_ty i) (i_name i) l
  | Failed _ _ _ => c <> None \/ forall l, ~ loadable (i_root i) (i_ty i) (i_name i) l
  end.
Proof. exact ctx_all_or_nothing. Qed.
Print Assumptions C13_ctx_all_or_nothing.

(* a context that is never done changes nothing: the relation is the function [load], the
   case judgments are the ones of the base cases *)
Theorem C13_ctx_never_done_is_base : forall i,
  (forall r, ctx_res_allowed i None r <-> r = load i) /\
  (forall o, cagree i None o = obs_eqb (model i) o) /\
  (forall o, cspec_ok i None o = spec_ok i o).
Proof.
  intros i. split; [|split].
  - intros r. split; [intros [H|[H _]]; [exact H | congruence] | intros H; left; exact H].
  - exact (cagree_none i).
  - exact (cspec_ok_none i).
Qed.
Print Assumptions C13_ctx_never_done_is_base.

(* every observation the model side accepts satisfies the property oracle *)
Theorem C13_ctx_model_meets_oracle : forall i c o, cagree i c o = true -> cspec_ok i c o = true.
Proof. exact cagree_cspec_ok. Qed.
Print Assumptions C13_ctx_model_meets_oracle.

(* the oracle accepts returned certificates only from a loadable store, and only the full
   set (same certificates, same multiplicities): a proper subset is a violation *)
Theorem C13_ctx_oracle_full_set_only : forall i c ids,
  cspec_ok i c (OOk ids) = true ->
  exists l, loadable (i_root i) (i_ty i) (i_name i) l /\ same_ids ids (map ct_id l) = true /\ ids <> [].
Proof. exact cspec_ok_ok. Qed.
Print Assumptions C13_ctx_oracle_full_set_only.

(* ... and a failure on a loadable store only when the context can be done *)
Theorem C13_ctx_oracle_error_needs_done : forall i c cl k e l,
  loadable (i_root i) (i_ty i) (i_name i) l -> cspec_ok i c (OErr cl k e) = true -> c <> None.
Proof. exact cspec_ok_err_loadable. Qed.
Print Assumptions C13_ctx_oracle_error_needs_done.

(* witness (store ca/web of ex_tree: a.pem = [1;2], b.der = [1]): with a context done at the
   2nd poll, the full list and a failure are accepted; the certificates of the first file
   alone (what a scan given up after one file has collected) are refused, footprint 3 *)
Theorem C13_ctx_example :
  let i := mk_input "ca" "web" ex_tree in
  load i = Loaded [ex_root; ex_inter; ex_root] /\
  cspec_ok i (Some 1%N) (OOk [1; 2; 1]%N) = true /\ cagree i (Some 1%N) (OOk [1; 2; 1]%N) = true /\
  cspec_ok i (Some 1%N) (OErr ETrustStore KUnknown "") = true /\
  cagree i (Some 1%N) (OErr ETrustStore KUnknown "") = true /\
  cspec_ok i None (OErr ETrustStore KUnknown "") = false /\
  cspec_ok i (Some 1%N) (OOk [1; 2]%N) = false /\ cagree i (Some 1%N) (OOk [1; 2]%N) = false /\
  cfp i (Some 1%N) (OOk [1; 2]%N) = 3%N /\
  grun [GC (mk_ccase 7 i (Some 1%N) (OOk [1; 2]%N))] = [(7, 3, 3)]%N.
Proof. vm_compute. repeat split. Qed.
Print Assumptions C13_ctx_example.
