(* C10_Generated.v — notation.Verify as /repo has it now (theories/C10_Gen.v, re-translated by
   `vh-gen` on every run from notation.go, docs/GOLITE.md) equals the hand-written C10 model
   (C10_Model.v) for ALL listings, pagings, limits, references and answers of the verifier and
   the repository. Proofs: theories/C10_GenProofs.v (compiled once by make); this file only
   states the theorems over the generated functions and checks that they are closed.

   Oracles (arguments of every theorem, universally quantified): Repository.Resolve /
   ListSignatures / FetchSignatureBlob, Verifier.Verify, verifySkipper.SkipVerify and the
   assertion verifier.(verifySkipper), oras ParseReference / ValidateReferenceAsDigest.
   ListSignatures answers (pages, final error): by the Callback convention of the translator it
   calls the callback on consecutive pages, stops at the first error the callback returns and
   returns it, else returns its own error.

   [abs_of]  : oracles' answers -> the model's [input] (limit, skipper, reference class with the
               digest pin computed by [classify], Resolve error, the pages with every listed
               descriptor classified G / Bd / U / NO by what Fetch and Verify answer for it,
               ListSignatures' error).
   [conc_of] : the model's observation -> the Go values (descriptor, outcome pointers, error
               value); the call log of the model has no counterpart in a pure function.
   Hypothesis [oracles_not_done]: the repository's final error and the verifier's errors are not
   the unexported sentinel errDoneVerification (no chain of theirs contains it).            *)
From Coq Require Import List Bool String Ascii NArith ZArith Lia.
From NV Require Import Base GoLib C10_Model C10_Proofs C10_Gen C10_GenProofs.
Import ListNotations.
Local Open Scope string_scope.
Local Open Scope list_scope.

Section Statements.
Variables (RT VT Cert ST : Type).
Notation Outcome := (notation_go_VerificationOutcome Cert).
Notation VOpts := notation_go_VerifierVerifyOptions.
Notation Desc := v1_Descriptor.
Notation Res := (Desc * list (ptr Outcome) * option err)%type.
Variable resolve : RT -> string -> Desc * option err.
Variable listsigs : RT -> Desc -> list (list Desc) * option err.
Variable fetch : RT -> Desc -> list Z * Desc * option err.
Variable vverify : VT -> Desc -> list Z -> VOpts -> ptr Outcome * option err.
Variable skipv : ST -> VOpts -> bool * ptr trustpolicy_VerificationLevel * option err.
Variable parse_ref : string -> registry_Reference * option err.
Variable as_digest : registry_Reference -> option err.
Variable as_skipper : VT -> option ST.

Notation GEN := (gen_notation_go_Verify RT resolve listsigs fetch VT Cert vverify ST skipv parse_ref as_digest as_skipper).
Notation ABS := (abs_of RT VT Cert ST resolve listsigs fetch vverify skipv parse_ref as_digest as_skipper).
Notation CONC := (conc_of RT VT Cert ST resolve listsigs fetch vverify skipv parse_ref as_skipper).
Notation NOT_DONE := (oracles_not_done RT VT Cert resolve listsigs vverify parse_ref).
Notation KIND := (kind_gen RT VT Cert resolve fetch vverify parse_ref).
Notation LISTING := (listing_gen RT resolve listsigs parse_ref).
Notation SKIP := (fun v vo => abs_skip (skipv_of VT ST skipv as_skipper v) (has_skipper_of VT ST as_skipper v) vo).

(* ---- the lifted loops: the inner `for range signatureManifests` (with any continuations) and the
   fold of the callback over the pages equal the reference semantics [ref_page] / [ref_pages] ---- *)
Theorem C10_gen_Verify_loop2_ref : forall vo ad r v KR K,
  (forall opts succ outs failed n,
     K opts succ outs failed n =
     if (n >=? VerifyOptions_MaxSignatureAttempts vo)%Z then KR opts succ outs failed n (Some E_exc)
     else KR opts succ outs failed n None) ->
  forall page opts succ outs failed n,
  gen_notation_go_Verify_loop2 RT fetch VT Cert vverify K vo r KR v ad page opts succ outs failed n
  = let '(n', opts', failed', succ', outs', e) :=
        ref_page Cert (fetch r) (vverify v) ad (VerifyOptions_MaxSignatureAttempts vo) E_fetch E_exc E_done FAILFMT
                 page (n, opts, failed, succ, outs) in
    (KR opts' succ' outs' failed' n' e : option Res).
Proof. exact (gen_loop2_ref RT VT Cert fetch vverify). Qed.

Theorem C10_gen_Verify_loop1_ref : forall vo ad r v ferr K pages opts succ outs failed n,
  gen_notation_go_Verify_loop1 RT fetch VT Cert vverify K ferr vo (mk_VerificationFailedError EXC_MSG) r v ad
    pages opts succ outs failed n
  = let '(n', opts', failed', succ', outs', e) :=
        ref_pages Cert (fetch r) (vverify v) ad (VerifyOptions_MaxSignatureAttempts vo) E_fetch E_exc E_done FAILFMT
                  pages ferr (n, opts, failed, succ, outs) in
    (K opts' succ' outs' failed' n' e : option Res).
Proof. exact (gen_loop1_ref RT VT Cert fetch vverify). Qed.

(* ---- nil arguments (the model: i_nilv / i_nilr) ---- *)
Theorem C10_gen_Verify_nil_verifier : forall verifier repo vo,
  ptr_val verifier = None -> GEN verifier repo vo = Some (ZD, [], Some E_nilv).
Proof. exact (gen_Verify_nil_verifier RT VT Cert ST resolve listsigs fetch vverify skipv parse_ref as_digest as_skipper). Qed.

Theorem C10_gen_Verify_nil_repo : forall verifier repo vo v,
  ptr_val verifier = Some v -> ptr_val repo = None -> GEN verifier repo vo = Some (ZD, [], Some E_nilr).
Proof. exact (gen_Verify_nil_repo RT VT Cert ST resolve listsigs fetch vverify skipv parse_ref as_digest as_skipper). Qed.

Theorem C10_gen_Verify_nil_model : forall v r vo i,
  (i_nilv i = true -> CONC v r vo (model i) = (ZD, [], Some E_nilv)) /\
  (i_nilv i = false -> i_nilr i = true -> CONC v r vo (model i) = (ZD, [], Some E_nilr)).
Proof.
  intros v r vo i. split.
  - apply conc_nil_verifier.
  - apply conc_nil_repo.
Qed.

(* ---- THE equivalence: for all listings, pagings, limits, references, verifier answers ---- *)
Theorem C10_gen_Verify_equiv : forall verifier repo vo v r,
  ptr_val verifier = Some v -> ptr_val repo = Some r -> NOT_DONE v r vo ->
  GEN verifier repo vo = Some (CONC v r vo (model (ABS v r vo))).
Proof. exact (gen_Verify_model RT VT Cert ST resolve listsigs fetch vverify skipv parse_ref as_digest as_skipper). Qed.

(* the generated function never takes the panic branch *)
Theorem C10_gen_Verify_total : forall verifier repo vo, GEN verifier repo vo <> None.
Proof. exact (gen_Verify_total RT VT Cert ST resolve listsigs fetch vverify skipv parse_ref as_digest as_skipper). Qed.

(* ---- the property, transported onto the generated function ---- *)

(* nil error  <->  the verifier said skip, or the listing is reached and among the first N listed
   signatures one verifies and every one before it was fetched and failed with an outcome *)
Theorem C10_gen_Verify_ok_iff : forall verifier repo vo v r,
  ptr_val verifier = Some v -> ptr_val repo = Some r -> NOT_DONE v r vo ->
  (exists d outs, GEN verifier repo vo = Some (d, outs, None)) <->
  (0 < VerifyOptions_MaxSignatureAttempts vo)%Z /\
  (SKIP v vo = SkipYes \/
   (reaches_listing (ABS v r vo) /\
    exists k, first_good (map (KIND v r vo) (LISTING r vo)) (VerifyOptions_MaxSignatureAttempts vo) k)).
Proof. exact (gen_Verify_ok_iff RT VT Cert ST resolve listsigs fetch vverify skipv parse_ref as_digest as_skipper). Qed.

(* ... it then returns the resolved descriptor and exactly the outcome of that signature *)
Theorem C10_gen_Verify_first_good : forall verifier repo vo v r k,
  ptr_val verifier = Some v -> ptr_val repo = Some r -> NOT_DONE v r vo ->
  reaches_listing (ABS v r vo) ->
  first_good (map (KIND v r vo) (LISTING r vo)) (VerifyOptions_MaxSignatureAttempts vo) k ->
  GEN verifier repo vo =
  Some (ad_of RT resolve parse_ref r vo, [outcome_gen RT VT Cert resolve listsigs fetch vverify parse_ref v r vo k], None).
Proof. exact (gen_Verify_first_good RT VT Cert ST resolve listsigs fetch vverify skipv parse_ref as_digest as_skipper). Qed.

(* a digest reference whose digest differs from the resolved one never verifies (except by skip) *)
Theorem C10_gen_Verify_pin : forall verifier repo vo v r dg d outs,
  ptr_val verifier = Some v -> ptr_val repo = Some r -> NOT_DONE v r vo ->
  abs_pref parse_ref as_digest vo = PDigest dg -> dg <> Descriptor_Digest (ad_of RT resolve parse_ref r vo) ->
  GEN verifier repo vo = Some (d, outs, None) -> SKIP v vo = SkipYes.
Proof. exact (gen_Verify_pin RT VT Cert ST resolve listsigs fetch vverify skipv parse_ref as_digest as_skipper). Qed.

(* a non-positive limit is an error before anything is asked *)
Theorem C10_gen_Verify_bad_limit : forall verifier repo vo v r,
  ptr_val verifier = Some v -> ptr_val repo = Some r ->
  (VerifyOptions_MaxSignatureAttempts vo <= 0)%Z ->
  GEN verifier repo vo = Some (ZD, [], Some E_badmax).
Proof. exact (gen_Verify_bad_limit RT VT Cert ST resolve listsigs fetch vverify skipv parse_ref as_digest as_skipper). Qed.

(* skip: the level SkipVerify returned, zero descriptor; the repository's answers do not occur *)
Theorem C10_gen_Verify_skip : forall verifier repo vo v r,
  ptr_val verifier = Some v -> ptr_val repo = Some r ->
  (0 < VerifyOptions_MaxSignatureAttempts vo)%Z -> SKIP v vo = SkipYes ->
  GEN verifier repo vo =
  Some (ZD, [skip_out Cert (snd (fst (skipv_of VT ST skipv as_skipper v (o0 vo))))], None).
Proof. exact (gen_Verify_skip RT VT Cert ST resolve listsigs fetch vverify skipv parse_ref as_digest as_skipper). Qed.

End Statements.

(* go-digest Digest.String (the right-hand side of the digest pin) is the identity *)
Theorem C10_gen_Digest_String_id : forall d, gen_go_digest_Digest_String d = d.
Proof. reflexivity. Qed.

Print Assumptions C10_gen_Verify_loop2_ref.
Print Assumptions C10_gen_Verify_loop1_ref.
Print Assumptions C10_gen_Verify_nil_verifier.
Print Assumptions C10_gen_Verify_nil_repo.
Print Assumptions C10_gen_Verify_nil_model.
Print Assumptions C10_gen_Verify_equiv.
Print Assumptions C10_gen_Verify_total.
Print Assumptions C10_gen_Verify_ok_iff.
Print Assumptions C10_gen_Verify_first_good.
Print Assumptions C10_gen_Verify_pin.
Print Assumptions C10_gen_Verify_bad_limit.
Print Assumptions C10_gen_Verify_skip.
Print Assumptions C10_gen_Digest_String_id.
