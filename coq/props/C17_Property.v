(* C17 — Plugin processes are contained: validated replies, bounded output,
   bounded time. Statements only; every proof is [exact <lemma of C17_Proofs>].

   Quantifiers: every protocol command, plugin name, file name, kind of file,
   exit code, stdout/stderr length, every decoding of stdout/stderr reported by
   encoding/json (oracle input of the model; a structured error with its code,
   message and metadata map), every timing of the process, its descendants and
   the context; every limit and every sequence of writes over every underlying
   writer that reports a count between 0 and what it was offered.
   Further theorems (converse directions, exhaustive classification, the name
   check against the file name, the io.Copy wiring of the cap, the time bound
   at CLIPlugin's own configuration): props/C17_Audit.v; audit: docs/audit/C17.md.

   PARTIAL: the theorems about time (C17_bounded_*, C17_unbounded_*_refuted,
   C17_no_context_refuted) are about a hand-written timed transition model of
   what os/exec documents for CommandContext + WaitDelay (process killed when
   the context is done; Wait returns when the process is dead and the pipes are
   closed or WaitDelay has elapsed). That model is tied to reality only by the
   timing experiments of the harness. *)
From NV Require Import Base Generated C17_Model C17_Proofs.

(* ---- validated replies ---- *)

(* a call succeeds only if the file is an executable regular file, the process
   exited by itself with status 0 (not killed by the context; the context was
   not already done when the call was made), its stdout is within the cap, the
   process really ran and was given the command of the call, stdout decodes
   into the response type, and - for metadata - every mandatory field is
   present, the contract version is supported and the name is the plugin's name
   (the name the CLIPlugin was made with; see C17_name_is_file_name in
   C17_Audit.v for the file name) *)
Theorem C17_success_only : forall i,
  p_result (model_p i) = ROk ->
  i_file i = FExec /\ i_exit i = 0%N
  /\ (forall d, i_deadline i = Some d -> (i_sleep i <= d)%N /\ d <> 0%N)
  /\ (i_stdout_len i <= cap)%N
  /\ p_argv (model_p i) = Some (cmd_arg (i_cmd i))
  /\ exists m, i_stdout i = SGood m
     /\ (i_cmd i = GetMetadata ->
         m_name m <> "" /\ m_desc m <> "" /\ m_ver m <> "" /\ m_url m <> ""
         /\ m_caps m <> [] /\ m_cvs m <> [] /\ In contract_version (m_cvs m)
         /\ m_name m = i_name i).
Proof. exact success_only. Qed.
Print Assumptions C17_success_only.

(* exact characterisation (so the statement above is not vacuous): success iff
   those conditions and, in addition, stderr within the cap and the pipes
   closed before WaitDelay ran out *)
Theorem C17_success_iff : forall i,
  p_result (model_p i) = ROk <->
  (started i = true /\ proc_killed i = false /\ i_exit i = 0%N
   /\ (i_stdout_len i <= cap)%N /\ (i_stderr_len i <= cap)%N
   /\ io_expired (host_of i) (beh_of i) = false
   /\ exists m, i_stdout i = SGood m
                /\ (i_cmd i = GetMetadata -> meta_complete m /\ m_name m = i_name i)).
Proof. exact model_ok_iff. Qed.
Print Assumptions C17_success_iff.

(* [started]: cmd.Start forked a process *)
Theorem C17_started_iff : forall i,
  started i = true <-> i_file i = FExec /\ i_deadline i <> Some 0%N.
Proof. exact started_iff. Qed.
Print Assumptions C17_started_iff.

(* stdout is never accepted from a process that failed, was killed, exceeded
   the cap on either stream, whose descendants held the pipes too long, or
   that was never started *)
Theorem C17_no_success_when : forall i,
  i_exit i <> 0%N \/ proc_killed i = true \/ (cap < i_stdout_len i)%N \/ (cap < i_stderr_len i)%N
  \/ io_expired (host_of i) (beh_of i) = true \/ i_file i <> FExec \/ i_deadline i = Some 0%N ->
  p_result (model_p i) <> ROk.
Proof. exact no_success_when. Qed.
Print Assumptions C17_no_success_when.

(* a failing call yields the plugin's own structured error (code, message AND
   metadata map) when the captured stderr (at most the cap; nothing when no
   process ran) holds one with at least one field, the executable file error
   when stderr is empty, and the malformed-plugin error otherwise *)
Theorem C17_error_kind : forall i,
  (i_file i = FExec \/ i_file i = FNoExec) -> exec_failed i = true ->
  (captured_stderr i = 0%N -> p_result (model_p i) = RExec)
  /\ (forall code msg md, captured_stderr i <> 0%N -> structured (i_stderr i) code msg md ->
        p_result (model_p i) = RReq code msg md)
  /\ (captured_stderr i <> 0%N -> (forall code msg md, ~ structured (i_stderr i) code msg md) ->
        p_result (model_p i) = RMalformed 0).
Proof. exact error_kind. Qed.
Print Assumptions C17_error_kind.

(* a process that did not exit successfully is such a failing call *)
Theorem C17_failing_is_error : forall i, failing i = true -> exec_failed i = true.
Proof. exact failing_exec_failed. Qed.
Print Assumptions C17_failing_is_error.

(* ---- bounded output ---- *)

(* for every limit, every sequence of writes and every underlying writer that
   reports 0 <= n <= offered: the bytes it takes in total never exceed the
   limit, no single slice handed over exceeds it, and once the limit is used up
   every later write is refused with the limit error without calling it *)
Theorem C17_cap : forall L ws1 ws2,
  (0 <= L)%Z -> all_wb (ws1 ++ ws2)%list ->
  let rs := lw_run L (ws1 ++ ws2)%list in
  (accepted rs <= L)%Z
  /\ Forall (fun r => forall k, w_offered r = Some k -> (k <= L)%Z) rs
  /\ (accepted (lw_run L ws1) = L ->
      Forall (fun r => r = mk_wres 0 WLimit None) (lw_run (lw_final L ws1) ws2)).
Proof. exact cap_holds. Qed.
Print Assumptions C17_cap.

(* over a writer that takes everything (bytes.Buffer) the bytes handed over in
   total are within the limit *)
Theorem C17_cap_buffer : forall L ws,
  (0 <= L)%Z -> all_wb ws -> Forall (fun x => takes_all (snd x)) ws ->
  (offered (lw_run L ws) <= L)%Z.
Proof. exact cap_buffer. Qed.
Print Assumptions C17_cap_buffer.

Theorem C17_cap_nonpositive : forall L ws, (L <= 0)%Z ->
  Forall (fun r => r = mk_wres 0 WLimit None) (lw_run L ws).
Proof. exact cap_nonpositive. Qed.
Print Assumptions C17_cap_nonpositive.

(* ---- bounded time (PARTIAL: timed model of os/exec) ---- *)

(* with a WaitDelay d, whatever the process and its descendants do (the pipes
   may never close, the process may never exit by itself), a call whose context
   is done at tc returns no later than tc + kill latency + d *)
Theorem C17_bounded_partial : forall h b d tc,
  h_delay h = Some d -> h_ctx h = true -> h_done h = Fin tc ->
  exists r, t_return h b = Fin r /\ (r <= tc + b_lat b + d)%N.
Proof. exact bounded_after_cancel. Qed.
Print Assumptions C17_bounded_partial.

(* and no later than d after the process exited by itself *)
Theorem C17_bounded_exit_partial : forall h b d te,
  h_delay h = Some d -> b_exit b = Fin te ->
  exists r, t_return h b = Fin r /\ (r <= te + d)%N.
Proof. exact bounded_after_exit. Qed.
Print Assumptions C17_bounded_exit_partial.

(* without WaitDelay (the tree before fix 9db7fa0) the bound fails: the context
   is done, the process is dead, and the call never returns *)
Theorem C17_unbounded_refuted :
  exists h b tc, h_ctx h = true /\ h_done h = Fin tc /\ h_delay h = None
                 /\ t_end h b = Fin tc /\ t_return h b = Never.
Proof. exact unbounded_without_delay. Qed.
Print Assumptions C17_unbounded_refuted.

Theorem C17_unbounded_finite_refuted : forall tc B,
  exists b r, t_return (mk_hostcfg true (Fin tc) None) b = Fin r /\ (B < r)%N /\ b_desc b <> Never.
Proof. exact unbounded_without_delay_finite. Qed.
Print Assumptions C17_unbounded_finite_refuted.

(* the delay alone is not enough either: Run without the context *)
Theorem C17_no_context_refuted : forall d tc,
  exists b, t_return (mk_hostcfg false (Fin tc) (Some d)) b = Never.
Proof. exact unbounded_without_context. Qed.
Print Assumptions C17_no_context_refuted.

(* the CLIPlugin model (CommandContext, WaitDelay = 5 s) returns within the
   bound the harness checks *)
Theorem C17_model_in_time : forall i, wf_p i = true -> p_in_time (model_p i) = true.
Proof. exact model_in_time. Qed.
Print Assumptions C17_model_in_time.

(* ---- the oracle evaluated on the implementation's observations is met by the model ---- *)
Theorem C17_model_meets_oracle : forall i, wf i = true -> spec_ok i (model i) = true.
Proof. exact model_spec_ok. Qed.
Print Assumptions C17_model_meets_oracle.

(* ---- non-vacuity ---- *)
Definition ex_meta := mk_meta "foo" "d" "1.0.0" "https://x" ["SIGNATURE_GENERATOR.RAW"] ["0.9"; "1.0"].
Definition ex_in (name : string) (exit : N) (desc : option N) :=
  mk_pinput GetMetadata name (bin_name name) FExec exit 0 desc (Some 400%N) 200 (SGood ex_meta) 40
            (EJson "ACCESS_DENIED" "no" (Some [("k", "v")])) 9400 false true false.

Example C17_example_ok :
  wf_p (ex_in "foo" 0 None) = true /\ model_p (ex_in "foo" 0 None) = mk_pobs ROk true (Some "get-plugin-metadata").
Proof. split; reflexivity. Qed.

Example C17_example_wrong_name : p_result (model_p (ex_in "bar" 0 None)) = RName.
Proof. reflexivity. Qed.

Example C17_example_failing :
  exec_failed (ex_in "foo" 1 None) = true /\ failing (ex_in "foo" 1 None) = true
  /\ captured_stderr (ex_in "foo" 1 None) = 40%N
  /\ structured (i_stderr (ex_in "foo" 1 None)) "ACCESS_DENIED" "no" (Some [("k", "v")])
  /\ p_result (model_p (ex_in "foo" 1 None)) = RReq "ACCESS_DENIED" "no" (Some [("k", "v")]).
Proof. repeat split; try reflexivity. left. discriminate. Qed.

(* a descendant holds the pipes for 16 s: the reply is dropped, the call is back after 5 s *)
Example C17_example_descendant :
  io_expired (host_of (ex_in "foo" 0 (Some 16000%N))) (beh_of (ex_in "foo" 0 (Some 16000%N))) = true
  /\ model_p (ex_in "foo" 0 (Some 16000%N)) =
     mk_pobs (RReq "ACCESS_DENIED" "no" (Some [("k", "v")])) true (Some "get-plugin-metadata")
  /\ t_return (host_of (ex_in "foo" 0 (Some 16000%N))) (beh_of (ex_in "foo" 0 (Some 16000%N))) = Fin 5000.
Proof. repeat split; reflexivity. Qed.

(* limit 10; writes of 4, 8 and 3 bytes over a buffer: 4, then 6 of the 8, then the limit error *)
Example C17_example_cap :
  let ws := [(4, scripted 100 false); (8, scripted 100 false); (3, scripted 100 false)]%Z in
  all_wb ws /\ lw_run 10 ws = [mk_wres 4 WNil (Some 4); mk_wres 6 WNil (Some 6); mk_wres 0 WLimit None]%Z.
Proof.
  split; [|reflexivity].
  unfold all_wb. repeat (apply Forall_cons; [cbn; split; [lia | apply scripted_wb; lia] |]). apply Forall_nil.
Qed.
