package kit

import (
	"bufio"
	"crypto/sha256"
	"encoding/hex"
	"encoding/json"
	"fmt"
	"os"
	"path/filepath"
	"regexp"
	"sort"
	"strconv"
	"strings"
)

// ---------- Gallina term printing ----------

// CStr prints a Go string (a byte string) as a Coq string term. Strings with
// a byte outside 0x20..0x7e are printed as (B [codes]).
func CStr(s string) string {
	plain := true
	for i := 0; i < len(s); i++ {
		if s[i] < 0x20 || s[i] > 0x7e {
			plain = false
			break
		}
	}
	if plain {
		return "\"" + strings.ReplaceAll(s, "\"", "\"\"") + "\""
	}
	var b strings.Builder
	b.WriteString("(B [")
	for i := 0; i < len(s); i++ {
		if i > 0 {
			b.WriteString(";")
		}
		b.WriteString(strconv.Itoa(int(s[i])))
		b.WriteString("%N")
	}
	b.WriteString("])")
	return b.String()
}

func CN(i int64) string {
	if i < 0 {
		panic("CN: negative")
	}
	return strconv.FormatInt(i, 10) + "%N"
}

func CZ(i int64) string {
	if i < 0 {
		return "(" + strconv.FormatInt(i, 10) + ")%Z"
	}
	return strconv.FormatInt(i, 10) + "%Z"
}

func CBool(b bool) string {
	if b {
		return "true"
	}
	return "false"
}

func CList(items []string) string { return "[" + strings.Join(items, "; ") + "]" }

func CStrList(xs []string) string {
	items := make([]string, len(xs))
	for i, x := range xs {
		items[i] = CStr(x)
	}
	return CList(items)
}

func CPair(a, b string) string { return "(" + a + ", " + b + ")" }

// CMap prints a Go map as a sorted association list of string pairs.
func CMap(m map[string]string) string {
	keys := make([]string, 0, len(m))
	for k := range m {
		keys = append(keys, k)
	}
	sort.Strings(keys)
	items := make([]string, len(keys))
	for i, k := range keys {
		items[i] = CPair(CStr(k), CStr(m[k]))
	}
	return CList(items)
}

func CSome(x string) string { return "(Some " + x + ")" }

func COptStr(p *string) string {
	if p == nil {
		return "None"
	}
	return CSome(CStr(*p))
}

// CApp prints a constructor / function application.
func CApp(f string, args ...string) string {
	if len(args) == 0 {
		return f
	}
	return "(" + f + " " + strings.Join(args, " ") + ")"
}

// ---------- case writer ----------

// CaseWriter collects the cases of one property run, shards them into
// cases_<prop>_<k>.v files and writes stats.json and cases.jsonl.
type CaseWriter struct {
	Prop      string // e.g. "C05"
	Dir       string
	Prelude   string // Coq text before the list (Require Import ..., scopes)
	CaseType  string // e.g. "case"
	RunFn     string // e.g. "run"
	ShardSize int
	Only      int64

	Rule        string
	Exhaustive  bool
	Assumptions []string

	shard      int
	cur        []string
	evals      int
	seen       map[string]bool
	nontrivial int
	samples    []any
	hist       map[string]map[string]int
	index      *bufio.Writer
	indexFile  *os.File
	implViol   []map[string]any
	extra      map[string]any
}

func NewCaseWriter(a *Args, prop, prelude, caseType, runFn string) *CaseWriter {
	w := &CaseWriter{Prop: prop, Dir: a.Out, Prelude: prelude, CaseType: caseType, RunFn: runFn,
		ShardSize: 2500, Only: a.Only, seen: map[string]bool{}, hist: map[string]map[string]int{}, extra: map[string]any{}}
	f, err := os.Create(filepath.Join(a.Out, "cases.jsonl"))
	if err != nil {
		panic(err)
	}
	w.indexFile = f
	w.index = bufio.NewWriterSize(f, 1<<20)
	return w
}

// Want reports whether the case with this id should be executed (replay mode
// executes a single id).
func (w *CaseWriter) Want(id int64) bool { return w.Only < 0 || w.Only == id }

// Add records one executed case: term is the Gallina term of the case record,
// desc a JSON-serialisable description (input and observation) used for
// replay files and samples, key the canonical text hashed for distinctness.
func (w *CaseWriter) Add(id int64, term string, desc any, key string, nontrivial bool) {
	w.evals++
	h := sha256.Sum256([]byte(key))
	hk := hex.EncodeToString(h[:12])
	if !w.seen[hk] {
		w.seen[hk] = true
		if nontrivial {
			w.nontrivial++
			if len(w.samples) < 6 && (w.nontrivial%97 == 1 || len(w.samples) < 2) {
				w.samples = append(w.samples, desc)
			}
		}
	}
	line, _ := json.Marshal(map[string]any{"id": id, "case": desc})
	w.index.Write(line)
	w.index.WriteByte('\n')
	w.cur = append(w.cur, term)
}

// Count increments a histogram bucket (input distribution in the evidence).
func (w *CaseWriter) Count(hist, bucket string) {
	m := w.hist[hist]
	if m == nil {
		m = map[string]int{}
		w.hist[hist] = m
	}
	m[bucket]++
}

// ImplViolation records a violation decided on the Go side (a recovered
// panic, an effect outside a directory, a timeout ...), with its replay data.
func (w *CaseWriter) ImplViolation(id int64, what string, desc any, footprint string) {
	w.implViol = append(w.implViol, map[string]any{"id": id, "what": what, "case": desc, "footprint": footprint})
}

func (w *CaseWriter) Set(k string, v any) { w.extra[k] = v }

var strLitRe = regexp.MustCompile(`"(?:[^"]|"")*"`)

// flush splits the collected terms into shards (at most ShardSize cases each,
// at least 16 shards when there are enough cases, so that 16 coqc processes
// work in parallel) and writes one cases_<prop>_<k>.v per shard. String
// literals that occur repeatedly in a shard are emitted once as definitions:
// elaborating string literals dominates the cost of these files.
func (w *CaseWriter) flush() {
	n := len(w.cur)
	if n == 0 {
		return
	}
	per := (n + 7) / 8
	if per < 400 {
		per = 400
	}
	if per > w.ShardSize {
		per = w.ShardSize
	}
	for start := 0; start < n; start += per {
		end := start + per
		if end > n {
			end = n
		}
		w.writeShard(w.cur[start:end])
	}
	w.cur = nil
}

func (w *CaseWriter) writeShard(terms []string) {
	name := filepath.Join(w.Dir, fmt.Sprintf("cases_%s_%d.v", w.Prop, w.shard))
	f, err := os.Create(name)
	if err != nil {
		panic(err)
	}
	// intern repeated string literals
	count := map[string]int{}
	for _, t := range terms {
		for _, m := range strLitRe.FindAllString(t, -1) {
			if len(m) > 6 {
				count[m]++
			}
		}
	}
	names := map[string]string{}
	var order []string
	for lit, c := range count {
		if c >= 3 {
			order = append(order, lit)
		}
	}
	sort.Strings(order)
	for i, lit := range order {
		names[lit] = fmt.Sprintf("str_%d_", i)
	}
	bw := bufio.NewWriterSize(f, 1<<20)
	bw.WriteString(w.Prelude)
	bw.WriteString("\n")
	for _, lit := range order {
		bw.WriteString("Definition " + names[lit] + " : string := " + lit + "%string.\n")
	}
	bw.WriteString("Definition cases : list " + w.CaseType + " := [\n")
	for i, t := range terms {
		if len(names) > 0 {
			t = strLitRe.ReplaceAllStringFunc(t, func(m string) string {
				if nm, ok := names[m]; ok {
					return nm
				}
				return m
			})
		}
		bw.WriteString(t)
		if i+1 < len(terms) {
			bw.WriteString(";\n")
		}
	}
	bw.WriteString("\n].\nDefinition R := Eval vm_compute in " + w.RunFn + " cases.\nPrint R.\n")
	bw.Flush()
	f.Close()
	w.shard++
}

// Close writes the last shard and stats.json.
func (w *CaseWriter) Close() error {
	w.flush()
	w.index.Flush()
	w.indexFile.Close()
	st := map[string]any{
		"property":            w.Prop,
		"evaluations":         w.evals,
		"distinct":            len(w.seen),
		"distinct_nontrivial": w.nontrivial,
		"rule":                w.Rule,
		"samples":             w.samples,
		"histograms":          w.hist,
		"exhaustive":          w.Exhaustive,
		"shards":              w.shard,
		"impl_violations":     w.implViol,
		"assumptions":         w.Assumptions,
	}
	for k, v := range w.extra {
		st[k] = v
	}
	b, err := json.MarshalIndent(st, "", " ")
	if err != nil {
		return err
	}
	return os.WriteFile(filepath.Join(w.Dir, "stats.json"), b, 0o644)
}
